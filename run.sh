#!/bin/bash
# ./run.sh <property id> [--tier quick|thorough] [--replay <file>]     (cwd = /verif)
cd /verif
. ./env.sh
ID=$1; shift
TIER=${VERIF_TIER:-quick}; EXTRA=()
while [ $# -gt 0 ]; do case "$1" in --tier) TIER=$2; shift 2;; --tier=*) TIER=${1#--tier=}; shift;; *) EXTRA+=("$1"); shift;; esac; done
export VERIF_TIER=$TIER

# run_seq <dir name (any case)> [args]: builds seq/<dir> against $VERIF_REPO and runs it
run_seq() {
  local lid=$(echo $1 | tr A-Z a-z); shift
  [ -d /verif/seq/$lid ] || { echo "no check $lid" >&2; return 2; }
  local B=${VERIF_CACHE:-/var/tmp/verif-cache}/seq; mkdir -p $B
  local MF=""
  if [ "$VERIF_REPO" != /repo ]; then
    sed "s#=> /repo#=> $VERIF_REPO#" /verif/seq/go.mod > $B/alt.$$.mod; cp /verif/seq/go.sum $B/alt.$$.sum; MF="-modfile=$B/alt.$$.mod"
  fi
  if ! ( cd /verif/seq && go build $MF -o $B/seq-$lid.$$ ./$lid ); then
    rm -f $B/alt.$$.*
    echo "INCONCLUSIVE: build of the check against $VERIF_REPO failed" >&2
    return 2
  fi
  rm -f $B/alt.$$.*
  export VERIF_TREE_HASH=$(/verif/scripts/treehash.sh)
  ( cd /verif; $B/seq-$lid.$$ --tier $TIER "$@" ); local rc=$?
  rm -f $B/seq-$lid.$$
  return $rc
}

case "$ID" in
  C01|C02|C03|C04|C05|C06|C08|C09|C18|C20)
    B=$(scripts/e1bin.sh) || exit 2
    export VERIF_E1NATIVE=$B/e1native VERIF_REWRITES=$B/rewrites.json VERIF_TREE_HASH=$(basename $B)
    lid=$(echo $ID | tr A-Z a-z)
    if [ "${EXTRA[0]}" = "--replay" ]; then
      if grep -q '"engine": "E1"' "${EXTRA[1]}"; then exec $B/e1 replay "${EXTRA[1]}"; fi
      PARTDIR=${lid}e2; [ -d seq/$PARTDIR ] || PARTDIR=$lid
      VERIF_PART=e2 run_seq $PARTDIR "${EXTRA[@]}"; exit $?
    fi
    # a property may have a bounded-exhaustive content part (engine E2) next to its E1 part;
    # it writes evidence/parts/<ID>.e2.json, which the E1 run merges into the evidence file
    EVD=evidence; [ "$VERIF_REPO" != /repo ] && EVD=/var/tmp/verif-evidence-alt/$(basename $VERIF_REPO)
    rm -f $EVD/parts/$ID.e2.json
    PARTDIR=${lid}e2; [ -d seq/$PARTDIR ] || PARTDIR=$lid
    rc=0
    if [ -d seq/$PARTDIR ]; then
      VERIF_PART=e2 run_seq $PARTDIR; rc=$?
    fi
    # the schedule part runs even when the content part could not decide (exit 2, e.g. a case that hangs on a
    # changed tree): a violation found by either part is a violation; otherwise "could not decide" stands
    B=$(scripts/e1bin.sh) || exit 2   # (a long content part may have outlived the build cache's retention)
    export VERIF_E1NATIVE=$B/e1native VERIF_REWRITES=$B/rewrites.json
    $B/e1 run $ID --tier $TIER; rc1=$?
    [ $rc -eq 1 -o $rc1 -eq 1 ] && exit 1
    [ $rc -ne 0 ] && exit $rc
    exit $rc1 ;;
  *)
    run_seq $ID "${EXTRA[@]}"; exit $? ;;
esac
