#!/bin/bash
# ./run.sh <property id> [--tier quick|thorough]     (cwd = /verif)
cd /verif
. ./env.sh
ID=$1; shift
TIER=${VERIF_TIER:-quick}; EXTRA=()
while [ $# -gt 0 ]; do case "$1" in --tier) TIER=$2; shift 2;; --tier=*) TIER=${1#--tier=}; shift;; *) EXTRA+=("$1"); shift;; esac; done
export VERIF_TIER=$TIER
case "$ID" in
  C01|C03|C04|C05|C06|C08|C20)
    B=$(scripts/e1bin.sh) || exit 2
    export VERIF_E1NATIVE=$B/e1native VERIF_REWRITES=$B/rewrites.json VERIF_TREE_HASH=$(basename $B)
    if [ "${EXTRA[0]}" = "--replay" ]; then exec $B/e1 replay "${EXTRA[1]}"; fi
    exec $B/e1 run $ID --tier $TIER ;;
  *)
    lid=$(echo $ID | tr A-Z a-z)
    [ -d seq/$lid ] || { echo "no check for $ID" >&2; exit 2; }
    B=${VERIF_CACHE:-/var/tmp/verif-cache}/seq; mkdir -p $B
    cd seq
    MF=""
    if [ "$VERIF_REPO" != /repo ]; then
      sed "s#=> /repo#=> $VERIF_REPO#" go.mod > $B/alt.$$.mod; cp go.sum $B/alt.$$.sum; MF="-modfile=$B/alt.$$.mod"
    fi
    if ! go build $MF -o $B/seq-$lid.$$ ./$lid; then rm -f $B/alt.$$.*; echo "INCONCLUSIVE: build of the check against $VERIF_REPO failed" >&2; exit 2; fi
    rm -f $B/alt.$$.*
    cd /verif
    export VERIF_TREE_HASH=$(scripts/treehash.sh)
    $B/seq-$lid.$$ --tier $TIER "${EXTRA[@]}"; rc=$?
    rm -f $B/seq-$lid.$$
    exit $rc ;;
esac
