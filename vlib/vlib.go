// Package vlib is the reporting side shared by every check: known-findings
// lookup, VIOLATION / KNOWN-FINDING lines, replay files and evidence files.
package vlib

import (
	"crypto/sha1"
	"encoding/hex"
	"encoding/json"
	"fmt"
	"os"
	"path/filepath"
	"sort"
	"strconv"
	"strings"
	"time"
)

const Root = "/verif"

// Finding is one line of known_findings.jsonl.
type Finding struct {
	Property    string `json:"property"`
	Fingerprint string `json:"fingerprint"`
	What        string `json:"what"`
	Status      string `json:"status"` // open | fixed
	Commit      string `json:"commit,omitempty"`
	Reason      string `json:"reason,omitempty"`
}

func LoadFindings() []Finding {
	b, err := os.ReadFile(filepath.Join(Root, "known_findings.jsonl"))
	if err != nil {
		return nil
	}
	var out []Finding
	for _, l := range strings.Split(string(b), "\n") {
		l = strings.TrimSpace(l)
		if l == "" || strings.HasPrefix(l, "#") {
			continue
		}
		var f Finding
		if json.Unmarshal([]byte(l), &f) == nil {
			out = append(out, f)
		}
	}
	return out
}

// Reporter collects what one check run saw.
type Reporter struct {
	Prop  string
	Tier  string
	Seed  int64
	start time.Time

	known      map[string]Finding
	seen       map[string]bool
	Violations int
	KnownHits  int
	lines      []string
	Quiet      bool
}

func Tier() string {
	t := os.Getenv("VERIF_TIER")
	for i, a := range os.Args {
		if a == "--tier" && i+1 < len(os.Args) {
			t = os.Args[i+1]
		}
		if strings.HasPrefix(a, "--tier=") {
			t = strings.TrimPrefix(a, "--tier=")
		}
	}
	if t != "thorough" {
		t = "quick"
	}
	return t
}

func Seed() int64 {
	s, _ := strconv.ParseInt(os.Getenv("VERIF_SEED"), 10, 64)
	return s
}

func NewReporter(prop string) *Reporter {
	r := &Reporter{Prop: prop, Tier: Tier(), Seed: Seed(), start: time.Now(), known: map[string]Finding{}, seen: map[string]bool{}}
	for _, f := range LoadFindings() {
		if f.Property == prop && f.Status == "open" {
			r.known[f.Fingerprint] = f
		}
	}
	return r
}

func FPHash(fp string) string {
	h := sha1.Sum([]byte(fp))
	return hex.EncodeToString(h[:])[:12]
}

// Violation reports one violating case. fingerprint identifies the failing
// thing (input / scenario+clause+observation); replay is written to a file.
// It returns true when the violation is new (not a listed known finding).
func (r *Reporter) Violation(fingerprint, what string, replay interface{}) bool {
	if r.seen[fingerprint] {
		return false
	}
	r.seen[fingerprint] = true
	if f, ok := r.known[fingerprint]; ok {
		r.KnownHits++
		line := fmt.Sprintf("KNOWN-FINDING: property=%s %s [%s]", r.Prop, f.What, fingerprint)
		r.lines = append(r.lines, line)
		fmt.Println(line)
		return false
	}
	r.Violations++
	dir := filepath.Join(Root, "replays", r.Prop)
	os.MkdirAll(dir, 0o755)
	path := filepath.Join(dir, FPHash(fingerprint)+".json")
	b, _ := json.MarshalIndent(map[string]interface{}{
		"property": r.Prop, "fingerprint": fingerprint, "what": what, "replay": replay,
	}, "", " ")
	os.WriteFile(path, b, 0o644)
	fmt.Printf("VIOLATION property=%s replay=%s\n", r.Prop, path)
	fmt.Printf("  fingerprint: %s\n  what: %s\n", fingerprint, what)
	return true
}

// EvidenceDir is /verif/evidence for checks of /repo itself; runs against another
// tree (VERIF_REPO, used to try changed trees) write elsewhere so that the
// committed evidence always describes /repo.
func EvidenceDir() string {
	if r := os.Getenv("VERIF_REPO"); r != "" && r != "/repo" {
		return "/var/tmp/verif-evidence-alt/" + filepath.Base(r)
	}
	return filepath.Join(Root, "evidence")
}

// Evidence is the evidence file layout.
type Evidence struct {
	PropertyID  string                 `json:"property_id"`
	Tier        string                 `json:"tier"`
	Seed        int64                  `json:"seed"`
	Level       string                 `json:"level"`
	Coverage    map[string]interface{} `json:"coverage"`
	Assumptions []string               `json:"assumptions,omitempty"`
	WallS       float64                `json:"wall_s"`
	Violations  int                    `json:"violations"`
	KnownHits   int                    `json:"known_findings_hit"`
	TreeHash    string                 `json:"tree_hash,omitempty"`
}

// Finish writes the evidence file and returns the exit code.
func (r *Reporter) Finish(level string, coverage map[string]interface{}, assumptions []string) int {
	ev := Evidence{PropertyID: r.Prop, Tier: r.Tier, Seed: r.Seed, Level: level, Coverage: coverage,
		Assumptions: assumptions, WallS: time.Since(r.start).Seconds(), Violations: r.Violations, KnownHits: r.KnownHits,
		TreeHash: os.Getenv("VERIF_TREE_HASH")}
	b, _ := json.MarshalIndent(ev, "", " ")
	if os.Getenv("VERIF_PART") != "" {
		// this run is one part of a property's check (the other engine merges it)
		os.MkdirAll(filepath.Join(EvidenceDir(), "parts"), 0o755)
		os.WriteFile(filepath.Join(EvidenceDir(), "parts", r.Prop+"."+os.Getenv("VERIF_PART")+".json"), b, 0o644)
	} else {
		os.MkdirAll(EvidenceDir(), 0o755)
		tmp := filepath.Join(EvidenceDir(), r.Prop+".json.tmp")
		os.WriteFile(tmp, b, 0o644)
		os.Rename(tmp, filepath.Join(EvidenceDir(), r.Prop+".json"))
	}
	if r.Violations > 0 {
		return 1
	}
	return 0
}

// Samples picks up to n samples from a list, rotated by the seed.
func Samples(all []interface{}, n int, seed int64) []interface{} {
	if len(all) <= n {
		return all
	}
	out := make([]interface{}, 0, n)
	step := len(all) / n
	off := int(seed % int64(step+1))
	if off < 0 {
		off = -off
	}
	for i := 0; i < n; i++ {
		out = append(out, all[(off+i*step)%len(all)])
	}
	return out
}

// SortedKeys returns the sorted keys of a string-keyed count map.
func SortedKeys(m map[string]int64) []string {
	k := make([]string, 0, len(m))
	for s := range m {
		k = append(k, s)
	}
	sort.Strings(k)
	return k
}
