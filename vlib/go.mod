module verif/vlib

go 1.21
