package main

import (
	"fmt"
	"sort"
	"strconv"
	"strings"

	"google.golang.org/grpc/codes"

	"verif/mc"
)

// Property bundles the scenarios and the oracle of one property.
type Property struct {
	ID        string
	Timers    bool
	Scenarios func(tier string) []*Scenario
	// Oracle is evaluated at quiescence of every complete execution.
	Oracle func(sc *Scenario, rec *Rec, s *mc.Sched) []mc.Violation
}

var properties = map[string]*Property{}

func register(p *Property) { properties[p.ID] = p }

// Ref is the reference result of an RPC when nothing interferes: what the
// handler script sends and returns (a boring model: read the script).
type Ref struct {
	Msgs    []string
	Status  string // "nil" or "status:<Code>:..."; "ctx" when the handler returns its context's error
	Code    string
	HdrKeys []string
	TrlKeys []string
	NoResp  bool // unary handler returns (nil, nil)
}

func refOf(i int, rpc *RPC) Ref {
	var r Ref
	r.Status = "nil"
	r.Code = "OK"
	ops := append(append([]string{}, rpc.Handler...), rpc.Handler2...)
	sentHdr, sendFailed := false, false
	for _, op := range ops {
		switch {
		case len(op) > 1 && op[0] == 's' && (op[1] >= '0' && op[1] <= '9' || op[1] == '!'):
			seq, _ := strconv.Atoi(strings.TrimPrefix(op[1:], "!"))
			r.Msgs = append(r.Msgs, tag(i, "s", seq))
			sentHdr = true
		case strings.HasPrefix(op, "h:") || strings.HasPrefix(op, "H:"):
			if !sentHdr {
				r.HdrKeys = append(r.HdrKeys, op[2:])
			}
			if op[0] == 'H' {
				sentHdr = true
			}
		case op == "sn":
			sendFailed = true
		case strings.HasPrefix(op, "t:"):
			r.TrlKeys = append(r.TrlKeys, op[2:])
		case strings.HasPrefix(op, "ret:"):
			switch {
			case op == "ret:ok":
				if rpc.Kind == "unary" {
					r.Msgs = append(r.Msgs, tag(i, "s", 0))
				}
			case op == "ret:nil" || op == "ret:tnil":
				r.NoResp = true
				r.Status, r.Code = "status:Internal:", "Internal"
			case strings.HasPrefix(op, "ret:st:"):
				c, _ := strconv.Atoi(op[len("ret:st:"):])
				r.Code = codes.Code(c).String()
				r.Status = "status:" + r.Code + ":handler status " + op[len("ret:st:"):]
			case op == "ret:ctx":
				r.Status, r.Code = "ctx", "ctx"
			case op == "ret:canceled":
				r.Status, r.Code = "status:Canceled:", "Canceled"
			case op == "ret:deadline":
				r.Status, r.Code = "status:DeadlineExceeded:", "DeadlineExceeded"
			case op == "ret:eof":
				r.Status, r.Code = "status:Unknown:EOF", "Unknown"
			case op == "ret:plain":
				r.Status, r.Code = "status:Unknown:plain failure", "Unknown"
			case op == "ret:wrapdl":
				r.Status, r.Code = "status:DeadlineExceeded:", "DeadlineExceeded"
			case op == "ret:wrapcancel":
				r.Status, r.Code = "status:Canceled:", "Canceled"
			case op == "ret:okerr":
				r.Status, r.Code = "failed", "any" // a failure; which status the client sees is not fixed
			}
		}
	}
	if sendFailed && r.Status != "nil" {
		r.Code = "any" // after a failed SendMsg the transport may not be able to carry the handler's status
	}
	if rpc.Kind == "unary" && !hasRet(rpc.Handler) {
		r.Msgs = append(r.Msgs, tag(i, "s", 0))
	}
	sort.Strings(r.HdrKeys)
	sort.Strings(r.TrlKeys)
	return r
}

func hasRet(ops []string) bool {
	for _, o := range ops {
		if strings.HasPrefix(o, "ret:") {
			return true
		}
	}
	return false
}

func mdWant(keys []string) string {
	if len(keys) == 0 {
		return ""
	}
	var b strings.Builder
	b.WriteString("{")
	for i, k := range keys {
		if i > 0 {
			b.WriteString(" ")
		}
		fmt.Fprintf(&b, "%s=v-%s", k, k)
	}
	b.WriteString("}")
	return b.String()
}

// mdHas reports whether the printed metadata contains every wanted key=value.
func mdHas(printed string, keys []string) bool {
	for _, k := range keys {
		if !strings.Contains(printed, k+"=v-"+k) {
			return false
		}
	}
	return true
}

func blockedClient(s *mc.Sched) []mc.BlockedInfo {
	var out []mc.BlockedInfo
	for _, b := range s.Blocked() {
		if strings.HasPrefix(b.Where, "client:") {
			out = append(out, b)
		}
	}
	return out
}

func blockedHandler(s *mc.Sched) []mc.BlockedInfo {
	var out []mc.BlockedInfo
	for _, b := range s.Blocked() {
		if strings.HasPrefix(b.Where, "handler:") {
			out = append(out, b)
		}
	}
	return out
}

func panicViolations(s *mc.Sched) []mc.Violation {
	var out []mc.Violation
	for _, p := range s.Panics {
		v := p.Value
		if len(v) > 120 {
			v = v[:120]
		}
		out = append(out, mc.Violation{Clause: "panic", Obs: v, Detail: p})
	}
	return out
}

func sc1(prop, name, transport string, cancel string, rpc RPC) *Scenario {
	return &Scenario{Prop: prop, Name: name, Transport: transport, Cancel: cancel, RPCs: []RPC{rpc}, Bound: -1}
}

func opsName(ops []string) string { return strings.Join(ops, ",") }

func rpcName(r RPC) string {
	n := r.Kind + "|c=" + opsName(r.Client)
	if len(r.Client2) > 0 {
		n += "|c2=" + opsName(r.Client2)
	}
	n += "|h=" + opsName(r.Handler)
	if len(r.Handler2) > 0 {
		n += "|h2=" + opsName(r.Handler2)
	}
	return n
}
