package main

import (
	"fmt"
	"strings"

	"verif/mc"
)

// C04: cancellation and deadlines end calls with the right code and reach the handler.

func init() {
	register(&Property{ID: "C04", Timers: true, Scenarios: c04Scenarios, Oracle: c04Oracle})
}

func c04RPCs(tier string) []RPC {
	var out []RPC
	// unary
	for _, h := range [][]string{
		{"dec", "ret:ok"},
		{"dec", "h:a", "t:b", "ret:ok"},
		{"dec", "ret:st:5"},
		{"dec", "h:a", "t:b", "ret:st:5"},
		{"dec", "w", "ret:ctx"},
		{"w", "ret:ok"},
	} {
		out = append(out, RPC{Kind: "unary", Client: []string{"I"}, Handler: h})
	}
	// server stream
	for _, h := range [][]string{
		{"r", "s0", "s1", "ret:ok"},
		{"r", "s0", "ret:st:5"},
		{"r", "w", "ret:ctx"},
		{"r", "s0", "w", "ret:ctx"},
		{"r", "h:a", "s0", "t:b", "ret:ok"},
	} {
		out = append(out, RPC{Kind: "ss", Client: []string{"S0", "C", "R*"}, Handler: h})
	}
	// client stream
	for _, h := range [][]string{
		{"r*", "s0", "ret:ok"},
		{"r*", "ret:st:5"},
		{"r", "w", "ret:ctx"},
	} {
		out = append(out, RPC{Kind: "cs", Client: []string{"S0", "S1", "C", "R*"}, Handler: h})
	}
	// an idle stream (the handler waits, the reader waits for the next frame) when the context ends, and
	// receives issued after the one that reported it
	out = append(out, RPC{Kind: "ss", Client: []string{"S0", "C", "R*", "R", "R"}, Handler: []string{"r", "w", "ret:ctx"}})
	out = append(out, RPC{Kind: "ss", Client: []string{"S0", "C", "R", "R*", "R"}, Handler: []string{"r", "s0", "w", "ret:ctx"}})
	out = append(out, RPC{Kind: "bd", Client: []string{"S0", "C", "R*", "R"}, Handler: []string{"r*", "w", "ret:ctx"}})
	// single-response stream: receives issued after the one that reported the outcome
	out = append(out, RPC{Kind: "cs", Client: []string{"S0", "C", "R*", "R", "R"}, Handler: []string{"r*", "s0", "ret:ok"}})
	out = append(out, RPC{Kind: "cs", Client: []string{"S0", "C", "H", "R*", "R", "T"}, Handler: []string{"r*", "h:a", "s0", "t:b", "ret:ok"}})
	// bidi 1<->1
	out = append(out, RPC{Kind: "bd", Client: []string{"S0", "C", "R*"}, Handler: []string{"r*", "s0", "ret:ok"}})
	out = append(out, RPC{Kind: "bd", Client: []string{"S0", "C", "R*", "R"}, Handler: []string{"r*", "s0", "t:b", "ret:st:5"}})
	if tier == "thorough" {
		out = append(out, RPC{Kind: "bd", Client: []string{"S0", "S1", "C"}, Client2: []string{"R*"}, Handler: []string{"r", "s0", "r", "s1", "r*", "ret:ok"}})
		out = append(out, RPC{Kind: "bd", Client: []string{"S0", "S1", "C", "R*"}, Handler: []string{"r*", "s0", "s1", "ret:ok"}})
		out = append(out, RPC{Kind: "ss", Client: []string{"S0", "C", "H", "R*", "T"}, Handler: []string{"r", "H:a", "s0", "s1", "t:b", "ret:ok"}})
		out = append(out, RPC{Kind: "cs", Client: []string{"S0", "S1", "C", "R*", "R"}, Handler: []string{"r*", "h:a", "s0", "t:b", "ret:ok"}})
	}
	return out
}

func c04Scenarios(tier string) []*Scenario {
	var out []*Scenario
	for _, tr := range []string{"inproc", "http"} {
		for _, rpc := range c04RPCs(tier) {
			for _, c := range []string{"cancel", "deadline"} {
				if tr == "http" && rpc.Kind == "bd" && len(rpc.Client2) > 0 {
					continue // full duplex is outside the HTTP contract
				}
				out = append(out, sc1("C04", c+"|"+rpcName(rpc), tr, c, rpc))
			}
		}
		// the encoder / decoder / cloner as scheduling points (options "codec", cloner "yield"): the context
		// may end while a frame already taken off the stream is being decoded into the caller's message
		for _, c := range []string{"cancel", "deadline"} {
			if c == "deadline" && tier != "thorough" {
				continue
			}
			for _, rpc := range []RPC{
				{Kind: "unary", Client: []string{"I"}, Handler: []string{"dec", "h:a", "t:b", "ret:ok"}},
				{Kind: "ss", Client: []string{"S0", "C", "R*"}, Handler: []string{"r", "s0", "s1", "ret:ok"}},
				{Kind: "cs", Client: []string{"S0", "C", "R*", "R", "R"}, Handler: []string{"r*", "s0", "ret:ok"}},
				{Kind: "bd", Client: []string{"S0", "C", "R*", "R"}, Handler: []string{"r*", "s0", "t:b", "ret:st:5"}},
			} {
				sc := sc1("C04", c+"|codec|"+rpcName(rpc), tr, c, rpc)
				sc.Opts = "codec"
				if tr == "inproc" {
					sc.Cloner = "yield"
				}
				out = append(out, sc)
			}
		}
		// the handlers sit behind a middleware that bounds every request (the request context already has a
		// deadline, far beyond the caller's): the caller's deadline still reaches the handler
		if tr == "http" {
			for _, c := range []string{"deadline", "cancel"} {
				for _, rpc := range []RPC{
					{Kind: "unary", Client: []string{"I"}, Handler: []string{"dec", "w", "ret:ctx"}},
					{Kind: "ss", Client: []string{"S0", "C", "R*"}, Handler: []string{"r", "w", "ret:ctx"}},
					{Kind: "cs", Client: []string{"S0", "S1", "C", "R*"}, Handler: []string{"r", "w", "ret:ctx"}},
					{Kind: "bd", Client: []string{"S0", "R*"}, Handler: []string{"r", "w", "ret:ctx"}},
				} {
					if c == "cancel" && (rpc.Kind == "cs" || rpc.Kind == "bd") {
						// (an explicit cancel with part of the request unread is the recorded finding of 11.4 whatever
						// the request context looks like; the deadline variants are what this dimension is about)
						continue
					}
					sc := sc1("C04", c+"|srvdl|"+rpcName(rpc), tr, c, rpc)
					sc.Opts = "srvdl"
					out = append(out, sc)
				}
			}
		}
		// two calls at once on one channel, the context ending while a response is being decoded: "the complete
		// real result or the cancellation status" also means nothing that belongs to the other call
		if tr == "inproc" || tier == "thorough" {
			// (over HTTP this state space is out of reach of the quick budget: not even bound 0 completes in four
			// CPU-minutes; the cross-talk itself, without a cancellation, is C01's two-call scenario)
			one := RPC{Kind: "ss", Client: []string{"S0", "C", "R*"}, Handler: []string{"r", "s0", "ret:ok"}}
			sc := &Scenario{Prop: "C04", Name: "cancel|codec|" + rpcName(one) + " || " + rpcName(one), Transport: tr, Cancel: "cancel", RPCs: []RPC{one, one}, Bound: -1, Opts: "codec"}
			if tr == "inproc" {
				sc.Cloner = "yield"
			}
			out = append(out, sc)
		}
		// a call that has a (far) deadline and is cancelled explicitly
		for _, rpc := range []RPC{
			{Kind: "unary", Client: []string{"I"}, Handler: []string{"dec", "w", "ret:ctx"}},
			{Kind: "ss", Client: []string{"S0", "C", "R*"}, Handler: []string{"r", "w", "ret:ctx"}},
			{Kind: "bd", Client: []string{"S0", "C", "R*"}, Handler: []string{"r*", "s0", "w", "ret:ctx"}},
		} {
			sc := sc1("C04", "cancel|fardl|"+rpcName(rpc), tr, "cancel", rpc)
			sc.Opts = "fardl"
			out = append(out, sc)
		}
		// Header() parked or issued around the cancellation
		for _, c := range []string{"cancel", "deadline"} {
			out = append(out, sc1("C04", c+"|"+rpcName(RPC{Kind: "ss", Client: []string{"S0", "C", "H", "R*", "H"}, Handler: []string{"r", "w", "ret:ctx"}}), tr, c,
				RPC{Kind: "ss", Client: []string{"S0", "C", "H", "R*", "H"}, Handler: []string{"r", "w", "ret:ctx"}}))
			out = append(out, sc1("C04", c+"|"+rpcName(RPC{Kind: "bd", Client: []string{"S0", "C", "R*"}, Client2: []string{"H"}, Handler: []string{"r*", "w", "ret:ctx"}}), tr, c,
				RPC{Kind: "bd", Client: []string{"S0", "C", "R*"}, Client2: []string{"H"}, Handler: []string{"r*", "w", "ret:ctx"}}))
		}
		// a unary call made from inside a handler, with the handler's context: cancellation reaches
		// it through the asynchronous propagation of the outer call's context
		if tr == "inproc" {
			for _, c := range []string{"cancel", "deadline"} {
				for _, inner := range [][]string{{"dec", "w", "ret:ctx"}, {"dec", "h:a", "t:b", "ret:ok"}} {
					sc := &Scenario{Prop: "C04", Transport: tr, Cancel: c, Bound: -1, RPCs: []RPC{
						{Kind: "unary", Client: []string{"I"}, Handler: []string{"dec", "N1", "ret:ok"}},
						{Kind: "unary", Handler: inner},
					}}
					sc.Name = c + "|nested|" + rpcName(sc.RPCs[0]) + " >> " + rpcName(sc.RPCs[1])
					out = append(out, sc)
				}
			}
		}
		// per-RPC credentials: the context may end before, while or after they are fetched
		for _, c := range []string{"cancel", "deadline"} {
			for _, rpc := range []RPC{
				{Kind: "unary", Client: []string{"I"}, Handler: []string{"dec", "ret:ok"}},
				{Kind: "unary", Client: []string{"I"}, Handler: []string{"dec", "w", "ret:ctx"}},
				{Kind: "ss", Client: []string{"S0", "C", "R*"}, Handler: []string{"r", "s0", "ret:ok"}},
			} {
				sc := sc1("C04", c+"|creds|"+rpcName(rpc), tr, c, rpc)
				sc.Opts = "creds"
				out = append(out, sc)
			}
		}
		// handler returns a context error of its own; nobody cancels
		for _, k := range []string{"unary", "ss", "cs", "bd"} {
			for _, ret := range []string{"ret:canceled", "ret:deadline", "ret:wrapcancel", "ret:wrapdl"} {
				var rpc RPC
				switch k {
				case "unary":
					rpc = RPC{Kind: k, Client: []string{"I"}, Handler: []string{"dec", ret}}
				case "ss":
					rpc = RPC{Kind: k, Client: []string{"S0", "C", "R*"}, Handler: []string{"r", "s0", ret}}
				default:
					rpc = RPC{Kind: k, Client: []string{"S0", "C", "R*"}, Handler: []string{"r*", ret}}
				}
				out = append(out, sc1("C04", "handler-ctxerr|"+rpcName(rpc), tr, "", rpc))
			}
		}
	}
	return out
}

func c04Oracle(sc *Scenario, rec *Rec, s *mc.Sched) []mc.Violation {
	out := panicViolations(s)
	want := map[string]string{"cancel": "Canceled", "deadline": "DeadlineExceeded"}[sc.Cancel]
	for i := range sc.RPCs {
		rpc := &sc.RPCs[i]
		rr := rec.RPCs[i]
		ref := refOf(i, rpc)
		add := func(clause, obs string) {
			out = append(out, mc.Violation{Clause: clause, Obs: obs, Detail: rr})
		}
		if sc.Cancel == "" {
			// handler-returned context error must reach the client with the matching code
			if c := statusCodeOf(rr.FinalErr); c != ref.Code {
				add("handler-ctxerr-code", fmt.Sprintf("handler returned %s, client saw %s", rpc.Handler[len(rpc.Handler)-1], normFinal(rr.FinalErr)))
			}
			continue
		}
		complete := eqStrs(rr.CliRecv, ref.Msgs)
		for _, m := range rr.Monitor {
			if strings.HasPrefix(m, "prefix:client") || strings.HasPrefix(m, "late-write:") {
				add("mixture", fmt.Sprintf("rpc%d: %s", i, m[strings.Index(m, ":")+1:]))
			}
		}
		for k, f := range rr.Finals {
			switch {
			case f == "EOF" && rpc.Kind != "unary":
				// end of stream = success
				if ref.Status != "nil" || !complete {
					add("success-with-missing-data", fmt.Sprintf("EOF after %d/%d msgs, handler status %s", len(rr.CliRecv), len(ref.Msgs), ref.Code))
				} else if !mdHas(rr.OptTrailer, ref.TrlKeys) || !mdHas(rr.OptHeader, ref.HdrKeys) {
					add("success-with-missing-metadata", fmt.Sprintf("EOF hdr=%s trl=%s want hdr%v trl%v", rr.OptHeader, rr.OptTrailer, ref.HdrKeys, ref.TrlKeys))
				}
			case !isStatusRes(f):
				add("non-status-error", normFinal(f))
			case statusCodeOf(f) == want:
				if !isPrefix(rr.CliRecv, ref.Msgs) {
					add("not-a-prefix", fmt.Sprintf("%v vs %v", rr.CliRecv, ref.Msgs))
				}
			case ref.Status != "nil" && ref.Status != "ctx" && statusCodeOf(f) == ref.Code && k > 0:
				// a receive issued after the stream already reported an error: the call
				// may have completed with the handler's status before the cancellation
				// landed, so either status is the truth
			case ref.Status != "nil" && ref.Status != "ctx" && statusCodeOf(f) == ref.Code:
				// the handler's own failure (repeated by later receives once the call
				// has completed with it): must be the complete real result
				if rpc.serverStreams() && !complete {
					add("mixture", fmt.Sprintf("handler status after %d/%d msgs", len(rr.CliRecv), len(ref.Msgs)))
				}
			case ref.NoResp && statusCodeOf(f) == "Internal":
			default:
				add("wrong-code", fmt.Sprintf("final[%d]=%s want %s or handler's %s", k, normFinal(f), want, ref.Code))
			}
		}
		// once a receive has reported the cancellation, no later receive may hand out a message
		seenCancel := false
		for k, res := range rr.RecvRes {
			if seenCancel && res == "nil" {
				add("message-after-cancellation-status", fmt.Sprintf("receive #%d returned a message after an earlier receive had reported %s", k, want))
			}
			if statusCodeOf(res) == want {
				seenCancel = true
			}
		}
		if rpc.Kind == "unary" && rr.FinalErr == "nil" {
			if ref.Status != "nil" || !complete {
				add("success-with-missing-data", fmt.Sprintf("Invoke nil with %v, handler status %s", rr.CliRecv, ref.Code))
			} else if !mdHas(rr.OptTrailer, ref.TrlKeys) || !mdHas(rr.OptHeader, ref.HdrKeys) {
				add("success-with-missing-metadata", fmt.Sprintf("Invoke nil hdr=%s trl=%s want hdr%v trl%v", rr.OptHeader, rr.OptTrailer, ref.HdrKeys, ref.TrlKeys))
			}
		}
	}
	// promptness and propagation: the context is done at quiescence (the canceller /
	// timer always runs), so nothing may still be parked in an API call
	if sc.Cancel != "" {
		for _, b := range blockedClient(s) {
			out = append(out, mc.Violation{Clause: "client-blocked-after-cancel", Obs: b.Where + " on " + b.Op, Detail: s.Blocked()})
		}
		for _, b := range blockedHandler(s) {
			out = append(out, mc.Violation{Clause: "handler-blocked-after-cancel", Obs: b.Where + " on " + b.Op, Detail: s.Blocked()})
		}
	}
	return out
}

// normFinal keeps the fingerprint stable: status messages of cancellation vary.
func normFinal(f string) string {
	if isStatusRes(f) {
		p := strings.SplitN(f, ":", 3)
		return p[0] + ":" + p[1]
	}
	return f
}
