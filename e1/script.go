package main

import (
	"context"
	"fmt"
	"io"
	"sort"
	"strings"
	"sync"

	"google.golang.org/grpc/metadata"
	"google.golang.org/grpc/status"
)

// RPC is one call of a scenario: what the client does and what the handler does.
//
// Client ops (streams): "S<i>" SendMsg(seq i), "E<i>" SendMsg of the empty message, "C" CloseSend, "H" Header,
// "R" RecvMsg once, "R*" RecvMsg until an error, "T" Trailer, "X" cancel.
// Client ops (unary): "I" Invoke.
// Handler ops: "r" RecvMsg once, "r*" RecvMsg until an error, "s<i>" SendMsg,
// "h:<k>" SetHeader, "H:<k>" SendHeader, "t:<k>" SetTrailer, "w" wait for
// ctx.Done, "dec" (unary: decode the request), "go" (run Handler2 in a spawned
// goroutine), "join", "ret:<ok|nil|st:<code>|ctx|canceled|deadline|eof|plain>".
type RPC struct {
	Kind     string   `json:"kind"` // unary | cs | ss | bd
	Client   []string `json:"client"`
	Client2  []string `json:"client2,omitempty"` // second client task (e.g. receiver)
	Handler  []string `json:"handler"`
	Handler2 []string `json:"handler2,omitempty"` // spawned by the handler ("go")
	Timeout  string   `json:"timeout,omitempty"`  // this call's own deadline (duration from the virtual now), e.g. "1h"
	Nested   bool     `json:"nested,omitempty"`   // made from inside another call's handler (op "N<i>"), with that handler's context
}

// Scenario is one closed system to explore.
type Scenario struct {
	Prop      string `json:"prop"`
	Name      string `json:"name"`
	Transport string `json:"transport"` // inproc | http
	RPCs      []RPC  `json:"rpcs"`
	Cancel    string `json:"cancel,omitempty"` // "" | cancel | deadline
	Cloner    string `json:"cloner,omitempty"`
	Bound     int    `json:"bound"`                // preemption bound, -1 unbounded
	EnvGiveUp bool   `json:"env_giveup,omitempty"` // memhttp: explore the ">256KB pending" alternative
	Opts      string `json:"opts,omitempty"`
	// direct scenarios (no RPC): per task the operations on a shared library object
	Tasks [][]string `json:"tasks,omitempty"`
}

func (sc *Scenario) String() string {
	var b strings.Builder
	fmt.Fprintf(&b, "%s/%s", sc.Transport, sc.Name)
	return b.String()
}

// Event is one API call and its result.
type Event struct {
	Task string `json:"task"`
	Op   string `json:"op"`
	Res  string `json:"res"`
}

// RPCRec is what was observed for one RPC.
type RPCRec struct {
	// client side
	SendAttempt    []string // tags handed to SendMsg, in call order
	SendRes        []string
	CliRecv        []string // tags obtained from successful receives, in order
	RecvRes        []string // result of every RecvMsg / Invoke, in order
	FinalErr       string   // first non-nil result of RecvMsg / the result of Invoke
	Finals         []string // every non-nil receive result
	HeaderRes      []string // result of every Header() call
	HeaderMD       []string
	TrailerMD      []string // result of every Trailer() call
	OptHeader      string   // what the grpc.Header option target holds at the end
	OptTrailer     string
	NewStreamErr   string
	HdrAtFirstRecv string // grpc.Header option target right after the first successful receive
	TrlAtFinal     string // grpc.Trailer option target right after the receive that reported the final status
	// handler side
	HandlerRan     int
	SrvRecv        []string
	SrvRecvRes     []string
	SrvSendAttempt []string
	SrvSendRes     []string
	SrvHdrRes      []string
	HandlerRet     string
	HandlerDone    bool
	SrvDeadline    []string // handler op "dl": time left until the handler context's deadline ("none" without one)
	CtxErrAtRet    string
	// started receive counters (backpressure monitor)
	CliRecvStarted int
	SrvRecvStarted int
	CliSendDone    int
	SrvSendDone    int
	Monitor        []string // monitor violations noted while running
}

// Rec is the observation record of one execution.
type Rec struct {
	mu        sync.Mutex
	RPCs      []*RPCRec
	Events    []Event
	Cancelled bool
}

func (r *Rec) ev(task, op, res string) {
	r.mu.Lock()
	r.Events = append(r.Events, Event{task, op, res})
	r.mu.Unlock()
}

// es normalises an error for observation records.
func es(err error) string {
	switch {
	case err == nil:
		return "nil"
	case err == io.EOF:
		return "EOF"
	case err == io.ErrUnexpectedEOF:
		return "ErrUnexpectedEOF"
	case err == io.ErrClosedPipe:
		return "ErrClosedPipe"
	case err == context.Canceled:
		return "ctx.Canceled"
	case err == context.DeadlineExceeded:
		return "ctx.DeadlineExceeded"
	}
	if st, ok := status.FromError(err); ok {
		return "status:" + st.Code().String() + ":" + st.Message()
	}
	return "err:" + err.Error()
}

func isStatusRes(s string) bool { return strings.HasPrefix(s, "status:") }

func statusCodeOf(s string) string {
	if !isStatusRes(s) {
		return ""
	}
	p := strings.SplitN(s, ":", 3)
	return p[1]
}

func mdStr(md metadata.MD) string {
	if md == nil {
		return "<nil>"
	}
	var keys []string
	for k := range md {
		keys = append(keys, k)
	}
	sort.Strings(keys)
	var b strings.Builder
	b.WriteString("{")
	for i, k := range keys {
		if i > 0 {
			b.WriteString(" ")
		}
		fmt.Fprintf(&b, "%s=%s", k, strings.Join(md[k], ","))
	}
	b.WriteString("}")
	return b.String()
}

func isPrefix(a, b []string) bool {
	if len(a) > len(b) {
		return false
	}
	for i := range a {
		if a[i] != b[i] {
			return false
		}
	}
	return true
}

func eqStrs(a, b []string) bool { return len(a) == len(b) && isPrefix(a, b) }
