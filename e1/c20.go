package main

import (
	"fmt"
	"strings"

	"verif/mc"
)

// C20: in-process streams apply backpressure with a small fixed buffer.
// The invariant completedSends <= startedPeerReceives + 1 is evaluated by the
// harness monitor at every completed send (run.go, monitorBackpressure); here
// the end-of-execution clauses: how far the sender got and that it is released
// by a peer receive, by the peer finishing and by the context ending.

func init() {
	register(&Property{ID: "C20", Timers: true, Scenarios: c20Scenarios, Oracle: c20Oracle})
}

func sends(prefix string, n int) []string {
	var out []string
	for i := 0; i < n; i++ {
		out = append(out, fmt.Sprintf("%s%d", prefix, i))
	}
	return out
}

func rep(op string, n int) []string {
	var out []string
	for i := 0; i < n; i++ {
		out = append(out, op)
	}
	return out
}

func cat(parts ...[]string) []string {
	var out []string
	for _, p := range parts {
		out = append(out, p...)
	}
	return out
}

func c20Scenarios(tier string) []*Scenario {
	var out []*Scenario
	maxN := 3
	if tier == "thorough" {
		maxN = 4
	}
	add := func(name, cancel string, rpc RPC) {
		sc := sc1("C20", name+"|"+rpcName(rpc), "inproc", cancel, rpc)
		out = append(out, sc)
	}
	for n := 1; n <= maxN; n++ {
		for k := 0; k <= n; k++ {
			// client -> server (also on a method declared server-streaming: the declared kind of a
			// method must not change how far a client that keeps sending gets ahead)
			for _, kind := range []string{"cs", "bd", "ss"} {
				// receiver stalls forever (handler waits on its context): sender must end up blocked
				add("c2s-stall", "", RPC{Kind: kind, Client: sends("S", n), Handler: cat(rep("r", k), []string{"w", "ret:ctx"})})
				// released by the context ending
				add("c2s-cancel", "cancel", RPC{Kind: kind, Client: sends("S", n), Handler: cat(rep("r", k), []string{"w", "ret:ctx"})})
				// released by the peer finishing (also when it leaves several final frames behind)
				add("c2s-finish", "", RPC{Kind: kind, Client: sends("S", n), Handler: cat(rep("r", k), []string{"ret:ok"})})
				if n >= 2 && k <= 1 {
					add("c2s-finish", "", RPC{Kind: kind, Client: sends("S", n), Handler: cat(rep("r", k), []string{"t:b", "ret:st:5"})})
					add("c2s-finish", "", RPC{Kind: kind, Client: sends("S", n), Handler: cat(rep("r", k), []string{"h:a", "t:b", "ret:ok"})})
				}
			}
			// server -> client, with and without a pending header frame
			for _, kind := range []string{"ss", "bd"} {
				for _, hdr := range [][]string{nil, {"h:a"}} {
					h := cat(hdr, sends("s", n), []string{"ret:ok"})
					// client stalls after k receives: handler must end up blocked
					add("s2c-stall", "", RPC{Kind: kind, Client: cat([]string{"S0", "C"}, rep("R", k)), Handler: cat([]string{"r"}, h)})
					// released by cancel
					add("s2c-cancel", "cancel", RPC{Kind: kind, Client: cat([]string{"S0", "C"}, rep("R", k)), Handler: cat([]string{"r"}, h)})
				}
			}
		}
	}
	// the two directions are independent: a sender stalled in one direction (it holds whatever the
	// library holds while a send is parked) must not hold up the other direction
	for n := 1; n <= maxN; n++ {
		for k := 0; k <= n; k++ {
			add("c2s-stall", "", RPC{Kind: "bd", Client: sends("S", n), Handler: cat([]string{"go"}, rep("r", k), []string{"w", "ret:ctx"}), Handler2: []string{"s0", "s1", "s2"}})
			add("s2c-stall", "", RPC{Kind: "bd", Client: rep("R", k), Client2: []string{"S0", "S1", "S2", "S3"}, Handler: cat([]string{"r"}, sends("s", n), []string{"w", "ret:ctx"})})
		}
	}
	// single-response stream kind: the client's one receive must not drain what a misbehaving handler keeps sending
	for n := 2; n <= maxN+1; n++ {
		for _, c := range [][]string{{"S0", "C"}, {"S0", "C", "R"}, {"S0", "C", "H", "R"}} {
			add("s2c-stall", "", RPC{Kind: "cs", Client: c, Handler: cat([]string{"r*"}, sends("s", n), []string{"ret:ok"})})
		}
	}
	// Header() consumes a frame too
	add("s2c-header-peek", "", RPC{Kind: "bd", Client: []string{"S0", "C", "H"}, Handler: []string{"r", "s0", "s1", "s2", "ret:ok"}})
	add("s2c-header-peek", "", RPC{Kind: "bd", Client: []string{"S0", "C", "H"}, Handler: []string{"r", "h:a", "s0", "s1", "s2", "ret:ok"}})
	// asking for the headers again is not receiving: however often Header() is called, the sender gets
	// no further than the frame Header() looked at plus the one buffer slot
	for _, hs := range [][]string{{"H", "H"}, {"H", "H", "H"}, {"H", "H", "H", "H", "H"}} {
		for _, hdr := range [][]string{nil, {"h:a"}} {
			add("s2c-header-repeat", "", RPC{Kind: "bd", Client: cat([]string{"S0", "C"}, hs), Handler: cat([]string{"r"}, hdr, sends("s", 6), []string{"ret:ok"})})
			add("s2c-header-repeat", "", RPC{Kind: "ss", Client: cat([]string{"S0", "C"}, hs, []string{"R"}), Handler: cat([]string{"r"}, hdr, sends("s", 6), []string{"ret:ok"})})
		}
	}
	for _, hdr := range [][]string{nil, {"h:a"}} {
		add("s2c-header-repeat", "", RPC{Kind: "bd", Client: []string{"S0", "C", "H"}, Client2: []string{"H"}, Handler: cat([]string{"r"}, hdr, sends("s", 6), []string{"ret:ok"})})
		add("s2c-header-repeat", "", RPC{Kind: "bd", Client: []string{"S0", "C", "H", "R"}, Client2: []string{"H", "H"}, Handler: cat([]string{"r"}, hdr, sends("s", 6), []string{"ret:ok"})})
	}
	// the handler returns while a goroutine it started is stalled in SendMsg and the client, not
	// receiving, is held back in its own SendMsg: the handler's return releases everybody
	for n := 2; n <= maxN; n++ {
		for k := 0; k <= 1; k++ {
			add("c2s-finish", "", RPC{Kind: "bd", Client: sends("S", n), Handler: cat([]string{"go"}, rep("r", k), []string{"ret:ok"}), Handler2: []string{"s0", "s1", "s2"}})
		}
	}
	// an earlier call's handler left a goroutine behind that still receives: a later call on the same
	// channel is held back by *its own* handler only
	for _, k := range []int{1, 3} {
		sc := &Scenario{Prop: "C20", Transport: "inproc", Bound: -1, Opts: "seq0", RPCs: []RPC{
			{Kind: "bd", Client: []string{"S0", "C", "R*"}, Handler: []string{"go", "r", "ret:ok"}, Handler2: cat([]string{"wd"}, rep("r", k))},
			{Kind: "bd", Client: []string{"S0", "S1", "S2"}, Handler: []string{"w", "ret:ctx"}},
		}}
		sc.Name = "stale-reader|" + rpcName(sc.RPCs[0]) + " >> " + rpcName(sc.RPCs[1])
		out = append(out, sc)
	}
	// the receiver cannot decode one of the messages (its cloner refuses it) and carries on, or stops: the sender
	// is held back all the same
	for _, c := range [][]string{{"S0", "C", "R", "R", "R"}, {"S0", "C", "R", "R"}, {"S0", "C", "R*"}} {
		for _, kind := range []string{"ss", "bd"} {
			rpc := RPC{Kind: kind, Client: c, Handler: cat([]string{"r"}, sends("s", 6), []string{"ret:ok"})}
			sc := sc1("C20", "s2c-decode-failure|"+rpcName(rpc), "inproc", "", rpc)
			sc.Cloner = "failcopy:0s1"
			out = append(out, sc)
		}
	}
	// released by an explicit cancel although the call also has a (far) deadline
	for _, kind := range []string{"ss", "bd"} {
		rpc := RPC{Kind: kind, Client: []string{"S0", "C", "R"}, Handler: []string{"r", "s0", "s1", "s2", "s3", "ret:ok"}}
		sc := sc1("C20", "s2c-cancel|"+rpcName(rpc)+"|fardl", "inproc", "cancel", rpc)
		sc.Opts = "fardl"
		out = append(out, sc)
	}
	for _, kind := range []string{"cs", "bd"} {
		rpc := RPC{Kind: kind, Client: []string{"S0", "S1", "S2"}, Handler: []string{"r", "w", "ret:ctx"}}
		sc := sc1("C20", "c2s-cancel|"+rpcName(rpc)+"|fardl", "inproc", "cancel", rpc)
		sc.Opts = "fardl"
		out = append(out, sc)
	}
	// a stream opened from inside a handler with that handler's context (a relay): the same one slot per
	// direction, whoever the caller is
	for _, inner := range []RPC{
		{Kind: "bd", Handler: []string{"w", "ret:ctx"}},
		{Kind: "bd", Handler: []string{"r", "w", "ret:ctx"}},
		{Kind: "cs", Handler: []string{"w", "ret:ctx"}},
	} {
		for _, outerKind := range []string{"unary", "bd"} {
			outer := RPC{Kind: "bd", Client: []string{"S0", "C", "R*"}, Handler: []string{"r", "N1", "ret:ok"}}
			if outerKind == "unary" {
				outer = RPC{Kind: "unary", Client: []string{"I"}, Handler: []string{"dec", "N1", "ret:ok"}}
			}
			in := inner
			in.Client = []string{"S0", "S1", "S2"}
			in.Nested = true
			sc := &Scenario{Prop: "C20", Transport: "inproc", Bound: -1, RPCs: []RPC{outer, in}}
			sc.Name = "relay|" + rpcName(outer) + " >> " + rpcName(in)
			out = append(out, sc)
		}
	}
	return out
}

func c20Oracle(sc *Scenario, rec *Rec, s *mc.Sched) []mc.Violation {
	out := panicViolations(s)
	rr := rec.RPCs[0]
	rpc := &sc.RPCs[0]
	for _, m := range rr.Monitor {
		if strings.HasPrefix(m, "backpressure:") {
			out = append(out, mc.Violation{Clause: "run-ahead", Obs: m[len("backpressure:"):], Detail: rr})
		}
	}
	name := sc.Name[:strings.Index(sc.Name, "|")]
	blocked := s.Blocked()
	blockedIn := func(where string) bool {
		for _, b := range blocked {
			if b.Where == where {
				return true
			}
		}
		return false
	}
	count := func(ops []string, p byte) int {
		n := 0
		for _, o := range ops {
			if o[0] == p && len(o) > 1 && o[1] >= '0' && o[1] <= '9' {
				n++
			}
		}
		return n
	}
	countOp := func(ops []string, op string) int {
		n := 0
		for _, o := range ops {
			if o == op {
				n++
			}
		}
		return n
	}
	switch name {
	case "c2s-stall":
		n, k := count(rpc.Client, 'S'), countOp(rpc.Handler, "r")
		want := n
		if k+1 < n {
			want = k + 1
		}
		if rr.CliSendDone != want {
			out = append(out, mc.Violation{Clause: "sender-progress", Obs: fmt.Sprintf("client completed %d of %d sends with %d receives by the handler, want %d", rr.CliSendDone, n, k, want)})
		}
		if n > k+1 && !blockedIn("client:SendMsg") {
			out = append(out, mc.Violation{Clause: "sender-not-blocked", Obs: fmt.Sprintf("n=%d k=%d", n, k)})
		}
	case "s2c-stall":
		n, k := count(rpc.Handler, 's'), countOp(rpc.Client, "R")+countOp(rpc.Client, "H")
		if rpc.Kind == "cs" {
			// a single-response receive takes its message (possibly the one Header() peeked)
			// plus the one frame it probes to make sure no second response follows
			switch {
			case countOp(rpc.Client, "R") > 0:
				k = 2
			case countOp(rpc.Client, "H") > 0:
				k = 1
			default:
				k = 0
			}
		}
		want := n
		if k+1 < n {
			want = k + 1
		}
		// a pending header frame occupies the slot: one fewer data frame fits
		hdr := countOp(rpc.Handler, "h:a") > 0
		lo := want
		if hdr && k == 0 && n > 0 {
			lo = 0
		}
		if rr.SrvSendDone > want || rr.SrvSendDone < lo {
			out = append(out, mc.Violation{Clause: "sender-progress", Obs: fmt.Sprintf("handler completed %d of %d sends with %d receives by the client (header frame: %v), want %d..%d", rr.SrvSendDone, n, k, hdr, lo, want)})
		}
		if n > k+1 && !blockedIn("handler:SendMsg") {
			out = append(out, mc.Violation{Clause: "sender-not-blocked", Obs: fmt.Sprintf("n=%d k=%d", n, k)})
		}
	case "s2c-header-repeat":
		// Header() takes at most one frame (the header frame, or else the first message, which it
		// keeps for the next receive); a receive takes one more; one frame fits the buffer
		want := 2
		if countOp(rpc.Handler, "h:a") > 0 {
			want = 1
		}
		want += countOp(rpc.Client, "R")
		if rr.SrvSendDone > want {
			out = append(out, mc.Violation{Clause: "sender-progress", Obs: fmt.Sprintf("handler completed %d sends although the client only asked for headers %d times and received %d times, want at most %d", rr.SrvSendDone, countOp(rpc.Client, "H"), countOp(rpc.Client, "R"), want)})
		}
		if countOp(rpc.Client, "R") > 0 && len(rr.CliRecv) > 0 && rr.CliRecv[0] != tag(0, "s", 0) {
			out = append(out, mc.Violation{Clause: "first-message-lost", Obs: fmt.Sprintf("the first receive after the Header() calls returned %s", rr.CliRecv[0])})
		}
	case "s2c-decode-failure":
		// (the run-ahead monitor above is the oracle: receives that fail still count as started receives)
	case "relay":
		r1 := rec.RPCs[1]
		for _, m := range r1.Monitor {
			if strings.HasPrefix(m, "backpressure:") {
				out = append(out, mc.Violation{Clause: "run-ahead", Obs: "call made by a handler: " + m[len("backpressure:"):], Detail: r1})
			}
		}
	case "stale-reader":
		r1 := rec.RPCs[1]
		for _, m := range r1.Monitor {
			if strings.HasPrefix(m, "backpressure:") {
				out = append(out, mc.Violation{Clause: "run-ahead", Obs: "later call: " + m[len("backpressure:"):], Detail: r1})
			}
		}
		if r1.CliSendDone > 1 {
			out = append(out, mc.Violation{Clause: "sender-progress", Obs: fmt.Sprintf("the later call's client completed %d sends although its handler never receives, want 1", r1.CliSendDone)})
		}
		if len(r1.SrvRecv) == 0 && len(rr.SrvRecv) > 1 {
			out = append(out, mc.Violation{Clause: "cross-talk", Obs: fmt.Sprintf("the earlier call's handler received %v", rr.SrvRecv)})
		}
	case "c2s-cancel", "s2c-cancel", "c2s-finish":
		// released: nothing may still be parked in an API call
		for _, b := range blocked {
			if len(rpc.Handler2) > 0 && strings.HasSuffix(b.Name, "b") && strings.HasPrefix(b.Where, "handler:") {
				// a goroutine the handler did not wait for is still inside SendMsg when the handler returns:
				// using the stream past the handler's return is the application's error; what is demanded
				// is that the *client* is released
				continue
			}
			if strings.HasPrefix(b.Where, "client:") || b.Where == "handler:SendMsg" || b.Where == "handler:RecvMsg" {
				out = append(out, mc.Violation{Clause: "not-released", Obs: name + ": " + b.Where + " on " + b.Op, Detail: blocked})
			}
		}
	}
	return out
}
