package main

import (
	"fmt"
	"strings"
	"sync"

	"github.com/fullstorydev/grpchan/inprocgrpc"

	"verif/mc"
)

// C06 (schedule part): once a unary call or a stream send has returned to the
// caller, the library no longer reads the caller's message. Every read the
// library makes of a message goes through the channel's Cloner; a recording
// cloner logs (reader task, vector clock) for each -- and likewise for each write
// into a destination the caller passed to Invoke / RecvMsg -- the harness logs the vector
// clock of the event "the call returned to the caller", and the oracle requires
// read happens-before return for every schedule -- a read that is concurrent
// with or after the return is a use-after-return (a data race in the
// happens-before sense, decided exhaustively instead of sampled).

func init() {
	register(&Property{ID: "C06", Timers: true, Scenarios: c06Scenarios, Oracle: c06Oracle})
}

type readEvent struct {
	Obj  interface{}
	Task string
	VC   mc.VC
	Op   string
}

type ownedMsg struct {
	Tag      string
	Returned bool
	RetVC    mc.VC
	Call     string
}

type recCloner struct {
	inner inprocgrpc.Cloner
	mu    sync.Mutex
	reads []readEvent
	owned map[interface{}]*ownedMsg
}

func (r *recCloner) note(op string, in interface{}) {
	if !mc.Active() {
		return
	}
	t := mc.Self()
	st := t.Stamp()
	r.mu.Lock()
	r.reads = append(r.reads, readEvent{Obj: in, Task: t.Path + "(" + t.Name + ")", VC: st.V, Op: op})
	r.mu.Unlock()
}

func (r *recCloner) Copy(out, in interface{}) error {
	r.note("Copy", in)
	r.note("Copy(dest)", out)
	return r.inner.Copy(out, in)
}

func (r *recCloner) Clone(in interface{}) (interface{}, error) {
	r.note("Clone", in)
	return r.inner.Clone(in)
}

// own registers a message the caller is about to hand to the library; returned
// marks the moment the call came back.
func (r *recCloner) own(m interface{}, tag, call string) *ownedMsg {
	r.mu.Lock()
	defer r.mu.Unlock()
	o := &ownedMsg{Tag: tag, Call: call}
	r.owned[m] = o
	return o
}

func (o *ownedMsg) returned() {
	if o == nil || !mc.Active() {
		return
	}
	o.RetVC = mc.Self().Stamp().V
	o.Returned = true
}

func c06Scenarios(tier string) []*Scenario {
	var out []*Scenario
	add := func(cancel string, rpc RPC) {
		n := "plain"
		if cancel != "" {
			n = cancel
		}
		sc := sc1("C06", n+"|"+rpcName(rpc), "inproc", cancel, rpc)
		sc.Cloner = "recording"
		out = append(out, sc)
	}
	for _, c := range []string{"", "cancel", "deadline"} {
		add(c, RPC{Kind: "unary", Client: []string{"I"}, Handler: []string{"dec", "ret:ok"}})
		add(c, RPC{Kind: "unary", Client: []string{"I"}, Handler: []string{"dec", "h:a", "t:b", "ret:st:5"}})
		if c != "" {
			add(c, RPC{Kind: "unary", Client: []string{"I"}, Handler: []string{"w", "dec", "ret:ok"}})
		}
		add(c, RPC{Kind: "cs", Client: []string{"S0", "S1", "C", "R*"}, Handler: []string{"r*", "s0", "ret:ok"}})
		add(c, RPC{Kind: "ss", Client: []string{"S0", "C", "R*"}, Handler: []string{"r", "s0", "s1", "ret:ok"}})
		add(c, RPC{Kind: "bd", Client: []string{"S0", "S1", "C"}, Client2: []string{"R*"}, Handler: []string{"r", "s0", "r", "s1", "r*", "ret:ok"}})
		add(c, RPC{Kind: "bd", Client: []string{"S0", "S1", "C", "R*"}, Handler: []string{"w", "ret:ctx"}})
		// the handler has returned (final frames not yet taken by a client that is not receiving) while
		// a goroutine it left behind still receives: a request sent now is still copied before SendMsg returns
		add(c, RPC{Kind: "bd", Client: []string{"S0", "S1", "S2"}, Handler: []string{"go", "t:b", "ret:st:5"}, Handler2: []string{"r", "r", "r"}})
		// the empty message (zero bytes when encoded) is a message like any other
		add(c, RPC{Kind: "cs", Client: []string{"E0", "S1", "C", "R*"}, Handler: []string{"r*", "s0", "ret:ok"}})
		add(c, RPC{Kind: "bd", Client: []string{"E0", "E1", "C"}, Client2: []string{"R*"}, Handler: []string{"r", "s0", "r*", "ret:ok"}})
	}
	// two calls one after the other, the first given up by its caller (own deadline) possibly before its
	// server goroutine got to decode the request: each handler still gets its own call's request
	for _, h0 := range [][]string{{"dec", "ret:ok"}, {"w", "dec", "ret:ok"}} {
		sc := &Scenario{Prop: "C06", Transport: "inproc", Bound: -1, Opts: "seq0,timers", Cloner: "recording+yield", RPCs: []RPC{
			{Kind: "unary", Client: []string{"I"}, Handler: h0, Timeout: "1s"},
			{Kind: "unary", Client: []string{"I"}, Handler: []string{"dec", "ret:ok"}},
		}}
		sc.Name = "after-an-abandoned-call|" + rpcName(sc.RPCs[0]) + " >> " + rpcName(sc.RPCs[1])
		out = append(out, sc)
		// ... and both calls to the same method (what the library keeps per method is shared)
		sc2 := *sc
		sc2.RPCs = append([]RPC(nil), sc.RPCs...)
		sc2.Opts += ",samemethod"
		sc2.Name = "same-method|" + sc.Name
		out = append(out, &sc2)
	}
	// one message object per sender, sent again and again: overwritten in place before every send, scribbled
	// over once the send has returned, while the receiver may not have taken the previous one yet; and the
	// receiver changes what it received in place. Each side still sees exactly what the other handed over.
	for _, c := range []string{"", "cancel"} {
		for _, rpc := range []RPC{
			{Kind: "ss", Client: []string{"S0", "C", "R*"}, Handler: []string{"r", "s0", "s1", "s2", "ret:ok"}},
			{Kind: "cs", Client: []string{"S0", "S1", "S2", "C", "R*"}, Handler: []string{"r*", "s0", "ret:ok"}},
			{Kind: "bd", Client: []string{"S0", "S1", "S2", "C"}, Client2: []string{"R*"}, Handler: []string{"r", "s0", "r", "s1", "r*", "s2", "ret:ok"}},
			{Kind: "bd", Client: []string{"S0", "S1", "C"}, Client2: []string{"R*"}, Handler: []string{"go", "r*", "join", "ret:ok"}, Handler2: []string{"s0", "s1", "s2"}},
		} {
			if c != "" && rpc.Kind != "bd" {
				continue
			}
			n := "plain"
			if c != "" {
				n = c
			}
			sc := sc1("C06", "reuse|"+n+"|"+rpcName(rpc), "inproc", c, rpc)
			sc.Cloner = "recording+yield" // the application's cloner may contain scheduling points
			sc.Opts = "reuse"
			out = append(out, sc)
		}
	}
	if tier == "thorough" {
		for _, c := range []string{"", "cancel"} {
			add(c, RPC{Kind: "bd", Client: []string{"S0", "S1", "S2", "C"}, Client2: []string{"R*"}, Handler: []string{"go", "r*", "join", "ret:ok"}, Handler2: []string{"s0", "s1", "s2"}})
			add(c, RPC{Kind: "cs", Client: []string{"S0", "S1", "S2", "C", "R*"}, Handler: []string{"r", "r", "s0", "ret:ok"}})
		}
	}
	return out
}

func c06Oracle(sc *Scenario, rec *Rec, s *mc.Sched) []mc.Violation {
	out := panicViolations(s)
	env := s.User.(*Env)
	rc := env.hooks.rec
	if rc == nil {
		return append(out, mc.Violation{Clause: "harness", Obs: "no recording cloner"})
	}
	// what a handler decodes is its own call's request, in the order sent (a copy that is recycled
	// or refilled while the peer still holds it shows up here, not at the caller's object)
	for i, rr := range rec.RPCs {
		for _, m := range rr.Monitor {
			if strings.HasPrefix(m, "prefix:handler") {
				out = append(out, mc.Violation{Clause: "request-content", Obs: fmt.Sprintf("rpc%d: %s", i, m[len("prefix:"):]), Detail: rr})
			}
			if strings.HasPrefix(m, "prefix:client") {
				out = append(out, mc.Violation{Clause: "response-content", Obs: fmt.Sprintf("rpc%d: %s", i, m[len("prefix:"):]), Detail: rr})
			}
			if strings.HasPrefix(m, "alias:") {
				out = append(out, mc.Violation{Clause: "shared-memory", Obs: fmt.Sprintf("rpc%d: %s", i, m[len("alias:"):]), Detail: rr})
			}
			if strings.HasPrefix(m, "late-write:") {
				out = append(out, mc.Violation{Clause: "destination-written-after-return", Obs: fmt.Sprintf("rpc%d: %s", i, m[len("late-write:"):]), Detail: rr})
			}
			if strings.HasPrefix(m, "merge:") {
				out = append(out, mc.Violation{Clause: "destination-merged", Obs: fmt.Sprintf("rpc%d: %s", i, m[len("merge:"):]), Detail: rr})
			}
		}
		for _, got := range rr.SrvRecv {
			if got != "" && !strings.HasPrefix(got, fmt.Sprintf("%dc", i)) {
				out = append(out, mc.Violation{Clause: "request-of-another-call", Obs: fmt.Sprintf("the handler of call %d decoded %s", i, got), Detail: rr})
			}
		}
	}
	for _, rd := range rc.reads {
		o := rc.owned[rd.Obj]
		if o == nil || !o.Returned {
			continue
		}
		if !rd.VC.Leq(&o.RetVC) {
			who := "library-goroutine"
			if strings.Contains(rd.Task, "(c") {
				who = "client-task"
			}
			if rd.Op == "Copy(dest)" {
				out = append(out, mc.Violation{Clause: "write-after-return",
					Obs:    fmt.Sprintf("the caller's destination message is written by a %s, not ordered before the return of %s", who, o.Call),
					Detail: map[string]interface{}{"message": o.Tag, "writer": rd.Task}})
				continue
			}
			out = append(out, mc.Violation{Clause: "read-after-return",
				Obs:    fmt.Sprintf("%s of the caller's %s message by a %s is not ordered before the return of %s", rd.Op, o.Tag[1:2], who, o.Call),
				Detail: map[string]interface{}{"message": o.Tag, "reader": rd.Task, "op": rd.Op}})
		}
	}
	return out
}
