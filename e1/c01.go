package main

import (
	"fmt"
	"sort"
	"strings"

	"verif/mc"
)

// C01 (schedule part): every message is delivered exactly once, in order and
// intact, under every interleaving; concurrent RPCs on one channel never see
// each other's messages. The prefix monitor runs at every receive return
// (run.go, monitorPrefix); here the end-of-call clauses.

func init() {
	register(&Property{ID: "C01", Timers: true, Scenarios: c01Scenarios, Oracle: c01Oracle})
}

func c01Scenarios(tier string) []*Scenario {
	var out []*Scenario
	max := 2
	if tier == "thorough" {
		max = 3
	}
	add := func(tr string, rpcs ...RPC) {
		var names []string
		for _, r := range rpcs {
			names = append(names, rpcName(r))
		}
		out = append(out, &Scenario{Prop: "C01", Name: strings.Join(names, " || "), Transport: tr, RPCs: rpcs, Bound: -1})
	}
	unary := RPC{Kind: "unary", Client: []string{"I"}, Handler: []string{"dec", "ret:ok"}}
	for _, tr := range []string{"inproc", "http"} {
		add(tr, unary)
		for n := 0; n <= max; n++ {
			add(tr, RPC{Kind: "cs", Client: cat(sends("S", n), []string{"C", "R*"}), Handler: []string{"r*", "s0", "ret:ok"}})
			add(tr, RPC{Kind: "ss", Client: []string{"S0", "C", "R*"}, Handler: cat([]string{"r"}, sends("s", n), []string{"ret:ok"})})
			for m := 0; m <= max; m++ {
				if n+m > max+1 && tier != "thorough" {
					continue
				}
				// half duplex
				add(tr, RPC{Kind: "bd", Client: cat(sends("S", n), []string{"C", "R*"}), Handler: cat([]string{"r*"}, sends("s", m), []string{"ret:ok"})})
				if tr == "inproc" && n > 0 && m > 0 {
					// concurrent sender and receiver tasks, handler receiving and sending
					add(tr, RPC{Kind: "bd", Client: cat(sends("S", n), []string{"C"}), Client2: []string{"R*"}, Handler: cat([]string{"r*"}, sends("s", m), []string{"ret:ok"})})
				}
			}
		}
		if tr == "inproc" {
			// full duplex ping-pong, and a handler with its own sender goroutine
			add(tr, RPC{Kind: "bd", Client: []string{"S0", "R", "S1", "R", "C", "R*"}, Handler: []string{"r", "s0", "r", "s1", "r*", "ret:ok"}})
			add(tr, RPC{Kind: "bd", Client: []string{"S0", "S1", "C"}, Client2: []string{"R*"}, Handler: []string{"go", "r*", "join", "ret:ok"}, Handler2: []string{"s0", "s1"}})
		}
		// Header() may be asked for at any point of the receive sequence, any number of times: every
		// placement of up to two Header() calls among the receives, with and without header metadata
		// from the handler (without it the first frame the client sees is a message, not headers)
		for _, kind := range []string{"ss", "bd"} {
			for _, hdr := range [][]string{nil, {"h:a"}} {
				recvs := max // receives before the final R*
				for p1 := 0; p1 <= recvs; p1++ {
					for p2 := p1; p2 <= recvs+1; p2++ { // p2 == recvs+1: a single Header() call
						c := []string{"S0", "C"}
						for k := 0; k <= recvs; k++ {
							if p1 == k {
								c = append(c, "H")
							}
							if p2 == k {
								c = append(c, "H")
							}
							if k < recvs {
								c = append(c, "R")
							}
						}
						c = append(c, "R*")
						add(tr, RPC{Kind: kind, Client: c, Handler: cat([]string{"r*"}, hdr, sends("s", max), []string{"ret:ok"})})
					}
				}
			}
		}
		// Header() asked for by another goroutine while a receive is under way (a tracing wrapper, a proxy)
		for _, kind := range []string{"ss", "bd"} {
			for _, hdr := range [][]string{nil, {"h:a"}} {
				add(tr, RPC{Kind: kind, Client: []string{"S0", "C", "R*"}, Client2: []string{"H"}, Handler: cat([]string{"r*"}, hdr, sends("s", 2), []string{"ret:ok"})})
			}
		}
		add(tr, RPC{Kind: "ss", Client: []string{"S0", "C", "R*"}, Client2: []string{"H", "H"}, Handler: []string{"r*", "s0", "s1", "s2", "ret:ok"}})
		// the call's context ends at any instant: the call may fail, but if it reports a clean end
		// the receiver has obtained everything
		for _, c := range []string{"cancel", "deadline"} {
			for _, rpc := range []RPC{
				{Kind: "ss", Client: []string{"S0", "C", "R*"}, Handler: []string{"r", "s0", "s1", "ret:ok"}},
				{Kind: "bd", Client: []string{"S0", "S1", "C", "R*"}, Handler: []string{"r*", "s0", "s1", "ret:ok"}},
			} {
				sc := &Scenario{Prop: "C01", Name: c + "|" + rpcName(rpc), Transport: tr, Cancel: c, RPCs: []RPC{rpc}, Bound: -1}
				if c == "deadline" {
					sc.Opts = "timers"
				}
				out = append(out, sc)
			}
		}
		// senders that keep ONE message object: overwritten in place before each send, scribbled over as soon as
		// the send / the unary call has returned (run.go, option "reuse") -- the receiver still obtains what was sent
		for _, rpc := range []RPC{
			{Kind: "ss", Client: []string{"S0", "C", "R*"}, Handler: []string{"r", "s0", "s1", "s2", "ret:ok"}},
			{Kind: "bd", Client: []string{"S0", "S1", "S2", "C", "R*"}, Handler: []string{"r*", "s0", "s1", "ret:ok"}},
		} {
			if tr == "http" && tier != "thorough" && rpc.Kind == "bd" {
				continue
			}
			out = append(out, &Scenario{Prop: "C01", Name: "reuse|" + rpcName(rpc), Transport: tr, RPCs: []RPC{rpc}, Bound: -1, Opts: "reuse", Cloner: "yield"})
		}
		// ... also across calls: a unary call its caller gave up on (own deadline), possibly before the server side
		// got to decode the request, followed by the next call made with the same request object
		if tr == "inproc" || tier == "thorough" {
			for _, h0 := range [][]string{{"dec", "ret:ok"}, {"w", "dec", "ret:ok"}} {
				sc := &Scenario{Prop: "C01", Transport: tr, Bound: -1, Opts: "seq0,timers,reuse", Cloner: "yield", RPCs: []RPC{
					{Kind: "unary", Client: []string{"I"}, Handler: h0, Timeout: "1s"},
					{Kind: "unary", Client: []string{"I"}, Handler: []string{"dec", "ret:ok"}},
				}}
				sc.Name = "reuse|after-an-abandoned-call|" + rpcName(sc.RPCs[0]) + " >> " + rpcName(sc.RPCs[1])
				out = append(out, sc)
				sc2 := *sc
				sc2.RPCs = append([]RPC(nil), sc.RPCs...)
				sc2.Opts += ",samemethod"
				sc2.Name = "same-method|" + sc.Name
				out = append(out, &sc2)
			}
		}
		// a handler that answers before it has received everything and then goes on receiving (an echo loop)
		// while the client is strictly half duplex. Over an ordinary HTTP/1.1 server the rest of the request is
		// gone once the reply has started, so the call may fail there -- but it never succeeds with messages lost
		for _, h := range [][]string{{"r", "s0", "r+", "ret:ok"}, {"r", "s0", "r", "s1", "r+", "ret:ok"}, {"r", "H:a", "r+", "s0", "ret:ok"}} {
			for _, kind := range []string{"bd", "cs"} {
				if kind == "cs" && len(h) > 4 {
					continue
				}
				rpc := RPC{Kind: kind, Client: []string{"S0", "S1", "S2", "C", "R*"}, Handler: h}
				o := ""
				if tr == "http" {
					o = "mayfail"
				}
				out = append(out, &Scenario{Prop: "C01", Name: "early-reply|" + rpcName(rpc), Transport: tr, RPCs: []RPC{rpc}, Bound: -1, Opts: o})
				if tr == "http" {
					out = append(out, &Scenario{Prop: "C01", Name: "early-reply|" + rpcName(rpc) + "|env=fullduplex", Transport: tr, RPCs: []RPC{rpc}, Bound: -1, Opts: "fullduplex"})
				}
			}
		}
		// the call's context ends while a response is being decoded into the caller's message: whatever the call
		// reports, nothing is written into that message once the call has returned
		for _, rpc := range []RPC{
			{Kind: "unary", Client: []string{"I"}, Handler: []string{"dec", "ret:ok"}},
			{Kind: "ss", Client: []string{"S0", "C", "R*"}, Handler: []string{"r", "s0", "s1", "ret:ok"}},
			{Kind: "cs", Client: []string{"S0", "C", "R*"}, Handler: []string{"r*", "s0", "ret:ok"}},
		} {
			sc := &Scenario{Prop: "C01", Name: "cancel|codec|" + rpcName(rpc), Transport: tr, Cancel: "cancel", RPCs: []RPC{rpc}, Bound: -1, Opts: "codec"}
			if tr == "inproc" {
				sc.Cloner = "yield"
			}
			out = append(out, sc)
		}
		// a stream its caller gave up on (own deadline, possibly in the middle of a send), then the next stream
		for _, kind := range []string{"bd", "cs"} {
			sc := &Scenario{Prop: "C01", Transport: tr, Bound: -1, Opts: "seq0,timers", RPCs: []RPC{
				{Kind: kind, Client: []string{"S0", "S1", "C", "R*"}, Handler: []string{"r*", "s0", "ret:ok"}, Timeout: "1s"},
				{Kind: kind, Client: []string{"S0", "S1", "C", "R*"}, Handler: []string{"r*", "s0", "ret:ok"}},
			}}
			sc.Name = "after-an-abandoned-stream|" + rpcName(sc.RPCs[0]) + " >> " + rpcName(sc.RPCs[1])
			out = append(out, sc)
			if kind == "bd" {
				sc2 := *sc
				sc2.RPCs = append([]RPC(nil), sc.RPCs...)
				sc2.Opts += ",samemethod"
				sc2.Name = "same-method|" + sc.Name
				out = append(out, &sc2)
			}
		}
		// two goroutines of one handler receive from the same stream (a worker pool draining the requests): each
		// request reaches exactly one of them, intact
		for _, rpc := range []RPC{
			{Kind: "bd", Client: []string{"S0", "S1", "C", "R*"}, Handler: []string{"go", "r", "join", "s0", "ret:ok"}, Handler2: []string{"r"}},
			{Kind: "cs", Client: []string{"S0", "S1", "S2", "C", "R*"}, Handler: []string{"go", "r", "r", "join", "s0", "ret:ok"}, Handler2: []string{"r"}},
		} {
			out = append(out, &Scenario{Prop: "C01", Name: "two-receivers|" + rpcName(rpc), Transport: tr, RPCs: []RPC{rpc}, Bound: -1})
		}
		// two RPCs at once with the decoder as a scheduling point: whatever the library recycles between calls
		// (buffers, pooled objects) must not be handed on while a receiver is still decoding from it
		{
			one := RPC{Kind: "ss", Client: []string{"S0", "C", "R*"}, Handler: []string{"r", "s0", "ret:ok"}}
			sc := &Scenario{Prop: "C01", Name: "codec|" + rpcName(one) + " || " + rpcName(one), Transport: tr, RPCs: []RPC{one, one}, Bound: -1, Opts: "codec"}
			if tr == "inproc" {
				sc.Cloner = "yield"
			}
			out = append(out, sc)
			sc2 := &Scenario{Prop: "C01", Name: "codec|seq0|" + rpcName(one) + " >> " + rpcName(unary), Transport: tr, RPCs: []RPC{one, unary}, Bound: -1, Opts: "codec,seq0", Cloner: sc.Cloner}
			out = append(out, sc2)
		}
		// two RPCs at once on one channel
		add(tr, unary, unary)
		add(tr, unary, RPC{Kind: "ss", Client: []string{"S0", "C", "R*"}, Handler: []string{"r", "s0", "s1", "ret:ok"}})
		if tr == "inproc" || tier == "thorough" {
			add(tr, RPC{Kind: "bd", Client: []string{"S0", "C", "R*"}, Handler: []string{"r*", "s0", "ret:ok"}}, RPC{Kind: "bd", Client: []string{"S0", "C", "R*"}, Handler: []string{"r*", "s0", "ret:ok"}})
		}
	}
	return out
}

func c01Oracle(sc *Scenario, rec *Rec, s *mc.Sched) []mc.Violation {
	out := panicViolations(s)
	for i := range sc.RPCs {
		rpc := &sc.RPCs[i]
		rr := rec.RPCs[i]
		ref := refOf(i, rpc)
		add := func(clause, obs string) {
			out = append(out, mc.Violation{Clause: clause, Obs: fmt.Sprintf("rpc%d: %s", i, obs), Detail: rr})
		}
		for _, m := range rr.Monitor {
			if strings.HasPrefix(m, "prefix:handler") && strings.HasPrefix(sc.Name, "two-receivers|") {
				continue // the order in which two receiving goroutines note what they got is not the order of receipt
			}
			if strings.HasPrefix(m, "prefix:") || strings.HasPrefix(m, "merge:") || strings.HasPrefix(m, "late-write:") {
				add(m[:strings.Index(m, ":")], m[strings.Index(m, ":")+1:])
			}
		}
		// nothing a script does here can fail: every call must end successfully with equal sequences
		success := rr.FinalErr == "nil" || (rpc.Kind != "unary" && rr.FinalErr == "EOF") ||
			(rr.FinalErr == "" && rpc.Kind == "cs" && len(rr.RecvRes) == 1 && rr.RecvRes[0] == "nil")
		if !success {
			if sc.Cancel == "" && !strings.Contains(sc.Opts, "mayfail") && !(rpc.Timeout != "" && statusCodeOf(rr.FinalErr) == "DeadlineExceeded") {
				add("call-failed", "final result "+normFinal(rr.FinalErr)+" in a fault-free scenario")
			}
			continue
		}
		if !eqStrs(rr.CliRecv, ref.Msgs) {
			add("client-sequence", fmt.Sprintf("client received %v, handler sent %v", rr.CliRecv, ref.Msgs))
		}
		var sent []string
		for k, t := range rr.SendAttempt {
			if rpc.Kind == "unary" || (k < len(rr.SendRes) && rr.SendRes[k] == "nil") {
				sent = append(sent, t)
			}
		}
		if strings.HasPrefix(sc.Name, "two-receivers|") {
			// which goroutine got which request is not fixed: compare as multisets
			a, b := append([]string(nil), rr.SrvRecv...), append([]string(nil), sent...)
			sort.Strings(a)
			sort.Strings(b)
			if rr.HandlerDone && rr.HandlerRet == "nil" && !eqStrs(a, b) {
				add("handler-sequence", fmt.Sprintf("the handler's goroutines received %v, client sent %v", a, b))
			}
		} else if rr.HandlerDone && rr.HandlerRet == "nil" && !eqStrs(rr.SrvRecv, sent) {
			add("handler-sequence", fmt.Sprintf("handler received %v, client sent %v", rr.SrvRecv, sent))
		}
	}
	if len(s.Blocked()) > 0 {
		for _, b := range s.Blocked() {
			if strings.HasPrefix(b.Where, "client:") || strings.HasPrefix(b.Where, "handler:") {
				out = append(out, mc.Violation{Clause: "blocked", Obs: b.Where + " on " + b.Op, Detail: s.Blocked()})
			}
		}
	}
	return out
}
