package main

import (
	"bytes"
	"encoding/json"
	"fmt"
	"os"
	"os/exec"
	"strconv"
	"sync"
	"sync/atomic"
	"time"

	"verif/mc"
)

type nativeSummary struct {
	Runs       int      `json:"runs"`
	Validated  int      `json:"validated"`
	Mismatches []string `json:"mismatches"`
	Skipped    int      `json:"skipped_timeouts"`
}

type nativeScen struct {
	Index    int              `json:"index"`
	Outcomes map[string]int64 `json:"outcomes"`
	Timeouts int              `json:"timeouts"`
}

// runNativeOnce runs the scenario body free-running on real goroutines.
func runNativeOnce(sc *Scenario) (string, bool) {
	env := &Env{sc: sc, rec: &Rec{}, native: true, hooks: hooksFor(sc)}
	env.setup()
	done := make(chan struct{})
	go func() {
		defer close(done)
		env.body()
		env.wg.Wait()
	}()
	select {
	case <-done:
	case <-time.After(1500 * time.Millisecond):
		if env.cancel != nil {
			env.cancel()
		}
		return "", false
	}
	// give handler goroutines a moment to finish (they may outlive the client side)
	for i := 0; i < 200 && atomic.LoadInt32(&env.hDone) < atomic.LoadInt32(&env.hStarted); i++ {
		time.Sleep(time.Millisecond)
	}
	env.finalize()
	if env.srv != nil {
		// httptest.Server.Close waits for outstanding requests; a handler that is (legitimately, or by the
		// recorded C04 finding) still waiting for its context would hold it for ever
		closed := make(chan struct{})
		go func() { defer close(closed); env.srv.CloseClientConnections(); env.srv.Close() }()
		select {
		case <-closed:
		case <-time.After(time.Second):
		}
	}
	if env.cancel != nil {
		defer env.cancel()
	}
	return clientView(sc, env.rec), true
}

func cmdNative(args []string) int {
	p := properties[args[0]]
	tier := args[1]
	runs, _ := strconv.Atoi(args[2])
	scs := p.Scenarios(tier)
	idx := filterScenarios(scs)
	results := make([]*nativeScen, len(scs))
	jobs := make(chan int, len(idx))
	for _, i := range idx {
		jobs <- i
	}
	close(jobs)
	var wg sync.WaitGroup
	for w := 0; w < 8; w++ {
		wg.Add(1)
		go func() {
			defer wg.Done()
			for i := range jobs {
				sc := scs[i]
				if sc.Cancel == "deadline" {
					continue // real timers are not driven natively
				}
				ns := &nativeScen{Index: i, Outcomes: map[string]int64{}}
				for r := 0; r < runs; r++ {
					o, ok := runNativeOnce(sc)
					if !ok {
						// a script that blocks by design (or a deadlock): nothing to compare
						ns.Timeouts++
						break
					}
					ns.Outcomes[o]++
				}
				results[i] = ns
			}
		}()
	}
	wg.Wait()
	enc := json.NewEncoder(os.Stdout)
	for _, ns := range results {
		if ns != nil {
			enc.Encode(ns)
		}
	}
	return 0
}

// nativeConformance runs the uninstrumented build of the same bodies and
// requires every native observation to be among the explored outcomes.
func nativeConformance(prop, tier string, scs []*Scenario, idx []int, results []*ScenResult) nativeSummary {
	var sum nativeSummary
	bin := os.Getenv("VERIF_E1NATIVE")
	if bin == "" {
		return sum
	}
	runs := "20"
	if tier == "thorough" {
		runs = "100"
	}
	cmd := exec.Command(bin, "native", prop, tier, runs)
	var out, errb bytes.Buffer
	cmd.Stdout, cmd.Stderr = &out, &errb
	if err := cmd.Run(); err != nil {
		sum.Mismatches = append(sum.Mismatches, "native runner failed: "+err.Error()+" "+tail(errb.String(), 500))
		return sum
	}
	dec := json.NewDecoder(&out)
	for dec.More() {
		var ns nativeScen
		if dec.Decode(&ns) != nil {
			break
		}
		r := results[ns.Index]
		if r == nil {
			continue
		}
		sum.Skipped += ns.Timeouts
		for o, n := range ns.Outcomes {
			sum.Runs += int(n)
			if _, ok := r.Views[o]; ok || !r.Exhaustive {
				if ok {
					sum.Validated += int(n)
				}
			} else {
				sum.Mismatches = append(sum.Mismatches, fmt.Sprintf("%s/%s: native client view not among the %d explored: %s", scs[ns.Index].Transport, scs[ns.Index].Name, len(r.Views), o))
			}
		}
	}
	if len(sum.Mismatches) > 0 {
		for _, m := range sum.Mismatches {
			fmt.Fprintln(os.Stderr, "CONFORMANCE-MISMATCH:", m)
		}
	}
	return sum
}

var _ = mc.Active
