package main

import (
	"context"
	"fmt"
	"io"
	"net/http"
	"strings"
	"time"

	"verif/mc"
)

// memhttp is a first-order model of net/http between httpgrpc.Channel (an
// http.RoundTripper user) and httpgrpc's server handlers (http.Handler), built
// on controlled primitives so that every interleaving is explored. It models:
//
//   - the transport's write loop copying the request body onto the connection
//     (unbounded buffering: small-message abstraction of TCP);
//   - RoundTrip returning once response headers are committed (first Flush or
//     handler return), or with the context's error on cancellation;
//   - response bytes travelling as flushed chunks; the response body reaching
//     EOF only when ServeHTTP has returned;
//   - the HTTP/1 server's early-response rule: committing the response headers
//     with an unread request body first discards the request body until EOF
//     (after which it reads as closed), or -- environment alternative standing
//     for "more than 256 KB pending" -- gives up and closes the connection
//     after the reply;
//   - (scenario option "fullduplex") a server in full-duplex mode, where that rule is off;
//   - (scenario option "srvdl") a request context that already has a far deadline of the server's own;
//   - (scenario option "noflush") a ResponseWriter without Flush: the reply leaves when the handler returns;
//   - (scenario option "coalesce") reads of the response body that return everything that has arrived so far;
//   - cancellation closing the connection; the server noticing a closed
//     connection through failing body reads, and through its background read
//     (which cancels the request context) only once the body has hit EOF;
//   - the request context being cancelled when ServeHTTP returns.
//
// Not modelled: connection reuse, pipelining, 100-continue, HTTP/2, TLS,
// socket back-pressure.

const hugeCap = 1 << 20

type memTransport struct {
	h      http.Handler
	giveUp bool
	// fullDuplex: the server was put into full-duplex mode (http.ResponseController.EnableFullDuplex, e.g. by
	// a middleware around the httpgrpc handlers): the early-response rule does not apply, a reply travels
	// while the request body is still open
	fullDuplex bool
	// srvDeadline: the request context the handlers get already carries a (far) deadline of the server's own,
	// as behind http.TimeoutHandler or a middleware that bounds every request
	srvDeadline bool
	// noFlush: the handlers see a ResponseWriter that has neither Flush nor Unwrap (a middleware's wrapper,
	// http.TimeoutHandler's writer): nothing leaves the server before the handler has returned
	noFlush bool
	// coalesce: a Read of the response body returns everything that has arrived so far, across the server's
	// write boundaries (a client that reads a little after the server wrote; TCP does not keep boundaries)
	coalesce bool
}

func newMemTransport(h http.Handler, giveUp, fullDuplex, srvDeadline, noFlush, coalesce bool) http.RoundTripper {
	return &memTransport{h: h, giveUp: giveUp, fullDuplex: fullDuplex, srvDeadline: srvDeadline, noFlush: noFlush, coalesce: coalesce}
}

// plainWriter hides every optional interface of the writer it wraps.
type plainWriter struct{ w http.ResponseWriter }

func (p plainWriter) Header() http.Header         { return p.w.Header() }
func (p plainWriter) Write(b []byte) (int, error) { return p.w.Write(b) }
func (p plainWriter) WriteHeader(code int)        { p.w.WriteHeader(code) }

// farDeadlineCtx is a request context that has a deadline far beyond anything the caller asks for (the
// server's own bound on a request never passes within a scenario).
type farDeadlineCtx struct{ context.Context }

func (farDeadlineCtx) Deadline() (time.Time, bool) { return mc.TimeBase.Add(1000 * time.Hour), true }

type memConn struct {
	t *memTransport

	reqCh      *mc.Chan[[]byte] // request body bytes on the wire; closed at body EOF
	respCh     *mc.Chan[[]byte] // flushed response chunks; closed when ServeHTTP has returned
	hdrCh      *mc.Chan[struct{}]
	connClosed *mc.Chan[struct{}]
	finished   *mc.Chan[struct{}] // client is done with the response
	srvDone    *mc.Chan[struct{}]

	// response head, valid once hdrCh is closed
	status int
	header http.Header
}

func (c *memConn) closeConn() { mc.CloseIfOpen(c.connClosed) }

// isClosed is a visible read of the connection state.
func (c *memConn) isClosed() bool {
	return mc.Select(true, mc.RecvCase(c.connClosed)) == 0
}

func (c *memConn) finish() { mc.CloseIfOpen(c.finished) }

func (t *memTransport) RoundTrip(req *http.Request) (*http.Response, error) {
	ctx := req.Context()
	if err := ctx.Err(); err != nil {
		if req.Body != nil {
			req.Body.Close()
		}
		return nil, err
	}
	c := &memConn{t: t,
		reqCh:      mc.NewChan[[]byte](hugeCap).SetLabel("net.req"),
		respCh:     mc.NewChan[[]byte](hugeCap).SetLabel("net.resp"),
		hdrCh:      mc.NewChan[struct{}]().SetLabel("net.hdr"),
		connClosed: mc.NewChan[struct{}]().SetLabel("net.closed"),
		finished:   mc.NewChan[struct{}]().SetLabel("net.fin"),
		srvDone:    mc.NewChan[struct{}]().SetLabel("srv.done"),
	}
	body := req.Body
	// transport write loop
	mc.GoNamed("mem-write", func() {
		if body == nil {
			mc.Close(c.reqCh)
			return
		}
		buf := make([]byte, 32*1024)
		for {
			n, err := body.Read(buf)
			if n > 0 {
				// the chunk reaches the wire, or the write fails on a closed connection and the loop ends
				if mc.SelectPri(mc.RecvCase(c.connClosed), mc.SendCase(c.reqCh, append([]byte(nil), buf[:n]...))) == 0 {
					return
				}
			}
			if err != nil {
				if err == io.EOF {
					mc.Close(c.reqCh)
				} else {
					// aborted body: the connection is torn down
					c.closeConn()
				}
				return
			}
		}
	})
	// server side
	sctx, scancel := mc.WithCancel(context.Background())
	var rctx context.Context = sctx
	if t.srvDeadline {
		rctx = farDeadlineCtx{sctx}
	}
	sreq := req.Clone(rctx)
	sreq.RemoteAddr = "192.0.2.7:4321"
	sreq.RequestURI = req.URL.RequestURI()
	sreq.ContentLength = -1
	rb := &memReqBody{c: c, cancelCtx: scancel}
	sreq.Body = rb
	w := &memRespWriter{c: c, rb: rb, hdr: http.Header{}}
	mc.GoNamed("mem-server", func() {
		if t.noFlush {
			t.h.ServeHTTP(plainWriter{w}, sreq)
		} else {
			t.h.ServeHTTP(w, sreq)
		}
		w.finishRequest()
		scancel()
		mc.Close(c.srvDone)
	})
	// transport: a cancelled request closes the connection
	mc.GoNamed("mem-watch", func() {
		if mc.Select(false, mc.RecvCase(mc.Wrap(ctx.Done())), mc.RecvCase(c.finished)) == 0 {
			c.closeConn()
		}
	})
	switch mc.Select(false, mc.RecvCase(c.hdrCh), mc.RecvCase(mc.Wrap(ctx.Done()))) {
	case 0:
	default:
		c.closeConn()
		c.finish()
		return nil, ctx.Err()
	}
	resp := &http.Response{
		StatusCode: c.status, Status: fmt.Sprintf("%d %s", c.status, http.StatusText(c.status)),
		Proto: "HTTP/1.1", ProtoMajor: 1, ProtoMinor: 1,
		Header: c.header, Request: req, ContentLength: -1,
		Body: &memRespBody{c: c, ctx: ctx},
	}
	return resp, nil
}

// ---- server side

type memReqBody struct {
	c         *memConn
	left      []byte
	sawEOF    bool
	closed    bool
	bg        bool
	cancelCtx context.CancelFunc
}

// hitEOF starts the server's background read: from now on a closed connection
// cancels the request context.
func (b *memReqBody) hitEOF() {
	b.sawEOF = true
	if b.bg {
		return
	}
	b.bg = true
	c := b.c
	cancel := b.cancelCtx
	mc.GoNamed("mem-bgread", func() {
		if mc.Select(false, mc.RecvCase(c.connClosed), mc.RecvCase(c.srvDone)) == 0 {
			cancel()
		}
	})
}

func (b *memReqBody) Read(p []byte) (int, error) {
	if b.closed {
		return 0, http.ErrBodyReadAfterClose
	}
	if len(p) == 0 {
		return 0, nil
	}
	if len(b.left) == 0 {
		if b.sawEOF {
			return 0, io.EOF
		}
		data := mc.RecvCase(b.c.reqCh)
		switch mc.Select(false, data, mc.RecvCase(b.c.connClosed)) {
		case 0:
			if !data.Ok {
				b.hitEOF()
				return 0, io.EOF
			}
			b.left = data.Val
		default:
			// net/http: any read error on the connection cancels the connection's
			// context (connReader.handleReadError), and with it the request's
			b.cancelCtx()
			return 0, io.ErrUnexpectedEOF
		}
	}
	n := copy(p, b.left)
	b.left = b.left[n:]
	return n, nil
}

func (b *memReqBody) Close() error {
	b.closed = true
	return nil
}

// (the request body is used by the server task only: httpgrpc serialises RecvMsg,
// and scenarios with a concurrently sending handler goroutine are in-process only)
func (b *memReqBody) state() (sawEOF, closed bool) { return b.sawEOF, b.closed }

type memRespWriter struct {
	c   *memConn
	rb  *memReqBody
	hdr http.Header

	wroteHeader bool
	status      int
	snapshot    http.Header
	committed   bool
	pending     [][]byte // one entry per Write: the network may deliver them separately
	closeAfter  bool
	broken      bool // bytes were dropped on a closed connection: the body can no longer end cleanly
}

func (w *memRespWriter) Header() http.Header { return w.hdr }

func (w *memRespWriter) WriteHeader(code int) {
	if w.wroteHeader {
		return
	}
	w.wroteHeader = true
	w.status = code
	w.snapshot = w.hdr.Clone()
}

func (w *memRespWriter) Write(b []byte) (int, error) {
	if !w.wroteHeader {
		w.WriteHeader(http.StatusOK)
	}
	if w.broken {
		return 0, fmt.Errorf("write: connection closed")
	}
	w.pending = append(w.pending, append([]byte(nil), b...))
	return len(b), nil
}

// commit sends the response head, applying the early-response rule first.
func (w *memRespWriter) commit() {
	if w.committed {
		return
	}
	w.committed = true
	if !w.wroteHeader {
		w.WriteHeader(http.StatusOK)
	}
	rb := w.rb
	sawEOF, closed := rb.state()
	if w.c.t.fullDuplex {
		// no early-response rule: the request body stays as it is
	} else if !sawEOF && !closed {
		alt := 0
		if w.c.t.giveUp {
			alt = mc.Choose(2, "early-response(discard|giveup)")
		}
		if alt == 0 {
			// consume the rest of the request body before replying
			buf := make([]byte, 4096)
			for {
				_, err := rb.Read(buf)
				if err == io.EOF {
					rb.Close()
					break
				}
				if err != nil {
					w.closeAfter = true
					break
				}
			}
		} else {
			w.closeAfter = true
		}
	} else if closed && !sawEOF {
		w.closeAfter = true
	}
	if w.c.isClosed() {
		// a response head written to a connection the client has already
		// closed never reaches it
		w.broken = true
		return
	}
	w.c.status = w.status
	h := w.snapshot
	if h.Get("Content-Type") == "" && len(w.pending) > 0 {
		h.Set("Content-Type", "text/plain; charset=utf-8")
	}
	w.c.header = h
	mc.Close(w.c.hdrCh)
}

func (w *memRespWriter) Flush() {
	w.commit()
	for _, chunk := range w.pending {
		if len(chunk) == 0 {
			continue
		}
		// bytes written after the connection was closed never reach the peer
		if w.broken || mc.SelectPri(mc.RecvCase(w.c.connClosed), mc.SendCase(w.c.respCh, chunk)) == 0 {
			w.broken = true
		}
	}
	w.pending = nil
}

func (w *memRespWriter) finishRequest() {
	w.Flush()
	// the terminating chunk / the end of a Content-Length body only arrives
	// over a connection that is still up
	if !w.broken && !w.c.isClosed() {
		mc.Close(w.c.respCh)
	}
	w.rb.Close()
	if w.closeAfter {
		w.c.closeConn()
	}
}

// ---- client side response body

type memRespBody struct {
	c      *memConn
	ctx    context.Context
	left   []byte
	eof    bool
	closed bool
}

func (b *memRespBody) Read(p []byte) (int, error) {
	if b.closed {
		return 0, fmt.Errorf("http: read on closed response body")
	}
	if len(p) == 0 {
		return 0, nil
	}
	if len(b.left) == 0 {
		if b.eof {
			return 0, io.EOF
		}
		data := mc.RecvCase(b.c.respCh)
		switch mc.Select(false, data, mc.RecvCase(b.c.connClosed)) {
		case 0:
			if !data.Ok {
				b.eof = true
				b.c.finish()
				return 0, io.EOF
			}
			b.left = data.Val
			if b.c.t.coalesce {
				for {
					more := mc.RecvCase(b.c.respCh)
					if mc.Select(true, more) != 0 {
						break // nothing further has arrived yet
					}
					if !more.Ok {
						// the end of the body has arrived as well: the next Read reports it
						b.eof = true
						b.c.finish()
						break
					}
					b.left = append(append([]byte(nil), b.left...), more.Val...)
				}
			}
		default:
			b.c.finish()
			if err := b.ctx.Err(); err != nil {
				return 0, err
			}
			return 0, io.ErrUnexpectedEOF
		}
	}
	n := copy(p, b.left)
	b.left = b.left[n:]
	return n, nil
}

func (b *memRespBody) Close() error {
	b.closed = true
	if !b.eof {
		// closing an unread body tears the connection down
		b.c.closeConn()
	}
	b.c.finish()
	return nil
}

var _ = strings.TrimSpace
