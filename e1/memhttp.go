package main

import (
	"net/http"
)

func newMemTransport(h http.Handler, giveUp bool) http.RoundTripper { panic("memhttp not built yet") }
