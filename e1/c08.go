package main

import (
	"fmt"
	"strings"

	"verif/mc"
)

// C08: single-response methods yield exactly one response or an error; over
// HTTP the server rejects a second request on single-request methods.

func init() {
	register(&Property{ID: "C08", Timers: true, Scenarios: c08Scenarios, Oracle: c08Oracle})
}

func c08Scenarios(tier string) []*Scenario {
	var out []*Scenario
	add := func(tr, cancel string, rpc RPC) {
		n := "plain"
		if cancel != "" {
			n = cancel
		}
		out = append(out, sc1("C08", n+"|"+rpcName(rpc), tr, cancel, rpc))
	}
	maxR := 2
	if tier == "thorough" {
		maxR = 3
	}
	for _, tr := range []string{"inproc", "http"} {
		// unary: the handler returns (nil, nil), one response, or an error
		for _, h := range [][]string{{"dec", "ret:nil"}, {"dec", "ret:tnil"}, {"dec", "ret:ok"}, {"dec", "ret:st:5"}, {"dec", "h:a", "t:b", "ret:nil"}, {"dec", "h:a", "t:b", "ret:tnil"}, {"dec", "h:a", "t:b", "ret:ok"}} {
			add(tr, "", RPC{Kind: "unary", Client: []string{"I"}, Handler: h})
		}
		// client-streaming: r responses, final status nil / non-nil, with and without metadata
		for r := 0; r <= maxR+1; r++ {
			if r > maxR && tr != "inproc" {
				continue // one more surplus response in-process (cheap there)
			}
			for _, ret := range []string{"ret:ok", "ret:st:5"} {
				for _, md := range []bool{false, true} {
					h := []string{"r*"}
					if md {
						h = append(h, "h:a")
					}
					h = append(h, sends("s", r)...)
					if md {
						h = append(h, "t:b")
					}
					h = append(h, ret)
					for _, c := range [][]string{{"S0", "C", "R*", "R"}, {"S0", "C", "H", "R*", "T"}} {
						add(tr, "", RPC{Kind: "cs", Client: c, Handler: h})
					}
					// the call's context ending at any instant must not turn a miscounted or failed
					// call into a success (frames are dropped once the context is done)
					if tier == "thorough" || (!md && r <= 2) {
						add(tr, "cancel", RPC{Kind: "cs", Client: []string{"S0", "C", "R*", "R"}, Handler: h})
					}
				}
			}
		}
		// one response, then a failure whose status object says OK: still a failed call
		for _, c := range [][]string{{"S0", "C", "R*", "R"}, {"S0", "C", "H", "R*", "T"}} {
			add(tr, "", RPC{Kind: "cs", Client: c, Handler: []string{"r*", "s0", "ret:okerr"}})
			add(tr, "", RPC{Kind: "cs", Client: c, Handler: []string{"r*", "h:a", "s0", "t:b", "ret:okerr"}})
		}
		add(tr, "", RPC{Kind: "unary", Client: []string{"I"}, Handler: []string{"dec", "ret:okerr"}})
		// one response, then a second one that cannot be sent (SendMsg fails), then the failure
		for _, c := range [][]string{{"S0", "C", "R*", "R"}, {"S0", "C", "H", "R*", "T"}} {
			add(tr, "", RPC{Kind: "cs", Client: c, Handler: []string{"r*", "s0", "sn", "ret:st:15"}})
		}
		// Header() asked for by another goroutine while the receive is under way
		for r := 0; r <= 2; r++ {
			for _, hdr := range [][]string{nil, {"h:a"}} {
				add(tr, "", RPC{Kind: "cs", Client: []string{"S0", "C", "R*", "R"}, Client2: []string{"H"}, Handler: cat([]string{"r*"}, hdr, sends("s", r), []string{"ret:ok"})})
			}
		}
		add(tr, "", RPC{Kind: "cs", Client: []string{"S0", "C", "R*", "R"}, Client2: []string{"H"}, Handler: []string{"r*", "s0", "ret:st:5"}})
		// responses sent before the client has finished sending (in-process: full duplex)
		if tr == "inproc" {
			add(tr, "", RPC{Kind: "cs", Client: []string{"S0", "S1", "C", "R*", "R"}, Handler: []string{"r", "s0", "s1", "r*", "ret:ok"}})
			add(tr, "", RPC{Kind: "cs", Client: []string{"S0", "C"}, Client2: []string{"R*", "R"}, Handler: []string{"r", "s0", "s1", "ret:ok"}})
		}
	}
	// the decoder as a scheduling point (option "codec"): between taking the response off the wire and
	// looking for a second one the client decodes, and meanwhile the context may end and the reader finish
	for _, tr := range []string{"http", "inproc"} {
		for _, h := range [][]string{{"r*", "s0", "ret:ok"}, {"r*", "s0", "s1", "ret:ok"}, {"r*", "s0", "ret:st:5"}} {
			sc := sc1("C08", "cancel|codec|"+rpcName(RPC{Kind: "cs", Client: []string{"S0", "C", "R*", "R"}, Handler: h}), tr, "cancel", RPC{Kind: "cs", Client: []string{"S0", "C", "R*", "R"}, Handler: h})
			sc.Opts = "codec"
			if tr == "inproc" {
				sc.Cloner = "yield"
			}
			out = append(out, sc)
		}
	}
	// after a call whose reply could not be delivered (its caller gave up: own deadline) the next call on the
	// same server / channel is judged as if it were the first
	for _, tr := range []string{"inproc", "http"} {
		for _, h1 := range [][]string{{"r*", "ret:ok"}, {"r*", "s0", "s1", "ret:ok"}, {"r*", "s0", "ret:ok"}} {
			sc := &Scenario{Prop: "C08", Transport: tr, Bound: -1, Opts: "seq0,timers", RPCs: []RPC{
				{Kind: "ss", Client: []string{"S0", "C", "R*"}, Handler: []string{"r", "s0", "s1", "s2", "ret:ok"}, Timeout: "1s"},
				{Kind: "cs", Client: []string{"S0", "C", "R*", "R"}, Handler: h1},
			}}
			sc.Name = "plain|after-an-abandoned-call|" + rpcName(sc.RPCs[0]) + " >> " + rpcName(sc.RPCs[1])
			out = append(out, sc)
		}
	}
	// unary over HTTP with an application-supplied error renderer that leaves the HTTP status at 200: a handler
	// without a response, or with a failure, is still reported as an error
	for _, rd := range []string{"renderer:noop", "renderer:hdr"} {
		for _, h := range [][]string{{"dec", "ret:nil"}, {"dec", "ret:tnil"}, {"dec", "ret:ok"}, {"dec", "ret:st:5"}, {"dec", "h:a", "t:b", "ret:nil"}, {"dec", "ret:okerr"}} {
			add("http", "", RPC{Kind: "unary", Client: []string{"I"}, Handler: h})
			sc := out[len(out)-1]
			sc.Opts = rd
			sc.Name += "|" + rd
		}
	}
	// calls made with a context that can never be cancelled (context.Background())
	for _, tr := range []string{"inproc", "http"} {
		for _, rpc := range []RPC{
			{Kind: "unary", Client: []string{"I"}, Handler: []string{"dec", "ret:nil"}},
			{Kind: "unary", Client: []string{"I"}, Handler: []string{"dec", "ret:tnil"}},
			{Kind: "unary", Client: []string{"I"}, Handler: []string{"dec", "h:a", "t:b", "ret:nil"}},
			{Kind: "unary", Client: []string{"I"}, Handler: []string{"dec", "ret:ok"}},
			{Kind: "cs", Client: []string{"S0", "C", "R*", "R"}, Handler: []string{"r*", "ret:ok"}},
			{Kind: "cs", Client: []string{"S0", "C", "R*", "R"}, Handler: []string{"r*", "s0", "s1", "ret:ok"}},
		} {
			add(tr, "", rpc)
			sc := out[len(out)-1]
			sc.Opts = "bgctx"
			sc.Name += "|ctx=background"
		}
	}
	// HTTP: single-request methods (server-streaming) given 0, 1, 2 request frames
	for _, c := range [][]string{{"C", "R*"}, {"S0", "C", "R*"}, {"S0", "S1", "C", "R*"}, {"S0", "E1", "C", "R*"}, {"E0", "C", "R*"}, {"E0", "E1", "C", "R*"}} {
		add("http", "", RPC{Kind: "ss", Client: c, Handler: []string{"r", "r", "s0", "ret:ok"}})
		add("http", "", RPC{Kind: "ss", Client: c, Handler: []string{"r", "s0", "ret:ok"}})
	}
	return out
}

func c08Oracle(sc *Scenario, rec *Rec, s *mc.Sched) []mc.Violation {
	out := panicViolations(s)
	// scenarios that first run another call to completion (option "seq0": what the library keeps from one
	// call is there for the next) are judged on their last call
	j := 0
	if strings.Contains(sc.Opts, "seq0") {
		j = len(sc.RPCs) - 1
	}
	rr := rec.RPCs[j]
	rpc := &sc.RPCs[j]
	ref := refOf(j, rpc)
	add := func(clause, obs string) { out = append(out, mc.Violation{Clause: clause, Obs: obs, Detail: rr}) }
	if rpc.Kind == "ss" {
		// request cardinality over HTTP
		n := 0
		for _, o := range rpc.Client {
			if o[0] == 'S' || o[0] == 'E' {
				n++
			}
		}
		if len(rr.SrvRecvRes) > 0 {
			first := rr.SrvRecvRes[0]
			if n != 1 && first == "nil" {
				add("request-cardinality", fmt.Sprintf("client sent %d request frames to a single-request method, handler's RecvMsg succeeded", n))
			}
			if n == 1 && first != "nil" {
				add("request-cardinality", "one request frame sent, handler's RecvMsg failed with "+normFinal(first))
			}
			if len(rr.SrvRecvRes) > 1 && rr.SrvRecvRes[1] == "nil" {
				add("request-cardinality", "second RecvMsg on a single-request method succeeded")
			}
		}
		return out
	}
	if len(rr.RecvRes) == 0 {
		return out
	}
	r := len(ref.Msgs)
	first := rr.RecvRes[0]
	success := first == "nil"
	cancelled := sc.Cancel != ""
	switch {
	case success && (r != 1 || ref.Status != "nil"):
		add("success-despite-cardinality", fmt.Sprintf("handler produced %d responses with status %s, client call succeeded with %v", r, ref.Code, rr.CliRecv))
	case !success && r == 1 && ref.Status == "nil" && !cancelled:
		add("failure-despite-one-response", "client got "+normFinal(first))
	case !success && ref.Status != "nil" && !cancelled && ref.Code != "any" && statusCodeOf(first) != ref.Code && r <= 1:
		add("wrong-status", fmt.Sprintf("handler returned %s, client got %s", ref.Code, normFinal(first)))
	}
	if success && len(rr.CliRecv) != 1 {
		add("not-exactly-one", fmt.Sprintf("%v", rr.CliRecv))
	}
	// a later receive after a successful single response must not deliver another message
	for k := 1; k < len(rr.RecvRes); k++ {
		if rr.RecvRes[k] == "nil" {
			add("second-response-delivered", fmt.Sprintf("receive #%d returned another message: %v", k, rr.CliRecv))
		}
	}
	return out
}
