package main

import (
	"fmt"
	"strings"

	"verif/mc"
)

// C03 (ordering part): headers and trailers arrive complete under every order
// of SetHeader/SendHeader/SendMsg/SetTrailer/return in the handler and of
// Header()/RecvMsg/Trailer() in the client, and under every schedule.

func init() {
	register(&Property{ID: "C03", Timers: true, Scenarios: c03Scenarios, Oracle: c03Oracle})
}

func permutations(a []string) [][]string {
	if len(a) <= 1 {
		return [][]string{append([]string(nil), a...)}
	}
	var out [][]string
	for i := range a {
		rest := append(append([]string(nil), a[:i]...), a[i+1:]...)
		for _, p := range permutations(rest) {
			out = append(out, append([]string{a[i]}, p...))
		}
	}
	return out
}

func c03Scenarios(tier string) []*Scenario {
	var out []*Scenario
	add := func(tr, cancel string, rpc RPC) {
		n := "plain"
		if cancel != "" {
			n = cancel
		}
		out = append(out, sc1("C03", n+"|"+rpcName(rpc), tr, cancel, rpc))
	}
	sets := [][]string{{"h:a", "s0", "t:c"}, {"h:a", "H:b", "s0"}}
	if tier == "thorough" {
		sets = append(sets, []string{"H:b", "s0", "h:d", "t:c"}, []string{"h:a", "s0", "s1", "t:c"})
	}
	clients := [][]string{
		{"S0", "C", "H", "R*", "T"},
		{"S0", "C", "R*", "T", "H"},
		{"S0", "C", "R", "H", "R*", "T"},
	}
	for _, tr := range []string{"inproc", "http"} {
		for _, set := range sets {
			for _, perm := range permutations(set) {
				for _, ret := range []string{"ret:ok", "ret:st:5"} {
					h := cat([]string{"r*"}, perm, []string{ret})
					for ci, c := range clients {
						add(tr, "", RPC{Kind: "bd", Client: c, Handler: h})
						if ci == 0 && (tier == "thorough" || (perm[0] == "h:a" && ret == "ret:ok")) {
							add(tr, "cancel", RPC{Kind: "bd", Client: c, Handler: h})
						}
					}
				}
			}
		}
		// the caller cancels its context once it has what it wanted (`defer cancel()`), then asks for the
		// metadata: a completed call keeps its headers and trailers, and so does one that delivered a message
		for _, ret := range []string{"ret:ok", "ret:st:5"} {
			add(tr, "", RPC{Kind: "bd", Client: []string{"S0", "C", "R*", "X", "H", "T"}, Handler: []string{"r*", "h:a", "s0", "t:c", ret}})
			add(tr, "", RPC{Kind: "ss", Client: []string{"S0", "C", "R", "X", "H", "R*"}, Handler: []string{"r", "h:a", "s0", "s1", "t:c", ret}})
			add(tr, "", RPC{Kind: "cs", Client: []string{"S0", "C", "R*", "X", "T", "H"}, Handler: []string{"r*", "h:a", "s0", "t:c", ret}})
		}
		// no data at all: headers and trailers still travel
		for _, h := range [][]string{{"r*", "h:a", "t:c", "ret:ok"}, {"r*", "h:a", "t:c", "ret:st:5"}, {"r*", "H:b", "t:c", "ret:ok"}, {"r*", "t:c", "ret:st:5"}} {
			add(tr, "", RPC{Kind: "bd", Client: []string{"S0", "C", "H", "R*", "T"}, Handler: h})
			add(tr, "", RPC{Kind: "cs", Client: []string{"S0", "C", "R*", "T", "H"}, Handler: h})
		}
		// client-streaming with one response
		for _, h := range [][]string{{"r*", "h:a", "s0", "t:c", "ret:ok"}, {"r*", "s0", "h:d", "t:c", "ret:ok"}, {"r*", "h:a", "t:c", "s0", "ret:ok"}} {
			add(tr, "", RPC{Kind: "cs", Client: []string{"S0", "C", "H", "R*", "T"}, Handler: h})
			add(tr, "", RPC{Kind: "cs", Client: []string{"S0", "C", "R*", "T", "H"}, Handler: h})
		}
		// unary: grpc.SetHeader / SendHeader / SetTrailer on the handler context
		for _, h := range [][]string{
			{"dec", "h:a", "t:c", "ret:ok"}, {"dec", "t:c", "h:a", "ret:ok"}, {"dec", "h:a", "H:b", "h:d", "t:c", "ret:ok"},
			{"dec", "h:a", "t:c", "ret:st:5"}, {"dec", "H:b", "t:c", "ret:st:5"}, {"h:a", "dec", "t:c", "ret:nil"},
		} {
			add(tr, "", RPC{Kind: "unary", Client: []string{"I"}, Handler: h})
			add(tr, "cancel", RPC{Kind: "unary", Client: []string{"I"}, Handler: h})
		}
		// the context ending while the response is decoded / copied: a call that reports success has its metadata
		for _, h := range [][]string{{"dec", "h:a", "t:c", "ret:ok"}, {"dec", "H:b", "t:c", "ret:ok"}} {
			add(tr, "cancel", RPC{Kind: "unary", Client: []string{"I"}, Handler: h})
			sc := out[len(out)-1]
			sc.Opts = "codec"
			sc.Name += "|codec"
			if tr == "inproc" {
				sc.Cloner = "yield"
			}
		}
		// a goroutine the handler left behind sets headers after the handler returned, while the client has
		// not yet taken the final frames: refused, or else delivered
		if tr == "inproc" {
			for _, ret := range []string{"ret:ok", "ret:st:5"} {
				add(tr, "", RPC{Kind: "bd", Client: []string{"S0", "C", "H", "R*", "T"}, Handler: []string{"r*", "h:a", "go", "t:c", ret}, Handler2: []string{"wd", "h:b"}})
				add(tr, "", RPC{Kind: "ss", Client: []string{"S0", "C", "R*", "H", "T"}, Handler: []string{"r", "go", "s0", "t:c", ret}, Handler2: []string{"wd", "h:b"}})
			}
		}
		// a second handler goroutine sets headers while the first message is being sent: if it was
		// told nil, the pairs reach the caller; otherwise it was refused
		for _, ret := range []string{"ret:ok", "ret:st:5"} {
			add(tr, "", RPC{Kind: "bd", Client: []string{"S0", "C", "H", "R*", "T"}, Handler: []string{"r*", "h:a", "go", "s0", "join", ret}, Handler2: []string{"h:b"}})
			add(tr, "", RPC{Kind: "ss", Client: []string{"S0", "C", "R*", "H"}, Handler: []string{"r", "go", "s0", "s1", "join", ret}, Handler2: []string{"h:b", "t:c"}})
		}
		// two goroutines of one handler set metadata on the same call at once: nothing either of them
		// set (and was told succeeded) may be lost
		for _, pair := range [][2][]string{
			{{"t:c"}, {"t:d"}}, {{"h:a"}, {"h:b"}}, {{"h:a", "t:c"}, {"t:d", "h:b"}}, {{"t:c", "t:e"}, {"t:d"}},
		} {
			for _, ret := range []string{"ret:ok", "ret:st:5"} {
				add(tr, "", RPC{Kind: "unary", Client: []string{"I"}, Handler: cat([]string{"dec", "go"}, pair[0], []string{"join", ret}), Handler2: pair[1]})
				add(tr, "", RPC{Kind: "bd", Client: []string{"S0", "C", "H", "R*", "T"}, Handler: cat([]string{"r*", "go"}, pair[0], []string{"join", "s0", ret}), Handler2: pair[1]})
			}
		}
	}
	return out
}

func c03Oracle(sc *Scenario, rec *Rec, s *mc.Sched) []mc.Violation {
	out := panicViolations(s)
	// scenarios that first run another call to completion (option "seq0": what the library keeps from one
	// call is there for the next) are judged on their last call
	j := 0
	if strings.Contains(sc.Opts, "seq0") {
		j = len(sc.RPCs) - 1
	}
	rr := rec.RPCs[j]
	rpc := &sc.RPCs[j]
	ref := refOf(j, rpc)
	add := func(clause, obs string) { out = append(out, mc.Violation{Clause: clause, Obs: obs, Detail: rr}) }

	// handler side: setting headers after they were sent fails, before that it succeeds
	sent := false
	k, ns := 0, 0
	script := cat(rpc.Handler, rpc.Handler2)
	if len(rpc.Handler2) > 0 {
		script = nil
		racing := false // does the second goroutine run while the first one sends?
		for _, op := range rpc.Handler {
			if op == "join" {
				break
			}
			if len(op) > 1 && op[0] == 's' && op[1] >= '0' && op[1] <= '9' {
				racing = true
			}
		}
		if len(rpc.Handler2) > 0 && rpc.Handler2[0] == "wd" {
			racing = true // runs after the handler's return: accepted means delivered
		}
		if racing {
			// what must arrive is what the handler was told had been accepted
			ref.HdrKeys = nil
			for _, r := range rr.SrvHdrRes {
				if (strings.HasPrefix(r, "h:") || strings.HasPrefix(r, "H:")) && strings.HasSuffix(r, "=nil") {
					ref.HdrKeys = append(ref.HdrKeys, r[2:strings.Index(r, "=")])
				}
			}
		} else {
			// concurrent setters (all before anything is sent): the order of the results is not fixed, each must succeed
			for _, r := range rr.SrvHdrRes {
				if !strings.HasSuffix(r, "=nil") && sc.Cancel == "" {
					add("header-refused", r+" before the headers were sent")
				}
			}
		}
	}
	for _, op := range script {
		switch {
		case strings.HasPrefix(op, "h:") || strings.HasPrefix(op, "H:"):
			if k < len(rr.SrvHdrRes) {
				res := rr.SrvHdrRes[k][strings.Index(rr.SrvHdrRes[k], "=")+1:]
				if sent && res == "nil" {
					add("late-header-accepted", op+" after the headers were sent returned nil")
				}
				if !sent && res != "nil" && sc.Cancel == "" {
					add("header-refused", op+" before the headers were sent returned "+res)
				}
			}
			if op[0] == 'H' && k < len(rr.SrvHdrRes) && strings.HasSuffix(rr.SrvHdrRes[k], "=nil") {
				sent = true // a SendHeader that succeeded
			}
			k++
		case len(op) > 1 && op[0] == 's' && op[1] >= '0' && op[1] <= '9':
			// a send that failed (the context had ended) did not send the headers either
			if ns < len(rr.SrvSendRes) && rr.SrvSendRes[ns] == "nil" {
				sent = true
			}
			ns++
		case strings.HasPrefix(op, "t:") && rpc.Kind == "unary":
			k++ // unary SetTrailer results are recorded in the same list
		}
	}

	success := rr.FinalErr == "nil" || (rpc.Kind != "unary" && rr.FinalErr == "EOF")
	handlerStatus := isStatusRes(rr.FinalErr) && ref.Status != "nil" && statusCodeOf(rr.FinalErr) == ref.Code
	cancelled := sc.Cancel != ""
	complete := success || (handlerStatus && !cancelled)
	if cancelled && !success {
		return out // a cancelled call owes nothing (C04 judges its status)
	}
	if ref.NoResp {
		return out
	}
	if complete {
		if !mdHas(rr.OptHeader, ref.HdrKeys) {
			add("header-missing", fmt.Sprintf("final=%s grpc.Header target=%s want keys %v", normFinal(rr.FinalErr), appMD(rr.OptHeader), ref.HdrKeys))
		}
		if !mdHas(rr.OptTrailer, ref.TrlKeys) {
			add("trailer-missing", fmt.Sprintf("final=%s grpc.Trailer target=%s want keys %v", normFinal(rr.FinalErr), appMD(rr.OptTrailer), ref.TrlKeys))
		}
		// trailers no later than the final status
		if rr.TrlAtFinal != "" && !mdHas(rr.TrlAtFinal, ref.TrlKeys) {
			add("trailer-late", fmt.Sprintf("at the final status the grpc.Trailer target held %s, want keys %v", appMD(rr.TrlAtFinal), ref.TrlKeys))
		}
	}
	// headers no later than the first response message
	if rr.HdrAtFirstRecv != "" && !mdHas(rr.HdrAtFirstRecv, ref.HdrKeys) && rpc.Kind != "unary" {
		add("header-late", fmt.Sprintf("after the first message the grpc.Header target held %s, want keys %v", appMD(rr.HdrAtFirstRecv), ref.HdrKeys))
	}
	// Header() / Trailer() results
	hi, ti, nrecvErr := 0, 0, 0
	ri := 0 // index into rr.RecvRes of the next receive result
	gotMsg := false
	for _, op := range rpc.Client {
		switch op {
		case "R", "R*":
			nrecvErr++
			for ri < len(rr.RecvRes) {
				r := rr.RecvRes[ri]
				ri++
				if r == "nil" {
					gotMsg = true
				}
				if op == "R" || r != "nil" || !rpc.serverStreams() {
					break
				}
			}
		case "H":
			if hi < len(rr.HeaderMD) && gotMsg && len(rpc.Client2) == 0 {
				// headers are observable no later than the first response message: once the caller holds a
				// message, Header() yields them, whatever has happened to the call's context since
				if rr.HeaderRes[hi] != "nil" {
					add("Header()-error-after-message", "a response message had been received, Header() returned "+normFinal(rr.HeaderRes[hi]))
				} else if !mdHas(rr.HeaderMD[hi], ref.HdrKeys) {
					add("Header()-incomplete-after-message", fmt.Sprintf("a response message had been received, Header() returned %s, want keys %v", appMD(rr.HeaderMD[hi]), ref.HdrKeys))
				}
			}
			if hi < len(rr.HeaderMD) {
				if rr.HeaderRes[hi] == "nil" && !mdHas(rr.HeaderMD[hi], ref.HdrKeys) && (complete || !cancelled) {
					add("Header()-incomplete", fmt.Sprintf("Header() returned %s, want keys %v", appMD(rr.HeaderMD[hi]), ref.HdrKeys))
				}
				if rr.HeaderRes[hi] != "nil" && complete {
					add("Header()-error", rr.HeaderRes[hi])
				}
			}
			hi++
		case "T":
			// Trailer() is only meaningful once the stream has ended: in these scripts T always follows R*
			if ti < len(rr.TrailerMD) && complete && rr.FinalErr != "" && !mdHas(rr.TrailerMD[ti], ref.TrlKeys) {
				add("Trailer()-incomplete", fmt.Sprintf("Trailer() returned %s, want keys %v", appMD(rr.TrailerMD[ti]), ref.TrlKeys))
			}
			ti++
		}
	}
	return out
}
