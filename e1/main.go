// Command e1 is the controlled-scheduler harness (engine E1). It is built
// against an instrumented shadow copy of the repository; built against the
// plain repository it runs the same scenario bodies natively (conformance).
//
//	e1 run <prop> [--tier quick|thorough]     orchestrate workers, write evidence
//	e1 worker <prop> <tier> <i>               explore scenario i, print JSON
//	e1 replay <file>                          re-run one recorded schedule
//	e1 native <prop> <tier> <runs>            free-running runs of the same bodies
//	e1 list <prop> <tier>
package main

import (
	"bufio"
	"bytes"
	"encoding/json"
	"fmt"
	"os"
	"os/exec"
	"runtime"
	"runtime/pprof"
	"sort"
	"strconv"
	"strings"
	"sync"
	"time"

	"verif/mc"
	"verif/vlib"
)

// ScenResult is what a worker reports for one scenario.
type ScenResult struct {
	Index          int              `json:"index"`
	Name           string           `json:"name"`
	Transport      string           `json:"transport"`
	States         int              `json:"states"`
	Transitions    int64            `json:"transitions"`
	Executions     int64            `json:"executions"`
	Complete       int64            `json:"complete_executions"`
	MaxDepth       int              `json:"max_depth"`
	Exhaustive     bool             `json:"exhaustive"`
	BoundCompleted int              `json:"preemption_bound_completed"` // -1: unbounded search completed
	CapReason      string           `json:"cap_reason,omitempty"`
	Outcomes       map[string]int64 `json:"outcomes"`
	Views          map[string]int64 `json:"client_views"`
	Found          []mc.Found       `json:"found,omitempty"`
	Err            string           `json:"err,omitempty"`
	WallS          float64          `json:"wall_s"`
	ReplayChecked  int              `json:"replay_checked"`
	Sample         interface{}      `json:"sample,omitempty"`
}

func outcomeOf(sc *Scenario, rec *Rec, s *mc.Sched) string {
	var bl []mc.BlockedInfo
	if s != nil {
		bl = s.Blocked()
	}
	return outcomeStr(sc, rec, bl)
}

func outcomeStr(sc *Scenario, rec *Rec, blocked []mc.BlockedInfo) string {
	var b strings.Builder
	if sc.Transport == "direct" {
		b.WriteString(directView(rec))
	}
	for i, rr := range rec.RPCs {
		fmt.Fprintf(&b, "rpc%d[recv=%s final=%s hdr=%s trl=%s srv=%s ret=%s]", i, strings.Join(rr.CliRecv, ","), strings.Join(rr.Finals, ";"),
			rr.OptHeader, rr.OptTrailer, strings.Join(rr.SrvRecv, ","), rr.HandlerRet)
		if rr.FinalErr == "nil" {
			b.WriteString("ok")
		}
	}
	for _, bl := range blocked {
		fmt.Fprintf(&b, " blocked(%s%s:%s)", bl.Name, bl.Where, bl.Op)
	}
	return b.String()
}

// clientView is the part of an outcome that a free-running native run can
// observe reliably: what the client got (application metadata keys only).
func clientView(sc *Scenario, rec *Rec) string {
	var b strings.Builder
	if sc.Transport == "direct" {
		return directView(rec)
	}
	for i, rr := range rec.RPCs {
		if len(sc.RPCs[i].Client) == 0 {
			continue // a call made from inside a handler: not observable at a defined instant natively
		}
		fmt.Fprintf(&b, "rpc%d[recv=%s final=%s hdr=%s trl=%s]", i, strings.Join(rr.CliRecv, ","), strings.Join(rr.Finals, ";"), appMD(rr.OptHeader), appMD(rr.OptTrailer))
	}
	return b.String()
}

// appMD keeps the k=v-k pairs the handler scripts set and drops transport keys.
func appMD(printed string) string {
	var keep []string
	for _, f := range strings.Fields(strings.Trim(printed, "{}")) {
		if kv := strings.SplitN(f, "=", 2); len(kv) == 2 && kv[1] == "v-"+kv[0] {
			keep = append(keep, f)
		}
	}
	return "{" + strings.Join(keep, " ") + "}"
}

func newExplorer(p *Property, sc *Scenario, bound int, deadline time.Time, sampleSink *[][]uint8) *mc.Explorer {
	var env *Env
	e := &mc.Explorer{Bound: bound, Timers: p.Timers, Deadline: deadline, MaxFound: 40}
	e.Body = func(s *mc.Sched) {
		env = &Env{sc: sc, rec: &Rec{}, hooks: hooksFor(sc)}
		s.User = env
		env.body()
	}
	e.End = func(s *mc.Sched) []mc.Violation {
		env.finalize()
		e.NoteOutcome(outcomeOf(sc, env.rec, s))
		e.NoteOutcome("view:" + clientView(sc, env.rec))
		if sampleSink != nil && len(*sampleSink) < 25 {
			*sampleSink = append(*sampleSink, append([]uint8(nil), s.Choices...))
		}
		return p.Oracle(sc, env.rec, s)
	}
	return e
}

func exploreScenario(p *Property, sc *Scenario, idx int, budget time.Duration) *ScenResult {
	start := time.Now()
	res := &ScenResult{Index: idx, Name: sc.Name, Transport: sc.Transport, BoundCompleted: -2, Outcomes: map[string]int64{}}
	deadline := start.Add(budget)
	seen := map[string]bool{}
	merge := func(e *mc.Explorer) {
		for _, f := range e.Found {
			fp := f.Clause + "|" + f.Obs
			if !seen[fp] {
				seen[fp] = true
				res.Found = append(res.Found, f)
			}
		}
	}
	var samples [][]uint8
	// iterative preemption bounding first: the first counterexample has the fewest preemptions
	maxBound := sc.Bound
	for b := 0; b <= 2; b++ {
		if maxBound >= 0 && b > maxBound {
			break
		}
		e := newExplorer(p, sc, b, deadline, nil)
		e.Run()
		if e.Err != nil {
			res.Err = e.Err.Error()
			return res
		}
		merge(e)
		if e.Capped && e.CapReason != "violation limit" {
			res.CapReason = e.CapReason
			break
		}
		res.BoundCompleted = b
	}
	if maxBound < 0 && res.CapReason == "" {
		e := newExplorer(p, sc, -1, deadline, &samples)
		e.Run()
		if e.Err != nil {
			res.Err = e.Err.Error()
			return res
		}
		merge(e)
		res.States, res.Transitions, res.Executions, res.Complete, res.MaxDepth = e.States, e.Transitions, e.Executions, e.Complete, e.MaxDepth
		res.Outcomes, res.Views = splitViews(e.Outcomes)
		if e.Capped && e.CapReason != "violation limit" {
			res.CapReason = e.CapReason
		} else {
			res.Exhaustive = true
			res.BoundCompleted = -1
		}
	}
	if !res.Exhaustive {
		// report the numbers of the deepest completed bounded search
		b := res.BoundCompleted
		if b < 0 {
			b = 0
		}
		e := newExplorer(p, sc, b, time.Now().Add(budget), &samples)
		e.Run()
		res.States, res.Transitions, res.Executions, res.Complete, res.MaxDepth = e.States, e.Transitions, e.Executions, e.Complete, e.MaxDepth
		res.Outcomes, res.Views = splitViews(e.Outcomes)
	}
	// determinism: replay recorded schedules twice, require identical traces and observations
	check := func(ch []uint8) (string, []mc.Violation, error) {
		e := newExplorer(p, sc, -1, time.Time{}, nil)
		s, vs := e.Replay(ch)
		if e.Err != nil {
			return "", nil, e.Err
		}
		env := s.User.(*Env)
		rb, _ := json.Marshal(env.rec.RPCs)
		tb, _ := json.Marshal(s.Trace)
		return string(tb) + string(rb), vs, nil
	}
	for _, ch := range samples {
		a, _, err1 := check(ch)
		b, _, err2 := check(ch)
		if err1 != nil || err2 != nil || a != b {
			res.Err = fmt.Sprintf("replay of schedule %v is not deterministic (%v %v)", ch, err1, err2)
			return res
		}
		res.ReplayChecked++
	}
	for i := range res.Found {
		f := &res.Found[i]
		_, v1, err1 := check(f.Choices)
		_, v2, err2 := check(f.Choices)
		ok := func(vs []mc.Violation) bool {
			for _, v := range vs {
				if v.Clause == f.Clause && v.Obs == f.Obs {
					return true
				}
			}
			return false
		}
		if err1 != nil || err2 != nil || !ok(v1) || !ok(v2) {
			res.Err = fmt.Sprintf("violation %s|%s does not reproduce on replay (%v %v)", f.Clause, f.Obs, err1, err2)
			return res
		}
		res.ReplayChecked += 2
	}
	if len(samples) > 0 {
		e := newExplorer(p, sc, -1, time.Time{}, nil)
		s, _ := e.Replay(samples[int(vlib.Seed())%len(samples)])
		env := s.User.(*Env)
		res.Sample = map[string]interface{}{"schedule": stepsCompact(s.Trace), "events": env.rec.Events, "outcome": outcomeOf(sc, env.rec, s)}
	}
	res.WallS = time.Since(start).Seconds()
	return res
}

func splitViews(all map[string]int64) (map[string]int64, map[string]int64) {
	o, v := map[string]int64{}, map[string]int64{}
	for k, n := range all {
		if strings.HasPrefix(k, "view:") {
			v[k[5:]] = n
		} else {
			o[k] = n
		}
	}
	return o, v
}

func stepsCompact(tr []mc.Step) []string {
	out := make([]string, 0, len(tr))
	for _, st := range tr {
		n := st.Task
		if st.Name != "" {
			n += "(" + st.Name + ")"
		}
		out = append(out, fmt.Sprintf("%s %s#%d [%d/%d]", n, st.Op, st.Case, st.Choice, st.NAlts))
	}
	return out
}

func budgetFor(tier string) time.Duration {
	if v := os.Getenv("VERIF_SCEN_BUDGET_S"); v != "" {
		n, _ := strconv.Atoi(v)
		return time.Duration(n) * time.Second
	}
	if tier == "thorough" {
		return 300 * time.Second
	}
	return 20 * time.Second
}

func main() {
	if len(os.Args) < 2 {
		fmt.Fprintln(os.Stderr, "usage: e1 run|worker|replay|native|list ...")
		os.Exit(2)
	}
	switch os.Args[1] {
	case "list":
		p := properties[os.Args[2]]
		for i, sc := range p.Scenarios(os.Args[3]) {
			fmt.Printf("%d\t%s\t%s\n", i, sc.Transport, sc.Name)
		}
	case "worker":
		runtime.GOMAXPROCS(1)
		if pf := os.Getenv("VERIF_PROF"); pf != "" {
			f, _ := os.Create(pf)
			pprof.StartCPUProfile(f)
			defer pprof.StopCPUProfile()
		}
		p := properties[os.Args[2]]
		tier := os.Args[3]
		scs := p.Scenarios(tier)
		w := bufio.NewWriter(os.Stdout)
		for _, a := range os.Args[4:] {
			i, _ := strconv.Atoi(a)
			r := exploreScenario(p, scs[i], i, budgetFor(tier))
			b, _ := json.Marshal(r)
			w.Write(b)
			w.WriteString("\n")
			w.Flush()
		}
	case "run":
		os.Exit(cmdRun(os.Args[2]))
	case "replay":
		os.Exit(cmdReplay(os.Args[2]))
	case "native":
		os.Exit(cmdNative(os.Args[2:]))
	default:
		fmt.Fprintln(os.Stderr, "unknown command")
		os.Exit(2)
	}
}

func filterScenarios(scs []*Scenario) []int {
	var idx []int
	f := os.Getenv("VERIF_SCEN_FILTER")
	for i, sc := range scs {
		if f == "" || strings.Contains(sc.Transport+"/"+sc.Name, f) {
			idx = append(idx, i)
		}
	}
	return idx
}

func cmdRun(prop string) int {
	p := properties[prop]
	if p == nil {
		fmt.Fprintln(os.Stderr, "unknown property", prop)
		return 2
	}
	rep := vlib.NewReporter(prop)
	tier := rep.Tier
	scs := p.Scenarios(tier)
	idx := filterScenarios(scs)
	results := make([]*ScenResult, len(scs))
	var mu sync.Mutex
	var wg sync.WaitGroup
	nw := runtime.NumCPU()
	if v := os.Getenv("VERIF_WORKERS"); v != "" {
		nw, _ = strconv.Atoi(v)
	}
	jobs := make(chan int, len(idx))
	for _, i := range idx {
		jobs <- i
	}
	close(jobs)
	var firstErr string
	for w := 0; w < nw; w++ {
		wg.Add(1)
		go func() {
			defer wg.Done()
			for i := range jobs {
				cmd := exec.Command(os.Args[0], "worker", prop, tier, strconv.Itoa(i))
				cmd.Env = append(os.Environ(), "GOMAXPROCS=1")
				var out, errb bytes.Buffer
				cmd.Stdout, cmd.Stderr = &out, &errb
				err := cmd.Run()
				var r ScenResult
				if jerr := json.Unmarshal(bytes.TrimSpace(out.Bytes()), &r); jerr != nil || err != nil {
					mu.Lock()
					if firstErr == "" {
						firstErr = fmt.Sprintf("worker for scenario %d (%s) failed: %v %v\n%s", i, scs[i].Name, err, jerr, tail(errb.String(), 4000))
					}
					mu.Unlock()
					continue
				}
				mu.Lock()
				results[i] = &r
				if r.Err != "" && firstErr == "" {
					firstErr = fmt.Sprintf("scenario %d (%s/%s): %s", i, scs[i].Transport, scs[i].Name, r.Err)
				}
				mu.Unlock()
			}
		}()
	}
	wg.Wait()
	if firstErr != "" {
		fmt.Fprintln(os.Stderr, "INCONCLUSIVE:", firstErr)
		return 2
	}
	// aggregate
	var states int
	var transitions, execs, complete, replayChecked int64
	exhaustive := true
	minBound := -1
	var capped []string
	outcomes := map[string]bool{}
	var samples []interface{}
	perScen := []interface{}{}
	for _, i := range idx {
		r := results[i]
		states += r.States
		transitions += r.Transitions
		execs += r.Executions
		complete += r.Complete
		replayChecked += int64(r.ReplayChecked)
		for o := range r.Outcomes {
			outcomes[scs[i].Transport+"/"+scs[i].Name+"=>"+o] = true
		}
		if !r.Exhaustive {
			exhaustive = false
			capped = append(capped, fmt.Sprintf("%s/%s (bound %d completed; %s)", scs[i].Transport, scs[i].Name, r.BoundCompleted, r.CapReason))
			if minBound == -1 || r.BoundCompleted < minBound {
				minBound = r.BoundCompleted
			}
		}
		if r.Sample != nil {
			samples = append(samples, map[string]interface{}{"scenario": scs[i], "execution": r.Sample})
		}
		perScen = append(perScen, map[string]interface{}{"scenario": scs[i].Transport + "/" + scs[i].Name, "states": r.States, "transitions": r.Transitions,
			"executions": r.Executions, "distinct_outcomes": len(r.Outcomes), "exhaustive": r.Exhaustive, "bound_completed": r.BoundCompleted, "wall_s": r.WallS})
		for _, f := range r.Found {
			fp := fmt.Sprintf("%s|%s|%s|clause=%s|obs=%s", prop, scs[i].Transport, scs[i].Name, f.Clause, f.Obs)
			what := fmt.Sprintf("%s/%s: %s: %s (schedule of %d choices, %d preemptions)", scs[i].Transport, scs[i].Name, f.Clause, f.Obs, len(f.Choices), f.Preempts)
			rep.Violation(fp, what, map[string]interface{}{"engine": "E1", "scenario": scs[i], "choices": f.Choices, "clause": f.Clause, "obs": f.Obs, "detail": f.Detail})
		}
	}
	rewrites := json.RawMessage("null")
	if b, err := os.ReadFile(os.Getenv("VERIF_REWRITES")); err == nil {
		rewrites = b
	}
	native := nativeConformance(prop, tier, scs, idx, results)
	cov := map[string]interface{}{
		"states":                        states,
		"transitions":                   transitions,
		"traces_validated_against_impl": native.Validated,
		"conformance_mismatches":        native.Mismatches,
		"native_runs":                   native.Runs,
		"executions":                    execs,
		"complete_executions":           complete,
		"scenarios":                     len(idx),
		"distinct_outcomes":             len(outcomes),
		"exhaustive":                    exhaustive,
		"preemption_bound_completed":    map[bool]interface{}{true: "unbounded", false: minBound}[exhaustive],
		"capped_scenarios":              capped,
		"replayed_twice_identical":      replayChecked,
		"samples":                       vlib.Samples(samples, 3, rep.Seed),
		"per_scenario":                  perScen,
		"rewrites":                      rewrites,
		"explanation":                   "stateless DFS over every schedule / select choice / cancel and timer instant of each scenario on the instrumented repository sources; states = distinct happens-before state keys, transitions = scheduler steps",
	}
	// the bounded-exhaustive content part of the same property (engine E2), if it ran
	if b, err := os.ReadFile(vlib.EvidenceDir() + "/parts/" + prop + ".e2.json"); err == nil {
		var part map[string]interface{}
		if json.Unmarshal(b, &part) == nil {
			cov["e2_part"] = part["coverage"]
			if v, ok := part["violations"].(float64); ok {
				rep.Violations += int(v)
			}
			if v, ok := part["known_findings_hit"].(float64); ok {
				rep.KnownHits += int(v)
			}
		}
	}
	if states == 0 {
		cov["states"] = 1
	}
	if transitions == 0 {
		cov["transitions"] = 1
	}
	code := rep.Finish("model_checking", cov, []string{
		"sequentially consistent interleavings at synchronisation-operation granularity (complete for data-race-free code)",
		"net/http is replaced by the memhttp model for http scenarios; GC finalizers never run",
		"bounds: scripts as listed in per_scenario",
	})
	fmt.Printf("%s %s: scenarios=%d states=%d transitions=%d executions=%d outcomes=%d exhaustive=%v violations=%d known=%d native_validated=%d\n",
		prop, tier, len(idx), states, transitions, execs, len(outcomes), exhaustive, rep.Violations, rep.KnownHits, native.Validated)
	return code
}

func tail(s string, n int) string {
	if len(s) > n {
		return s[len(s)-n:]
	}
	return s
}

type replayFile struct {
	Property    string `json:"property"`
	Fingerprint string `json:"fingerprint"`
	Replay      struct {
		Scenario *Scenario `json:"scenario"`
		Choices  []uint8   `json:"choices"`
		Clause   string    `json:"clause"`
		Obs      string    `json:"obs"`
	} `json:"replay"`
}

func cmdReplay(path string) int {
	b, err := os.ReadFile(path)
	if err != nil {
		fmt.Fprintln(os.Stderr, err)
		return 2
	}
	var rf replayFile
	if err := json.Unmarshal(b, &rf); err != nil {
		fmt.Fprintln(os.Stderr, err)
		return 2
	}
	p := properties[rf.Property]
	e := newExplorer(p, rf.Replay.Scenario, -1, time.Time{}, nil)
	s, vs := e.Replay(rf.Replay.Choices)
	if e.Err != nil {
		fmt.Fprintln(os.Stderr, "INCONCLUSIVE:", e.Err)
		return 2
	}
	env := s.User.(*Env)
	for _, st := range stepsCompact(s.Trace) {
		fmt.Println("  step", st)
	}
	for _, ev := range env.rec.Events {
		fmt.Printf("  event %s %s -> %s\n", ev.Task, ev.Op, ev.Res)
	}
	fmt.Println("  outcome", outcomeOf(rf.Replay.Scenario, env.rec, s))
	hit := false
	for _, v := range vs {
		fmt.Printf("  violation %s | %s\n", v.Clause, v.Obs)
		if v.Clause == rf.Replay.Clause && v.Obs == rf.Replay.Obs {
			hit = true
		}
	}
	if hit {
		fmt.Printf("VIOLATION property=%s replay=%s\n", rf.Property, path)
		return 1
	}
	fmt.Println("replay: the recorded violation does not occur on this tree")
	return 0
}

func sortedKeys(m map[string]int64) []string {
	k := make([]string, 0, len(m))
	for s := range m {
		k = append(k, s)
	}
	sort.Strings(k)
	return k
}
