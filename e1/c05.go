package main

import (
	"fmt"
	"strings"

	"verif/mc"
)

// C05: stream operations always terminate once the handler returns or the
// context ends; no deadlock, no panic, no leaked library goroutine.

func init() {
	register(&Property{ID: "C05", Timers: true, Scenarios: c05Scenarios, Oracle: c05Oracle})
}

type cliShape struct {
	name   string
	c1, c2 []string
	misuse bool // contains a send that may come after the client's own CloseSend
	inproc bool // only meaningful in-process (full duplex)
}

func c05Scenarios(tier string) []*Scenario {
	var out []*Scenario
	add := func(tr, cancel string, giveUp bool, rpc RPC, opts string) {
		sc := sc1("C05", cancel+"|"+rpcName(rpc), tr, cancel, rpc)
		if cancel == "" {
			sc.Name = "plain|" + rpcName(rpc)
		}
		sc.EnvGiveUp = giveUp
		sc.Opts = opts
		if giveUp {
			sc.Name += "|env=giveup"
		}
		if strings.Contains(opts, "fullduplex") {
			sc.Name += "|env=fullduplex"
		}
		out = append(out, sc)
	}
	bdHandlers := [][2][]string{
		{{"r*", "s0", "s1", "ret:ok"}, nil},
		{{"ret:ok"}, nil},
		{{"ret:st:5"}, nil},
		{{"r", "ret:ok"}, nil},
		{{"s0", "ret:ok"}, nil},
		{{"h:a", "s0", "t:b", "ret:st:5"}, nil},
		{{"go", "r*", "join", "ret:ok"}, {"s0", "s1"}},
		{{"r", "s0", "r", "s1", "r*", "ret:ok"}, nil},
	}
	bdClients := []cliShape{
		{name: "seq", c1: []string{"S0", "S1", "C", "R*"}},
		{name: "par", c1: []string{"S0", "S1", "C"}, c2: []string{"H", "R*"}},
		{name: "after", c1: []string{"S0", "C", "C", "R*", "R", "S1", "H", "T"}, misuse: true},
		{name: "closerace", c1: []string{"S0", "S1"}, c2: []string{"C", "R*"}, misuse: true},
		{name: "recvfirst", c1: []string{"R", "S0", "C", "R*"}, inproc: true},
	}
	if tier == "thorough" {
		bdClients = append(bdClients,
			cliShape{name: "seq3", c1: []string{"S0", "S1", "S2", "C", "R*"}},
			cliShape{name: "par3", c1: []string{"S0", "S1", "S2", "C"}, c2: []string{"R*", "T"}},
		)
		bdHandlers = append(bdHandlers,
			[2][]string{{"r*", "s0", "s1", "s2", "ret:ok"}, nil},
			[2][]string{{"go", "r", "r", "join", "ret:st:5"}, {"s0", "s1", "s2"}},
		)
	}
	for _, tr := range []string{"inproc", "http"} {
		for hi, h := range bdHandlers {
			for _, c := range bdClients {
				if tr == "http" && (c.inproc || len(h[1]) > 0 || hi == 7) {
					continue // full duplex / concurrently sending handler goroutines are in-process only
				}
				rpc := RPC{Kind: "bd", Client: c.c1, Client2: c.c2, Handler: h[0], Handler2: h[1]}
				opts := ""
				if c.misuse {
					opts = "misuse"
				}
				add(tr, "", false, rpc, opts)
				early := !strings.HasPrefix(h[0][0], "r*") && h[0][0] != "go"
				if tr == "http" && early && c.name != "after" {
					add(tr, "", true, rpc, opts)
				}
			}
		}
		// client-streaming and server-streaming shapes
		for _, h := range [][]string{{"r*", "s0", "ret:ok"}, {"ret:st:5"}, {"r", "s0", "ret:ok"}, {"r*", "ret:ok"}} {
			add(tr, "", false, RPC{Kind: "cs", Client: []string{"S0", "S1", "C", "R*"}, Handler: h}, "")
			add(tr, "", false, RPC{Kind: "cs", Client: []string{"S0", "S1", "C"}, Client2: []string{"R*", "T"}, Handler: h}, "")
			if tr == "http" && h[0] != "r*" {
				add(tr, "", true, RPC{Kind: "cs", Client: []string{"S0", "S1", "C", "R*"}, Handler: h}, "")
			}
		}
		// a single-response method whose handler sends too many responses (ignoring what the sends say): an
		// error for the caller, and nobody is left waiting
		for _, h := range [][]string{{"r*", "s0", "s1", "ret:ok"}, {"r*", "s0", "s1", "s2", "ret:ok"}, {"r*", "s0", "s1", "ret:st:5"}} {
			add(tr, "", false, RPC{Kind: "cs", Client: []string{"S0", "C", "R*", "R", "T"}, Handler: h}, "")
			add(tr, "", false, RPC{Kind: "cs", Client: []string{"S0", "C", "R*"}, Client2: []string{"T", "H"}, Handler: h}, "")
		}
		for _, h := range [][]string{{"r", "s0", "s1", "ret:ok"}, {"ret:st:5"}, {"r", "s0", "ret:st:5"}, {"s0", "r", "ret:ok"}} {
			add(tr, "", false, RPC{Kind: "ss", Client: []string{"S0", "C", "R*"}, Handler: h}, "")
			add(tr, "", false, RPC{Kind: "ss", Client: []string{"S0", "C", "H", "R", "R", "R", "T"}, Handler: h}, "")
		}
		// the handler returns early leaving several final frames (headers / trailers / error) while the
		// client is still sending more than the request buffer holds and is not receiving
		for _, h := range [][]string{{"r", "t:b", "ret:st:5"}, {"h:a", "t:b", "ret:st:5"}, {"r", "s0", "ret:st:5"}, {"r", "h:a", "t:b", "ret:ok"}} {
			add(tr, "", false, RPC{Kind: "bd", Client: []string{"S0", "S1", "S2", "C", "R*"}, Handler: h}, "")
			if tr == "http" {
				add(tr, "", true, RPC{Kind: "bd", Client: []string{"S0", "S1", "S2", "C", "R*"}, Handler: h}, "")
			}
		}
		// the handler ends the call (with an error, or just returns) before the client has half-closed, and the
		// client goes on to receive without ever half-closing; over HTTP on a server in full-duplex mode (on
		// an ordinary net/http server the reply to such a call waits for the end of the request, by design)
		for _, h := range [][]string{{"r", "ret:st:5"}, {"ret:st:5"}, {"r", "s0", "ret:st:5"}, {"r", "ret:ok"}, {"r", "h:a", "t:b", "ret:st:5"}} {
			o := ""
			if tr == "http" {
				o = "fullduplex"
			}
			add(tr, "", false, RPC{Kind: "bd", Client: []string{"S0", "R*", "S1", "C"}, Handler: h}, o)
			add(tr, "", false, RPC{Kind: "bd", Client: []string{"S0", "H", "R*"}, Handler: h}, o)
			add(tr, "", false, RPC{Kind: "cs", Client: []string{"S0", "R*", "S1"}, Handler: h}, o)
		}
		// calls made with a context that is already done, one after the other on the same channel
		for _, kind := range []string{"bd", "cs", "ss"} {
			one := RPC{Kind: kind, Client: []string{"S0", "C", "R*", "H", "T"}, Handler: []string{"r*", "s0", "ret:ok"}}
			sc := &Scenario{Prop: "C05", Transport: tr, Bound: -1, Opts: "seq0,precancel,misuse", RPCs: []RPC{one, one}}
			sc.Name = "precancelled|" + rpcName(one) + " >> " + rpcName(one)
			out = append(out, sc)
		}
		// unary handlers that send their headers and then try to set more (refused), or send them twice
		for _, h := range [][]string{{"dec", "H:a", "h:b", "ret:ok"}, {"dec", "H:a", "H:b", "t:c", "ret:ok"}, {"dec", "h:a", "H:b", "h:c", "ret:st:5"}} {
			add(tr, "", false, RPC{Kind: "unary", Client: []string{"I"}, Handler: h}, "")
		}
		// CloseSend from two goroutines at once, also while a SendMsg is held back
		add(tr, "", false, RPC{Kind: "bd", Client: []string{"S0", "C", "R*"}, Client2: []string{"C"}, Handler: []string{"r*", "s0", "ret:ok"}}, "misuse")
		if tr == "inproc" {
			add(tr, "", false, RPC{Kind: "bd", Client: []string{"S0", "S1", "S2", "C", "R*"}, Client2: []string{"C", "C"}, Handler: []string{"w", "ret:ctx"}}, "misuse")
			add(tr, "cancel", false, RPC{Kind: "bd", Client: []string{"S0", "S1", "S2", "C", "R*"}, Client2: []string{"C", "C"}, Handler: []string{"w", "ret:ctx"}}, "misuse")
		}
		// a goroutine the handler left behind keeps using the stream after the handler returned:
		// every such operation returns (an error), none blocks or panics
		if tr == "inproc" {
			for _, h2 := range [][]string{{"wd", "H:x"}, {"wd", "h:x", "t:y"}, {"wd", "s1"}, {"wd", "r"}, {"wd", "H:x", "s1", "r"}} {
				for _, h1 := range [][]string{{"go", "ret:ok"}, {"go", "s0", "ret:ok"}, {"go", "r", "ret:st:5"}} {
					add(tr, "", false, RPC{Kind: "bd", Client: []string{"S0", "C", "R*", "T"}, Handler: h1, Handler2: h2}, "")
				}
			}
		}
		// Trailer() / Header() right after a receive reported the cancellation, while the stream is still
		// completing in the background; and a client that never receives what the handler sent
		add(tr, "cancel", false, RPC{Kind: "bd", Client: []string{"S0", "C", "R*", "T", "R", "T"}, Handler: []string{"r*", "w", "ret:ctx"}}, "")
		add(tr, "cancel", false, RPC{Kind: "ss", Client: []string{"S0", "C", "R", "T", "R*", "H"}, Client2: []string{"T"}, Handler: []string{"r", "s0", "w", "ret:ctx"}}, "")
		add(tr, "cancel", false, RPC{Kind: "bd", Client: []string{"S0", "S1", "C"}, Handler: []string{"r", "s0", "s1", "w", "ret:ctx"}}, "")
		// Header() parked while the context ends before any response header, and issued afterwards
		add(tr, "cancel", false, RPC{Kind: "ss", Client: []string{"S0", "C", "R*", "H"}, Client2: []string{"H"}, Handler: []string{"r", "w", "ret:ctx"}}, "")
		add(tr, "cancel", false, RPC{Kind: "bd", Client: []string{"S0", "C", "H", "R*"}, Handler: []string{"r*", "w", "ret:ctx"}}, "")
		// with a canceller
		add(tr, "cancel", false, RPC{Kind: "bd", Client: []string{"S0", "S1", "C", "R*"}, Handler: []string{"r*", "s0", "s1", "ret:ok"}}, "")
		// ... landing while a message is being encoded / decoded / copied (the codec and the cloner as scheduling points)
		for _, rpc := range []RPC{
			{Kind: "ss", Client: []string{"S0", "C", "R*", "T"}, Handler: []string{"r", "s0", "s1", "ret:ok"}},
			{Kind: "cs", Client: []string{"S0", "S1", "C", "R*", "R"}, Handler: []string{"r*", "s0", "ret:ok"}},
		} {
			add(tr, "cancel", false, rpc, "codec")
			sc := out[len(out)-1]
			sc.Name += "|codec"
			if tr == "inproc" {
				sc.Cloner = "yield"
			}
		}
		add(tr, "cancel", false, RPC{Kind: "bd", Client: []string{"S0", "S1", "C"}, Client2: []string{"R*"}, Handler: []string{"r*", "s0", "ret:ok"}}, "")
		if tr == "inproc" {
			add(tr, "cancel", false, RPC{Kind: "bd", Client: []string{"S0", "S1", "C"}, Client2: []string{"R*"}, Handler: []string{"go", "r*", "join", "ret:ok"}, Handler2: []string{"s0", "s1"}}, "")
			add(tr, "cancel", false, RPC{Kind: "bd", Client: []string{"S0", "S1", "S2"}, Handler: []string{"w", "ret:ctx"}}, "")
		}
	}
	return out
}

func c05Oracle(sc *Scenario, rec *Rec, s *mc.Sched) []mc.Violation {
	out := panicViolations(s)
	if len(out) > 0 {
		return out
	}
	misuse := strings.Contains(sc.Opts, "misuse")
	handlerDone := true
	for _, rr := range rec.RPCs {
		if rr.HandlerRan > 0 && !rr.HandlerDone {
			handlerDone = false
		}
	}
	ctxDone := rec.Cancelled
	blocked := s.Blocked()
	if handlerDone || ctxDone {
		for _, b := range blocked {
			if strings.HasPrefix(b.Where, "client:") || strings.HasPrefix(b.Where, "handler:") {
				cond := "handler-returned"
				if ctxDone {
					cond = "context-done"
				}
				out = append(out, mc.Violation{Clause: "blocked-after-" + cond, Obs: b.Where + " on " + b.Op, Detail: blocked})
			}
		}
	}
	// deadlock: scripts that must run to completion on the (pessimistic) reference model of a stream
	// leave nothing blocked, whether or not the handler got as far as returning
	if !handlerDone && !ctxDone && sc.Cancel == "" && !misuse && len(sc.RPCs) == 1 && sc.Transport == "inproc" && refTerminates(&sc.RPCs[0]) {
		for _, b := range blocked {
			if strings.HasPrefix(b.Where, "client:") || strings.HasPrefix(b.Where, "handler:") {
				out = append(out, mc.Violation{Clause: "deadlock", Obs: b.Where + " on " + b.Op, Detail: blocked})
			}
		}
	}
	for i := range sc.RPCs {
		rpc := &sc.RPCs[i]
		rr := rec.RPCs[i]
		ref := refOf(i, rpc)
		// sends: nil or io.EOF (a cancellation status once the context is done; anything for sends racing the client's own CloseSend)
		if !misuse && sc.Cancel == "" {
			for k, r := range rr.SendRes {
				ok := r == "nil" || r == "EOF" || (sc.Cancel != "" && (statusCodeOf(r) == "Canceled" || statusCodeOf(r) == "DeadlineExceeded"))
				if !ok {
					out = append(out, mc.Violation{Clause: "send-result", Obs: fmt.Sprintf("SendMsg #%d returned %s", k, normFinal(r)), Detail: rr})
				}
			}
		}
		// receives: drain, then the final status
		if sc.Cancel == "" && rr.HandlerDone && len(rr.Finals) > 0 && handlerDone {
			f := rr.Finals[0]
			switch {
			case ref.Status == "nil" && f == "EOF":
			case ref.Status != "nil" && statusCodeOf(f) == ref.Code:
			case !rpc.serverStreams() && isStatusRes(f) && statusCodeOf(f) == "Internal":
				// cardinality violation of a single-response method (C08's business): an error, as it must be
			default:
				// the handler may fail or finish differently when its peer left early; only success-vs-failure confusion is C05's concern here
				if f == "EOF" && ref.Status != "nil" {
					out = append(out, mc.Violation{Clause: "final-status", Obs: fmt.Sprintf("receive ended with EOF, handler returned %s", ref.Code), Detail: rr})
				} else if !isStatusRes(f) && f != "EOF" && !sc.EnvGiveUp {
					// (when the environment tears the connection down the final status may be lost: any error will do)
					out = append(out, mc.Violation{Clause: "final-status", Obs: "receive ended with non-status error " + f, Detail: rr})
				}
			}
			if !isPrefix(rr.CliRecv, ref.Msgs) && rpc.serverStreams() {
				out = append(out, mc.Violation{Clause: "drain", Obs: fmt.Sprintf("received %v, handler sent %v", rr.CliRecv, ref.Msgs), Detail: rr})
			}
		}
		// leak: once the final status has been consumed and the handler is done, no library task remains
		if rr.FinalErr != "" && handlerDone && len(blockedClient(s)) == 0 {
			for _, b := range blocked {
				if b.Lib {
					out = append(out, mc.Violation{Clause: "leaked-library-task", Obs: b.Name + " on " + b.Op, Detail: blocked})
				}
			}
		}
	}
	return out
}
