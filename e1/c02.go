package main

import (
	"fmt"
	"strings"

	"verif/mc"
)

// C02 (schedule part): the client reports success only if the handler returned
// nil and the complete response was received, under every interleaving and
// with a cancellation landing anywhere; without interference the client's final
// status carries the handler's code. (The exhaustive status / message / details
// grammar and the truncation sweep are the E2 part, seq/c02.)

func init() {
	register(&Property{ID: "C02", Timers: true, Scenarios: c02Scenarios, Oracle: c02Oracle})
}

func c02Scenarios(tier string) []*Scenario {
	var out []*Scenario
	add := func(tr, cancel string, rpc RPC) {
		n := "plain"
		if cancel != "" {
			n = cancel
		}
		out = append(out, sc1("C02", n+"|"+rpcName(rpc), tr, cancel, rpc))
	}
	rets := []string{"ret:st:5", "ret:plain", "ret:eof", "ret:canceled", "ret:okerr", "ret:wrapdl"}
	if tier == "thorough" {
		rets = append(rets, "ret:deadline", "ret:st:17", "ret:ok", "ret:wrapcancel")
	}
	for _, tr := range []string{"inproc", "http"} {
		for _, ret := range rets {
			var rpcs []RPC
			rpcs = append(rpcs, RPC{Kind: "unary", Client: []string{"I"}, Handler: []string{"dec", ret}})
			for _, pre := range [][]string{{}, {"s0"}, {"s0", "s1"}} {
				rpcs = append(rpcs, RPC{Kind: "ss", Client: []string{"S0", "C", "R*", "R"}, Handler: cat([]string{"r"}, pre, []string{ret})})
			}
			rpcs = append(rpcs, RPC{Kind: "cs", Client: []string{"S0", "C", "R*", "R"}, Handler: []string{"r*", ret}})
			rpcs = append(rpcs, RPC{Kind: "cs", Client: []string{"S0", "C", "R*", "R"}, Handler: []string{"r*", "s0", ret}})
			rpcs = append(rpcs, RPC{Kind: "bd", Client: []string{"S0", "C", "R*", "R"}, Handler: []string{"r*", "s0", ret}})
			// Header() first: it may consume the very first frame, which can be the error
			rpcs = append(rpcs, RPC{Kind: "ss", Client: []string{"S0", "C", "H", "R*", "R"}, Handler: []string{"r", ret}})
			rpcs = append(rpcs, RPC{Kind: "cs", Client: []string{"S0", "C", "H", "R*", "R"}, Handler: []string{"r*", ret}})
			rpcs = append(rpcs, RPC{Kind: "bd", Client: []string{"S0", "C", "H", "R*", "R"}, Handler: []string{ret}})
			for _, rpc := range rpcs {
				add(tr, "", rpc)
				if ret == "ret:st:5" || (tr == "inproc" && ret != "ret:canceled") {
					add(tr, "cancel", rpc)
				}
			}
			// the same failures with response metadata around them: trailers (and headers) set before or after
			// the responses put more frames between the last response and the status
			if ret == "ret:st:5" || (tier == "thorough" && ret == "ret:plain") {
				for _, rpc := range rpcs {
					h := rpc.Handler
					if len(h) < 2 {
						continue
					}
					for _, deco := range [][]string{
						cat(h[:len(h)-1], []string{"t:b"}, h[len(h)-1:]),
						cat(h[:1], []string{"h:a"}, h[1:len(h)-1], []string{"t:b"}, h[len(h)-1:]),
						cat(h[:1], []string{"t:b"}, h[1:]),
					} {
						r2 := rpc
						r2.Handler = deco
						add(tr, "", r2)
					}
				}
			}
		}
	}
	// a successful handler whose single response the caller gives up on (context done) at any instant:
	// no later receive may report a clean end of stream unless the caller did get the response
	for _, tr := range []string{"inproc", "http"} {
		for _, c := range []string{"cancel", "deadline"} {
			if c == "deadline" && tier != "thorough" {
				continue
			}
			add(tr, c, RPC{Kind: "cs", Client: []string{"S0", "C", "R*", "R", "R"}, Handler: []string{"r*", "s0", "ret:ok"}})
			add(tr, c, RPC{Kind: "cs", Client: []string{"S0", "C", "R*", "R"}, Handler: []string{"r*", "h:a", "s0", "t:b", "ret:ok"}})
		}
	}
	// a call with larger messages first, then one with smaller ones, over a connection whose reads return
	// whatever has arrived (several frames at once): the later call still ends with its handler's status
	for _, tr := range []string{"http", "inproc"} {
		for _, second := range []RPC{
			{Kind: "ss", Client: []string{"S0", "C", "R*", "R"}, Handler: []string{"r", "s0", "ret:st:5"}},
			{Kind: "ss", Client: []string{"S0", "C", "R*", "R"}, Handler: []string{"r", "s0", "s1", "ret:ok"}},
			{Kind: "cs", Client: []string{"S0", "C", "R*", "R"}, Handler: []string{"r*", "s0", "t:b", "ret:st:5"}},
		} {
			first := RPC{Kind: "ss", Client: []string{"S0", "C", "R*"}, Handler: []string{"r", "s0", "s1", "ret:ok"}}
			sc := &Scenario{Prop: "C02", Transport: tr, Bound: -1, Opts: "seq0q,sizes,coalesce", RPCs: []RPC{first, second}}
			sc.Name = "plain|sizes|" + rpcName(first) + " >> " + rpcName(second)
			out = append(out, sc)
		}
	}
	// a response that cannot be encoded (the handler ignores the failed send and returns nil, or fails): the call
	// is not reported as a success
	for _, tr := range []string{"inproc", "http"} {
		for _, rpc := range []RPC{
			{Kind: "ss", Client: []string{"S0", "C", "R*", "R"}, Handler: []string{"r", "s0", "sn", "ret:ok"}},
			{Kind: "ss", Client: []string{"S0", "C", "R*", "R"}, Handler: []string{"r", "sn", "ret:ok"}},
			{Kind: "bd", Client: []string{"S0", "C", "R*", "R"}, Handler: []string{"r*", "sn", "s0", "ret:ok"}},
			{Kind: "cs", Client: []string{"S0", "C", "R*", "R"}, Handler: []string{"r*", "sn", "ret:ok"}},
		} {
			add(tr, "", rpc)
			out[len(out)-1].Name = "unsendable|" + rpcName(rpc)
		}
	}
	// calls made with a context that can never be cancelled (context.Background())
	for _, tr := range []string{"inproc", "http"} {
		for _, rpc := range []RPC{
			{Kind: "unary", Client: []string{"I"}, Handler: []string{"dec", "ret:st:5"}},
			{Kind: "unary", Client: []string{"I"}, Handler: []string{"dec", "ret:plain"}},
			{Kind: "ss", Client: []string{"S0", "C", "R*", "R"}, Handler: []string{"r", "s0", "ret:st:5"}},
			{Kind: "cs", Client: []string{"S0", "C", "R*", "R"}, Handler: []string{"r*", "s0", "t:b", "ret:st:5"}},
		} {
			add(tr, "", rpc)
			sc := out[len(out)-1]
			sc.Opts = "bgctx"
			sc.Name += "|ctx=background"
		}
	}
	// the handlers behind a middleware whose ResponseWriter has no Flush (the reply leaves when the handler returns)
	for _, rpc := range []RPC{
		{Kind: "unary", Client: []string{"I"}, Handler: []string{"dec", "ret:st:5"}},
		{Kind: "ss", Client: []string{"S0", "C", "R*", "R"}, Handler: []string{"r", "s0", "ret:st:5"}},
		{Kind: "ss", Client: []string{"S0", "C", "R*", "R"}, Handler: []string{"r", "s0", "s1", "ret:ok"}},
		{Kind: "cs", Client: []string{"S0", "C", "R*", "R"}, Handler: []string{"r*", "s0", "ret:st:5"}},
		{Kind: "bd", Client: []string{"S0", "C", "H", "R*", "R"}, Handler: []string{"r*", "h:a", "s0", "t:b", "ret:st:5"}},
	} {
		add("http", "", rpc)
		sc := out[len(out)-1]
		sc.Opts = "noflush"
		sc.Name += "|env=noflush"
	}
	// Header() asked for by another goroutine while the receive is under way: the failure still reaches the receiver
	for _, tr := range []string{"inproc", "http"} {
		for _, ret := range []string{"ret:st:5", "ret:plain"} {
			add(tr, "", RPC{Kind: "ss", Client: []string{"S0", "C", "R*", "R"}, Client2: []string{"H"}, Handler: []string{"r", ret}})
			add(tr, "", RPC{Kind: "cs", Client: []string{"S0", "C", "R*", "R"}, Client2: []string{"H"}, Handler: []string{"r*", ret}})
			add(tr, "", RPC{Kind: "bd", Client: []string{"S0", "C", "R*", "R"}, Client2: []string{"H", "H"}, Handler: []string{"r*", "s0", ret}})
		}
	}
	// the handler ends the call while the client's request stream is still open (no CloseSend yet)
	for _, tr := range []string{"inproc", "http"} {
		for _, h := range [][]string{{"r", "ret:st:9"}, {"r", "s0", "ret:st:9"}, {"r", "h:a", "t:b", "ret:st:9"}} {
			add(tr, "", RPC{Kind: "bd", Client: []string{"S0", "R*", "R"}, Handler: h})
		}
		add(tr, "", RPC{Kind: "cs", Client: []string{"S0", "R*", "R"}, Handler: []string{"r", "ret:st:9"}})
		if tr == "http" {
			// on a server in full-duplex mode the reply does not wait for the end of the request
			for _, h := range [][]string{{"r", "ret:st:9"}, {"ret:st:9"}, {"r", "s0", "ret:st:9"}, {"r", "h:a", "t:b", "ret:st:9"}} {
				for _, kind := range []string{"bd", "cs"} {
					add(tr, "", RPC{Kind: kind, Client: []string{"S0", "R*", "R"}, Handler: h})
					sc := out[len(out)-1]
					sc.Opts = "fullduplex"
					sc.Name += "|env=fullduplex"
				}
			}
		}
		if tr == "http" {
			// the same with the server answering before the request has ended (net/http gives up
			// waiting for the rest of a long upload and closes the connection after the reply)
			for _, h := range [][]string{{"r", "ret:st:9"}, {"r", "s0", "ret:st:9"}} {
				add(tr, "", RPC{Kind: "bd", Client: []string{"S0", "R*", "R"}, Handler: h})
				sc := out[len(out)-1]
				sc.EnvGiveUp = true
				sc.Name += "|env=giveup"
			}
		}
	}
	// the handler ends the call with a status of its own once its context is done, and the
	// server-side deadline (armed from GRPC-Timeout) may pass before the caller's own timer fires:
	// the caller sees that status or its own DeadlineExceeded / Canceled, nothing else
	for _, tr := range []string{"inproc", "http"} {
		for _, c := range []string{"deadline", "cancel"} {
			add(tr, c, RPC{Kind: "ss", Client: []string{"S0", "C", "R*", "R"}, Handler: []string{"r", "w", "ret:st:10"}})
			add(tr, c, RPC{Kind: "ss", Client: []string{"S0", "C", "R*", "R"}, Handler: []string{"r", "s0", "w", "ret:st:10"}})
			add(tr, c, RPC{Kind: "cs", Client: []string{"S0", "C", "R*", "R"}, Handler: []string{"r*", "w", "ret:st:10"}})
			if tier == "thorough" {
				add(tr, c, RPC{Kind: "unary", Client: []string{"I"}, Handler: []string{"dec", "w", "ret:st:10"}})
				add(tr, c, RPC{Kind: "bd", Client: []string{"S0", "C", "R*", "R"}, Handler: []string{"r*", "s0", "w", "ret:st:10"}})
			}
		}
	}
	return out
}

func c02Oracle(sc *Scenario, rec *Rec, s *mc.Sched) []mc.Violation {
	out := panicViolations(s)
	// scenarios that first run another call to completion (option "seq0": what the library keeps from one
	// call is there for the next) are judged on their last call
	j := 0
	if strings.Contains(sc.Opts, "seq0") {
		j = len(sc.RPCs) - 1
	}
	rr := rec.RPCs[j]
	rpc := &sc.RPCs[j]
	ref := refOf(j, rpc)
	add := func(clause, obs string) { out = append(out, mc.Violation{Clause: clause, Obs: obs, Detail: rr}) }
	complete := eqStrs(rr.CliRecv, ref.Msgs)
	for k, res := range rr.RecvRes {
		success := false
		switch {
		case rpc.Kind == "unary":
			success = res == "nil"
		case rpc.serverStreams():
			success = res == "EOF"
		default: // single response: nil on the first receive, EOF afterwards
			success = (k == 0 && res == "nil") || (k > 0 && res == "EOF" && rr.RecvRes[0] == "nil")
		}
		if success && (ref.Status != "nil" || !complete) {
			add("success-on-failure", fmt.Sprintf("receive #%d reported %s after %d/%d messages although the handler returned %s", k, res, len(rr.CliRecv), len(ref.Msgs), ref.Code))
		}
		if !rpc.serverStreams() && rpc.Kind != "unary" && k > 0 && res == "EOF" && rr.RecvRes[0] != "nil" && ref.Status == "nil" && !complete {
			// the first receive gave up (context done) and a later one says the stream ended cleanly: that is
			// "success" reported for a response the caller never obtained
			add("clean-end-without-response", fmt.Sprintf("receive #0 reported %s, receive #%d reported EOF, the caller never obtained the response", normFinal(rr.RecvRes[0]), k))
		}
		if res == "nil" && rpc.serverStreams() {
			continue // a message
		}
		if sc.Cancel != "" && !success && res != "nil" && !(res == "EOF" && (k > 0 || ref.Status == "nil")) {
			// interfered with: the handler's status or the cancellation's, nothing else
			want := map[string]string{"cancel": "Canceled", "deadline": "DeadlineExceeded"}[sc.Cancel]
			if c := statusCodeOf(res); c != want && (ref.Status == "nil" || (ref.Code != "any" && c != ref.Code)) {
				add("foreign-status", fmt.Sprintf("handler returned %s, the context ended (%s), receive #%d reported %s", ref.Code, want, k, normFinal(res)))
			}
		}
		if sc.Cancel == "" && !success && res != "nil" && ref.Status != "nil" {
			// undisturbed: the handler's status, exactly
			if ref.Code != "any" && statusCodeOf(res) != ref.Code && !(res == "EOF" && k > 0) {
				add("wrong-status", fmt.Sprintf("handler returned %s, receive #%d reported %s", ref.Code, k, normFinal(res)))
			}
		}
	}
	if strings.HasPrefix(sc.Name, "unsendable|") {
		// one of the responses could not be encoded: whatever else happens, no receive reports a clean end
		for k, res := range rr.RecvRes {
			if (rpc.serverStreams() && res == "EOF") || (!rpc.serverStreams() && ((k == 0 && res == "nil") || (k > 0 && res == "EOF" && rr.RecvRes[0] == "nil"))) {
				add("success-despite-unsendable-response", fmt.Sprintf("receive #%d reported %s although a response of the handler could not be encoded", k, res))
			}
		}
	}
	if sc.Cancel == "" && len(rr.RecvRes) > 0 && ref.Status == "nil" && !complete && !strings.HasPrefix(sc.Name, "unsendable|") {
		add("incomplete", fmt.Sprintf("received %v, handler sent %v", rr.CliRecv, ref.Msgs))
	}
	return out
}
