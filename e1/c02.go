package main

import (
	"fmt"

	"verif/mc"
)

// C02 (schedule part): the client reports success only if the handler returned
// nil and the complete response was received, under every interleaving and
// with a cancellation landing anywhere; without interference the client's final
// status carries the handler's code. (The exhaustive status / message / details
// grammar and the truncation sweep are the E2 part, seq/c02.)

func init() {
	register(&Property{ID: "C02", Timers: true, Scenarios: c02Scenarios, Oracle: c02Oracle})
}

func c02Scenarios(tier string) []*Scenario {
	var out []*Scenario
	add := func(tr, cancel string, rpc RPC) {
		n := "plain"
		if cancel != "" {
			n = cancel
		}
		out = append(out, sc1("C02", n+"|"+rpcName(rpc), tr, cancel, rpc))
	}
	rets := []string{"ret:st:5", "ret:plain", "ret:eof", "ret:canceled", "ret:okerr", "ret:wrapdl"}
	if tier == "thorough" {
		rets = append(rets, "ret:deadline", "ret:st:17", "ret:ok", "ret:wrapcancel")
	}
	for _, tr := range []string{"inproc", "http"} {
		for _, ret := range rets {
			var rpcs []RPC
			rpcs = append(rpcs, RPC{Kind: "unary", Client: []string{"I"}, Handler: []string{"dec", ret}})
			for _, pre := range [][]string{{}, {"s0"}, {"s0", "s1"}} {
				rpcs = append(rpcs, RPC{Kind: "ss", Client: []string{"S0", "C", "R*", "R"}, Handler: cat([]string{"r"}, pre, []string{ret})})
			}
			rpcs = append(rpcs, RPC{Kind: "cs", Client: []string{"S0", "C", "R*", "R"}, Handler: []string{"r*", ret}})
			rpcs = append(rpcs, RPC{Kind: "cs", Client: []string{"S0", "C", "R*", "R"}, Handler: []string{"r*", "s0", ret}})
			rpcs = append(rpcs, RPC{Kind: "bd", Client: []string{"S0", "C", "R*", "R"}, Handler: []string{"r*", "s0", ret}})
			// Header() first: it may consume the very first frame, which can be the error
			rpcs = append(rpcs, RPC{Kind: "ss", Client: []string{"S0", "C", "H", "R*", "R"}, Handler: []string{"r", ret}})
			rpcs = append(rpcs, RPC{Kind: "cs", Client: []string{"S0", "C", "H", "R*", "R"}, Handler: []string{"r*", ret}})
			rpcs = append(rpcs, RPC{Kind: "bd", Client: []string{"S0", "C", "H", "R*", "R"}, Handler: []string{ret}})
			for _, rpc := range rpcs {
				add(tr, "", rpc)
				if ret == "ret:st:5" || (tr == "inproc" && ret != "ret:canceled") {
					add(tr, "cancel", rpc)
				}
			}
		}
	}
	return out
}

func c02Oracle(sc *Scenario, rec *Rec, s *mc.Sched) []mc.Violation {
	out := panicViolations(s)
	rr := rec.RPCs[0]
	rpc := &sc.RPCs[0]
	ref := refOf(0, rpc)
	add := func(clause, obs string) { out = append(out, mc.Violation{Clause: clause, Obs: obs, Detail: rr}) }
	complete := eqStrs(rr.CliRecv, ref.Msgs)
	for k, res := range rr.RecvRes {
		success := false
		switch {
		case rpc.Kind == "unary":
			success = res == "nil"
		case rpc.serverStreams():
			success = res == "EOF"
		default: // single response: nil on the first receive, EOF afterwards
			success = (k == 0 && res == "nil") || (k > 0 && res == "EOF" && rr.RecvRes[0] == "nil")
		}
		if success && (ref.Status != "nil" || !complete) {
			add("success-on-failure", fmt.Sprintf("receive #%d reported %s after %d/%d messages although the handler returned %s", k, res, len(rr.CliRecv), len(ref.Msgs), ref.Code))
		}
		if res == "nil" && rpc.serverStreams() {
			continue // a message
		}
		if sc.Cancel == "" && !success && res != "nil" && ref.Status != "nil" {
			// undisturbed: the handler's status, exactly
			if ref.Code != "any" && statusCodeOf(res) != ref.Code && !(res == "EOF" && k > 0) {
				add("wrong-status", fmt.Sprintf("handler returned %s, receive #%d reported %s", ref.Code, k, normFinal(res)))
			}
		}
	}
	if sc.Cancel == "" && len(rr.RecvRes) > 0 && ref.Status == "nil" && !complete {
		add("incomplete", fmt.Sprintf("received %v, handler sent %v", rr.CliRecv, ref.Msgs))
	}
	return out
}
