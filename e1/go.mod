module verif/e1

go 1.21

require (
	github.com/fullstorydev/grpchan v0.0.0
	github.com/golang/protobuf v1.5.4
	github.com/jhump/protoreflect v1.15.6
	google.golang.org/grpc v1.57.1
	verif/mc v0.0.0
	verif/vlib v0.0.0
)

require (
	github.com/bufbuild/protocompile v0.9.0 // indirect
	golang.org/x/net v0.23.0 // indirect
	golang.org/x/sys v0.18.0 // indirect
	golang.org/x/text v0.14.0 // indirect
	google.golang.org/genproto/googleapis/rpc v0.0.0-20240318140521-94a12d6c2237 // indirect
	google.golang.org/protobuf v1.33.0 // indirect
)

replace github.com/fullstorydev/grpchan => /repo

replace verif/mc => /verif/mc

replace verif/vlib => /verif/vlib
