package main

import (
	"bytes"
	"fmt"
	"net/http"
	"net/http/httptest"
	"strconv"
	"strings"
	"time"

	"github.com/fullstorydev/grpchan/httpgrpc"
	"github.com/golang/protobuf/proto"

	"verif/mc"
)

// C09, schedule part: every call's deadline reaches *its own* handler. The
// content part (seq/c09) decides the encoding and parsing of every duration and
// header string sequentially; here two or three calls with different deadlines
// are in flight at once over the HTTP transport, under every schedule of the
// instrumented sources. The virtual clock stands still (no timer fires, nothing
// sleeps), so the time a handler's context has left must equal the caller's
// timeout exactly — neither extended nor shortened by a concurrent call — and a
// call without a deadline must reach its handler without one.

func init() {
	register(&Property{ID: "C09", Timers: false, Scenarios: c09Scenarios, Oracle: c09Oracle})
}

func c09Scenarios(tier string) []*Scenario {
	var out []*Scenario
	unary := func(d string) RPC {
		return RPC{Kind: "unary", Client: []string{"I"}, Handler: []string{"dec", "dl", "ret:ok"}, Timeout: d}
	}
	stream := func(d string) RPC {
		return RPC{Kind: "ss", Client: []string{"S0", "C", "R*"}, Handler: []string{"r", "dl", "s0", "ret:ok"}, Timeout: d}
	}
	add := func(bound int, rpcs ...RPC) {
		n := ""
		for i, r := range rpcs {
			if i > 0 {
				n += " || "
			}
			d := r.Timeout
			if d == "" {
				d = "none"
			}
			n += r.Kind + "@" + d
		}
		out = append(out, &Scenario{Prop: "C09", Name: "concurrent-deadlines|" + n, Transport: "http", RPCs: rpcs, Bound: bound})
	}
	ds := []string{"1h", "5s", ""}
	for i, a := range ds {
		for _, b := range ds[i:] {
			add(-1, unary(a), unary(b))
			add(-1, unary(a), stream(b))
		}
	}
	// the same question at the narrowest seam, where it can be answered exhaustively: requests served
	// straight into the server by 2-3 tasks; with "seq0" request 0 is served before the others start,
	// so whatever the server remembers about an earlier request is there when later ones overlap
	direct := func(seq bool, ds ...string) {
		var rpcs []RPC
		var tasks [][]string
		n := ""
		for i, d := range ds {
			rpcs = append(rpcs, unary(d))
			tasks = append(tasks, []string{fmt.Sprintf("post:%d", i)})
			if d == "" {
				d = "none"
			}
			n += "|" + d
		}
		sc := &Scenario{Prop: "C09", Name: "served-concurrently" + n, Transport: "direct", RPCs: rpcs, Tasks: tasks, Bound: -1}
		if seq {
			sc.Opts = "seq0"
			sc.Name = "served-after-a-first-request" + n
		}
		out = append(out, sc)
	}
	for _, a := range ds {
		for _, b := range ds {
			direct(false, a, b)
			for _, c := range ds {
				direct(true, a, b, c)
				if tier == "thorough" {
					direct(false, a, b, c)
				}
			}
		}
	}
	if tier == "thorough" {
		add(2, unary("1h"), unary("1h"), unary("5s"))
		add(2, unary("1h"), unary("5s"), unary(""))
	}
	return out
}

// c09Direct serves requests straight into the HTTP server (no client, no network model): the
// narrowest seam that reaches the server's handling of GRPC-Timeout. Operation "post:<i>" sends
// the request of call i (unary method M<i>) with the header its Timeout encodes to.
func (e *Env) c09Direct() func(ti, k int, o string) string {
	srv := httpgrpc.NewServer()
	srv.RegisterService(e.serviceDesc(), &svcImpl{})
	return func(ti, k int, o string) string {
		i, _ := strconv.Atoi(strings.TrimPrefix(o, "post:"))
		body, _ := proto.Marshal(newMsg(i, "c", 0))
		req := httptest.NewRequest("POST", "/t.S/M"+strconv.Itoa(i), bytes.NewReader(body))
		req.Header.Set("Content-Type", httpgrpc.UnaryRpcContentType_V1)
		if d := e.sc.RPCs[i].Timeout; d != "" {
			dur, _ := time.ParseDuration(d)
			req.Header.Set("GRPC-Timeout", fmt.Sprintf("%dm", int64(dur/time.Millisecond)))
		}
		w := httptest.NewRecorder()
		srv.ServeHTTP(w, req)
		if w.Code != http.StatusOK {
			return fmt.Sprintf("http %d %s", w.Code, w.Header().Get("X-GRPC-Status"))
		}
		return "ok"
	}
}

func c09Oracle(sc *Scenario, rec *Rec, s *mc.Sched) []mc.Violation {
	out := panicViolations(s)
	if sc.Transport == "direct" {
		for _, ev := range rec.Events {
			if strings.Contains(ev.Op, ":post:") && ev.Res != "ok" {
				out = append(out, mc.Violation{Clause: "request-failed", Obs: ev.Op + ": " + ev.Res})
			}
		}
	}
	for i := range sc.RPCs {
		rpc := &sc.RPCs[i]
		rr := rec.RPCs[i]
		want := "none"
		if rpc.Timeout != "" {
			d, _ := time.ParseDuration(rpc.Timeout)
			want = d.String()
		}
		for _, got := range rr.SrvDeadline {
			if got != want {
				out = append(out, mc.Violation{Clause: "handler-deadline", Obs: fmt.Sprintf("rpc%d: caller's timeout %s, handler's context has %s left", i, want, got), Detail: rr})
			}
		}
		if rr.HandlerDone && len(rr.SrvDeadline) == 0 {
			out = append(out, mc.Violation{Clause: "harness", Obs: "handler did not record its deadline"})
		}
		if rr.FinalErr != "" && rr.FinalErr != "nil" && rr.FinalErr != "EOF" {
			out = append(out, mc.Violation{Clause: "call-failed", Obs: fmt.Sprintf("rpc%d: %s", i, normFinal(rr.FinalErr)), Detail: rr})
		}
	}
	return out
}
