//go:build race

package main

// raceBuild: the auxiliary race pass. Call-option targets are then not read at the end of a
// native run: when a call ended through cancellation or an error the library's reader goroutine
// may still be filling them, and reading them would be a race of the harness's own making.
const raceBuild = true
