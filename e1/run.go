package main

import (
	"context"
	"errors"
	"fmt"
	"io"
	"net/http"
	"net/http/httptest"
	"net/url"
	"strconv"
	"strings"
	"sync"
	"sync/atomic"
	"time"

	"github.com/fullstorydev/grpchan/grpchantesting"
	"github.com/fullstorydev/grpchan/httpgrpc"
	"github.com/fullstorydev/grpchan/inprocgrpc"
	"google.golang.org/grpc"
	"google.golang.org/grpc/codes"
	"google.golang.org/grpc/metadata"
	"google.golang.org/grpc/status"

	"verif/mc"
)

type Msg = grpchantesting.Message

func tag(rpc int, dir string, seq int) string { return fmt.Sprintf("%d%s%d", rpc, dir, seq) }

func newMsg(rpc int, dir string, seq int) *Msg {
	return &Msg{Payload: []byte(tag(rpc, dir, seq)), Count: int32(seq)}
}

func hdrMD(k string) metadata.MD { return metadata.Pairs(k, "v-"+k) }

// untag is the tag of a received message: its payload without the padding of scenario option "sizes".
func untag(p []byte) string { return strings.TrimRight(string(p), ".") }

// padded gives the messages of a scenario with option "sizes" different, non-trivial sizes per call (the
// earlier call's messages are the larger ones): whatever the library sizes by an earlier message -- a
// recycled buffer, a remembered length -- meets a smaller one later.
func (e *Env) padded(m *Msg, rpc int) *Msg {
	if strings.Contains(e.sc.Opts, "sizes") {
		pad := []int{3000, 1500, 1100}[rpc%3]
		m.Payload = append(m.Payload, []byte(strings.Repeat(".", pad))...)
	}
	return m
}

const scribble = "zzz"

// sendMsg is the message a sender hands to the library for (rpc, dir, seq). Normally a fresh object; with
// scenario option "reuse" every sender keeps ONE object, overwrites it in place before each send (same
// backing array) and scribbles over it as soon as the send has returned -- what the application may do
// with a message it owns again. It also notes if somebody else has written to the object in between.
func (e *Env) sendMsg(rpc int, dir string, seq int) *Msg {
	return e.sendMsgKey(strconv.Itoa(rpc)+dir, rpc, dir, seq)
}

func (e *Env) sendMsgKey(k string, rpc int, dir string, seq int) *Msg {
	if !strings.Contains(e.sc.Opts, "reuse") {
		return e.padded(newMsg(rpc, dir, seq), rpc)
	}
	e.nlock()
	defer e.nunlock()
	if e.reused == nil {
		e.reused = map[string]*Msg{}
	}
	m := e.reused[k]
	if m == nil {
		m = &Msg{Payload: []byte(scribble)}
		e.reused[k] = m
	}
	if !e.native {
		access(m, true)
	}
	if string(m.Payload) != scribble {
		rr := e.rec.RPCs[rpc]
		rr.Monitor = append(rr.Monitor, fmt.Sprintf("alias:the sender's own message object (%s) was changed behind its back to %q", k, m.Payload))
	}
	copy(m.Payload, tag(rpc, dir, seq))
	m.Count = int32(seq)
	return m
}

// sent: the send has returned, the message is the sender's again.
func (e *Env) sent(m *Msg) {
	if !strings.Contains(e.sc.Opts, "reuse") || m == nil || len(m.Payload) != len(scribble) {
		return
	}
	if !e.native {
		access(m, true)
	}
	copy(m.Payload, scribble)
	m.Count = -1
}

// received: the receiver owns what it received and may change it in place.
func (e *Env) received(m *Msg) {
	if !strings.Contains(e.sc.Opts, "reuse") {
		return
	}
	for i := range m.Payload {
		m.Payload[i] = '!'
	}
}

// Env is the closed system of one execution.
type Env struct {
	sc     *Scenario
	rec    *Rec
	ch     grpc.ClientConnInterface
	ctx    context.Context
	cancel context.CancelFunc
	native bool
	wg     sync.WaitGroup // native mode only
	srv    *httptest.Server
	hooks  *hooks
	clis   []*cli
	// native mode only: handler goroutines in flight (the harness must itself be race-free there)
	hStarted, hDone int32
	nmu             sync.Mutex
	hrets           map[int]*hretCh
	reused          map[string]*Msg // Opts "reuse": the one message object each sender keeps sending
	dests           []destRec       // receive destinations and what they held when the call returned
	ctxFor          map[int]context.Context // calls made from inside a handler ("N<j>") use that handler's context
}

// destRec: a destination message the caller passed to Invoke / RecvMsg, with its content at the moment the call
// returned. The caller owns it from then on: at quiescence it must still hold that (finalize).
type destRec struct {
	rpc int
	m   *Msg
	at  string
	op  string
}

func (e *Env) noteDest(rpc int, m *Msg, op string) {
	if e.native {
		return
	}
	e.dests = append(e.dests, destRec{rpc, m, string(m.Payload), op})
}

// finalize reads the call-option targets once everything is quiescent (reading
// them while another client task is still inside the call would be a race of
// the harness's own making).
func (e *Env) finalize() {
	if raceBuild && e.native {
		return
	}
	e.nlock()
	defer e.nunlock()
	for _, d := range e.dests {
		if now := string(d.m.Payload); now != d.at && d.rpc < len(e.rec.RPCs) {
			rr := e.rec.RPCs[d.rpc]
			rr.Monitor = append(rr.Monitor, fmt.Sprintf("late-write:the destination of %s held %q when the call returned and %q at the end: written after the return", d.op, d.at, now))
		}
	}
	for i, c := range e.clis {
		if c != nil && i < len(e.rec.RPCs) {
			e.rec.RPCs[i].OptHeader = mdStr(c.hdr)
			e.rec.RPCs[i].OptTrailer = mdStr(c.trl)
		}
	}
}

// hooks lets a property's scenario builder observe extra things.
type hooks struct {
	cloner inprocgrpc.Cloner
	rec    *recCloner
}

// own / returned bracket a message handed to the library (C06).
func (e *Env) own(m interface{}, tag, call string) *ownedMsg {
	if e.hooks == nil || e.hooks.rec == nil || e.native {
		return nil
	}
	return e.hooks.rec.own(m, tag, call)
}

func (e *Env) goTask(name string, fn func()) {
	if e.native {
		e.wg.Add(1)
		go func() { defer e.wg.Done(); fn() }()
		return
	}
	t := mc.GoNamed(name, fn)
	if name == "canceller" {
		t.Free = true // environment: the cancellation may land anywhere at no preemption cost
	}
}

func (e *Env) where(w string) {
	if !e.native {
		mc.Self().Where = w
	}
}

func waitDone(ctx context.Context, native bool) {
	if native {
		<-ctx.Done()
		return
	}
	mc.Recv(mc.Wrap(ctx.Done()))
}

type svcImpl struct{}

func (e *Env) serviceDesc() *grpc.ServiceDesc {
	d := &grpc.ServiceDesc{ServiceName: "t.S", HandlerType: (*interface{})(nil), Metadata: "e1"}
	same := strings.Contains(e.sc.Opts, "samemethod")
	// which call a request belongs to, when every call of the scenario goes to the same method (option
	// "samemethod": whatever the library keeps per method is shared by the calls): the caller says so in
	// its metadata
	which := func(ctx context.Context, def int) int {
		if md, ok := metadata.FromIncomingContext(ctx); ok && same {
			if v := md.Get("x-rpc"); len(v) > 0 {
				if n, err := strconv.Atoi(v[0]); err == nil && n < len(e.sc.RPCs) {
					return n
				}
			}
		}
		return def
	}
	for i := range e.sc.RPCs {
		i := i
		rpc := &e.sc.RPCs[i]
		name := "M" + strconv.Itoa(i)
		if same && i > 0 {
			break // all calls go to M0 (they are of one kind)
		}
		if same {
			if rpc.Kind == "unary" {
				d.Methods = append(d.Methods, grpc.MethodDesc{MethodName: name,
					Handler: func(srv interface{}, ctx context.Context, dec func(interface{}) error, ic grpc.UnaryServerInterceptor) (interface{}, error) {
						return e.unaryHandler(which(ctx, 0), ctx, dec)
					}})
			} else {
				d.Streams = append(d.Streams, grpc.StreamDesc{StreamName: name,
					ClientStreams: rpc.Kind == "cs" || rpc.Kind == "bd", ServerStreams: rpc.Kind == "ss" || rpc.Kind == "bd",
					Handler: func(srv interface{}, stream grpc.ServerStream) error {
						return e.streamHandler(which(stream.Context(), 0), stream)
					}})
			}
			continue
		}
		if rpc.Kind == "unary" {
			d.Methods = append(d.Methods, grpc.MethodDesc{MethodName: name,
				Handler: func(srv interface{}, ctx context.Context, dec func(interface{}) error, ic grpc.UnaryServerInterceptor) (interface{}, error) {
					return e.unaryHandler(i, ctx, dec)
				}})
		} else {
			d.Streams = append(d.Streams, grpc.StreamDesc{StreamName: name,
				ClientStreams: rpc.Kind == "cs" || rpc.Kind == "bd", ServerStreams: rpc.Kind == "ss" || rpc.Kind == "bd",
				Handler: func(srv interface{}, stream grpc.ServerStream) error { return e.streamHandler(i, stream) }})
		}
	}
	return d
}

var errPlain = errors.New("plain failure")

// okStatusErr is a failure whose GRPCStatus() says OK (an application error type
// with a sloppy status method): the handler did fail, the call must not succeed.
type okStatusErr struct{}

func (okStatusErr) Error() string { return "failure carrying an OK status" }
func (okStatusErr) GRPCStatus() *status.Status {
	return status.New(codes.OK, "failure carrying an OK status")
}

func retErr(op string, ctx context.Context) error {
	switch {
	case op == "ret:ok" || op == "ret:nil" || op == "ret:tnil":
		return nil
	case strings.HasPrefix(op, "ret:st:"):
		c, _ := strconv.Atoi(op[len("ret:st:"):])
		return status.Error(codes.Code(c), "handler status "+op[len("ret:st:"):])
	case op == "ret:ctx":
		return ctx.Err()
	case op == "ret:canceled":
		return context.Canceled
	case op == "ret:deadline":
		return context.DeadlineExceeded
	case op == "ret:eof":
		return io.EOF
	case op == "ret:plain":
		return errPlain
	case op == "ret:okerr":
		return okStatusErr{}
	case op == "ret:wrapdl":
		return fmt.Errorf("backend call: %w", context.DeadlineExceeded)
	case op == "ret:wrapcancel":
		return fmt.Errorf("backend call: %w", context.Canceled)
	}
	panic("bad ret op " + op)
}

func (e *Env) unaryHandler(i int, ctx context.Context, dec func(interface{}) error) (resp interface{}, err error) {
	rr := e.rec.RPCs[i]
	rr.HandlerRan++
	atomic.AddInt32(&e.hStarted, 1)
	tn := fmt.Sprintf("h%d", i)
	defer func() {
		rr.HandlerRet = es(err)
		rr.CtxErrAtRet = es(mc.CtxErrNoYield(ctx))
		rr.HandlerDone = true
		e.rec.ev(tn, "return", rr.HandlerRet)
		atomic.AddInt32(&e.hDone, 1)
	}()
	var joined chan struct{}
	var mjoin *mc.Chan[struct{}]
	for _, op := range e.sc.RPCs[i].Handler {
		switch {
		case op == "dec":
			var m Msg
			err := dec(&m)
			rr.SrvRecvRes = append(rr.SrvRecvRes, es(err))
			if err == nil {
				rr.SrvRecv = append(rr.SrvRecv, untag(m.Payload))
				e.monitorPrefix(i, "srv")
			}
			e.rec.ev(tn, op, es(err))
		case strings.HasPrefix(op, "h:") || strings.HasPrefix(op, "H:") || strings.HasPrefix(op, "t:"):
			e.unaryMetaOp(ctx, rr, op)
		case op == "go":
			// a second goroutine of the handler (a fan-out worker) that sets metadata on the same call
			ops2 := e.sc.RPCs[i].Handler2
			body := func() {
				for _, o := range ops2 {
					e.unaryMetaOp(ctx, rr, o)
				}
			}
			if e.native {
				ch := make(chan struct{})
				joined = ch
				go func() { defer close(ch); body() }()
			} else {
				ch := mc.NewChan[struct{}]()
				mjoin = ch
				mc.GoNamed(tn+"b", func() { body(); mc.Close(ch) })
			}
		case op == "join":
			e.where("handler:join")
			if e.native {
				<-joined
			} else {
				mc.Recv(mjoin)
			}
			e.where("")
		case op == "dl":
			e.noteDeadline(rr, ctx)
		case op == "w":
			e.where("handler:waitctx")
			waitDone(ctx, e.native)
			e.where("")
		case op[0] == 'N':
			// nested call: an in-process (or HTTP) unary call made from inside this handler with the handler's context
			j, _ := strconv.Atoi(op[1:])
			e.nestedCall(j, ctx, tn)
		case strings.HasPrefix(op, "ret:"):
			err := retErr(op, ctx)
			if err != nil {
				return nil, err
			}
			if op == "ret:nil" {
				return nil, nil
			}
			if op == "ret:tnil" {
				return (*Msg)(nil), nil // a typed nil pointer: no response either
			}
			rr.SrvSendAttempt = append(rr.SrvSendAttempt, tag(i, "s", 0))
			return newMsg(i, "s", 0), nil
		default:
			panic("bad unary handler op " + op)
		}
	}
	rr.SrvSendAttempt = append(rr.SrvSendAttempt, tag(i, "s", 0))
	return newMsg(i, "s", 0), nil
}

// unaryMetaOp is grpc.SetHeader / SendHeader / SetTrailer on a unary handler's context.
func (e *Env) unaryMetaOp(ctx context.Context, rr *RPCRec, op string) {
	var err error
	switch op[:2] {
	case "h:":
		err = grpc.SetHeader(ctx, hdrMD(op[2:]))
	case "H:":
		err = grpc.SendHeader(ctx, hdrMD(op[2:]))
	case "t:":
		err = grpc.SetTrailer(ctx, hdrMD(op[2:]))
	default:
		panic("bad unary metadata op " + op)
	}
	e.nlock()
	rr.SrvHdrRes = append(rr.SrvHdrRes, op+"="+es(err))
	e.nunlock()
}

// hretCh is closed when the handler of an RPC returns (op "wd" waits for it).
type hretCh struct {
	n chan struct{}
	m *mc.Chan[struct{}]
}

func (e *Env) hret(i int) *hretCh {
	e.nlock()
	defer e.nunlock()
	if e.hrets == nil {
		e.hrets = map[int]*hretCh{}
	}
	h := e.hrets[i]
	if h == nil {
		h = &hretCh{}
		if e.native {
			h.n = make(chan struct{})
		} else {
			h.m = mc.NewChan[struct{}]()
		}
		e.hrets[i] = h
	}
	return h
}

func (e *Env) streamHandler(i int, stream grpc.ServerStream) (err error) {
	rr := e.rec.RPCs[i]
	rr.HandlerRan++
	atomic.AddInt32(&e.hStarted, 1)
	tn := fmt.Sprintf("h%d", i)
	ctx := stream.Context()
	hr := e.hret(i)
	defer func() {
		rr.HandlerRet = es(err)
		rr.CtxErrAtRet = es(mc.CtxErrNoYield(ctx))
		rr.HandlerDone = true
		e.rec.ev(tn, "return", rr.HandlerRet)
		atomic.AddInt32(&e.hDone, 1)
		if e.native {
			close(hr.n)
		} else {
			mc.Close(hr.m)
		}
	}()
	var joined chan struct{}
	var mjoin *mc.Chan[struct{}]
	return e.handlerOps(i, tn, stream, e.sc.RPCs[i].Handler, &joined, &mjoin)
}

func (e *Env) handlerOps(i int, tn string, stream grpc.ServerStream, ops []string, joined *chan struct{}, mjoin **mc.Chan[struct{}]) error {
	rr := e.rec.RPCs[i]
	ctx := stream.Context()
	for _, op := range ops {
		switch {
		case op == "r+":
			// the usual receive loop of a handler: until io.EOF; any other failure ends the handler with that error
			for {
				var m Msg
				rr.SrvRecvStarted++
				e.where("handler:RecvMsg")
				err := stream.RecvMsg(&m)
				e.where("")
				rr.SrvRecvRes = append(rr.SrvRecvRes, es(err))
				e.rec.ev(tn, "RecvMsg", es(err))
				if err == io.EOF {
					break
				}
				if err != nil {
					return err
				}
				rr.SrvRecv = append(rr.SrvRecv, untag(m.Payload))
				e.monitorPrefix(i, "srv")
				e.received(&m)
			}
		case op == "r" || op == "r*" || op == "r!":
			for {
				var m Msg
				rr.SrvRecvStarted++
				e.where("handler:RecvMsg")
				err := stream.RecvMsg(&m)
				e.where("")
				rr.SrvRecvRes = append(rr.SrvRecvRes, es(err))
				e.rec.ev(tn, "RecvMsg", es(err))
				if err == nil {
					rr.SrvRecv = append(rr.SrvRecv, untag(m.Payload))
					e.monitorPrefix(i, "srv")
					e.received(&m)
				}
				if op == "r!" && err != nil {
					return err // as generated code does: a failed receive ends the handler with that error
				}
				if op == "r" || op == "r!" || err != nil {
					break
				}
			}
		case op == "sn":
			// a message that cannot be sent (nil): SendMsg fails, nothing goes out
			e.where("handler:SendMsg")
			err := stream.SendMsg(nil)
			e.where("")
			e.rec.ev(tn, op, es(err))
		case op == "wd":
			// a goroutine the handler left behind: carries on once the handler has returned
			e.where("handler2:wait-return")
			if e.native {
				<-e.hret(i).n
			} else {
				mc.Recv(e.hret(i).m)
			}
			e.where("")
		case op[0] == 's':
			must := strings.HasPrefix(op, "s!") // as generated code does: a failed send ends the handler with that error
			seq, _ := strconv.Atoi(strings.TrimPrefix(op[1:], "!"))
			rr.SrvSendAttempt = append(rr.SrvSendAttempt, tag(i, "s", seq))
			resp := e.sendMsg(i, "s", seq)
			own := e.own(resp, tag(i, "s", seq), "handler SendMsg")
			e.where("handler:SendMsg")
			err := stream.SendMsg(resp)
			e.where("")
			own.returned()
			e.sent(resp)
			rr.SrvSendRes = append(rr.SrvSendRes, es(err))
			if err == nil {
				rr.SrvSendDone++
				e.monitorBackpressure(i, "srv")
			}
			e.rec.ev(tn, op, es(err))
			if must && err != nil {
				return err
			}
		case strings.HasPrefix(op, "h:"):
			err := stream.SetHeader(hdrMD(op[2:]))
			e.nlock()
			rr.SrvHdrRes = append(rr.SrvHdrRes, op+"="+es(err))
			e.nunlock()
			e.rec.ev(tn, op, es(err))
		case strings.HasPrefix(op, "H:"):
			e.where("handler:SendHeader")
			err := stream.SendHeader(hdrMD(op[2:]))
			e.where("")
			e.nlock()
			rr.SrvHdrRes = append(rr.SrvHdrRes, op+"="+es(err))
			e.nunlock()
			e.rec.ev(tn, op, es(err))
		case strings.HasPrefix(op, "t:"):
			stream.SetTrailer(hdrMD(op[2:]))
			e.rec.ev(tn, op, "")
		case op == "dl":
			e.noteDeadline(rr, ctx)
		case op == "w":
			e.where("handler:waitctx")
			waitDone(ctx, e.native)
			e.where("")
			e.rec.ev(tn, op, "")
		case op == "go":
			ops2 := e.sc.RPCs[i].Handler2
			if e.native {
				ch := make(chan struct{})
				*joined = ch
				go func() { defer close(ch); e.handlerOps(i, tn+"b", stream, ops2, nil, nil) }()
			} else {
				ch := mc.NewChan[struct{}]()
				*mjoin = ch
				mc.GoNamed(tn+"b", func() { e.handlerOps(i, tn+"b", stream, ops2, nil, nil); mc.Close(ch) })
			}
		case op == "join":
			e.where("handler:join")
			if e.native {
				<-*joined
			} else {
				mc.Recv(*mjoin)
			}
			e.where("")
		case op[0] == 'N':
			// a call made from inside this handler with the handler's (stream's) context: a relay / fan-out
			j, _ := strconv.Atoi(op[1:])
			e.nestedCall(j, ctx, tn)
		case strings.HasPrefix(op, "ret:"):
			return retErr(op, ctx)
		default:
			panic("bad handler op " + op)
		}
	}
	return nil
}

// nestedCall makes call j from inside a handler with that handler's context: a unary call directly, a
// stream by running its client script in the handler's task.
func (e *Env) nestedCall(j int, ctx context.Context, tn string) {
	if e.sc.RPCs[j].Kind == "unary" {
		e.nestedInvoke(j, ctx, tn)
		return
	}
	e.nlock()
	if e.ctxFor == nil {
		e.ctxFor = map[int]context.Context{}
	}
	e.ctxFor[j] = ctx
	e.nunlock()
	e.where("")
	e.runRPC(j)
}

// nestedInvoke makes unary call j from inside a handler, with that handler's context.
func (e *Env) nestedInvoke(j int, ctx context.Context, tn string) {
	rr := e.rec.RPCs[j]
	var resp Msg
	rr.SendAttempt = append(rr.SendAttempt, tag(j, "c", 0))
	e.where("handler:nested-Invoke")
	c := &cli{}
	e.nlock()
	e.clis[j] = c
	e.nunlock()
	err := e.ch.Invoke(ctx, e.method(j), newMsg(j, "c", 0), &resp, grpc.Header(&c.hdr), grpc.Trailer(&c.trl))
	e.where("")
	rr.RecvRes = append(rr.RecvRes, es(err))
	if err == nil {
		rr.CliRecv = append(rr.CliRecv, untag(resp.Payload))
	} else {
		rr.Finals = append(rr.Finals, es(err))
	}
	rr.FinalErr = es(err)
	e.rec.ev(tn, "nested-Invoke", es(err))
}

// cli is the client-side state of one RPC, shared by its client tasks.
type cli struct {
	stream grpc.ClientStream
	hdr    metadata.MD
	trl    metadata.MD
}

func (e *Env) method(i int) string {
	if strings.Contains(e.sc.Opts, "samemethod") {
		return "/t.S/M0"
	}
	return "/t.S/M" + strconv.Itoa(i)
}

// rpcCtx is the context of call i: the scenario's context, bounded by the call's own deadline if it has one.
func (e *Env) rpcCtx(i int) context.Context {
	ctx := e.rpcCtx0(i)
	if strings.Contains(e.sc.Opts, "samemethod") {
		ctx = metadata.AppendToOutgoingContext(ctx, "x-rpc", strconv.Itoa(i))
	}
	return ctx
}

func (e *Env) rpcCtx0(i int) context.Context {
	e.nlock()
	octx := e.ctxFor[i]
	e.nunlock()
	if octx != nil {
		return octx
	}
	d := e.sc.RPCs[i].Timeout
	if d == "" {
		return e.ctx
	}
	dur, err := time.ParseDuration(d)
	if err != nil {
		panic(err)
	}
	var ctx context.Context
	if e.native {
		ctx, _ = context.WithTimeout(e.ctx, dur)
	} else {
		ctx, _ = mc.WithTimeout(e.ctx, dur)
	}
	return ctx
}

// noteDeadline records how much time the handler's context has left (op "dl").
func (e *Env) noteDeadline(rr *RPCRec, ctx context.Context) {
	left := "none"
	if dl, ok := ctx.Deadline(); ok {
		if e.native {
			left = "some"
		} else {
			left = mc.TimeUntil(dl).String()
		}
	}
	e.nlock()
	rr.SrvDeadline = append(rr.SrvDeadline, left)
	e.nunlock()
}

// nlock / nunlock protect the observation record in native (free-running) mode,
// where several client tasks and handler goroutines really run in parallel and
// the harness itself must be free of data races; under the controlled scheduler
// only one task runs at a time and they do nothing.
func (e *Env) nlock() {
	if e.native {
		e.nmu.Lock()
	}
}
func (e *Env) nunlock() {
	if e.native {
		e.nmu.Unlock()
	}
}

func (e *Env) clientOps(i int, tn string, c *cli, ops []string) {
	rr := e.rec.RPCs[i]
	rpc := &e.sc.RPCs[i]
	for _, op := range ops {
		switch {
		case op == "I":
			var resp Msg
			rr.SendAttempt = append(rr.SendAttempt, tag(i, "c", 0))
			// (option "reuse": successive unary calls made by one client task hand over the same request object)
			rk := strconv.Itoa(i) + "c"
			if strings.Contains(e.sc.Opts, "seq0") && i <= 1 {
				rk = "root-unary"
			}
			req := e.sendMsgKey(rk, i, "c", 0)
			own := e.own(req, tag(i, "c", 0), "Invoke")
			ownD := e.own(&resp, tag(i, "d", 0), "Invoke")
			e.where("client:Invoke")
			err := e.ch.Invoke(e.rpcCtx(i), e.method(i), req, &resp, e.callOpts(c)...)
			e.where("")
			own.returned()
			ownD.returned()
			e.sent(req)
			e.noteDest(i, &resp, "Invoke")
			e.nlock()
			rr.RecvRes = append(rr.RecvRes, es(err))
			if err == nil {
				rr.CliRecv = append(rr.CliRecv, untag(resp.Payload))
			} else {
				rr.Finals = append(rr.Finals, es(err))
			}
			if rr.FinalErr == "" {
				rr.FinalErr = es(err)
			}
			e.nunlock()
			e.rec.ev(tn, op, es(err))
		case op[0] == 'S' || op[0] == 'E':
			seq, _ := strconv.Atoi(op[1:])
			req := newMsg(i, "c", seq)
			if op[0] == 'S' {
				req = e.sendMsg(i, "c", seq)
			}
			e.nlock()
			if op[0] == 'E' {
				req = &Msg{} // the empty message: zero bytes on the wire
				rr.SendAttempt = append(rr.SendAttempt, "")
			} else {
				rr.SendAttempt = append(rr.SendAttempt, tag(i, "c", seq))
			}
			e.nunlock()
			own := e.own(req, tag(i, "c", seq), "SendMsg")
			e.where("client:SendMsg")
			err := c.stream.SendMsg(req)
			e.where("")
			own.returned()
			if op[0] == 'S' {
				e.sent(req)
			}
			e.nlock()
			rr.SendRes = append(rr.SendRes, es(err))
			if err == nil {
				rr.CliSendDone++
				e.monitorBackpressure(i, "cli")
			}
			e.nunlock()
			e.rec.ev(tn, op, es(err))
		case op == "C":
			e.where("client:CloseSend")
			err := c.stream.CloseSend()
			e.where("")
			e.rec.ev(tn, op, es(err))
		case op == "H":
			e.nlock()
			if rr.CliRecvStarted == 0 {
				rr.CliRecvStarted++ // the first Header() may take a frame off the stream as well; later ones must not
			}
			e.nunlock()
			e.where("client:Header")
			md, err := c.stream.Header()
			e.where("")
			e.nlock()
			rr.HeaderRes = append(rr.HeaderRes, es(err))
			rr.HeaderMD = append(rr.HeaderMD, mdStr(md))
			e.nunlock()
			e.rec.ev(tn, op, mdStr(md)+" "+es(err))
		case op == "T":
			e.where("client:Trailer")
			md := c.stream.Trailer()
			e.where("")
			e.nlock()
			rr.TrailerMD = append(rr.TrailerMD, mdStr(md))
			e.nunlock()
			e.rec.ev(tn, op, mdStr(md))
		case op == "X":
			e.cancel()
			e.rec.Cancelled = true
			e.rec.ev(tn, op, "")
		case op == "R" || op == "R*":
			for {
				var m Msg
				m.Payload = []byte("stale") // a destination is overwritten, never merged
				m.Code = 77
				e.nlock()
				rr.CliRecvStarted++
				e.nunlock()
				ownD := e.own(&m, tag(i, "d", len(rr.RecvRes)), "RecvMsg")
				e.where("client:RecvMsg")
				err := c.stream.RecvMsg(&m)
				e.where("")
				ownD.returned()
				e.nlock()
				rr.RecvRes = append(rr.RecvRes, es(err))
				e.nunlock()
				e.rec.ev(tn, "RecvMsg", es(err))
				e.nlock()
				stop := false
				if err == nil {
					rr.CliRecv = append(rr.CliRecv, untag(m.Payload))
					if rr.HdrAtFirstRecv == "" && len(rpc.Client2) == 0 && !(raceBuild && e.native) {
						rr.HdrAtFirstRecv = mdStr(c.hdr)
					}
					if m.Code == 77 {
						rr.Monitor = append(rr.Monitor, "merge:receive destination was merged, not overwritten")
					}
					e.monitorPrefix(i, "cli")
					e.received(&m)
					e.noteDest(i, &m, "RecvMsg")
					if !rpc.serverStreams() && op == "R*" {
						// single-response method: one receive completes the call
						stop = true
					}
				} else {
					rr.Finals = append(rr.Finals, es(err))
					if rr.FinalErr == "" {
						rr.FinalErr = es(err)
						if len(rpc.Client2) == 0 && !(raceBuild && e.native) {
							rr.TrlAtFinal = mdStr(c.trl)
						}
					}
				}
				e.nunlock()
				if stop || op == "R" || err != nil {
					break
				}
			}
		default:
			panic("bad client op " + op)
		}
	}
}

func (r *RPC) serverStreams() bool { return r.Kind == "ss" || r.Kind == "bd" }
func (r *RPC) clientStreams() bool { return r.Kind == "cs" || r.Kind == "bd" }

// yieldCreds are per-RPC credentials whose retrieval is a scheduling point (the
// caller's context may end before, while or after they are fetched).
type yieldCreds struct{ e *Env }

func (y yieldCreds) GetRequestMetadata(ctx context.Context, uri ...string) (map[string]string, error) {
	if !y.e.native {
		mc.Yield("creds:fetch")
	}
	return map[string]string{"tok": "v-tok"}, nil
}
func (yieldCreds) RequireTransportSecurity() bool { return false }

func (e *Env) callOpts(c *cli) []grpc.CallOption {
	o := []grpc.CallOption{grpc.Header(&c.hdr), grpc.Trailer(&c.trl)}
	if strings.Contains(e.sc.Opts, "creds") {
		o = append(o, grpc.PerRPCCredentials(yieldCreds{e}))
	}
	return o
}

// runRPC runs the client side of RPC i in the calling task (plus Client2 in a spawned task).
func (e *Env) runRPC(i int) {
	rpc := &e.sc.RPCs[i]
	rr := e.rec.RPCs[i]
	tn := fmt.Sprintf("c%d", i)
	c := &cli{}
	e.clis[i] = c
	if rpc.Kind != "unary" {
		desc := &grpc.StreamDesc{StreamName: "M" + strconv.Itoa(i), ClientStreams: rpc.clientStreams(), ServerStreams: rpc.serverStreams()}
		e.where("client:NewStream")
		st, err := e.ch.NewStream(e.rpcCtx(i), desc, e.method(i), e.callOpts(c)...)
		e.where("")
		if err != nil {
			rr.NewStreamErr = es(err)
			rr.FinalErr = es(err)
			e.rec.ev(tn, "NewStream", es(err))
			return
		}
		c.stream = st
	}
	if len(rpc.Client2) > 0 {
		e.goTask(tn+"b", func() { e.clientOps(i, tn+"b", c, rpc.Client2) })
	}
	e.clientOps(i, tn, c, rpc.Client)
}

// monitorPrefix checks, at a receive return, that what this side has received
// is a prefix of what the peer has handed to SendMsg so far (C01).
func (e *Env) monitorPrefix(i int, side string) {
	if e.native {
		return
	}
	rr := e.rec.RPCs[i]
	if side == "cli" {
		if !prefixModuloFailed(rr.CliRecv, rr.SrvSendAttempt, rr.SrvSendRes) {
			rr.Monitor = append(rr.Monitor, fmt.Sprintf("prefix:client received %v but handler sent %v", rr.CliRecv, rr.SrvSendAttempt))
		}
	} else {
		if !prefixModuloFailed(rr.SrvRecv, rr.SendAttempt, rr.SendRes) {
			rr.Monitor = append(rr.Monitor, fmt.Sprintf("prefix:handler received %v but client sent %v", rr.SrvRecv, rr.SendAttempt))
		}
	}
}

// prefixModuloFailed: recv is a prefix of what the peer sent, where a send the
// peer was told had failed (its SendMsg returned an error, e.g. because the
// context had ended) may or may not have gone out.
func prefixModuloFailed(recv, attempts, results []string) bool {
	k := 0
	for _, got := range recv {
		for k < len(attempts) && attempts[k] != got && k < len(results) && results[k] != "nil" {
			k++ // a failed send that did not go out
		}
		if k >= len(attempts) || attempts[k] != got {
			return false
		}
		k++
	}
	return true
}

// monitorBackpressure checks, when a send completes, that the sender is not
// more than one buffered message (+1 in flight at the receiver) ahead (C20).
func (e *Env) monitorBackpressure(i int, side string) {
	if e.sc.Transport != "inproc" || e.native {
		return
	}
	rr := e.rec.RPCs[i]
	if side == "cli" {
		if rr.CliSendDone > rr.SrvRecvStarted+1 {
			rr.Monitor = append(rr.Monitor, fmt.Sprintf("backpressure:client completed %d sends, handler started %d receives", rr.CliSendDone, rr.SrvRecvStarted))
		}
	} else if allowed := rr.CliRecvStarted + 1; rr.SrvSendDone > allowed+e.probeAllowance(i) {
		rr.Monitor = append(rr.Monitor, fmt.Sprintf("backpressure:handler completed %d sends, client started %d receives", rr.SrvSendDone, rr.CliRecvStarted))
	}
}

// probeAllowance: on a single-response method every receive also takes the
// frame it probes for a (forbidden) second response, still a constant.
func (e *Env) probeAllowance(i int) int {
	if !e.sc.RPCs[i].serverStreams() {
		return 1
	}
	return 0
}

// setup builds the channel and service for the scenario.
func (e *Env) setup() {
	sc := e.sc
	codecTracking = strings.Contains(sc.Opts, "codec") && !e.native
	e.clis = make([]*cli, len(sc.RPCs))
	e.rec.RPCs = make([]*RPCRec, len(sc.RPCs))
	for i := range e.rec.RPCs {
		e.rec.RPCs[i] = &RPCRec{}
	}
	desc := e.serviceDesc()
	switch sc.Transport {
	case "inproc":
		ch := &inprocgrpc.Channel{}
		if e.hooks != nil && e.hooks.cloner != nil {
			ch.WithCloner(e.hooks.cloner)
		}
		ch.RegisterService(desc, &svcImpl{})
		e.ch = ch
	case "http":
		var sopts []httpgrpc.ServerOption
		switch {
		case strings.Contains(sc.Opts, "renderer:noop"):
			// an application-supplied error renderer that writes nothing (the reply stays 200 with whatever
			// headers the server set), and one that only adds a header of its own
			sopts = append(sopts, httpgrpc.ErrorRenderer(func(context.Context, *status.Status, http.ResponseWriter) {}))
		case strings.Contains(sc.Opts, "renderer:hdr"):
			sopts = append(sopts, httpgrpc.ErrorRenderer(func(_ context.Context, _ *status.Status, w http.ResponseWriter) {
				w.Header().Set("X-Failure", "yes")
				w.WriteHeader(http.StatusOK)
			}))
		}
		srv := httpgrpc.NewServer(sopts...)
		srv.RegisterService(desc, &svcImpl{})
		if e.native {
			var h http.Handler = srv
			if strings.Contains(sc.Opts, "fullduplex") {
				// the real thing: a middleware that switches the connection to full-duplex mode
				h = http.HandlerFunc(func(w http.ResponseWriter, r *http.Request) {
					http.NewResponseController(w).EnableFullDuplex()
					srv.ServeHTTP(w, r)
				})
			}
			if strings.Contains(sc.Opts, "noflush") {
				inner := h
				h = http.HandlerFunc(func(w http.ResponseWriter, r *http.Request) { inner.ServeHTTP(plainWriter{w}, r) })
			}
			if strings.Contains(sc.Opts, "srvdl") {
				inner := h
				h = http.HandlerFunc(func(w http.ResponseWriter, r *http.Request) {
					ctx, cancel := context.WithTimeout(r.Context(), 1000*time.Hour)
					defer cancel()
					inner.ServeHTTP(w, r.WithContext(ctx))
				})
			}
			e.srv = httptest.NewServer(h)
			u, _ := url.Parse(e.srv.URL)
			e.ch = &httpgrpc.Channel{Transport: http.DefaultTransport, BaseURL: u}
		} else {
			u, _ := url.Parse("http://mem")
			e.ch = &httpgrpc.Channel{Transport: newMemTransport(srv, sc.EnvGiveUp, strings.Contains(sc.Opts, "fullduplex"), strings.Contains(sc.Opts, "srvdl"), strings.Contains(sc.Opts, "noflush"), strings.Contains(sc.Opts, "coalesce")), BaseURL: u}
		}
	case "direct":
	default:
		panic("bad transport " + sc.Transport)
	}
	var base context.Context = context.Background()
	if strings.Contains(sc.Opts, "fardl") && !e.native {
		// the caller's context also carries a deadline far beyond anything that happens in the scenario
		// (its timer never fires): a call that is cancelled explicitly although it has a deadline
		base = farDeadlineCtx{base}
	}
	switch sc.Cancel {
	case "":
		e.ctx, e.cancel = mc.WithCancel(base)
		if strings.Contains(sc.Opts, "bgctx") {
			// a context that can never be cancelled (context.Background() itself: Done() == nil)
			e.ctx, e.cancel = context.Background(), func() {}
		}
	case "cancel":
		e.ctx, e.cancel = mc.WithCancel(base)
	case "deadline":
		e.ctx, e.cancel = mc.WithTimeout(base, time.Hour)
		if !e.native {
			mc.MarkTimerFree(e.ctx) // the caller's deadline may pass anywhere at no preemption cost
		}
	}
}

// body is the root task of an execution.
func (e *Env) body() {
	if e.ch == nil {
		e.setup()
	}
	if e.sc.Transport == "direct" {
		e.directBody()
		return
	}
	if e.sc.Cancel == "cancel" {
		e.goTask("canceller", func() {
			e.cancel()
			e.rec.Cancelled = true
			e.rec.ev("canceller", "cancel", "")
		})
	}
	if strings.Contains(e.sc.Opts, "fardl") && !e.native {
		mc.SetTimers(false) // the far deadline never passes within the scenario: neither does the server's copy of it
	}
	if strings.Contains(e.sc.Opts, "timers") && !e.native {
		mc.SetTimers(true) // deadline timers of individual calls may fire in this scenario
	}
	if strings.Contains(e.sc.Opts, "precancel") {
		// every call of the scenario is made with a context that is already done
		e.cancel()
		e.rec.Cancelled = true
	}
	first := 0
	if strings.Contains(e.sc.Opts, "seq0") {
		// call 0 runs to completion before the others start: whatever the library remembers
		// from one call is there when the next ones overlap
		// ("seq0q": along one schedule only -- the state it leaves behind is what matters, and exploring the
		// first call's schedules as well multiplies the space of the calls that follow)
		quiet := strings.Contains(e.sc.Opts, "seq0q") && !e.native
		if quiet {
			mc.SetQuiet(true)
		}
		e.runRPC(0)
		if quiet {
			mc.SetQuiet(false)
		}
		first = 1
	}
	for i := first + 1; i < len(e.sc.RPCs); i++ {
		i := i
		if len(e.sc.RPCs[i].Client) == 0 || e.sc.RPCs[i].Nested {
			continue // driven from inside another RPC's handler ("N<i>")
		}
		e.goTask(fmt.Sprintf("c%d", i), func() { e.runRPC(i) })
	}
	e.runRPC(first)
}
