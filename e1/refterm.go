package main

import "strings"

// refTerminates decides, on a deliberately pessimistic reference model of a
// stream, whether the scripts of an RPC must run to completion when nothing
// interferes (no cancellation, no misuse). The model: the two directions are
// independent, every transfer is a rendezvous (capacity 0: a send completes
// only against a peer that is receiving), header frames travel like messages,
// and the guarantees of the properties themselves hold (once the handler has
// returned, sends complete at once and receives yield the final status;
// CloseSend, SetHeader, SetTrailer, Trailer never block). The library buffers
// at least as much as that, and in a network of sequential tasks connected by
// FIFO queues more capacity never turns a terminating run into a deadlock; so
// when this model terminates the real stream must, and a task left blocked at
// quiescence is a deadlock of the library, not of the script.
// The answer is false (no verdict) for anything the model does not cover.
func refTerminates(rpc *RPC) bool {
	if rpc.Kind == "unary" {
		return false
	}
	type task struct {
		ops  []string
		pc   int
		star bool // inside an R* / r* loop
	}
	ts := map[string]*task{"c1": {ops: rpc.Client}, "c2": {ops: rpc.Client2}, "h1": {ops: rpc.Handler}}
	h2started := false
	closed, handlerDone, headersSent, bail := false, false, false, false
	cur := func(t *task) string {
		if t == nil || t.pc >= len(t.ops) {
			return ""
		}
		return t.ops[t.pc]
	}
	done := func(t *task) bool { return t == nil || t.pc >= len(t.ops) }
	isSend := func(op string) bool {
		return len(op) > 1 && (op[0] == 'S' || op[0] == 'E' || op[0] == 's') && op[1] >= '0' && op[1] <= '9'
	}
	for step := 0; step < 1000; step++ {
		progressed := false
		adv := func(t *task) { t.pc++; t.star = false; progressed = true }
		// local (non-blocking) steps
		for name, t := range ts {
			op := cur(t)
			switch {
			case op == "":
			case op == "C":
				closed = true
				adv(t)
			case op == "T" || strings.HasPrefix(op, "h:") || strings.HasPrefix(op, "t:"):
				adv(t)
			case op == "go":
				ts["h2"] = &task{ops: rpc.Handler2}
				h2started = true
				adv(t)
			case op == "join":
				if done(ts["h2"]) {
					adv(t)
				}
			case strings.HasPrefix(op, "ret:"):
				if op == "ret:ctx" {
					return false
				}
				if name == "h1" {
					t.pc = len(t.ops)
					handlerDone = true
					progressed = true
				} else {
					return false
				}
			case op == "w" || op == "X" || op == "I" || op == "dec" || op[0] == 'N':
				return false
			case name[0] == 'c' && isSend(op) && handlerDone:
				adv(t) // a send after the handler returned completes at once (nil or EOF)
			case name[0] == 'c' && isSend(op) && closed:
				return false // misuse
			case name[0] == 'c' && (op == "R" || op == "R*" || op == "H") && handlerDone:
				// receives drain and then yield the final status
				pendingSend := false
				for _, hn := range []string{"h1", "h2"} {
					if isSend(cur(ts[hn])) || strings.HasPrefix(cur(ts[hn]), "H:") {
						pendingSend = true
					}
				}
				if !pendingSend {
					adv(t)
				}
			case name[0] == 'h' && (op == "r" || op == "r*") && closed:
				// EOF once the client half-closed and nothing is left to take
				pendingSend := false
				for _, cn := range []string{"c1", "c2"} {
					if isSend(cur(ts[cn])) {
						pendingSend = true
					}
				}
				if !pendingSend {
					adv(t)
				}
			case name[0] == 'c' && op == "H" && headersSent:
				adv(t)
			}
		}
		if done(ts["h1"]) && !handlerDone {
			handlerDone = true // the script ran off its end: the handler returned nil
			progressed = true
		}
		// rendezvous: one sender against one receiver per direction
		pair := func(senders, receivers []string, sendOK func(string) bool, recvOK func(string) bool) {
			for _, sn := range senders {
				s := ts[sn]
				if s == nil || !sendOK(cur(s)) {
					continue
				}
				for _, rn := range receivers {
					r := ts[rn]
					if r == nil || !recvOK(cur(r)) {
						continue
					}
					if strings.HasPrefix(cur(s), "H:") || cur(s)[0] == 's' {
						headersSent = true
					}
					hdrOnly := strings.HasPrefix(cur(s), "H:")
					if cur(r) == "H" && !hdrOnly {
						bail = true // Header() answered by a message that stays queued: not modelled
						return
					}
					adv(s)
					switch {
					case cur(r) == "H":
						adv(r) // Header() is satisfied by headers or by the first message (which stays queued for the next receive in reality)
					case hdrOnly:
						// a header frame does not complete a receive
					case cur(r) == "R" || cur(r) == "r":
						adv(r)
					default:
						r.star = true
						progressed = true
					}
					return
				}
			}
		}
		pair([]string{"c1", "c2"}, []string{"h1", "h2"}, func(op string) bool { return isSend(op) && op[0] != 's' && !handlerDone },
			func(op string) bool { return op == "r" || op == "r*" })
		pair([]string{"h1", "h2"}, []string{"c1", "c2"}, func(op string) bool { return (isSend(op) && op[0] == 's') || strings.HasPrefix(op, "H:") },
			func(op string) bool { return op == "R" || op == "R*" || op == "H" })
		if bail {
			return false
		}
		if done(ts["c1"]) && done(ts["c2"]) && done(ts["h1"]) && (!h2started || done(ts["h2"])) {
			return true
		}
		if !progressed {
			return false
		}
	}
	return false
}
