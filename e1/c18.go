package main

import (
	"fmt"
	"reflect"
	"runtime"
	"sort"
	"strings"

	"github.com/fullstorydev/grpchan/httpgrpc"
	"github.com/fullstorydev/grpchan/inprocgrpc"
	"github.com/golang/protobuf/proto"
	"github.com/jhump/protoreflect/dynamic"
	"google.golang.org/grpc/encoding"
	grpcproto "google.golang.org/grpc/encoding/proto"

	"verif/mc"
)

// C18, schedule part: the cloner adapters are shared objects (one per channel,
// and whatever they keep at package level is shared by all channels), used by
// every RPC goroutine at once. The content part (seq/c18) decides the property
// for every message x adapter x pairing sequentially; this part runs 2..3 tasks
// that clone / copy messages of different representations and types through the
// four adapters concurrently, under every schedule of the instrumented sources,
// and demands of each single result what the statement demands: no error, the
// type of the source (resp. of the destination), equal content, source unchanged.
// The user-supplied functions the adapters wrap (codec, clone and copy function)
// contain a scheduling point: they may block, so adapter operations overlap.
//
// "direct" scenarios have no RPC: Scenario.Tasks lists, per task, the operations
// "<adapter>:<clone|copy>:<message>".

func init() {
	register(&Property{ID: "C18", Scenarios: c18Scenarios, Oracle: c18Oracle})
}

var c18Adapters = []string{"proto", "codec", "clonefn", "copyfn"}
var c18Msgs = []string{"gen", "dynM", "dynT", "genT"}

// userYield marks a point inside a user-supplied function (codec, clone or copy
// function): such functions may block or be descheduled, so another task can
// run while an adapter operation is in the middle of calling them.
func userYield(native bool, where string) {
	if native {
		runtime.Gosched()
		return
	}
	mc.Yield("user:" + where)
}

// yieldingCodec is the registered proto codec with scheduling points in Marshal / Unmarshal.
type yieldingCodec struct {
	encoding.Codec
	native bool
}

func (c yieldingCodec) Marshal(v interface{}) ([]byte, error) {
	userYield(c.native, "codec.Marshal")
	return c.Codec.Marshal(v)
}
func (c yieldingCodec) Unmarshal(b []byte, v interface{}) error {
	userYield(c.native, "codec.Unmarshal")
	return c.Codec.Unmarshal(b, v)
}

func c18Cloner(name string, native bool) inprocgrpc.Cloner {
	switch name {
	case "proto":
		return inprocgrpc.ProtoCloner{}
	case "codec":
		return inprocgrpc.CodecCloner(yieldingCodec{encoding.GetCodec(grpcproto.Name), native})
	case "clonefn":
		return inprocgrpc.CloneFunc(func(in interface{}) (interface{}, error) {
			userYield(native, "clonefn")
			return proto.Clone(in.(proto.Message)), nil
		})
	case "copyfn":
		return inprocgrpc.CopyFunc(func(out, in interface{}) error {
			userYield(native, "copyfn")
			b, err := proto.Marshal(in.(proto.Message))
			if err != nil {
				return err
			}
			out.(proto.Message).Reset()
			return proto.Unmarshal(b, out.(proto.Message))
		})
	}
	panic("bad adapter " + name)
}

func c18Msg(name string, salt int) proto.Message {
	m := &Msg{Payload: []byte(fmt.Sprintf("payload-%d", salt)), Count: int32(100 + salt), Headers: map[string][]byte{"k": {byte(salt)}}}
	t := &httpgrpc.HttpTrailer{Code: int32(3 + salt), Message: fmt.Sprintf("trailer-%d", salt), Metadata: map[string]*httpgrpc.TrailerValues{"t": {Values: []string{"x", fmt.Sprint(salt)}}}}
	switch name {
	case "gen":
		return m
	case "genT":
		return t
	case "dynM":
		d, err := dynamic.AsDynamicMessage(m)
		if err != nil {
			panic(err)
		}
		return d
	case "dynT":
		d, err := dynamic.AsDynamicMessage(t)
		if err != nil {
			panic(err)
		}
		return d
	}
	panic("bad message " + name)
}

func c18New(src proto.Message) proto.Message {
	if d, ok := src.(*dynamic.Message); ok {
		return dynamic.NewMessage(d.GetMessageDescriptor())
	}
	return reflect.New(reflect.TypeOf(src).Elem()).Interface().(proto.Message)
}

func c18Name(m interface{}) string {
	if d, ok := m.(*dynamic.Message); ok {
		return "dynamic:" + d.GetMessageDescriptor().GetFullyQualifiedName()
	}
	return fmt.Sprintf("%T", m)
}

// c18Op runs one adapter operation and judges its result.
func c18Op(cl inprocgrpc.Cloner, op, msg string, salt int) (res string) {
	defer func() {
		if p := recover(); p != nil {
			res = fmt.Sprintf("panic: %v", p)
		}
	}()
	src, ref := c18Msg(msg, salt), c18Msg(msg, salt)
	var got interface{}
	var err error
	if op == "clone" {
		got, err = cl.Clone(src)
	} else {
		dst := c18New(src)
		err = cl.Copy(dst, src)
		got = dst
	}
	switch {
	case err != nil:
		return "error: " + err.Error()
	case got == nil:
		return "nil result"
	case c18Name(got) != c18Name(src):
		return "result is a " + c18Name(got) + ", source a " + c18Name(src)
	case !dynamic.MessagesEqual(got.(proto.Message), ref):
		return "result differs from the source"
	case !dynamic.MessagesEqual(src, ref):
		return "source changed"
	}
	return "ok"
}

// directBody runs the tasks of a "direct" scenario: task i executes sc.Tasks[i]; with
// option "seq0" task 0 runs to completion before the others start.
func (e *Env) directBody() {
	var op func(ti, k int, o string) string
	switch e.sc.Prop {
	case "C18":
		cls := map[string]inprocgrpc.Cloner{}
		for _, a := range c18Adapters {
			cls[a] = c18Cloner(a, e.native)
		}
		op = func(ti, k int, o string) string {
			f := strings.Split(o, ":")
			return c18Op(cls[f[0]], f[1], f[2], 10*ti+k)
		}
	case "C09":
		op = e.c09Direct()
	default:
		panic("no direct body for " + e.sc.Prop)
	}
	run := func(ti int) {
		for k, o := range e.sc.Tasks[ti] {
			e.rec.ev(fmt.Sprintf("t%d", ti), fmt.Sprintf("%d:%s", k, o), op(ti, k, o))
		}
	}
	first := 0
	if strings.Contains(e.sc.Opts, "seq0") {
		run(0)
		first = 1
	}
	for i := first + 1; i < len(e.sc.Tasks); i++ {
		i := i
		e.goTask(fmt.Sprintf("t%d", i), func() { run(i) })
	}
	if first < len(e.sc.Tasks) {
		run(first)
	}
}

// directView lists the events per task (the interleaving of the record itself is not an observation).
func directView(rec *Rec) string {
	evs := append([]Event(nil), rec.Events...)
	sort.SliceStable(evs, func(i, j int) bool { return evs[i].Task < evs[j].Task })
	var b strings.Builder
	for _, ev := range evs {
		fmt.Fprintf(&b, "%s[%s=>%s]", ev.Task, ev.Op, ev.Res)
	}
	return b.String()
}

func c18Scenarios(tier string) []*Scenario {
	var out []*Scenario
	var single []string
	for _, a := range c18Adapters {
		for _, m := range c18Msgs {
			single = append(single, a+":clone:"+m, a+":copy:"+m)
		}
	}
	add := func(tasks ...[]string) {
		var n []string
		for _, t := range tasks {
			n = append(n, strings.Join(t, ","))
		}
		out = append(out, &Scenario{Prop: "C18", Name: "concurrent|" + strings.Join(n, "||"), Transport: "direct", Tasks: tasks, Bound: -1})
	}
	// every unordered pair of single operations (incl. an operation against itself), one per task
	for i, a := range single {
		for _, b := range single[i:] {
			add([]string{a}, []string{b})
		}
	}
	if tier == "thorough" {
		// two operations per task and a third task, on the representations that can share per-type state
		var dyn []string
		for _, s := range single {
			if strings.Contains(s, ":dyn") {
				dyn = append(dyn, s)
			}
		}
		for _, a := range dyn {
			for _, b := range dyn {
				if strings.HasSuffix(a, "dynM") == strings.HasSuffix(b, "dynM") {
					continue
				}
				add([]string{a, b}, []string{b, a})
				add([]string{a}, []string{b}, []string{a})
			}
		}
	}
	return out
}

func c18Oracle(sc *Scenario, rec *Rec, s *mc.Sched) []mc.Violation {
	var out []mc.Violation
	for _, ev := range rec.Events {
		if ev.Res != "ok" {
			op := ev.Op[strings.Index(ev.Op, ":")+1:]
			out = append(out, mc.Violation{Clause: "concurrent-use", Obs: op + ": " + ev.Res, Detail: rec.Events})
		}
	}
	for _, b := range s.Blocked() {
		out = append(out, mc.Violation{Clause: "blocked", Obs: b.Name + " on " + b.Op})
	}
	return out
}
