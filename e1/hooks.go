package main

import (
	"errors"
	"reflect"
	"strings"
	"unsafe"

	"github.com/fullstorydev/grpchan/inprocgrpc"
	"google.golang.org/grpc/encoding"
	grpcproto "google.golang.org/grpc/encoding/proto"

	"verif/mc"
)

// yieldCloner: the cloner is the application's (WithCloner); like every user-supplied function it may
// contain scheduling points, so a copy is not atomic with the library's check before it.
type yieldCloner struct{ inner inprocgrpc.Cloner }

func (y yieldCloner) Copy(out, in interface{}) error {
	access(in, false)
	access(out, true)
	return y.inner.Copy(out, in)
}

func (y yieldCloner) Clone(in interface{}) (interface{}, error) {
	access(in, false)
	return y.inner.Clone(in)
}

// access: a tracked read / write of a message object (mc.Access): a scheduling point, and the two orders
// of conflicting accesses to one object by different tasks are distinct states.
func access(m interface{}, write bool) {
	if !mc.Active() || m == nil {
		return
	}
	v := reflect.ValueOf(m)
	if v.Kind() != reflect.Ptr || v.IsNil() {
		return
	}
	mc.Access(unsafe.Pointer(v.Pointer()), write)
}

// failCloner fails the copy of one particular message (the application's cloner / codec may refuse a message it
// cannot handle): Copy of a source whose payload is the given tag returns an error.
type failCloner struct {
	inner inprocgrpc.Cloner
	tag   string
}

func (f failCloner) Copy(out, in interface{}) error {
	if m, ok := in.(*Msg); ok && untag(m.Payload) == f.tag {
		return errors.New("cloner: cannot copy this message")
	}
	return f.inner.Copy(out, in)
}
func (f failCloner) Clone(in interface{}) (interface{}, error) { return f.inner.Clone(in) }

func hooksFor(sc *Scenario) *hooks {
	var inner inprocgrpc.Cloner = inprocgrpc.ProtoCloner{}
	if i := strings.Index(sc.Cloner, "failcopy:"); i >= 0 {
		inner = failCloner{inner, sc.Cloner[i+len("failcopy:"):]}
		if !strings.Contains(sc.Cloner, "recording") && !strings.Contains(sc.Cloner, "yield") {
			return &hooks{cloner: inner}
		}
	}
	if strings.Contains(sc.Cloner, "yield") {
		inner = yieldCloner{inner}
	}
	if strings.Contains(sc.Cloner, "recording") {
		rc := &recCloner{inner: inner, owned: map[interface{}]*ownedMsg{}}
		return &hooks{cloner: rc, rec: rc}
	}
	if strings.Contains(sc.Cloner, "yield") {
		return &hooks{cloner: inner}
	}
	return nil
}

// trackCodec wraps the registered "proto" codec (the application may replace it: encoding.RegisterCodec,
// see httpgrpc/protocol_versions.go): encoding reads the application's message, decoding writes into the
// application's destination; with scenario option "codec" both are tracked accesses (scheduling points).
// The point is the decode: between taking a frame and the next synchronisation operation the library
// runs the (arbitrarily slow) decoder, during which everything else may happen.
type trackCodec struct{ inner encoding.Codec }

var codecTracking bool

func (c trackCodec) Name() string { return c.inner.Name() }
func (c trackCodec) Marshal(v interface{}) ([]byte, error) {
	if _, ok := v.(*Msg); ok && codecTracking {
		access(v, false)
	}
	return c.inner.Marshal(v)
}
func (c trackCodec) Unmarshal(b []byte, v interface{}) error {
	if _, ok := v.(*Msg); ok && codecTracking {
		access(v, true)
	}
	return c.inner.Unmarshal(b, v)
}

func init() {
	if inner := encoding.GetCodec(grpcproto.Name); inner != nil {
		encoding.RegisterCodec(trackCodec{inner})
	}
}
