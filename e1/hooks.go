package main

func hooksFor(sc *Scenario) *hooks { return nil }
