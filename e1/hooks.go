package main

import "github.com/fullstorydev/grpchan/inprocgrpc"

func hooksFor(sc *Scenario) *hooks {
	if sc.Cloner == "recording" {
		rc := &recCloner{inner: inprocgrpc.ProtoCloner{}, owned: map[interface{}]*ownedMsg{}}
		return &hooks{cloner: rc, rec: rc}
	}
	return nil
}
