package main

import (
	"reflect"
	"strings"
	"unsafe"

	"github.com/fullstorydev/grpchan/inprocgrpc"

	"verif/mc"
)

// yieldCloner: the cloner is the application's (WithCloner); like every user-supplied function it may
// contain scheduling points, so a copy is not atomic with the library's check before it.
type yieldCloner struct{ inner inprocgrpc.Cloner }

func (y yieldCloner) Copy(out, in interface{}) error {
	access(in, false)
	access(out, true)
	return y.inner.Copy(out, in)
}

func (y yieldCloner) Clone(in interface{}) (interface{}, error) {
	access(in, false)
	return y.inner.Clone(in)
}

// access: a tracked read / write of a message object (mc.Access): a scheduling point, and the two orders
// of conflicting accesses to one object by different tasks are distinct states.
func access(m interface{}, write bool) {
	if !mc.Active() || m == nil {
		return
	}
	v := reflect.ValueOf(m)
	if v.Kind() != reflect.Ptr || v.IsNil() {
		return
	}
	mc.Access(unsafe.Pointer(v.Pointer()), write)
}

func hooksFor(sc *Scenario) *hooks {
	var inner inprocgrpc.Cloner = inprocgrpc.ProtoCloner{}
	if strings.Contains(sc.Cloner, "yield") {
		inner = yieldCloner{inner}
	}
	if strings.Contains(sc.Cloner, "recording") {
		rc := &recCloner{inner: inner, owned: map[interface{}]*ownedMsg{}}
		return &hooks{cloner: rc, rec: rc}
	}
	if strings.Contains(sc.Cloner, "yield") {
		return &hooks{cloner: inner}
	}
	return nil
}
