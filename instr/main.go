// Command instr rewrites the synchronisation primitives of Go packages to the
// controlled equivalents of verif/mc (rules R1-R5 of DESIGN.md section 3.1).
//
//	instr -dir <module root> [-report out.json] ./pkg1 ./pkg2 ...
//
// Files are rewritten in place (the caller runs it on a shadow copy). Anything
// that synchronises and is not understood makes it fail closed with exit 2.
package main

import (
	"bytes"
	"encoding/json"
	"flag"
	"fmt"
	"go/ast"
	"go/format"
	"go/token"
	"go/types"
	"os"
	"sort"
	"strconv"
	"strings"

	"golang.org/x/tools/go/ast/astutil"
	"golang.org/x/tools/go/packages"
	"golang.org/x/tools/go/types/typeutil"
)

const mcPath = "verif/mc"
const mcName = "mcrt"

type fileReport struct {
	File  string         `json:"file"`
	Rules map[string]int `json:"rules"`
}

var unsupported []string

func fail(fset *token.FileSet, pos token.Pos, format string, a ...interface{}) {
	unsupported = append(unsupported, fmt.Sprintf("UNSUPPORTED %s at %s", fmt.Sprintf(format, a...), fset.Position(pos)))
}

func main() {
	dir := flag.String("dir", ".", "module root")
	report := flag.String("report", "", "write rewrite counts here")
	flag.Parse()
	cfg := &packages.Config{
		Mode: packages.NeedName | packages.NeedFiles | packages.NeedCompiledGoFiles | packages.NeedSyntax |
			packages.NeedTypes | packages.NeedTypesInfo | packages.NeedImports,
		Dir:   *dir,
		Tests: false,
	}
	pkgs, err := packages.Load(cfg, flag.Args()...)
	if err != nil {
		fmt.Fprintln(os.Stderr, "instr: load:", err)
		os.Exit(2)
	}
	bad := false
	packages.Visit(pkgs, nil, func(p *packages.Package) {
		for _, e := range p.Errors {
			fmt.Fprintln(os.Stderr, "instr: package error:", e)
			bad = true
		}
	})
	if bad {
		os.Exit(2)
	}
	own := map[string]bool{}
	for _, p := range pkgs {
		own[p.PkgPath] = true
	}
	var reports []fileReport
	for _, p := range pkgs {
		atomicVars := atomicallyAccessed(p)
		for i, f := range p.Syntax {
			name := p.CompiledGoFiles[i]
			if strings.HasSuffix(name, "_test.go") || strings.HasSuffix(name, ".pb.go") {
				continue
			}
			r := &rewriter{fset: p.Fset, info: p.TypesInfo, own: own, pkg: p.Types, rules: map[string]int{}, atomicVars: atomicVars}
			r.file(f)
			if len(r.rules) == 0 {
				continue
			}
			// comments would be misplaced by the rewriting; keep only those before the package clause (build constraints)
			var keep []*ast.CommentGroup
			for _, cg := range f.Comments {
				if cg.End() < f.Package {
					keep = append(keep, cg)
				}
			}
			f.Comments = keep
			var buf bytes.Buffer
			if err := format.Node(&buf, p.Fset, f); err != nil {
				fmt.Fprintln(os.Stderr, "instr: format", name, err)
				os.Exit(2)
			}
			if err := os.WriteFile(name, buf.Bytes(), 0o644); err != nil {
				fmt.Fprintln(os.Stderr, "instr:", err)
				os.Exit(2)
			}
			reports = append(reports, fileReport{File: strings.TrimPrefix(name, *dir+"/"), Rules: r.rules})
		}
	}
	if len(unsupported) > 0 {
		for _, u := range unsupported {
			fmt.Fprintln(os.Stderr, u)
		}
		os.Exit(2)
	}
	sort.Slice(reports, func(i, j int) bool { return reports[i].File < reports[j].File })
	if *report != "" {
		b, _ := json.MarshalIndent(reports, "", " ")
		os.WriteFile(*report, b, 0o644)
	}
}

// atomicallyAccessed finds the package-level variables of plain types (int64,
// uint32, unsafe.Pointer ...) whose address is handed to a sync/atomic function
// somewhere in the package: they are synchronisation state as much as an
// atomic.Int64 is and are reset per execution like one.
func atomicallyAccessed(p *packages.Package) map[types.Object]bool {
	out := map[types.Object]bool{}
	for _, f := range p.Syntax {
		ast.Inspect(f, func(n ast.Node) bool {
			call, ok := n.(*ast.CallExpr)
			if !ok {
				return true
			}
			sel, ok := call.Fun.(*ast.SelectorExpr)
			if !ok {
				return true
			}
			id, ok := sel.X.(*ast.Ident)
			if !ok {
				return true
			}
			pn, ok := p.TypesInfo.Uses[id].(*types.PkgName)
			if !ok || pn.Imported().Path() != "sync/atomic" || len(call.Args) == 0 {
				return true
			}
			if u, ok := call.Args[0].(*ast.UnaryExpr); ok && u.Op == token.AND {
				if vid, ok := u.X.(*ast.Ident); ok {
					if o := p.TypesInfo.Uses[vid]; o != nil && o.Parent() == p.Types.Scope() {
						out[o] = true
					}
				}
			}
			return true
		})
	}
	return out
}

type rewriter struct {
	atomicVars map[types.Object]bool
	fset       *token.FileSet
	info       *types.Info
	own        map[string]bool
	pkg        *types.Package
	rules      map[string]int
	n          int

	// decisions taken on the original tree, keyed by node
	makeChan  map[*ast.CallExpr]bool
	closeChan map[*ast.CallExpr]bool
	lenChan   map[*ast.CallExpr]string
	wrapCall  map[*ast.CallExpr]bool
	recv2     map[*ast.UnaryExpr]bool
	selRepl   map[*ast.SelectorExpr]string
	rangeChan map[*ast.RangeStmt]bool
	commRecv  map[*ast.UnaryExpr]bool
	commSend  map[*ast.SendStmt]bool
}

func mcSel(name string) ast.Expr {
	return &ast.SelectorExpr{X: ast.NewIdent(mcName), Sel: ast.NewIdent(name)}
}

func (r *rewriter) tmp(prefix string) *ast.Ident {
	r.n++
	return ast.NewIdent(fmt.Sprintf("_mc%s%d", prefix, r.n))
}

func isChan(t types.Type) bool {
	if t == nil {
		return false
	}
	_, ok := t.Underlying().(*types.Chan)
	return ok
}

// pkgOf resolves the package an identifier X in X.Sel names, or "".
func (r *rewriter) pkgOf(x ast.Expr) string {
	id, ok := x.(*ast.Ident)
	if !ok {
		return ""
	}
	if pn, ok := r.info.Uses[id].(*types.PkgName); ok {
		return pn.Imported().Path()
	}
	return ""
}

var syncMap = map[string]string{"Mutex": "Mutex", "RWMutex": "RWMutex", "WaitGroup": "WaitGroup", "Once": "Once",
	"Cond": "Cond", "NewCond": "NewCond", "Map": "SyncMap", "Locker": "Locker", "Pool": "Pool"}
var syncKeep = map[string]bool{}
var atomicTypes = map[string]string{"Bool": "AtomicBool", "Int32": "AtomicInt32", "Int64": "AtomicInt64", "Uint32": "AtomicUint32", "Value": "AtomicValue"}
var atomicFuncs = map[string]bool{"AddInt32": true, "AddInt64": true, "AddUint32": true, "AddUint64": true, "LoadInt32": true, "LoadInt64": true,
	"LoadUint32": true, "LoadUint64": true, "StoreInt32": true, "StoreInt64": true, "StoreUint32": true, "StoreUint64": true, "SwapInt32": true,
	"SwapInt64": true, "CompareAndSwapInt32": true, "CompareAndSwapInt64": true, "CompareAndSwapUint32": true}
var ctxMap = map[string]string{
	"WithCancel": "WithCancel", "WithTimeout": "WithTimeout", "WithDeadline": "WithDeadline",
	"WithValue": "WithValue", "Background": "Background", "TODO": "TODO", "Cause": "Cause", "AfterFunc": "AfterFunc",
}
var ctxKeep = map[string]bool{"Context": true, "CancelFunc": true, "Canceled": true, "DeadlineExceeded": true}
var timeMap = map[string]string{"Now": "TimeNow", "Until": "TimeUntil", "Since": "TimeSince", "Sleep": "TimeSleep",
	"After": "TimeAfter", "AfterFunc": "TimeAfterFunc", "NewTimer": "TimeNewTimer", "Timer": "Timer"}
var timeBad = map[string]bool{"NewTicker": true, "Tick": true, "Ticker": true}
var ioMap = map[string]string{"Pipe": "Pipe", "PipeReader": "PipeReader", "PipeWriter": "PipeWriter"}

func (r *rewriter) decide(f *ast.File) {
	r.makeChan = map[*ast.CallExpr]bool{}
	r.closeChan = map[*ast.CallExpr]bool{}
	r.lenChan = map[*ast.CallExpr]string{}
	r.wrapCall = map[*ast.CallExpr]bool{}
	r.recv2 = map[*ast.UnaryExpr]bool{}
	r.selRepl = map[*ast.SelectorExpr]string{}
	r.rangeChan = map[*ast.RangeStmt]bool{}
	r.commRecv = map[*ast.UnaryExpr]bool{}
	r.commSend = map[*ast.SendStmt]bool{}

	for _, imp := range f.Imports {
		p, _ := strconv.Unquote(imp.Path.Value)
		switch p {
		case "unsafe":
			fail(r.fset, imp.Pos(), "import of %s (synchronisation the scheduler cannot see)", p)
		}
	}

	ast.Inspect(f, func(n ast.Node) bool {
		switch n := n.(type) {
		case *ast.CallExpr:
			if id, ok := n.Fun.(*ast.Ident); ok {
				if b, ok := r.info.Uses[id].(*types.Builtin); ok && len(n.Args) > 0 {
					at := r.info.TypeOf(n.Args[0])
					switch b.Name() {
					case "make":
						if isChan(at) {
							if _, lit := n.Args[0].(*ast.ChanType); !lit {
								fail(r.fset, n.Pos(), "make of a named channel type")
							}
							r.makeChan[n] = true
						}
					case "close":
						if isChan(at) {
							r.closeChan[n] = true
						}
					case "len", "cap":
						if isChan(at) {
							r.lenChan[n] = strings.Title(b.Name())
						}
					}
				}
			}
			// calls into un-instrumented code that return a native channel
			if tv, ok := r.info.Types[n]; ok && isChan(tv.Type) && !r.makeChan[n] {
				callee := typeutil.Callee(r.info, n)
				if callee == nil {
					// conversion or call through a func value
					if !tv.IsType() {
						if _, isConv := r.info.Types[n.Fun]; isConv && r.info.Types[n.Fun].IsType() {
							// conversion between channel types: fine after rewriting
						} else if _, isLit := unparen(n.Fun).(*ast.FuncLit); isLit {
							// a function literal called on the spot: its body is rewritten like all code of the package
						} else {
							fail(r.fset, n.Pos(), "call through a function value returning a channel")
						}
					}
				} else if callee.Pkg() != nil && callee.Pkg().Path() == "time" && timeMap[callee.Name()] != "" {
					// rewritten to a controlled timer: already returns a controlled channel
				} else if callee.Pkg() == nil || !r.own[callee.Pkg().Path()] {
					r.wrapCall[n] = true
				}
			} else if ok && !r.makeChan[n] {
				if tup, isTup := tv.Type.(*types.Tuple); isTup {
					for i := 0; i < tup.Len(); i++ {
						if isChan(tup.At(i).Type()) {
							if callee := typeutil.Callee(r.info, n); callee == nil || callee.Pkg() == nil || !r.own[callee.Pkg().Path()] {
								fail(r.fset, n.Pos(), "foreign call returning a channel among several results")
							}
						}
					}
				}
			}
		case *ast.AssignStmt:
			if len(n.Lhs) == 2 && len(n.Rhs) == 1 {
				if u, ok := ast.Unparen(n.Rhs[0]).(*ast.UnaryExpr); ok && u.Op == token.ARROW {
					r.recv2[u] = true
				}
			}
		case *ast.ValueSpec:
			if len(n.Names) == 2 && len(n.Values) == 1 {
				if u, ok := ast.Unparen(n.Values[0]).(*ast.UnaryExpr); ok && u.Op == token.ARROW {
					r.recv2[u] = true
				}
			}
		case *ast.RangeStmt:
			if isChan(r.info.TypeOf(n.X)) {
				r.rangeChan[n] = true
			}
		case *ast.SelectorExpr:
			switch r.pkgOf(n.X) {
			case "sync":
				if to, ok := syncMap[n.Sel.Name]; ok {
					r.selRepl[n] = to
				} else if !syncKeep[n.Sel.Name] {
					fail(r.fset, n.Pos(), "sync.%s", n.Sel.Name)
				}
			case "sync/atomic":
				if to, ok := atomicTypes[n.Sel.Name]; ok {
					r.selRepl[n] = to
				} else if atomicFuncs[n.Sel.Name] {
					r.selRepl[n] = "Atomic" + n.Sel.Name
				} else {
					fail(r.fset, n.Pos(), "atomic.%s", n.Sel.Name)
				}
			case "context":
				if to, ok := ctxMap[n.Sel.Name]; ok {
					r.selRepl[n] = to
				} else if !ctxKeep[n.Sel.Name] {
					fail(r.fset, n.Pos(), "context.%s", n.Sel.Name)
				}
			case "time":
				if to, ok := timeMap[n.Sel.Name]; ok {
					r.selRepl[n] = to
				} else if timeBad[n.Sel.Name] {
					fail(r.fset, n.Pos(), "time.%s", n.Sel.Name)
				}
			case "io":
				if to, ok := ioMap[n.Sel.Name]; ok {
					r.selRepl[n] = to
				}
			case "runtime":
				switch n.Sel.Name {
				case "SetFinalizer":
					r.selRepl[n] = "SetFinalizer"
				case "Gosched", "Goexit", "LockOSThread":
					fail(r.fset, n.Pos(), "runtime.%s", n.Sel.Name)
				}
			case "reflect":
				if n.Sel.Name == "Select" || n.Sel.Name == "ChanOf" || n.Sel.Name == "MakeChan" {
					fail(r.fset, n.Pos(), "reflect.%s", n.Sel.Name)
				}
			case "os/signal", "net/http/httptest":
			}
			// fields of native channel type declared in foreign packages (timer.C)
			if sel, ok := r.info.Selections[n]; ok && sel.Kind() == types.FieldVal && isChan(sel.Type()) {
				if sel.Obj().Pkg() != nil && sel.Obj().Pkg().Path() == "time" && sel.Obj().Name() == "C" {
					// time.Timer.C: the Timer type itself is rewritten
				} else if sel.Obj().Pkg() == nil || !r.own[sel.Obj().Pkg().Path()] {
					fail(r.fset, n.Pos(), "foreign field of channel type")
				}
			}
		case *ast.CommClause:
			switch comm := n.Comm.(type) {
			case *ast.SendStmt:
				r.commSend[comm] = true
			case *ast.ExprStmt:
				if u, ok := ast.Unparen(comm.X).(*ast.UnaryExpr); ok && u.Op == token.ARROW {
					r.commRecv[u] = true
				}
			case *ast.AssignStmt:
				if u, ok := ast.Unparen(comm.Rhs[0]).(*ast.UnaryExpr); ok && u.Op == token.ARROW {
					r.commRecv[u] = true
				}
			}
		case *ast.LabeledStmt:
			if _, ok := n.Stmt.(*ast.SelectStmt); ok {
				fail(r.fset, n.Pos(), "labelled select statement")
			}
		}
		return true
	})
}

func (r *rewriter) count(rule string) { r.rules[rule]++ }

// syncState reports whether a value of type t holds synchronisation state that
// must not leak from one explored execution into the next.
func syncState(t types.Type, depth int) bool {
	if depth > 4 {
		return false
	}
	switch u := t.(type) {
	case *types.Named:
		if o := u.Obj(); o != nil && o.Pkg() != nil && (o.Pkg().Path() == "sync" || o.Pkg().Path() == "sync/atomic") {
			return true
		}
		return syncState(u.Underlying(), depth+1)
	case *types.Chan:
		return true
	case *types.Struct:
		for i := 0; i < u.NumFields(); i++ {
			if syncState(u.Field(i).Type(), depth+1) {
				return true
			}
		}
	case *types.Array:
		return syncState(u.Elem(), depth+1)
	case *types.Pointer:
		// a package-level *sync.X / *T{sync.X}: reset when it has an initialiser to re-evaluate
		return syncState(u.Elem(), depth+1)
	}
	return false
}

// globals finds the package-level variables that hold synchronisation state.
func (r *rewriter) globals(f *ast.File) (specs []*ast.ValueSpec) {
	for _, d := range f.Decls {
		gd, ok := d.(*ast.GenDecl)
		if !ok || gd.Tok != token.VAR {
			continue
		}
		for _, sp := range gd.Specs {
			vs := sp.(*ast.ValueSpec)
			hit := false
			for _, n := range vs.Names {
				if o := r.info.Defs[n]; o != nil && n.Name != "_" && (syncState(o.Type(), 0) || r.atomicVars[o]) {
					hit = true
				}
			}
			if !hit {
				continue
			}
			if len(vs.Values) != 0 && len(vs.Values) != len(vs.Names) {
				fail(r.fset, vs.Pos(), "package-level variables with synchronisation state initialised from a multi-value expression")
				continue
			}
			if len(vs.Values) == 0 && vs.Type == nil {
				continue
			}
			specs = append(specs, vs)
		}
	}
	return specs
}

// resetGlobals appends an init function that registers, for each of the given
// (already rewritten) variable specs, a function restoring the initial value.
func (r *rewriter) resetGlobals(f *ast.File, specs []*ast.ValueSpec) {
	var body []ast.Stmt
	for _, vs := range specs {
		for i, n := range vs.Names {
			if n.Name == "_" {
				continue
			}
			var val ast.Expr
			if len(vs.Values) > 0 {
				val = vs.Values[i]
			} else {
				val = &ast.StarExpr{X: &ast.CallExpr{Fun: ast.NewIdent("new"), Args: []ast.Expr{vs.Type}}}
			}
			r.count("R5.global-reset")
			body = append(body, &ast.AssignStmt{Lhs: []ast.Expr{ast.NewIdent(n.Name)}, Tok: token.ASSIGN, Rhs: []ast.Expr{val}})
		}
	}
	if len(body) == 0 {
		return
	}
	reset := &ast.FuncLit{Type: &ast.FuncType{Params: &ast.FieldList{}}, Body: &ast.BlockStmt{List: body}}
	f.Decls = append(f.Decls, &ast.FuncDecl{Name: ast.NewIdent("init"), Type: &ast.FuncType{Params: &ast.FieldList{}},
		Body: &ast.BlockStmt{List: []ast.Stmt{&ast.ExprStmt{X: &ast.CallExpr{Fun: mcSel("RegisterGlobal"), Args: []ast.Expr{reset}}}}}})
}

func (r *rewriter) file(f *ast.File) {
	r.decide(f)
	globals := r.globals(f)
	astutil.Apply(f, nil, func(c *astutil.Cursor) bool {
		switch n := c.Node().(type) {
		case *ast.ChanType:
			r.count("R1.chan-type")
			c.Replace(&ast.StarExpr{X: &ast.IndexExpr{X: mcSel("Chan"), Index: n.Value}})
		case *ast.CallExpr:
			switch {
			case r.makeChan[n]:
				r.count("R1.make")
				st, ok := n.Args[0].(*ast.StarExpr)
				if !ok {
					fail(r.fset, n.Pos(), "make(chan) operand shape")
					return true
				}
				ix := st.X.(*ast.IndexExpr)
				c.Replace(&ast.CallExpr{Fun: &ast.IndexExpr{X: mcSel("NewChan"), Index: ix.Index}, Args: n.Args[1:]})
			case r.closeChan[n]:
				r.count("R1.close")
				c.Replace(&ast.CallExpr{Fun: mcSel("Close"), Args: n.Args})
			case r.lenChan[n] != "":
				r.count("R1.len")
				c.Replace(&ast.CallExpr{Fun: &ast.SelectorExpr{X: n.Args[0], Sel: ast.NewIdent(r.lenChan[n])}})
			case r.wrapCall[n]:
				r.count("R4.wrap")
				c.Replace(&ast.CallExpr{Fun: mcSel("Wrap"), Args: []ast.Expr{n}})
			}
		case *ast.SendStmt:
			if r.commSend[n] {
				return true
			}
			r.count("R1.send")
			c.Replace(&ast.ExprStmt{X: &ast.CallExpr{Fun: mcSel("Send"), Args: []ast.Expr{n.Chan, n.Value}}})
		case *ast.UnaryExpr:
			if n.Op == token.ARROW {
				// receive expressions inside select comm clauses are handled by the select rewrite
				if r.commRecv[n] {
					return true
				}
				fn := "Recv"
				if r.recv2[n] {
					fn = "Recv2"
				}
				r.count("R1.recv")
				c.Replace(&ast.CallExpr{Fun: mcSel(fn), Args: []ast.Expr{n.X}})
			}
		case *ast.SelectStmt:
			r.count("R1.select")
			c.Replace(r.rewriteSelect(n))
		case *ast.RangeStmt:
			if r.rangeChan[n] {
				r.count("R1.range")
				c.Replace(r.rewriteRange(n))
			}
		case *ast.GoStmt:
			r.count("R2.go")
			c.Replace(r.rewriteGo(n))
		case *ast.SelectorExpr:
			if to, ok := r.selRepl[n]; ok {
				r.count("R3." + r.pkgOf(n.X) + "." + n.Sel.Name)
				c.Replace(mcSel(to))
			}
		}
		return true
	})
	r.resetGlobals(f, globals)
	if len(r.rules) == 0 {
		return
	}
	astutil.AddNamedImport(r.fset, f, mcName, mcPath)
	for _, p := range []string{"sync", "sync/atomic", "io", "time", "runtime", "context"} {
		if !astutil.UsesImport(f, p) {
			astutil.DeleteImport(r.fset, f, p)
		}
	}
}

func (r *rewriter) rewriteGo(g *ast.GoStmt) ast.Stmt {
	call := g.Call
	if fl, ok := call.Fun.(*ast.FuncLit); ok && len(call.Args) == 0 {
		return &ast.ExprStmt{X: &ast.CallExpr{Fun: mcSel("Go"), Args: []ast.Expr{fl}}}
	}
	// evaluate function value and arguments now, run the call in the task
	var lhs, rhs []ast.Expr
	fv := r.tmp("f")
	lhs = append(lhs, fv)
	rhs = append(rhs, call.Fun)
	var args []ast.Expr
	for _, a := range call.Args {
		v := r.tmp("a")
		lhs = append(lhs, v)
		rhs = append(rhs, a)
		args = append(args, v)
	}
	inner := &ast.CallExpr{Fun: fv, Args: args, Ellipsis: call.Ellipsis}
	if call.Ellipsis.IsValid() {
		inner.Ellipsis = 1
	}
	body := &ast.BlockStmt{List: []ast.Stmt{&ast.ExprStmt{X: inner}}}
	return &ast.BlockStmt{List: []ast.Stmt{
		&ast.AssignStmt{Lhs: lhs, Tok: token.DEFINE, Rhs: rhs},
		&ast.ExprStmt{X: &ast.CallExpr{Fun: mcSel("Go"), Args: []ast.Expr{&ast.FuncLit{Type: &ast.FuncType{Params: &ast.FieldList{}}, Body: body}}}},
	}}
}

func (r *rewriter) rewriteRange(n *ast.RangeStmt) ast.Stmt {
	okv := r.tmp("ok")
	var val ast.Expr = ast.NewIdent("_")
	tok := token.DEFINE
	if n.Key != nil {
		val = n.Key
		if n.Tok == token.ASSIGN {
			// v = range: declare ok separately
			decl := &ast.DeclStmt{Decl: &ast.GenDecl{Tok: token.VAR, Specs: []ast.Spec{&ast.ValueSpec{Names: []*ast.Ident{okv}, Type: ast.NewIdent("bool")}}}}
			recv := &ast.AssignStmt{Lhs: []ast.Expr{val, okv}, Tok: token.ASSIGN, Rhs: []ast.Expr{&ast.CallExpr{Fun: mcSel("Recv2"), Args: []ast.Expr{n.X}}}}
			brk := &ast.IfStmt{Cond: &ast.UnaryExpr{Op: token.NOT, X: okv}, Body: &ast.BlockStmt{List: []ast.Stmt{&ast.BranchStmt{Tok: token.BREAK}}}}
			body := append([]ast.Stmt{decl, recv, brk}, n.Body.List...)
			return &ast.ForStmt{Body: &ast.BlockStmt{List: body}}
		}
	}
	recv := &ast.AssignStmt{Lhs: []ast.Expr{val, okv}, Tok: tok, Rhs: []ast.Expr{&ast.CallExpr{Fun: mcSel("Recv2"), Args: []ast.Expr{n.X}}}}
	brk := &ast.IfStmt{Cond: &ast.UnaryExpr{Op: token.NOT, X: okv}, Body: &ast.BlockStmt{List: []ast.Stmt{&ast.BranchStmt{Tok: token.BREAK}}}}
	body := append([]ast.Stmt{recv, brk}, n.Body.List...)
	return &ast.ForStmt{Body: &ast.BlockStmt{List: body}}
}

func intLit(i int) ast.Expr {
	if i < 0 {
		return &ast.UnaryExpr{Op: token.SUB, X: &ast.BasicLit{Kind: token.INT, Value: strconv.Itoa(-i)}}
	}
	return &ast.BasicLit{Kind: token.INT, Value: strconv.Itoa(i)}
}

func (r *rewriter) rewriteSelect(sel *ast.SelectStmt) ast.Stmt {
	var pre []ast.Stmt
	var caseVars []ast.Expr
	var clauses []ast.Stmt
	hasDefault := false
	idx := 0
	for _, st := range sel.Body.List {
		cc := st.(*ast.CommClause)
		if cc.Comm == nil {
			hasDefault = true
			clauses = append(clauses, &ast.CaseClause{List: []ast.Expr{intLit(-1)}, Body: cc.Body})
			continue
		}
		cv := r.tmp("c")
		var body []ast.Stmt
		switch comm := cc.Comm.(type) {
		case *ast.SendStmt:
			pre = append(pre, &ast.AssignStmt{Lhs: []ast.Expr{cv}, Tok: token.DEFINE,
				Rhs: []ast.Expr{&ast.CallExpr{Fun: mcSel("SendCase"), Args: []ast.Expr{comm.Chan, comm.Value}}}})
		case *ast.ExprStmt:
			u := ast.Unparen(comm.X).(*ast.UnaryExpr)
			pre = append(pre, &ast.AssignStmt{Lhs: []ast.Expr{cv}, Tok: token.DEFINE,
				Rhs: []ast.Expr{&ast.CallExpr{Fun: mcSel("RecvCase"), Args: []ast.Expr{u.X}}}})
		case *ast.AssignStmt:
			u := ast.Unparen(comm.Rhs[0]).(*ast.UnaryExpr)
			pre = append(pre, &ast.AssignStmt{Lhs: []ast.Expr{cv}, Tok: token.DEFINE,
				Rhs: []ast.Expr{&ast.CallExpr{Fun: mcSel("RecvCase"), Args: []ast.Expr{u.X}}}})
			rhs := []ast.Expr{&ast.SelectorExpr{X: cv, Sel: ast.NewIdent("Val")}}
			if len(comm.Lhs) == 2 {
				rhs = append(rhs, &ast.SelectorExpr{X: cv, Sel: ast.NewIdent("Ok")})
			}
			body = append(body, &ast.AssignStmt{Lhs: comm.Lhs, Tok: comm.Tok, Rhs: rhs})
		default:
			fail(r.fset, cc.Pos(), "select comm clause shape")
		}
		caseVars = append(caseVars, cv)
		body = append(body, cc.Body...)
		clauses = append(clauses, &ast.CaseClause{List: []ast.Expr{intLit(idx)}, Body: body})
		idx++
	}
	clauses = append(clauses, &ast.CaseClause{Body: []ast.Stmt{&ast.ExprStmt{X: &ast.CallExpr{Fun: ast.NewIdent("panic"), Args: []ast.Expr{&ast.BasicLit{Kind: token.STRING, Value: `"mc: unreachable select arm"`}}}}}})
	hd := "false"
	if hasDefault {
		hd = "true"
	}
	args := append([]ast.Expr{ast.NewIdent(hd)}, caseVars...)
	sw := &ast.SwitchStmt{Tag: &ast.CallExpr{Fun: mcSel("Select"), Args: args}, Body: &ast.BlockStmt{List: clauses}}
	return &ast.BlockStmt{List: append(pre, sw)}
}

func unparen(e ast.Expr) ast.Expr {
	for {
		p, ok := e.(*ast.ParenExpr)
		if !ok {
			return e
		}
		e = p.X
	}
}
