#!/bin/bash
set -e
cd /verif
. ./env.sh
echo setup ok
