#!/bin/bash
# builds the framework from files on disk only (offline) and warms the build cache
set -e
cd /verif
. ./env.sh
mkdir -p bin evidence replays
(cd instr && go build -o /verif/bin/instr .)
(cd mc && go vet . && go test -count=1 . >/dev/null)
# E1 binaries for the current tree (also warms the Go build cache for the instrumented packages)
scripts/e1bin.sh >/dev/null
# E2 checks compile
(cd seq && go build -o /dev/null ./...)
echo setup ok
