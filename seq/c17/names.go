// C17, the dimension "spelling of the method name".
//
// The statement says the method name is passed through unchanged: whatever string the caller hands to Invoke /
// NewStream of the outermost wrapper is the string every interceptor on the way is told, and the string the
// wrapped channel finally receives -- also when it is not the "/pkg.Service/Method" that generated stubs use.
// The single-call cases of main.go are therefore repeated with every spelling of `spellings` (caseT.Spell).
// On the recording base the name is compared at every participant. On the three real bases the interceptors
// are compared in the same way and the base is compared with a REFERENCE: the same call made on the base
// channel directly, with no wrapper at all (refOutcome). Some spellings are served by a real base (the
// in-process channel and the gRPC server accept a missing leading slash, the HTTP channel joins URL paths),
// most are rejected; either way a transparent wrapper must not change what happens.
//
// Second half of the dimension: the name an interceptor hands on to its invoker/streamer. Behaviour bRename
// makes an interceptor append "#L<i>" to the name before calling onward; everything further in (layers and
// base) must receive exactly that string (recording base only, a renamed method exists on no real base).
package main

import (
	"context"
	"fmt"
	"io"
	"os"
	"reflect"
	"strings"

	"google.golang.org/grpc"
	"google.golang.org/grpc/metadata"
	"google.golang.org/grpc/status"
	"google.golang.org/protobuf/types/known/wrapperspb"
)

// bRename: the interceptor calls onward with another method name (its own suffix appended).
const bRename = 4

type spelling struct {
	label string
	mk    func(m string) string // m is "U" or "S"
}

// index 0 is the spelling of generated stubs
var spellings = []spelling{
	{"canonical", func(m string) string { return "/t.C/" + m }},
	{"no-leading-slash", func(m string) string { return "t.C/" + m }},
	{"empty", func(m string) string { return "" }},
	{"slash-only", func(m string) string { return "/" }},
	{"method-only", func(m string) string { return m }},
	{"trailing-slash", func(m string) string { return "/t.C/" + m + "/" }},
	{"double-leading-slash", func(m string) string { return "//t.C/" + m }},
	{"leading-space", func(m string) string { return " /t.C/" + m }},
	{"inner-and-trailing-space", func(m string) string { return "/t.C/" + m + " x " }},
	{"percent-encoded", func(m string) string { return fmt.Sprintf("/t.C/%%%02X", m[0]) }}, // unescapes to the canonical name
	{"bare-percent", func(m string) string { return "/t.C/" + m + "%" }},
}

func spellName(spell int, kind string) string {
	m := "U"
	if kind == "stream" {
		m = "S"
	}
	return spellings[spell].mk(m)
}

func renameSuffix(layer int) string { return fmt.Sprintf("#L%d", layer) }

// ---------------------------------------------------------------- reference: the base channel called directly

// outcome is everything a caller and the server handler can tell about one call on a real base.
type outcome struct {
	CreateErr     string   `json:"new_stream_error,omitempty"` // stream: NewStream itself failed
	Final         string   `json:"final"`                      // "OK" or code/message/number of details
	Resp          string   `json:"response,omitempty"`         // unary
	Msgs          []string `json:"messages,omitempty"`         // stream
	HandlerRan    int      `json:"handler_ran"`                // times the server handler was entered
	ServerMethod  string   `json:"method_seen_by_server,omitempty"`
	ReqRead       string   `json:"request_read_by_server,omitempty"`
	HdrFromServer int      `json:"header_values_received"` // values of x-from-server in a grpc.Header option
}

func errSummary(err error) string {
	if err == nil || err == io.EOF {
		return "OK"
	}
	st := status.Convert(err)
	return fmt.Sprintf("%s: %q (%d details)", st.Code(), st.Message(), len(st.Details()))
}

func baseByName(name string) grpc.ClientConnInterface {
	switch name {
	case "grpc":
		return realCC
	case "inproc":
		return inprocCh
	case "http":
		return httpCh
	}
	panic("bad base " + name)
}

// driveStream sends the request on a real stream and reads it to its end.
func driveStream(cs grpc.ClientStream, req *wrapperspb.StringValue) (msgs []string, end error) {
	if e := cs.SendMsg(req); e != nil && e != io.EOF {
		return nil, fmt.Errorf("SendMsg: %w", e)
	}
	cs.CloseSend()
	for k := 0; k < 5; k++ {
		var out wrapperspb.StringValue
		if e := cs.RecvMsg(&out); e != nil {
			return msgs, e
		}
		msgs = append(msgs, out.Value)
	}
	return msgs, fmt.Errorf("no end of stream after 5 messages")
}

func directCall(base, kind, method string, baseErr bool) (o outcome) {
	saved := cur.Load()
	l := &clog{}
	cur.Store(newCur(l, baseErr))
	defer cur.Store(saved)
	defer func() {
		if rec := recover(); rec != nil {
			o.Final = fmt.Sprintf("PANIC: %v", rec)
		}
	}()
	ch := baseByName(base)
	var hdr metadata.MD
	req := wrapperspb.String("req")
	if kind == "unary" {
		resp := new(wrapperspb.StringValue)
		o.Final = errSummary(ch.Invoke(context.Background(), method, req, resp, grpc.Header(&hdr)))
		o.Resp = resp.Value
	} else {
		cs, err := ch.NewStream(context.Background(), &grpc.StreamDesc{StreamName: "S", ClientStreams: true, ServerStreams: true}, method, grpc.Header(&hdr))
		if err != nil || cs == nil {
			o.CreateErr = errSummary(err)
			if err == nil {
				o.CreateErr = "nil stream and nil error"
			}
			o.Final = o.CreateErr
		} else {
			var end error
			o.Msgs, end = driveStream(cs, req)
			o.Final = errSummary(end)
		}
	}
	for _, e := range l.take() {
		o.HandlerRan++
		o.ServerMethod, o.ReqRead = e.method, e.reqValue
	}
	o.HdrFromServer = len(hdr.Get("x-from-server"))
	return o
}

type refKey struct {
	base, kind, method string
	baseErr            bool
}

var refCache = map[refKey]outcome{}

// refOutcome: what the base channel does with this call when nothing is wrapped around it. Made twice the first
// time: the reference is only usable if the base is deterministic about it.
func refOutcome(base, kind, method string, baseErr bool) outcome {
	k := refKey{base, kind, method, baseErr}
	if o, ok := refCache[k]; ok {
		return o
	}
	o := directCall(base, kind, method, baseErr)
	if o2 := directCall(base, kind, method, baseErr); !reflect.DeepEqual(o, o2) {
		fmt.Fprintf(os.Stderr, "INCONCLUSIVE: base %s answers a direct %s call to %q (base_err=%v) differently the second time: %+v / %+v\n", base, kind, method, baseErr, o, o2)
		os.Exit(2)
	}
	refCache[k] = o
	return o
}

// refTable: the references that were used, for the evidence.
func refTable() map[string]outcome {
	out := map[string]outcome{}
	for k, o := range refCache {
		out[fmt.Sprintf("%s|%s|%q|base_err=%v", k.base, k.kind, k.method, k.baseErr)] = o
	}
	return out
}

// ---------------------------------------------------------------- enumeration

var (
	// the four shapes of a layer: which kinds it intercepts
	shapeCfgs = []layerCfg{{bNil, bNil}, {bPass, bNil}, {bNil, bPass}, {bPass, bPass}}
	// per-layer alphabet of the real bases at depth 3 in the thorough tier
	shapePlusCfgs = []layerCfg{{bNil, bNil}, {bPass, bNil}, {bNil, bPass}, {bPass, bPass}, {bAddOpt, bAddOpt}, {bShort, bShort}}
)

func allCfgs(behs []int) (out []layerCfg) {
	for _, u := range behs {
		for _, s := range behs {
			out = append(out, layerCfg{u, s})
		}
	}
	return out
}

func eachLayering(depth int, cfgs []layerCfg, fn func([]layerCfg)) {
	n := 1
	for i := 0; i < depth; i++ {
		n *= len(cfgs)
	}
	for idx := 0; idx < n; idx++ {
		layers := make([]layerCfg, depth)
		x := idx
		for i := 0; i < depth; i++ {
			layers[i] = cfgs[x%len(cfgs)]
			x /= len(cfgs)
		}
		fn(layers)
	}
}

// enumerateNames: the non-canonical spellings (and, for the renaming interceptors, the canonical one too).
//
//	recording base: every spelling x the complete single-call grammar (16 per layer, depth 0..3) x base outcome
//	recording base: every spelling (canonical included) x per layer (unary {nil,pass,rename} x stream {same}), depth 1..3,
//	                at least one renaming interceptor x base outcome
//	real bases:     every spelling x base outcome x layers: quick: the four shapes {none, unary-only, stream-only,
//	                both} per layer at depth 0..3; thorough: complete (16 per layer) at depth 0..2, six per layer at depth 3
func enumerateNames(thorough bool, fn func(caseT)) {
	full := allCfgs([]int{bNil, bPass, bShort, bAddOpt})
	for spell := 1; spell < len(spellings); spell++ {
		for depth := 0; depth <= 3; depth++ {
			eachLayering(depth, full, func(layers []layerCfg) {
				for _, be := range []bool{false, true} {
					fn(caseT{Base: "rec", Layers: layers, BaseErr: be, Spell: spell})
				}
			})
		}
	}
	ren := allCfgs([]int{bNil, bPass, bRename})
	for spell := 0; spell < len(spellings); spell++ {
		for depth := 1; depth <= 3; depth++ {
			eachLayering(depth, ren, func(layers []layerCfg) {
				renames := false
				for _, lc := range layers {
					renames = renames || lc.U == bRename || lc.S == bRename
				}
				if !renames {
					return // one of the cases above
				}
				for _, be := range []bool{false, true} {
					fn(caseT{Base: "rec", Layers: layers, BaseErr: be, Spell: spell})
				}
			})
		}
	}
	for spell := 1; spell < len(spellings); spell++ {
		for _, base := range []string{"grpc", "inproc", "http"} {
			for depth := 0; depth <= 3; depth++ {
				cfgs := shapeCfgs
				if thorough {
					cfgs = full
					if depth == 3 {
						cfgs = shapePlusCfgs
					}
				}
				eachLayering(depth, cfgs, func(layers []layerCfg) {
					for _, be := range []bool{false, true} {
						fn(caseT{Base: base, Layers: layers, BaseErr: be, Spell: spell})
					}
				})
			}
		}
	}
}

func (c caseT) renames() bool {
	for _, lc := range c.Layers {
		if lc.U == bRename || lc.S == bRename {
			return true
		}
	}
	return false
}

// nameSuffix: what the spelling dimension adds to the description of a case.
func (c caseT) nameSuffix() string {
	if c.Spell == 0 {
		return ""
	}
	return fmt.Sprintf(" method-name=%s (unary %q, stream %q)", spellings[c.Spell].label, spellName(c.Spell, "unary"), spellName(c.Spell, "stream"))
}

func isNameSample(c caseT) bool {
	if c.BaseErr || len(c.Layers) != 2 {
		return false
	}
	if c.renames() {
		return c.Spell == 1 && c.Layers[0] == (layerCfg{bPass, bRename}) && c.Layers[1] == (layerCfg{bRename, bPass})
	}
	if c.Layers[0] != (layerCfg{bPass, bNil}) || c.Layers[1] != (layerCfg{bPass, bPass}) {
		return false
	}
	switch c.Base {
	case "rec":
		return c.Spell == 2 || c.Spell == 9
	case "inproc", "grpc", "http":
		return c.Spell == 1
	}
	return false
}

func quoteAll(s []string) string {
	q := make([]string, len(s))
	for i, x := range s {
		q[i] = fmt.Sprintf("%q", x)
	}
	return strings.Join(q, " ")
}

func spellingTable() map[string][]string {
	out := map[string][]string{}
	for i, sp := range spellings {
		out[sp.label] = []string{spellName(i, "unary"), spellName(i, "stream")}
	}
	return out
}
