// C17, the dimension "what else is in the chain of channels".
//
// All other cases build the chain from grpchan's own interceptor layers over a pointer-typed root (the
// re-entrant cases add one pointer-typed third-party wrapper). The statement quantifies over "any wrapping
// depth": a user of the library may put wrappers of his own (anything that implements
// grpchan.WrappedClientConn) beneath and between the interceptor layers, and such a wrapper -- like the root
// channel itself -- may be of any Go type that has the methods: a pointer, a small comparable struct VALUE, or a
// struct value that is not comparable (it carries a slice, a map or a func). Here the chain is
//
//	layer d > slot d-1 > layer d-1 > ... > layer 1 > slot 0 > root
//
// where every slot holds a sequence of 0..n FOREIGN WRAPPERS, each one of
//
//	P  *ptrWrap    pointer type
//	C  cmpWrap     struct value, comparable
//	S  sliceWrap   struct value with a slice field: not comparable, not hashable
//	F  funcWrap    struct value with a func field: another non-comparable type
//
// (the same letter twice = two values of the same dynamic type directly nested), and the root is the recording
// base as a pointer, the recording base as a non-comparable struct VALUE, a "terminal" wrapper (it serves the
// calls itself and its Unwrap() returns nil: nothing underneath), or one of the three real bases. Foreign
// wrappers hand every call on unchanged and write themselves into the event log, so the single-call oracle
// (rig.call) demands in addition: every foreign wrapper beneath the outermost layer is passed exactly once, in
// chain order, with the method name, message objects, StreamDesc and options of that point of the chain, and
// hands back what it got; every interceptor is given the root *grpc.ClientConn through any number of foreign
// wrappers of any shape and nil when the root is something else; nothing panics.
package main

import (
	"context"
	"fmt"
	"reflect"
	"strings"
	"sync/atomic"

	"github.com/fullstorydev/grpchan"
	"google.golang.org/grpc"
)

// ids of foreign wrappers in the event log (entry.layer): foreignBase + 10*slot + position
const foreignBase = 1000

var foreignKinds = "PCSF"

type fwInfo struct {
	l         *clog
	id        int
	slot, pos int
	kind      byte
}

func (f *fwInfo) name() string { return fmt.Sprintf("W%d.%d(%c)", f.slot, f.pos, f.kind) }

func (f *fwInfo) invoke(next grpc.ClientConnInterface, ctx context.Context, method string, req, reply interface{}, opts []grpc.CallOption) error {
	e := f.l.add(&entry{layer: f.id, foreign: f, kind: "unary", ctx: ctx, method: method, req: req, resp: reply, opts: cp(opts), called: true})
	e.gotErr = next.Invoke(ctx, method, req, reply, opts...)
	e.retErr = e.gotErr
	return e.retErr
}

func (f *fwInfo) newStream(next grpc.ClientConnInterface, ctx context.Context, desc *grpc.StreamDesc, method string, opts []grpc.CallOption) (grpc.ClientStream, error) {
	e := f.l.add(&entry{layer: f.id, foreign: f, kind: "stream", ctx: ctx, method: method, desc: desc, opts: cp(opts), called: true})
	e.gotStream, e.gotErr = next.NewStream(ctx, desc, method, opts...)
	e.retStream, e.retErr = e.gotStream, e.gotErr
	return e.retStream, e.retErr
}

// identified: channels of this file say who they are, so that the checker itself never has to compare two
// interface values that may hold a non-comparable type.
type identified interface{ chanID() *fwInfo }

// P: pointer type
type ptrWrap struct {
	grpc.ClientConnInterface
	f *fwInfo
}

func (w *ptrWrap) Invoke(ctx context.Context, method string, req, reply interface{}, opts ...grpc.CallOption) error {
	return w.f.invoke(w.ClientConnInterface, ctx, method, req, reply, opts)
}
func (w *ptrWrap) NewStream(ctx context.Context, desc *grpc.StreamDesc, method string, opts ...grpc.CallOption) (grpc.ClientStream, error) {
	return w.f.newStream(w.ClientConnInterface, ctx, desc, method, opts)
}
func (w *ptrWrap) Unwrap() grpc.ClientConnInterface { return w.ClientConnInterface }
func (w *ptrWrap) chanID() *fwInfo                  { return w.f }

// C: comparable struct value
type cmpWrap struct {
	grpc.ClientConnInterface
	f *fwInfo
}

func (w cmpWrap) Invoke(ctx context.Context, method string, req, reply interface{}, opts ...grpc.CallOption) error {
	return w.f.invoke(w.ClientConnInterface, ctx, method, req, reply, opts)
}
func (w cmpWrap) NewStream(ctx context.Context, desc *grpc.StreamDesc, method string, opts ...grpc.CallOption) (grpc.ClientStream, error) {
	return w.f.newStream(w.ClientConnInterface, ctx, desc, method, opts)
}
func (w cmpWrap) Unwrap() grpc.ClientConnInterface { return w.ClientConnInterface }
func (w cmpWrap) chanID() *fwInfo                  { return w.f }

// S: struct value with a slice field (say, default call options that happen to be empty)
type sliceWrap struct {
	grpc.ClientConnInterface
	f        *fwInfo
	defaults []grpc.CallOption
}

func (w sliceWrap) Invoke(ctx context.Context, method string, req, reply interface{}, opts ...grpc.CallOption) error {
	return w.f.invoke(w.ClientConnInterface, ctx, method, req, reply, opts)
}
func (w sliceWrap) NewStream(ctx context.Context, desc *grpc.StreamDesc, method string, opts ...grpc.CallOption) (grpc.ClientStream, error) {
	return w.f.newStream(w.ClientConnInterface, ctx, desc, method, opts)
}
func (w sliceWrap) Unwrap() grpc.ClientConnInterface { return w.ClientConnInterface }
func (w sliceWrap) chanID() *fwInfo                  { return w.f }

// F: struct value with a func field
type funcWrap struct {
	grpc.ClientConnInterface
	f    *fwInfo
	hook func()
}

func (w funcWrap) Invoke(ctx context.Context, method string, req, reply interface{}, opts ...grpc.CallOption) error {
	return w.f.invoke(w.ClientConnInterface, ctx, method, req, reply, opts)
}
func (w funcWrap) NewStream(ctx context.Context, desc *grpc.StreamDesc, method string, opts ...grpc.CallOption) (grpc.ClientStream, error) {
	return w.f.newStream(w.ClientConnInterface, ctx, desc, method, opts)
}
func (w funcWrap) Unwrap() grpc.ClientConnInterface { return w.ClientConnInterface }
func (w funcWrap) chanID() *fwInfo                  { return w.f }

var (
	_ grpchan.WrappedClientConn = (*ptrWrap)(nil)
	_ grpchan.WrappedClientConn = cmpWrap{}
	_ grpchan.WrappedClientConn = sliceWrap{}
	_ grpchan.WrappedClientConn = funcWrap{}
)

func newForeign(l *clog, kind byte, slot, pos int, under grpc.ClientConnInterface) (grpc.ClientConnInterface, *fwInfo) {
	f := &fwInfo{l: l, id: foreignBase + 10*slot + pos, slot: slot, pos: pos, kind: kind}
	switch kind {
	case 'P':
		return &ptrWrap{ClientConnInterface: under, f: f}, f
	case 'C':
		return cmpWrap{ClientConnInterface: under, f: f}, f
	case 'S':
		return sliceWrap{ClientConnInterface: under, f: f, defaults: []grpc.CallOption{}}, f
	case 'F':
		return funcWrap{ClientConnInterface: under, f: f, hook: func() {}}, f
	}
	panic("bad foreign wrapper kind " + string(kind))
}

// roots: the recording base in other shapes

// recValRoot: the recording base as a struct VALUE that is not comparable; not a wrapper.
type recValRoot struct {
	*recBase
	f    *fwInfo
	tags []string
}

func (r recValRoot) chanID() *fwInfo { return r.f }

// termRoot: implements WrappedClientConn, serves the calls itself, has nothing underneath.
type termRoot struct {
	*recBase
}

func (r *termRoot) Unwrap() grpc.ClientConnInterface { return nil }

// sameChannel: a is the very channel b, without ever comparing non-comparable values.
func sameChannel(a, b grpc.ClientConnInterface) bool {
	ia, oka := a.(identified)
	ib, okb := b.(identified)
	if oka || okb {
		return oka && okb && reflect.TypeOf(a) == reflect.TypeOf(b) && ia.chanID() == ib.chanID()
	}
	ta, tb := reflect.TypeOf(a), reflect.TypeOf(b)
	if ta != tb {
		return false
	}
	if ta != nil && !ta.Comparable() {
		return false
	}
	return a == b
}

// ---------------------------------------------------------------- description

func (c caseT) isChain() bool {
	if c.Root != "" {
		return true
	}
	for _, w := range c.Wraps {
		if w != "" {
			return true
		}
	}
	return false
}

func (c caseT) rootName() string {
	if c.Root == "" {
		return c.Base
	}
	return c.Base + "-" + c.Root
}

func (c caseT) slot(i int) string {
	if i < len(c.Wraps) {
		return c.Wraps[i]
	}
	return ""
}

// chainPattern: the chain from the outermost layer down to the layer `from` (exclusive; 0 = down to the root),
// outermost first; kind "" prints both behaviours of a layer.
func (c caseT) chainPattern(kind string, top int) string {
	var s []string
	for i := top; i >= 1; i-- {
		lc := c.Layers[i-1]
		switch kind {
		case "unary":
			s = append(s, behNames[lc.U])
		case "stream":
			s = append(s, behNames[lc.S])
		default:
			s = append(s, behNames[lc.U]+"/"+behNames[lc.S])
		}
		w := c.slot(i - 1)
		for k := len(w) - 1; k >= 0; k-- {
			s = append(s, string(w[k]))
		}
	}
	return "[" + strings.Join(s, ">") + "]"
}

// beneath: what lies beneath layer i, outermost first.
func (c caseT) beneath(i int) string {
	var s []string
	w := c.slot(i - 1)
	for k := len(w) - 1; k >= 0; k-- {
		s = append(s, string(w[k]))
	}
	if i > 1 {
		inner := c.chainPattern("", i-1)
		s = append(s, inner[1:len(inner)-1])
	}
	return "[" + strings.Join(s, ">") + "]"
}

func (c caseT) chainSuffix() string {
	if !c.isChain() {
		return ""
	}
	return fmt.Sprintf(" CHAIN (outermost first; P/C/S/F = foreign wrapper: pointer / comparable value / value with a slice / value with a func): %s > root %s", c.chainPattern("", len(c.Layers)), c.rootName())
}

// ---------------------------------------------------------------- running

func panicText(rec interface{}) string {
	s := fmt.Sprint(rec)
	if len(s) > 120 {
		s = s[:120]
	}
	return s
}

func runChain(c caseT, verbose bool) (probs []problem, observed string) {
	atomic.AddInt64(&progress, 1)
	current.Store(c.String())
	var r *rig
	func() {
		defer func() {
			if rec := recover(); rec != nil {
				probs = append(probs, problem{clause: "panic", sub: "wrapping|" + panicText(rec), what: fmt.Sprintf("building the chain (InterceptClientConn / Unwrap) panicked: %v", rec)})
			}
		}()
		r = newRig(c, verbose)
	}()
	if r == nil {
		return probs, ""
	}
	for _, kind := range []string{"unary", "stream"} {
		func() {
			ctx, cancel := context.WithCancel(context.Background())
			defer cancel()
			defer func() {
				if rec := recover(); rec != nil {
					es := layersOf(r.l.take())
					r.add(0, "panic", kind+"|"+panicText(rec), fmt.Sprintf("%s call: library code panicked: %v (participants entered before that, 0=base, %d+ = foreign wrappers: %v)", kind, rec, foreignBase, es))
					r.obs = append(r.obs, fmt.Sprintf("%s: PANIC %v", kind, rec))
					if verbose {
						fmt.Printf("  %s: PANIC %v\n", kind, rec)
					}
				}
			}()
			r.call(0, kind, ctx, cancel, 0, false)
		}()
	}
	return r.probs, strings.Join(r.obs, "; ")
}

// chainReachesMechanism: a call passes an interceptor that has a foreign wrapper or an unusual root somewhere
// beneath it, i.e. the library computes a connection argument by walking through foreign code.
func chainReachesMechanism(c caseT) bool {
	for i := len(c.Layers); i >= 1; i-- {
		lc := c.Layers[i-1]
		if lc.U == bNil && lc.S == bNil {
			continue
		}
		if c.Root != "" {
			return true
		}
		for k := 0; k < i; k++ {
			if c.slot(k) != "" {
				return true
			}
		}
	}
	return false
}

// ---------------------------------------------------------------- enumeration

// slotContents: every sequence of up to maxLen foreign wrappers over the alphabet.
func slotContents(alphabet string, maxLen int) []string {
	out := []string{""}
	prev := []string{""}
	for n := 1; n <= maxLen; n++ {
		var next []string
		for _, p := range prev {
			for _, k := range alphabet {
				next = append(next, p+string(k))
			}
		}
		out = append(out, next...)
		prev = next
	}
	return out
}

type chainRoot struct {
	base, root string
}

var (
	chainRootsMain = []chainRoot{{"rec", ""}, {"rec", "value"}, {"rec", "terminal"}, {"grpc", ""}}
	chainRootsMore = []chainRoot{{"inproc", ""}, {"http", ""}}
	// slot contents of the deepest chains: nothing, one wrapper of the three type classes, two of the same
	// non-comparable type, two of different non-comparable types, a comparable one holding a non-comparable one
	slotSweep = []string{"", "P", "S", "SS", "SF", "SC"}
	passCfgs  = []layerCfg{{bPass, bPass}, {bPass, bNil}, {bNil, bPass}}
)

func eachSlots(depth int, contents []string, fn func([]string)) {
	n := 1
	for i := 0; i < depth; i++ {
		n *= len(contents)
	}
	for idx := 0; idx < n; idx++ {
		w := make([]string, depth)
		x := idx
		for i := 0; i < depth; i++ {
			w[i] = contents[x%len(contents)]
			x /= len(contents)
		}
		fn(w)
	}
}

// enumerateChain: (root) x (layer configurations) x (contents of every slot) x base outcome; live contexts,
// canonical method names. Chains with nothing foreign in them are the cases of enumerate() and are left out.
//
//	quick     depth 1: 16 per layer, slots of 0..3 wrappers; depth 2: 5 per layer (sweepQuick), slots of 0..2;
//	          depth 3: 3 per layer (pass/pass, pass/nil, nil/pass), slots from slotSweep, base outcome ok;
//	          in-process and HTTP roots: depth 1 as above, depth 2 with the four shapes per layer, outcome ok
//	thorough  depth 2: 16 per layer; depth 3: 5 per layer; in-process and HTTP roots: depth 2 with 6 per layer,
//	          both outcomes, depth 3 like quick's
func enumerateChain(thorough bool, fn func(caseT)) {
	full := allCfgs([]int{bNil, bPass, bShort, bAddOpt})
	emit := func(roots []chainRoot, depth int, cfgs []layerCfg, contents []string, outcomes []bool) {
		for _, rt := range roots {
			eachLayering(depth, cfgs, func(layers []layerCfg) {
				eachSlots(depth, contents, func(w []string) {
					for _, be := range outcomes {
						c := caseT{Base: rt.base, Root: rt.root, Layers: layers, Wraps: w, BaseErr: be}
						if c.isChain() {
							fn(c)
						}
					}
				})
			})
		}
	}
	both, ok := []bool{false, true}, []bool{false}
	upTo2, upTo3 := slotContents(foreignKinds, 2), slotContents(foreignKinds, 3)
	allRoots := append(append([]chainRoot(nil), chainRootsMain...), chainRootsMore...)
	emit(allRoots, 1, full, upTo3, both)
	if !thorough {
		emit(chainRootsMain, 2, sweepQuick, upTo2, both)
		emit(chainRootsMain, 3, passCfgs, slotSweep, ok)
		emit(chainRootsMore, 2, shapeCfgs, upTo2, ok)
		return
	}
	emit(chainRootsMain, 2, full, upTo2, both)
	emit(chainRootsMain, 3, sweepQuick, slotSweep, ok)
	emit(chainRootsMore, 2, shapePlusCfgs, upTo2, both)
	emit(chainRootsMore, 3, passCfgs, slotSweep, ok)
}

func isChainSample(c caseT) bool {
	if c.BaseErr || len(c.Layers) != 2 || c.Layers[0] != (layerCfg{bPass, bPass}) || c.Layers[1] != (layerCfg{bPass, bPass}) {
		return false
	}
	switch c.rootName() {
	case "grpc":
		return c.slot(0) == "SS" && c.slot(1) == "" || c.slot(0) == "PC" && c.slot(1) == "FF"
	case "rec-value":
		return c.slot(0) == "S" && c.slot(1) == "CC"
	case "rec-terminal":
		return c.slot(0) == "" && c.slot(1) == "SF"
	case "http":
		return c.slot(0) == "FF" && c.slot(1) == "P"
	}
	return false
}
