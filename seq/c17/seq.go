// C17, sequences of calls that share a context.
//
// The single-call cases of main.go give every call a context of its own. Here the dimension is WHERE THE
// CONTEXT OF A CALL COMES FROM: after a first call through the outermost wrapper, a second and a third call
// are made on a context that is
//
//	fresh   a new context that has nothing to do with the first call (both follow-up calls share it)
//	same    the very context object the caller used for the first call
//	stream  the Context() of the stream the first call returned (which is still open)
//	icpt@Lj the context that the interceptor of layer j was handed during the first call
//
// taken as it is, or wrapped once more with context.WithValue / context.WithCancel. None of this may matter:
// each follow-up call must be seen by every applicable layer exactly once, outermost first, with the right
// connection argument, options and results -- the same oracle as for a single call (rig.call).
package main

import (
	"context"
	"fmt"
	"strings"
	"sync/atomic"
)

type seqCase struct {
	K1       string `json:"k1"`                  // kind of the first call
	Src      string `json:"src"`                 // fresh | same | stream | icpt
	SrcLayer int    `json:"src_layer,omitempty"` // icpt: the layer whose interceptor captured the context
	Deriv    string `json:"deriv"`               // none | value | cancel
	K2       string `json:"k2"`                  // kinds of the two follow-up calls made on the context
	K3       string `json:"k3"`
}

var (
	seqKinds  = []string{"unary", "stream"}
	seqDerivs = []string{"none", "value", "cancel"}
)

func (s *seqCase) srcName() string {
	n := s.Src
	if s.Src == "icpt" {
		n += fmt.Sprintf("@L%d", s.SrcLayer)
	}
	switch s.Deriv {
	case "value":
		n = "WithValue(" + n + ")"
	case "cancel":
		n = "WithCancel(" + n + ")"
	}
	return n
}

type seqKeyT struct{}

// seqSources lists the provenances that exist for a first call of kind k1 in configuration (base, layers,
// baseErr): a layer can only have captured a context if the first call reaches its interceptor, and there is a
// stream context only if the first call returns a stream.
func seqSources(base string, layers []layerCfg, baseErr bool, k1 string) (out []seqCase) {
	out = append(out, seqCase{Src: "fresh"}, seqCase{Src: "same"})
	log, reached := expectedLayers(layers, k1)
	if k1 == "stream" && (!reached || base != "rec" || !baseErr) {
		// short-circuited: the interceptor's own stream; a real base returns a stream whatever the handler
		// will do; the recording base returns one unless it fails
		out = append(out, seqCase{Src: "stream"})
	}
	for _, j := range log {
		if j > 0 {
			out = append(out, seqCase{Src: "icpt", SrcLayer: j})
		}
	}
	return out
}

var seqStats struct {
	followUps  int // sequences whose two follow-up calls were made
	noSource   int // the first call did not produce the context source (reported by the first call's checks)
	deadSource int // the context source was already done when the follow-up calls were due (not reported)
}

func runSeq(c caseT, verbose bool) (probs []problem, observed string) {
	atomic.AddInt64(&progress, 1)
	current.Store(c.String())
	var r *rig
	defer func() {
		if rec := recover(); rec != nil {
			if r != nil {
				probs = r.probs
			}
			probs = append(probs, problem{clause: "panic", what: fmt.Sprintf("library code panicked: %v", rec)})
		}
	}()
	s := c.Seq
	r = newRig(c, verbose)

	// the first call; a stream stays open while the follow-up calls are made
	ctx1, cancel1 := context.WithCancel(context.Background())
	defer cancel1()
	first := r.call(1, s.K1, ctx1, cancel1, 0, true)

	// the context of the follow-up calls
	var src context.Context
	switch s.Src {
	case "fresh":
		var cancel context.CancelFunc
		src, cancel = context.WithCancel(context.Background())
		defer cancel()
	case "same":
		src = ctx1
	case "stream":
		if first.cs != nil {
			src = first.cs.Context()
		}
	case "icpt":
		for _, e := range first.es {
			if e.layer == s.SrcLayer && e.layer > 0 {
				src = e.ctx
			}
		}
	default:
		panic("bad context source " + s.Src)
	}
	if src != nil {
		switch s.Deriv {
		case "none":
		case "value":
			src = context.WithValue(src, seqKeyT{}, "v")
		case "cancel":
			var cancel context.CancelFunc
			src, cancel = context.WithCancel(src)
			defer cancel()
		default:
			panic("bad derivation " + s.Deriv)
		}
	}
	switch {
	case src == nil:
		// the first call did not leave behind what the model says it does (no stream, or the layer was not
		// reached): the first call's own checks (finish) report that; there is nothing to make calls on
		seqStats.noSource++
	case src.Err() != nil:
		// the oracle of the follow-up calls presumes a live context, and the first call's stream is still open
		// and the caller's context live. When a base channel ends its stream's context early that is not this
		// property's business: not reported, but counted (the evidence shows it)
		seqStats.deadSource++
	default:
		seqStats.followUps++
		r.call(2, s.K2, src, nil, 0, false)
		r.call(3, s.K3, src, nil, 0, false)
	}
	first.finish()
	if n := len(r.obs); n > 1 { // the first call's observation was completed last: put it first
		r.obs = append([]string{r.obs[n-1]}, r.obs[:n-1]...)
	}
	return r.probs, strings.Join(r.obs, "; ")
}

// enumerateSeq: every (base, layer configuration, base outcome) of the single-call grammar x first call kind x
// context source x derivation x kinds of the two follow-up calls. The layer configurations are complete (16
// per layer) up to depth fullDepth; at greater depths (up to 3) each layer is taken from sweepCfgs.
func enumerateSeq(fullDepth int, sweepCfgs []layerCfg, fn func(caseT)) {
	var all []layerCfg
	for u := 0; u < 4; u++ {
		for s := 0; s < 4; s++ {
			all = append(all, layerCfg{u, s})
		}
	}
	for depth := 0; depth <= 3; depth++ {
		cfgs := all
		if depth > fullDepth {
			cfgs = sweepCfgs
		}
		n := 1
		for i := 0; i < depth; i++ {
			n *= len(cfgs)
		}
		for _, base := range []string{"rec", "grpc", "inproc", "http"} {
			for idx := 0; idx < n; idx++ {
				layers := make([]layerCfg, depth)
				x := idx
				for i := 0; i < depth; i++ {
					layers[i] = cfgs[x%len(cfgs)]
					x /= len(cfgs)
				}
				for _, be := range []bool{false, true} {
					for _, k1 := range seqKinds {
						for _, sc := range seqSources(base, layers, be, k1) {
							for _, d := range seqDerivs {
								for _, k2 := range seqKinds {
									for _, k3 := range seqKinds {
										s := sc
										s.K1, s.Deriv, s.K2, s.K3 = k1, d, k2, k3
										fn(caseT{Base: base, Layers: layers, BaseErr: be, Seq: &s})
									}
								}
							}
						}
					}
				}
			}
		}
	}
}

// seqReachesMechanism: a follow-up call on a reused context passes at least one interceptor.
func seqReachesMechanism(c caseT) bool {
	if c.Seq.Src == "fresh" {
		return false
	}
	for _, k := range []string{c.Seq.K2, c.Seq.K3} {
		log, _ := expectedLayers(c.Layers, k)
		if len(log) > 0 && log[0] > 0 {
			return true
		}
	}
	return false
}

// isSeqSample picks one sequence per context source for the evidence: two pass/pass layers, a stream first,
// then a unary call and a stream on the context.
func isSeqSample(c caseT) bool {
	s := c.Seq
	if len(c.Layers) != 2 || c.Layers[0] != (layerCfg{bPass, bPass}) || c.Layers[1] != (layerCfg{bPass, bPass}) ||
		c.BaseErr || s.K1 != "stream" || s.K2 != "unary" || s.K3 != "stream" {
		return false
	}
	switch s.Src {
	case "fresh":
		return c.Base == "grpc" && s.Deriv == "none"
	case "same":
		return c.Base == "inproc" && s.Deriv == "none"
	case "stream":
		return (c.Base == "http" && s.Deriv == "none") || (c.Base == "grpc" && s.Deriv == "cancel")
	case "icpt":
		return c.Base == "grpc" && s.Deriv == "value" && s.SrcLayer == 1
	}
	return false
}
