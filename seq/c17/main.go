// C17: client interceptors (grpchan.InterceptClientConn).
//
// Exhaustive grammar: wrapping depth 0..3 x per layer (unary {nil,pass,
// short-circuit,append-an-option} x stream {same}) x base channel {recording
// stub, real *grpc.ClientConn on bufconn, in-process channel, HTTP channel over
// an in-memory RoundTripper} x base outcome {ok, error}. Every configuration
// makes one unary call and one stream creation through the outermost wrapper,
// each on a context of its own. Re-entrant cases (runReentrant) put a third-party
// wrapper into the chain; sequence cases (seq.go) make further calls on a context
// that stems from an earlier call (the stream's Context(), a context an
// interceptor was handed, the caller's own, or one derived from those). Method-name cases
// (names.go) repeat the single-call cases with every spelling of the method name and with
// interceptors that hand on another name. Chain cases (chain.go) put user-written wrappers of every type shape
// (pointer, comparable value, non-comparable value) into the slots beneath and between the layers and vary the
// shape of the root channel.
package main

import (
	"context"
	"fmt"
	"hash/fnv"
	"io"
	"net"
	"net/url"
	"os"
	"reflect"
	"strings"
	"sync"
	"sync/atomic"
	"time"

	"github.com/fullstorydev/grpchan"
	"github.com/fullstorydev/grpchan/httpgrpc"
	"github.com/fullstorydev/grpchan/inprocgrpc"
	"google.golang.org/grpc"
	"google.golang.org/grpc/codes"
	"google.golang.org/grpc/credentials/insecure"
	"google.golang.org/grpc/metadata"
	"google.golang.org/grpc/status"
	"google.golang.org/grpc/test/bufconn"
	"google.golang.org/protobuf/types/known/wrapperspb"

	"verif/seq/common"
	"verif/vlib"
)

// ---------------------------------------------------------------- grammar

const (
	bNil = iota
	bPass
	bShort
	bAddOpt
)

var behNames = []string{"nil", "pass", "short", "addopt", "rename"} // rename: names.go

type layerCfg struct {
	U int `json:"u"`
	S int `json:"s"`
}

type caseT struct {
	Base    string     `json:"base"`   // rec | grpc | inproc | http
	Layers  []layerCfg `json:"layers"` // index 0 = innermost (wraps the base)
	BaseErr bool       `json:"base_err"`
	// Ctx: 0 = the caller's context stays live; 1 = already cancelled when the call is made (recording
	// base only); 2 = cancelled by the innermost interceptor that is reached, just before it returns
	// (recording base: both kinds; real bases: the unary call, which is complete by then).
	Ctx int `json:"ctx,omitempty"`
	// Spell: the spelling of the method name the caller uses (index into spellings, names.go); 0 = "/t.C/U", "/t.C/S"
	Spell int `json:"spell,omitempty"`
	// Re, when set, makes this a RE-ENTRANT case (see runReentrant); Layers is unused.
	Re *reCase `json:"reentrant,omitempty"`
	// Seq, when set, makes this a SEQUENCE case (see seq.go): three calls, the second and third on a context
	// that stems from the first; Ctx is unused (all contexts stay live).
	Seq *seqCase `json:"sequence,omitempty"`
	// Wraps and Root (chain.go): Wraps[i] = the foreign wrappers in the slot beneath layer i+1 (directly on the
	// root for i = 0), innermost first, one letter each (P C S F); Root = shape of the recording base: "" (a
	// pointer) | "value" (a non-comparable struct value) | "terminal" (a wrapper whose Unwrap() returns nil).
	Wraps []string `json:"foreign,omitempty"`
	Root  string   `json:"root,omitempty"`
}

type reCase struct {
	Inner int      `json:"inner"` // pass/pass interceptor layers between the base and the third-party wrapper (0 or 1)
	Above int      `json:"above"` // interceptor layers above the wrapper (1 or 2)
	Cfg   layerCfg `json:"cfg"`   // their configuration
	K1    string   `json:"k1"`    // kind of the RPC made by the caller
	K2    string   `json:"k2"`    // kind of the RPC issued from inside the wrapper's first Unwrap()
}

func (c caseT) pattern(kind string) string {
	// outermost first
	var s []string
	for i := len(c.Layers) - 1; i >= 0; i-- {
		b := c.Layers[i].U
		if kind == "stream" {
			b = c.Layers[i].S
		}
		s = append(s, behNames[b])
	}
	return "[" + strings.Join(s, ">") + "]"
}

func (c caseT) String() string {
	if c.Re != nil {
		return fmt.Sprintf("reentrant base=%s layers-beneath-wrapper=%d layers-above=%d (unary=%s stream=%s) rpc=%s, from inside Unwrap: %s", c.Base, c.Re.Inner, c.Re.Above, behNames[c.Re.Cfg.U], behNames[c.Re.Cfg.S], c.Re.K1, c.Re.K2)
	}
	s := fmt.Sprintf("base=%s depth=%d unary=%s stream=%s base_err=%v", c.Base, len(c.Layers), c.pattern("unary"), c.pattern("stream"), c.BaseErr)
	if c.Seq != nil {
		s += fmt.Sprintf(" SEQUENCE: %s call on a new context, then %s and %s on %s", c.Seq.K1, c.Seq.K2, c.Seq.K3, c.Seq.srcName())
	}
	if c.Ctx != 0 {
		s += " ctx=" + []string{"live", "cancelled-before-the-call", "cancelled-by-innermost-interceptor-before-it-returns"}[c.Ctx]
	}
	return s + c.nameSuffix() + c.chainSuffix()
}

// ---------------------------------------------------------------- event log

type entry struct {
	layer     int // 1 = innermost wrapper ... depth = outermost; 0 = the base; foreignBase+ = a foreign wrapper (chain.go)
	foreign   *fwInfo
	kind      string
	ctx       context.Context // the context this participant was given
	method    string
	req, resp interface{}
	desc      *grpc.StreamDesc
	opts      []grpc.CallOption
	cc        *grpc.ClientConn
	called    bool
	gotErr    error
	gotStream grpc.ClientStream
	retErr    error
	retStream grpc.ClientStream
	reqValue  string
}

type clog struct {
	mu sync.Mutex
	es []*entry
	// hook of the current call: an interceptor of the given layer is about to return
	beforeReturn func(layer int)
}

func (l *clog) returning(layer int) {
	if l.beforeReturn != nil {
		l.beforeReturn(layer)
	}
}

func (l *clog) add(e *entry) *entry {
	l.mu.Lock()
	l.es = append(l.es, e)
	l.mu.Unlock()
	return e
}

func (l *clog) take() []*entry {
	l.mu.Lock()
	defer l.mu.Unlock()
	es := l.es
	l.es = nil
	return es
}

// what the handlers of the real bases consult
type curT struct {
	l       *clog
	baseErr bool
	// the stream handler announces here that it has started (and has logged its entry): a stream that is
	// kept open while further calls are made must have its base entry attributed to the right call
	started chan struct{}
}

func newCur(l *clog, baseErr bool) *curT {
	return &curT{l: l, baseErr: baseErr, started: make(chan struct{}, 256)}
}

// awaitHandler blocks until the server handler of the stream just created has logged its entry.
func (c *curT) awaitHandler() {
	select {
	case <-c.started:
	case <-time.After(25 * time.Second):
		fmt.Fprintf(os.Stderr, "INCONCLUSIVE: a stream was created on a real base but its server handler did not start within 25s in case %v\n", current.Load())
		os.Exit(2)
	}
}

func (c *curT) drainSignals() {
	for {
		select {
		case <-c.started:
		default:
			return
		}
	}
}

var cur atomic.Value // *curT

type tagOpt struct {
	grpc.EmptyCallOption
	tag string
}

type fakeCS struct {
	grpc.ClientStream
	tag string
	ctx context.Context // what a stream's Context() is derived from: the context its creator was given
}

func (f *fakeCS) Context() context.Context { return f.ctx }

type layerState struct {
	idx         int
	hdrU, hdrS  metadata.MD
	optU, optS  grpc.CallOption
	shortErr    error
	shortStream *fakeCS
}

func cp(opts []grpc.CallOption) []grpc.CallOption { return append([]grpc.CallOption(nil), opts...) }

func mkUnary(l *clog, ls *layerState, b int) grpc.UnaryClientInterceptor {
	if b == bNil {
		return nil
	}
	return func(ctx context.Context, method string, req, reply interface{}, cc *grpc.ClientConn, invoker grpc.UnaryInvoker, opts ...grpc.CallOption) error {
		e := l.add(&entry{layer: ls.idx, kind: "unary", ctx: ctx, method: method, req: req, resp: reply, opts: cp(opts), cc: cc})
		switch b {
		case bPass:
			e.called = true
			e.gotErr = invoker(ctx, method, req, reply, cc, opts...)
			e.retErr = e.gotErr
		case bShort:
			e.retErr = ls.shortErr
		case bAddOpt:
			e.called = true
			e.gotErr = invoker(ctx, method, req, reply, cc, append(cp(opts), ls.optU)...)
			e.retErr = e.gotErr
		case bRename:
			e.called = true
			e.gotErr = invoker(ctx, method+renameSuffix(ls.idx), req, reply, cc, opts...)
			e.retErr = e.gotErr
		}
		l.returning(ls.idx)
		return e.retErr
	}
}

func mkStream(l *clog, ls *layerState, b int) grpc.StreamClientInterceptor {
	if b == bNil {
		return nil
	}
	return func(ctx context.Context, desc *grpc.StreamDesc, cc *grpc.ClientConn, method string, streamer grpc.Streamer, opts ...grpc.CallOption) (grpc.ClientStream, error) {
		e := l.add(&entry{layer: ls.idx, kind: "stream", ctx: ctx, method: method, desc: desc, opts: cp(opts), cc: cc})
		switch b {
		case bPass:
			e.called = true
			e.gotStream, e.gotErr = streamer(ctx, desc, cc, method, opts...)
			e.retStream, e.retErr = e.gotStream, e.gotErr
		case bShort:
			e.retStream = &fakeCS{tag: ls.shortStream.tag, ctx: ctx} // a new stream object per creation, like a real channel
		case bAddOpt:
			e.called = true
			e.gotStream, e.gotErr = streamer(ctx, desc, cc, method, append(cp(opts), ls.optS)...)
			e.retStream, e.retErr = e.gotStream, e.gotErr
		case bRename:
			e.called = true
			e.gotStream, e.gotErr = streamer(ctx, desc, cc, method+renameSuffix(ls.idx), opts...)
			e.retStream, e.retErr = e.gotStream, e.gotErr
		}
		l.returning(ls.idx)
		if e.retStream == nil { // a nil *fakeCS must not become a non-nil interface
			return nil, e.retErr
		}
		return e.retStream, e.retErr
	}
}

// ---------------------------------------------------------------- bases

const (
	unaryMethod  = "/t.C/U"
	streamMethod = "/t.C/S"
)

// the base's failure: a status with details, nothing to do with contexts
var errBase = func() error {
	st, err := status.New(codes.NotFound, "base error").WithDetails(wrapperspb.String("base detail"))
	if err != nil {
		panic(err)
	}
	return st.Err()
}()

func isBaseError(err error) bool {
	st, ok := status.FromError(err)
	if !ok || err == nil || st.Code() != codes.NotFound || st.Message() != "base error" || len(st.Details()) != 1 {
		return false
	}
	d, ok := st.Details()[0].(*wrapperspb.StringValue)
	return ok && d.Value == "base detail"
}

// recBase is a recording stub: not a *grpc.ClientConn and not a wrapper.
type recBase struct {
	l       *clog
	baseErr bool
	stream  *fakeCS
}

func (r *recBase) Invoke(ctx context.Context, method string, req, reply interface{}, opts ...grpc.CallOption) error {
	e := r.l.add(&entry{layer: 0, kind: "unary", ctx: ctx, method: method, req: req, resp: reply, opts: cp(opts)})
	if r.baseErr {
		e.retErr = errBase
		return errBase
	}
	if sv, ok := reply.(*wrapperspb.StringValue); ok {
		sv.Value = "resp"
	}
	return nil
}

func (r *recBase) NewStream(ctx context.Context, desc *grpc.StreamDesc, method string, opts ...grpc.CallOption) (grpc.ClientStream, error) {
	e := r.l.add(&entry{layer: 0, kind: "stream", ctx: ctx, method: method, desc: desc, opts: cp(opts)})
	if r.baseErr {
		e.retErr = errBase
		return nil, errBase
	}
	s := &fakeCS{tag: r.stream.tag, ctx: ctx} // a new stream object per creation, like a real channel
	e.retStream = s
	return s, nil
}

type svcIface interface{}
type impl struct{}

// the service behind the three real bases
func serviceDesc() *grpc.ServiceDesc {
	hdr := metadata.Pairs("x-from-server", "1")
	return &grpc.ServiceDesc{ServiceName: "t.C", HandlerType: (*svcIface)(nil), Metadata: "t/c.proto",
		Methods: []grpc.MethodDesc{{MethodName: "U", Handler: func(srv interface{}, ctx context.Context, dec func(interface{}) error, ic grpc.UnaryServerInterceptor) (interface{}, error) {
			in := new(wrapperspb.StringValue)
			if err := dec(in); err != nil {
				return nil, err
			}
			c := cur.Load().(*curT)
			sm, _ := grpc.Method(ctx)
			c.l.add(&entry{layer: 0, kind: "unary", reqValue: in.Value, method: sm})
			grpc.SetHeader(ctx, hdr)
			if c.baseErr {
				return nil, errBase
			}
			return wrapperspb.String("resp"), nil
		}}},
		Streams: []grpc.StreamDesc{{StreamName: "S", ClientStreams: true, ServerStreams: true, Handler: func(srv interface{}, stream grpc.ServerStream) error {
			c := cur.Load().(*curT)
			sm, _ := grpc.MethodFromServerStream(stream)
			e := c.l.add(&entry{layer: 0, kind: "stream", method: sm})
			select {
			case c.started <- struct{}{}:
			default:
			}
			stream.SetHeader(hdr)
			var in wrapperspb.StringValue
			if err := stream.RecvMsg(&in); err == nil {
				e.reqValue = in.Value
			} else {
				e.reqValue = "<recv error: " + err.Error() + ">"
			}
			if c.baseErr {
				return errBase
			}
			stream.SendMsg(wrapperspb.String("resp"))
			return nil
		}}},
	}
}

var (
	realCC   *grpc.ClientConn
	inprocCh *inprocgrpc.Channel
	httpCh   *httpgrpc.Channel
)

func setupBases() error {
	lis := bufconn.Listen(1 << 20)
	gs := grpc.NewServer()
	gs.RegisterService(serviceDesc(), impl{})
	go gs.Serve(lis)
	cc, err := grpc.Dial("bufnet",
		grpc.WithContextDialer(func(ctx context.Context, _ string) (net.Conn, error) { return lis.DialContext(ctx) }),
		grpc.WithTransportCredentials(insecure.NewCredentials()))
	if err != nil {
		return err
	}
	realCC = cc
	inprocCh = &inprocgrpc.Channel{}
	inprocCh.RegisterService(serviceDesc(), impl{})
	hs := httpgrpc.NewServer()
	hs.RegisterService(serviceDesc(), impl{})
	u, _ := url.Parse("http://example.test/")
	httpCh = &httpgrpc.Channel{Transport: common.HandlerRT(hs), BaseURL: u}
	return nil
}

// ---------------------------------------------------------------- running one case

type problem struct {
	clause string
	sub    string
	what   string
	call   int // position in a sequence of calls (0: not a sequence case)
}

var progress int64
var current atomic.Value
var nameChecks int // comparisons of the name a participant was given with the name it was to be given

func optsEqual(a, b []grpc.CallOption) bool {
	if len(a) != len(b) {
		return false
	}
	for i := range a {
		if a[i] != b[i] {
			return false
		}
	}
	return true
}

func optNames(names map[grpc.CallOption]string, o []grpc.CallOption) string {
	var s []string
	for _, x := range o {
		if n, ok := names[x]; ok {
			s = append(s, n)
		} else {
			s = append(s, fmt.Sprintf("?%T", x))
		}
	}
	return "[" + strings.Join(s, " ") + "]"
}

func ccName(cc *grpc.ClientConn) string {
	switch cc {
	case nil:
		return "nil"
	case realCC:
		return "the *grpc.ClientConn"
	}
	return "another *grpc.ClientConn"
}

func layersOf(es []*entry) []int {
	out := make([]int, len(es))
	for i, e := range es {
		out[i] = e.layer
	}
	return out
}

func classifyLog(got, want []int) string {
	if len(got) == len(want) {
		same := true
		for i := range got {
			same = same && got[i] == want[i]
		}
		if same {
			return ""
		}
	}
	cnt := map[int]int{}
	for _, g := range got {
		cnt[g]++
	}
	wantSet := map[int]bool{}
	for _, w := range want {
		wantSet[w] = true
	}
	for l, n := range cnt {
		if n > 1 {
			if l == 0 {
				return "base-called-more-than-once"
			}
			if l >= foreignBase {
				return "foreign-wrapper-called-more-than-once"
			}
			return "interceptor-called-more-than-once"
		}
	}
	if cnt[0] > 0 && !wantSet[0] {
		return "base-reached-although-short-circuited"
	}
	if cnt[0] == 0 && wantSet[0] {
		return "base-not-reached"
	}
	for _, w := range want {
		if cnt[w] == 0 {
			if w >= foreignBase {
				return "foreign-wrapper-skipped"
			}
			return "interceptor-skipped"
		}
	}
	for g := range cnt {
		if !wantSet[g] && g < foreignBase {
			return "unexpected-interceptor"
		}
	}
	for g := range cnt {
		if !wantSet[g] {
			return "foreign-wrapper-reached-although-short-circuited"
		}
	}
	return "order"
}

// rig is one configuration set up: a base channel wrapped in the layers of the case.
type rig struct {
	c             caseT
	l             *clog
	cu            *curT
	depth         int
	ch            grpc.ClientConnInterface
	wantCC        *grpc.ClientConn
	names         map[grpc.CallOption]string
	states        []*layerState
	wrappersBelow []int       // number of real wrapper objects beneath layer i
	foreign       [][]*fwInfo // chain.go: the foreign wrappers of slot i (beneath layer i+1), innermost first
	probs         []problem
	obs           []string
	verbose       bool
}

func (r *rig) add(call int, clause, sub, what string) {
	if call > 0 {
		what = fmt.Sprintf("call #%d of the sequence, a ", call) + what
	}
	r.probs = append(r.probs, problem{clause: clause, sub: sub, what: what, call: call})
}

func newRig(c caseT, verbose bool) *rig {
	l := &clog{}
	r := &rig{c: c, l: l, cu: newCur(l, c.BaseErr), depth: len(c.Layers), verbose: verbose}
	cur.Store(r.cu)
	depth := r.depth

	// base
	var base grpc.ClientConnInterface
	switch c.Base {
	case "rec":
		rb := &recBase{l: l, baseErr: c.BaseErr, stream: &fakeCS{tag: "stream of the recording base"}}
		switch c.Root {
		case "":
			base = rb
		case "value":
			base = recValRoot{recBase: rb, f: &fwInfo{}, tags: []string{"root"}}
		case "terminal":
			base = &termRoot{recBase: rb}
		default:
			panic("bad root " + c.Root)
		}
	case "grpc":
		base, r.wantCC = realCC, realCC
	case "inproc":
		base = inprocCh
	case "http":
		base = httpCh
	default:
		panic("bad base")
	}
	if c.Root != "" && c.Base != "rec" {
		panic("root shapes exist for the recording base only")
	}

	// wrapping
	r.names = map[grpc.CallOption]string{}
	r.states = make([]*layerState, depth+1)
	ch := base
	r.wrappersBelow = make([]int, depth+1)
	nWrappers := 0
	r.foreign = make([][]*fwInfo, depth)
	for i := 1; i <= depth; i++ {
		for pos, k := range []byte(c.slot(i - 1)) {
			var f *fwInfo
			ch, f = newForeign(l, k, i-1, pos, ch)
			r.foreign[i-1] = append(r.foreign[i-1], f)
		}
		ls := &layerState{idx: i}
		ls.optU = grpc.Header(&ls.hdrU)
		ls.optS = grpc.Header(&ls.hdrS)
		r.names[ls.optU] = fmt.Sprintf("L%d.unary-opt", i)
		r.names[ls.optS] = fmt.Sprintf("L%d.stream-opt", i)
		ls.shortErr = status.Error(codes.Aborted, fmt.Sprintf("short:L%d", i))
		ls.shortStream = &fakeCS{tag: fmt.Sprintf("short:L%d", i)}
		r.states[i] = ls
		r.wrappersBelow[i] = nWrappers
		cfg := c.Layers[i-1]
		prev := ch
		ch = grpchan.InterceptClientConn(prev, mkUnary(l, ls, cfg.U), mkStream(l, ls, cfg.S))
		sub := fmt.Sprintf("L%d/%d", i, depth)
		if cfg.U == bNil && cfg.S == bNil {
			if !sameChannel(ch, prev) {
				r.add(0, "no-interceptors-not-same", sub, fmt.Sprintf("InterceptClientConn(ch, nil, nil) at layer %d returned %T, not the channel given", i, ch))
			}
			continue
		}
		nWrappers++
		w, ok := ch.(grpchan.WrappedClientConn)
		if !ok {
			r.add(0, "not-a-wrapper", sub, fmt.Sprintf("InterceptClientConn at layer %d returned %T which does not implement WrappedClientConn", i, ch))
		} else if !sameChannel(w.Unwrap(), prev) {
			r.add(0, "unwrap", sub, fmt.Sprintf("Unwrap() of layer %d yields a %T which is not the channel that was wrapped (a %T)", i, w.Unwrap(), prev))
		}
	}
	r.ch = ch
	return r
}

// expectedLayers: which participants see a call of the given kind, outermost first (0 = the base).
func expectedLayers(layers []layerCfg, kind string) (log []int, reached bool) {
	for i := len(layers); i >= 1; i-- {
		b := layers[i-1].U
		if kind == "stream" {
			b = layers[i-1].S
		}
		if b == bNil {
			continue
		}
		log = append(log, i)
		if b == bShort {
			return log, false
		}
	}
	return append(log, 0), true
}

// callRes is what one call through the outermost wrapper left behind.
type callRes struct {
	cs     grpc.ClientStream
	es     []*entry
	finish func() // hold only: completes the stream and runs the checks of the call
}

// call makes one call of the given kind through the outermost wrapper on the given context and compares
// everything every participant saw with the reference model. n is the position of the call in a sequence
// (0: not part of a sequence). ctxMode is the Ctx dimension of caseT (cancel is the context's own cancel
// function, needed for modes 1 and 2). With hold, a real stream is left open after its request has been
// sent (its server handler has started, nothing has been read): the caller makes further calls and then
// runs finish().
func (r *rig) call(n int, kind string, ctx context.Context, cancel context.CancelFunc, ctxMode int, hold bool) *callRes {
	c, l, depth, states, names := r.c, r.l, r.depth, r.states, r.names
	add := func(clause, sub, what string) { r.add(n, clause, sub, what) }

	// reference model: who sees the call, with which options
	var callerHdr metadata.MD
	callerTag := tagOpt{tag: "caller"}
	callerOpts := []grpc.CallOption{callerTag, grpc.Header(&callerHdr)}
	names[callerOpts[0]] = "caller-tag"
	names[callerOpts[1]] = "caller-header"
	wantOpts := map[int][]grpc.CallOption{}
	var wantLog []int
	optsNow := cp(callerOpts)
	method := spellName(c.Spell, kind) // the caller's spelling of the method name
	wantName := map[int]string{}       // the name every participant is to be given
	nameNow := method
	reached := true
	var shortAt int
	var hdrWanted []*metadata.MD
	hdrWanted = append(hdrWanted, &callerHdr)
	for i := depth; i >= 1; i-- {
		b := c.Layers[i-1].U
		if kind == "stream" {
			b = c.Layers[i-1].S
		}
		if b != bNil {
			wantLog = append(wantLog, i)
			wantOpts[i] = cp(optsNow)
			wantName[i] = nameNow
		}
		if b == bShort {
			reached = false
			shortAt = i
			break
		}
		if b == bRename {
			nameNow += renameSuffix(i)
		}
		if b == bAddOpt {
			if kind == "unary" {
				optsNow = append(cp(optsNow), states[i].optU)
				hdrWanted = append(hdrWanted, &states[i].hdrU)
			} else {
				optsNow = append(cp(optsNow), states[i].optS)
				hdrWanted = append(hdrWanted, &states[i].hdrS)
			}
		}
		// the slot beneath layer i: every foreign wrapper in it is passed, outermost first, whether or not the
		// layer above it has an interceptor of this kind
		for k := len(r.foreign[i-1]) - 1; k >= 0; k-- {
			f := r.foreign[i-1][k]
			wantLog = append(wantLog, f.id)
			wantOpts[f.id] = cp(optsNow)
			wantName[f.id] = nameNow
		}
	}
	// a real base is compared with itself: the same call made on it directly, with nothing wrapped around it
	var ref outcome
	realBase := c.Base != "rec"
	if realBase && reached {
		ref = refOutcome(c.Base, kind, nameNow, c.BaseErr)
	}
	if reached {
		if !realBase || ref.HandlerRan > 0 {
			wantLog = append(wantLog, 0) // a real base is seen through its server handler
		}
		wantOpts[0] = cp(optsNow)
		wantName[0] = nameNow
	}
	differential := realBase && (c.Spell != 0 || nameNow != method)
	for i := 1; i <= depth; i++ {
		if kind == "unary" {
			states[i].hdrU = nil
		} else {
			states[i].hdrS = nil
		}
	}

	// the context
	l.beforeReturn = nil
	switch ctxMode {
	case 1:
		cancel()
	case 2:
		cancelLayer := 0
		for _, w := range wantLog {
			if w > 0 && w < foreignBase {
				cancelLayer = w // the innermost interceptor reached
			}
		}
		if cancelLayer > 0 && (c.Base == "rec" || kind == "unary") {
			l.beforeReturn = func(layer int) {
				if layer == cancelLayer {
					cancel()
				}
			}
		}
	}

	// the call
	l.take()
	r.cu.drainSignals()
	req := wrapperspb.String("req")
	resp := new(wrapperspb.StringValue)
	desc := &grpc.StreamDesc{StreamName: "S", ClientStreams: true, ServerStreams: true}
	var err error
	var cs grpc.ClientStream
	var msgs []string
	var streamEnd error
	realStream := false
	if kind == "unary" {
		err = r.ch.Invoke(ctx, method, req, resp, callerOpts...)
	} else {
		cs, err = r.ch.NewStream(ctx, desc, method, callerOpts...)
		if _, fake := cs.(*fakeCS); cs != nil && !fake && err == nil {
			// a real stream: send the request; its handler logs its entry when it starts
			realStream = true
			if e := cs.SendMsg(req); e != nil && e != io.EOF {
				streamEnd = fmt.Errorf("SendMsg: %w", e)
			}
			if !differential || ref.HandlerRan > 0 {
				r.cu.awaitHandler()
			}
		}
	}
	l.beforeReturn = nil
	res := &callRes{cs: cs, es: l.take()}

	finish := func() {
		if realStream && streamEnd == nil {
			// drive it to completion
			cs.CloseSend()
			for k := 0; k < 5; k++ {
				var out wrapperspb.StringValue
				if e := cs.RecvMsg(&out); e != nil {
					streamEnd = e
					break
				}
				msgs = append(msgs, out.Value)
			}
		}
		if !hold {
			res.es = append(res.es, l.take()...)
		}
		es := res.es
		got := layersOf(es)
		o := fmt.Sprintf("%s: log(layer; 0=base)=%v err=%v", kind, got, err)
		if n > 0 {
			o = fmt.Sprintf("call #%d ", n) + o
		}
		if kind == "unary" {
			o += fmt.Sprintf(" resp=%q", resp.Value)
		} else {
			o += fmt.Sprintf(" stream=%T msgs=%v end=%v", cs, msgs, streamEnd)
		}
		if c.Spell != 0 || c.renames() {
			var ns []string
			for _, e := range es {
				if e.foreign != nil {
					ns = append(ns, fmt.Sprintf("%s:%q", e.foreign.name(), e.method))
				} else if e.layer > 0 {
					ns = append(ns, fmt.Sprintf("L%d:%q", e.layer, e.method))
				} else if realBase {
					ns = append(ns, fmt.Sprintf("server:%q", e.method))
				} else {
					ns = append(ns, fmt.Sprintf("base:%q", e.method))
				}
			}
			o += fmt.Sprintf(" caller's name=%q given to %s", method, strings.Join(ns, ","))
			if realBase && reached {
				o += fmt.Sprintf(" (the base called directly: %+v)", ref)
			}
		}
		var ccs []string
		for _, e := range es {
			if e.layer > 0 && e.foreign == nil {
				ccs = append(ccs, fmt.Sprintf("L%d:%s", e.layer, ccName(e.cc)))
			}
		}
		o += " cc=" + strings.Join(ccs, ",")
		r.obs = append(r.obs, o)
		if r.verbose {
			fmt.Printf("  %s   expected log=%v\n", o, wantLog)
		}

		if cl := classifyLog(got, wantLog); cl != "" {
			if differential && reached && (cl == "base-reached-although-short-circuited" || cl == "base-not-reached") {
				// whether the server handler is due to run for this name is taken from the direct call
				n := 0
				for _, g := range got {
					if g == 0 {
						n++
					}
				}
				add("differs-from-direct-call", kind, fmt.Sprintf("%s call to %q through the wrappers: the server handler behind the base ran %d time(s) (event log %v); the same call on the base channel directly: %+v", kind, method, n, got, ref))
				return
			}
			add(cl, kind, fmt.Sprintf("%s call: event log (layers, outermost=%d, base=0) %v, expected %v", kind, depth, got, wantLog))
			return
		}
		for k, e := range es {
			who := fmt.Sprintf("L%d", e.layer)
			if e.layer == 0 {
				who = "base"
			} else if e.foreign != nil {
				who = e.foreign.name()
			}
			real := e.layer == 0 && realBase
			if real {
				if !differential && e.reqValue != "req" {
					add("message", kind+"|"+who, fmt.Sprintf("%s call: the server behind the base read request %q, sent %q", kind, e.reqValue, "req"))
				}
				if e.method != ref.ServerMethod {
					add("method", kind+"|server", fmt.Sprintf("%s call to %q: the server behind the base saw method %q; when the base is called directly with that name, it sees %q", kind, method, e.method, ref.ServerMethod))
				}
				continue
			}
			nameChecks++
			if e.method != wantName[e.layer] {
				if wantName[e.layer] == method {
					add("method", kind+"|"+who, fmt.Sprintf("%s call: %s was given method %q, caller used %q", kind, who, e.method, method))
				} else {
					add("method", kind+"|"+who, fmt.Sprintf("%s call: %s was given method %q, the interceptor before it handed on %q (caller used %q)", kind, who, e.method, wantName[e.layer], method))
				}
			}
			if kind == "unary" && (e.req != interface{}(req) || e.resp != interface{}(resp)) {
				add("message", kind+"|"+who, fmt.Sprintf("%s call: %s was given different request/response objects than the caller's", kind, who))
			}
			if kind == "stream" && e.desc != desc {
				add("stream-desc", kind+"|"+who, fmt.Sprintf("%s call: %s was given a different StreamDesc than the caller's", kind, who))
			}
			if !optsEqual(e.opts, wantOpts[e.layer]) {
				add("options", kind+"|"+who, fmt.Sprintf("%s call: %s was given options %s, expected %s", kind, who, optNames(names, e.opts), optNames(names, wantOpts[e.layer])))
			}
			if e.layer > 0 && e.foreign == nil && e.cc != r.wantCC && c.isChain() {
				add("cc", fmt.Sprintf("%s|got=%s|beneath=%s", kind, ccName(e.cc), c.beneath(e.layer)),
					fmt.Sprintf("%s interceptor of layer %d (of %d; beneath it, outermost first: %s, then the root %s) was given cc = %s, expected %s", kind, e.layer, depth, c.beneath(e.layer), c.rootName(), ccName(e.cc), ccName(r.wantCC)))
			} else if e.layer > 0 && e.foreign == nil && e.cc != r.wantCC {
				add("cc", fmt.Sprintf("%s|got=%s|wrappers-beneath=%d", kind, ccName(e.cc), r.wrappersBelow[e.layer]),
					fmt.Sprintf("%s interceptor of layer %d (of %d, %d wrapper(s) beneath it) was given cc = %s, expected %s", kind, e.layer, depth, r.wrappersBelow[e.layer], ccName(e.cc), ccName(r.wantCC)))
			}
			if e.called && k+1 < len(es) {
				nx := es[k+1]
				if nx.layer > 0 || c.Base == "rec" {
					if e.gotErr != nx.retErr || e.gotStream != nx.retStream {
						add("result-passthrough", kind+"|"+who, fmt.Sprintf("%s call: %s got (%v, %v) from calling onward, but the next one returned (%v, %v)", kind, who, e.gotStream, e.gotErr, nx.retStream, nx.retErr))
					}
				}
			}
		}
		// the caller's own objects are as they were
		if req.Value != "req" {
			add("message", kind, fmt.Sprintf("%s call: the caller's request message reads %q after the call, was %q", kind, req.Value, "req"))
		}
		if desc.StreamName != "S" || !desc.ClientStreams || !desc.ServerStreams || desc.Handler != nil {
			add("stream-desc", kind, fmt.Sprintf("%s call: the caller's StreamDesc was modified: %+v", kind, *desc))
		}
		// what the caller sees
		if len(es) > 0 && (es[0].layer > 0 || c.Base == "rec") {
			top := es[0]
			if err != top.retErr {
				add("caller-result", kind, fmt.Sprintf("%s call: caller got error %v, the outermost participant returned %v", kind, err, top.retErr))
			}
			if kind == "stream" && cs != top.retStream && !(cs == nil && top.retStream == nil) {
				add("caller-result", kind, fmt.Sprintf("%s call: caller got a stream (%T) that is not the one the outermost participant returned (%T)", kind, cs, top.retStream))
			}
		}
		var last *entry // the log is the expected one; it is empty only on a real base whose handler does not run
		if len(es) > 0 {
			last = es[len(es)-1]
		}
		if !reached {
			// last is the entry of the short-circuiting layer
			if kind == "unary" && err != states[shortAt].shortErr {
				add("caller-result", kind, fmt.Sprintf("unary call short-circuited by layer %d: caller got %v", shortAt, err))
			}
			if kind == "stream" && (err != nil || cs == nil || cs != last.retStream) {
				add("caller-result", kind, fmt.Sprintf("stream creation short-circuited by layer %d: caller got (%T, %v)", shortAt, cs, err))
			}
			return
		}
		// the base was reached
		if c.Base == "rec" {
			if c.BaseErr {
				if err != errBase {
					add("caller-result", kind, fmt.Sprintf("%s call: base failed with its error object, caller got %v", kind, err))
				}
			} else if kind == "unary" && (err != nil || resp.Value != "resp") {
				add("caller-result", kind, fmt.Sprintf("unary call: caller got err=%v resp=%q", err, resp.Value))
			} else if kind == "stream" && (err != nil || cs == nil || cs != last.retStream) {
				add("caller-result", kind, fmt.Sprintf("stream creation: caller got (%T, %v), base returned its stream object", cs, err))
			}
			return
		}
		if differential {
			// an unusual method name on a real base: whatever the base makes of it, it is to be what the base
			// makes of it when called directly
			got := outcome{Resp: resp.Value, Msgs: msgs, ServerMethod: ref.ServerMethod, ReqRead: ref.ReqRead, HdrFromServer: ref.HdrFromServer}
			if kind == "stream" && (err != nil || cs == nil) {
				got.CreateErr = errSummary(err)
				if err == nil {
					got.CreateErr = "nil stream and nil error"
				}
				got.Final = got.CreateErr
			} else if kind == "stream" {
				got.Final = errSummary(streamEnd)
			} else {
				got.Final = errSummary(err)
			}
			for _, e := range es {
				if e.layer == 0 {
					got.HandlerRan++
					got.ReqRead = e.reqValue
				}
			}
			if !reflect.DeepEqual(got, ref) {
				add("differs-from-direct-call", kind, fmt.Sprintf("%s call to %q through the wrappers: %+v; the same call on the base channel directly: %+v", kind, method, got, ref))
				return
			}
			for k, h := range hdrWanted {
				if n := len((*h).Get("x-from-server")); n != ref.HdrFromServer {
					whose := "the caller's"
					if k > 0 {
						whose = "one appended by an interceptor"
					}
					add("option-not-honoured", kind, fmt.Sprintf("%s call to %q: a grpc.Header option (%s) received %d value(s) of the server's header, %d when the base is called directly: %v", kind, method, whose, n, ref.HdrFromServer, *h))
				}
			}
			return
		}
		final := err
		if kind == "stream" {
			if err != nil {
				add("caller-result", kind, fmt.Sprintf("stream creation on a real base failed: %v", err))
				return
			}
			final = streamEnd
			if final == io.EOF {
				final = nil
			}
		}
		if c.BaseErr {
			if !isBaseError(final) {
				add("caller-result", kind, fmt.Sprintf("%s call: server failed with NotFound \"base error\" + 1 detail, caller got %v", kind, final))
			}
			return
		}
		if final != nil {
			add("caller-result", kind, fmt.Sprintf("%s call: caller got %v, expected success", kind, final))
			return
		}
		if kind == "unary" && resp.Value != "resp" {
			add("caller-result", kind, fmt.Sprintf("unary call: response %q, expected %q", resp.Value, "resp"))
		}
		if kind == "stream" && !reflect.DeepEqual(msgs, []string{"resp"}) {
			add("caller-result", kind, fmt.Sprintf("stream: messages %v, expected [resp]", msgs))
		}
		// every option that travelled to the base was honoured by it
		for k, h := range hdrWanted {
			if len((*h).Get("x-from-server")) != 1 {
				whose := "the caller's"
				if k > 0 {
					whose = "one appended by an interceptor"
				}
				add("option-not-honoured", kind, fmt.Sprintf("%s call: a grpc.Header option (%s) was not filled with the server's header: %v", kind, whose, *h))
			}
		}
	}
	if hold {
		res.finish = finish
	} else {
		finish()
	}
	return res
}

func runCase(c caseT, verbose bool) (probs []problem, observed string) {
	atomic.AddInt64(&progress, 1)
	current.Store(c.String())
	var r *rig
	defer func() {
		if rec := recover(); rec != nil {
			if r != nil {
				probs = r.probs
			}
			probs = append(probs, problem{clause: "panic", what: fmt.Sprintf("library code panicked: %v", rec)})
		}
	}()
	r = newRig(c, verbose)
	for _, kind := range []string{"unary", "stream"} {
		ctx, cancel := context.WithCancel(context.Background())
		defer cancel()
		r.call(0, kind, ctx, cancel, c.Ctx, false)
	}
	return r.probs, strings.Join(r.obs, "; ")
}

// ---------------------------------------------------------------- re-entrant case

// gate is a third-party style wrapper (it implements grpchan.WrappedClientConn but is not one of
// intercept.go's). The first time it is asked to Unwrap after being armed, it issues another RPC
// through the outermost channel -- on the same goroutine, so the case is deterministic.
type gate struct {
	grpc.ClientConnInterface
	armed, fired bool
	unwraps      int
	onFirst      func()
}

func (g *gate) Unwrap() grpc.ClientConnInterface {
	g.unwraps++
	if g.armed && !g.fired {
		g.fired = true
		g.onFirst()
	}
	return g.ClientConnInterface
}

var reentries int

func runReentrant(c caseT, verbose bool) (probs []problem, observed string) {
	atomic.AddInt64(&progress, 1)
	current.Store(c.String())
	add := func(clause, sub, what string) { probs = append(probs, problem{clause: clause, sub: sub, what: what}) }
	defer func() {
		if r := recover(); r != nil {
			add("panic", "", fmt.Sprintf("library code panicked: %v", r))
		}
	}()
	re := c.Re
	l := &clog{}
	cur.Store(newCur(l, false))
	var base grpc.ClientConnInterface
	var wantCC *grpc.ClientConn
	recStream := &fakeCS{tag: "stream of the recording base"}
	switch c.Base {
	case "rec":
		base = &recBase{l: l, stream: recStream}
	case "grpc":
		base, wantCC = realCC, realCC
	case "inproc":
		base = inprocCh
	case "http":
		base = httpCh
	default:
		panic("bad base")
	}
	ch := base
	idx := 0
	mk := func(cfg layerCfg) {
		idx++
		ls := &layerState{idx: idx}
		ch = grpchan.InterceptClientConn(ch, mkUnary(l, ls, cfg.U), mkStream(l, ls, cfg.S))
	}
	for i := 0; i < re.Inner; i++ {
		mk(layerCfg{bPass, bPass})
	}
	g := &gate{ClientConnInterface: ch}
	ch = g
	for i := 0; i < re.Above; i++ {
		mk(re.Cfg)
	}
	top := ch

	type result struct {
		err  error
		msgs []string
	}
	doRPC := func(kind, tag string) (r result) {
		opts := []grpc.CallOption{tagOpt{tag: tag}}
		req := wrapperspb.String("req")
		if kind == "unary" {
			r.err = top.Invoke(context.Background(), unaryMethod, req, new(wrapperspb.StringValue), opts...)
			return
		}
		cs, err := top.NewStream(context.Background(), &grpc.StreamDesc{StreamName: "S", ClientStreams: true, ServerStreams: true}, streamMethod, opts...)
		if err != nil {
			r.err = err
			return
		}
		if _, fake := cs.(*fakeCS); fake || cs == nil {
			return
		}
		if e := cs.SendMsg(req); e != nil && e != io.EOF {
			r.err = fmt.Errorf("SendMsg: %w", e)
			return
		}
		cs.CloseSend()
		for k := 0; k < 5; k++ {
			var out wrapperspb.StringValue
			if e := cs.RecvMsg(&out); e != nil {
				if e != io.EOF {
					r.err = e
				}
				return
			}
			r.msgs = append(r.msgs, out.Value)
		}
		return
	}
	var r2 result
	g.onFirst = func() { r2 = doRPC(re.K2, "rpc2") }
	g.armed = true
	r1 := doRPC(re.K1, "rpc1")
	es := l.take()
	if g.fired {
		reentries++
	}

	// expected interceptor layers per RPC, outermost first
	expectLayers := func(kind string) []int {
		var out []int
		for i := re.Inner + re.Above; i >= 1; i-- {
			b := bPass
			if i > re.Inner {
				b = re.Cfg.U
				if kind == "stream" {
					b = re.Cfg.S
				}
			}
			if b != bNil {
				out = append(out, i)
			}
		}
		return out
	}
	perRPC := map[string][]int{}
	bases := 0
	var ccs []string
	for _, e := range es {
		if e.layer == 0 {
			bases++
			continue
		}
		tag := "?"
		for _, o := range e.opts {
			if t, ok := o.(tagOpt); ok {
				tag = t.tag
			}
		}
		perRPC[tag] = append(perRPC[tag], e.layer)
		ccs = append(ccs, fmt.Sprintf("%s/L%d:%s", tag, e.layer, ccName(e.cc)))
		if e.cc != wantCC {
			add("cc", fmt.Sprintf("%s|%s|got=%s", tag, e.kind, ccName(e.cc)),
				fmt.Sprintf("%s interceptor of layer %d was given cc = %s for %s, expected %s (the chain is: %d layer(s), a third-party WrappedClientConn, %d layer(s), base %s; %s was issued from inside the wrapper's first Unwrap())",
					e.kind, e.layer, ccName(e.cc), tag, ccName(wantCC), re.Above, re.Inner, c.Base, "rpc2"))
		}
	}
	issued := map[string]string{"rpc1": re.K1}
	if g.fired {
		issued["rpc2"] = re.K2
	}
	for _, tag := range []string{"rpc1", "rpc2"} {
		kind, ok := issued[tag]
		if !ok {
			continue
		}
		if cl := classifyLog(perRPC[tag], expectLayers(kind)); cl != "" {
			add(cl, tag+"|"+kind, fmt.Sprintf("%s (%s): interceptor layers %v, expected %v", tag, kind, perRPC[tag], expectLayers(kind)))
		}
	}
	if bases != len(issued) {
		add("base-calls", "", fmt.Sprintf("%d RPC(s) issued, the base was reached %d time(s)", len(issued), bases))
	}
	if r1.err != nil || (g.fired && r2.err != nil) {
		add("caller-result", "", fmt.Sprintf("rpc1 err=%v, rpc2 err=%v", r1.err, r2.err))
	}
	observed = fmt.Sprintf("Unwrap() calls on the third-party wrapper=%d re-entered=%v layers per rpc=%v base reached=%d cc=%s rpc1.err=%v rpc2.err=%v", g.unwraps, g.fired, perRPC, bases, strings.Join(ccs, ","), r1.err, r2.err)
	if verbose {
		fmt.Println("  " + observed)
	}
	return probs, observed
}

func enumerateReentrant(fn func(caseT)) {
	for _, base := range []string{"rec", "grpc", "inproc", "http"} {
		for inner := 0; inner <= 1; inner++ {
			for above := 1; above <= 2; above++ {
				for _, cfg := range []layerCfg{{bPass, bPass}, {bPass, bNil}, {bNil, bPass}} {
					for _, k1 := range []string{"unary", "stream"} {
						for _, k2 := range []string{"unary", "stream"} {
							fn(caseT{Base: base, Re: &reCase{Inner: inner, Above: above, Cfg: cfg, K1: k1, K2: k2}})
						}
					}
				}
			}
		}
	}
}

// ---------------------------------------------------------------- enumeration

// the per-layer alphabet of the sequence cases at depths that are not enumerated completely (quick tier)
var sweepQuick = []layerCfg{{bPass, bPass}, {bPass, bNil}, {bNil, bPass}, {bAddOpt, bAddOpt}, {bShort, bShort}}

func enumerate(fn func(caseT)) {
	var cfgs []layerCfg
	for u := 0; u < 4; u++ {
		for s := 0; s < 4; s++ {
			cfgs = append(cfgs, layerCfg{u, s})
		}
	}
	for depth := 0; depth <= 3; depth++ {
		n := 1
		for i := 0; i < depth; i++ {
			n *= len(cfgs)
		}
		for _, base := range []string{"rec", "grpc", "inproc", "http"} {
			for idx := 0; idx < n; idx++ {
				layers := make([]layerCfg, depth)
				x := idx
				for i := 0; i < depth; i++ {
					layers[i] = cfgs[x%len(cfgs)]
					x /= len(cfgs)
				}
				for _, be := range []bool{false, true} {
					for ctx := 0; ctx <= 2; ctx++ {
						if ctx == 1 && base != "rec" {
							continue // a real base answers a dead context itself; not this property's business
						}
						fn(caseT{Base: base, Layers: layers, BaseErr: be, Ctx: ctx})
					}
				}
			}
		}
	}
}

func fingerprint(c caseT, pr problem) string {
	if c.Re != nil {
		return fmt.Sprintf("C17|reentrant|%s|beneath=%d,above=%d,unary=%s,stream=%s|%s>%s|%s|%s", c.Base, c.Re.Inner, c.Re.Above, behNames[c.Re.Cfg.U], behNames[c.Re.Cfg.S], c.Re.K1, c.Re.K2, pr.sub, pr.clause)
	}
	if c.isChain() {
		switch pr.clause {
		case "cc":
			return fmt.Sprintf("C17|chain|%s|cc|%s", c.rootName(), pr.sub)
		case "no-interceptors-not-same", "not-a-wrapper", "unwrap":
			return fmt.Sprintf("C17|chain|%s|%s|%s|%s", c.rootName(), pr.clause, pr.sub, c.chainPattern("", len(c.Layers)))
		case "panic":
			// sub = where (unary | stream | wrapping) and the panic's own text, which names the type or operation
			// at fault; the thousands of chains that run into the same panic are in the replay objects
			return fmt.Sprintf("C17|chain|%s|panic|%s", c.rootName(), pr.sub)
		}
		kind := pr.sub
		if i := strings.IndexByte(kind, '|'); i >= 0 {
			kind = kind[:i]
		}
		if kind != "unary" && kind != "stream" {
			kind = ""
		}
		return fmt.Sprintf("C17|chain|%s|%s|%s|base_err=%v|%s", c.rootName(), pr.sub, c.chainPattern(kind, len(c.Layers)), c.BaseErr, pr.clause)
	}
	if c.Ctx != 0 {
		pr.sub += fmt.Sprintf("|ctx=%d", c.Ctx)
	}
	if c.Spell != 0 || c.renames() {
		label := spellings[c.Spell].label
		if c.renames() {
			label += "+renamed-by-an-interceptor"
		}
		if pr.clause == "method" {
			// who was given a wrong name for which spelling; which layers surround it is in the replay object
			kind, who := pr.sub, ""
			if i := strings.IndexByte(kind, '|'); i >= 0 {
				kind, who = kind[:i], kind[i+1:]
			}
			if strings.HasPrefix(who, "L") {
				first, _ := expectedLayers(c.Layers, kind)
				if len(first) > 0 && who == fmt.Sprintf("L%d", first[0]) {
					who = "first-interceptor"
				} else {
					who = "later-interceptor"
				}
			}
			return fmt.Sprintf("C17|%s|method-name|%s|%s|name=%s", c.Base, kind, who, label)
		}
		if pr.clause == "differs-from-direct-call" {
			return fmt.Sprintf("C17|%s|differs-from-direct-call|%s|name=%s", c.Base, pr.sub, label)
		}
		pr.sub += "|name=" + label
	}
	if c.Seq != nil {
		// which call of the sequence went wrong, on a context from where; the kinds of the other calls of the
		// sequence are in the replay object
		kinds := []string{"", c.Seq.K1, c.Seq.K2, c.Seq.K3}
		where := "layers"
		if pr.call > 0 {
			where = fmt.Sprintf("call%d=%s", pr.call, kinds[pr.call])
		}
		pat := ""
		if pr.call > 0 {
			pat = "|" + c.pattern(kinds[pr.call])
		}
		return fmt.Sprintf("C17|seq|%s|first=%s,ctx=%s|%s|%s%s|base_err=%v|%s", c.Base, c.Seq.K1, c.Seq.srcName(), where, pr.sub, pat, c.BaseErr, pr.clause)
	}
	switch pr.clause {
	case "cc":
		return fmt.Sprintf("C17|%s|cc|%s", c.Base, pr.sub)
	case "no-interceptors-not-same", "not-a-wrapper", "unwrap":
		return fmt.Sprintf("C17|%s|%s|%s", c.Base, pr.clause, pr.sub)
	}
	kind := pr.sub
	if i := strings.IndexByte(kind, '|'); i >= 0 {
		kind = kind[:i]
	}
	pat := c.pattern("unary")
	if kind == "stream" {
		pat = c.pattern("stream")
	}
	return fmt.Sprintf("C17|%s|%s|%s|base_err=%v|%s", c.Base, pr.sub, pat, c.BaseErr, pr.clause)
}

func main() {
	rep := vlib.NewReporter("C17")
	go func() { // hang guard
		last := int64(-1)
		for {
			time.Sleep(30 * time.Second)
			p := atomic.LoadInt64(&progress)
			if p == last {
				fmt.Fprintf(os.Stderr, "INCONCLUSIVE: no progress for 30s in case %v\n", current.Load())
				os.Exit(2)
			}
			last = p
		}
	}()
	if err := setupBases(); err != nil {
		fmt.Fprintln(os.Stderr, "INCONCLUSIVE: cannot set up the base channels:", err)
		os.Exit(2)
	}

	if p := common.Arg("replay"); p != "" {
		var c caseT
		if err := common.LoadReplay(p, &c); err != nil {
			fmt.Fprintln(os.Stderr, "INCONCLUSIVE:", err)
			os.Exit(2)
		}
		fmt.Println("replay:", c.String())
		run := runCase
		if c.Re != nil {
			run = runReentrant
		} else if c.Seq != nil {
			run = runSeq
		} else if c.isChain() {
			run = runChain
		}
		probs, _ := run(c, true)
		for _, pr := range probs {
			fmt.Printf("  %s[%s]: %s\n", pr.clause, pr.sub, pr.what)
		}
		if len(probs) > 0 {
			fmt.Printf("VIOLATION property=C17 replay=%s\n", p)
			os.Exit(1)
		}
		os.Exit(0)
	}

	evals := 0
	distinct := map[string]bool{}
	var samples []interface{}
	suppressedFPs := map[string]bool{}
	const maxReported = 100
	reCases, seqCases, calls := 0, 0, 0
	nameCases, nameDistinct := map[string]int{}, 0
	var nameSamples []interface{}
	seqDistinct := map[uint64]bool{}
	seqBySrc := map[string]int{}
	var seqSamples []interface{}
	var reSample interface{}
	chainCases, chainDistinct, chainByRoot := 0, 0, map[string]int{}
	var chainSamples []interface{}
	visit := func(c caseT) {
		evals++
		run := runCase
		if c.Re != nil {
			run = runReentrant
			reCases++
		} else if c.Seq != nil {
			run = runSeq
			seqCases++
			calls++
		} else if c.isChain() {
			run = runChain
			chainCases++
			chainByRoot[c.rootName()]++
		}
		calls += 2
		probs, obs := run(c, false)
		if c.Seq != nil {
			if seqReachesMechanism(c) {
				h := fnv.New64a() // millions of cases in the thorough tier: keep the set small
				h.Write([]byte(c.String()))
				seqDistinct[h.Sum64()] = true
			}
			seqBySrc[c.Seq.Src+"/"+c.Seq.Deriv]++
			if isSeqSample(c) {
				seqSamples = append(seqSamples, map[string]interface{}{"case": c, "observed": obs})
			}
		}
		nonTrivial := false
		for _, lc := range c.Layers {
			if lc.U != bNil || lc.S != bNil {
				nonTrivial = true
			}
		}
		if c.isChain() {
			if chainReachesMechanism(c) {
				chainDistinct++ // the enumeration produces every chain once
			}
			if isChainSample(c) {
				chainSamples = append(chainSamples, map[string]interface{}{"case": c, "observed": obs})
			}
		} else if (nonTrivial && c.Seq == nil) || c.Re != nil {
			distinct[c.String()] = true
		}
		if c.Spell != 0 || c.renames() {
			k := spellings[c.Spell].label
			if c.renames() {
				k += ", an interceptor hands on another name"
			}
			nameCases[k]++
			if nonTrivial {
				nameDistinct++
			}
			if isNameSample(c) {
				nameSamples = append(nameSamples, map[string]interface{}{"case": c, "observed": obs})
			}
		}
		if c.Seq == nil && !c.isChain() && len(samples) < 8 && len(c.Layers) >= 2 && evals%2089 == 0 {
			samples = append(samples, map[string]interface{}{"case": c, "observed": obs})
		}
		for _, pr := range probs {
			fp := fingerprint(c, pr)
			if rep.Violations >= maxReported {
				suppressedFPs[fp] = true
				continue
			}
			rep.Violation(fp, pr.what+"   ["+c.String()+"]", c)
		}
	}
	enumerate(visit)
	enumerateReentrant(visit)
	if reSample != nil {
		samples = append(samples, reSample)
	}
	tier := common.Arg("tier")
	if tier == "" {
		tier = os.Getenv("VERIF_TIER")
	}
	seqFullDepth, seqSweep, seqRule := 2, sweepQuick, "complete (16 per layer) at depths 0..2; at depth 3 swept: each layer one of {pass/pass, pass/nil, nil/pass, addopt/addopt, short/short} (unary/stream), all 125 combinations"
	if tier == "thorough" {
		seqFullDepth, seqSweep, seqRule = 3, nil, "complete (16 per layer) at depths 0..3"
	}
	nameRule := "the four shapes {none, unary-only, stream-only, both: pass} per layer at depths 0..3"
	if tier == "thorough" {
		nameRule = "complete (16 per layer) at depths 0..2, at depth 3 each layer one of {nil/nil, pass/nil, nil/pass, pass/pass, addopt/addopt, short/short}"
	}
	enumerateNames(tier == "thorough", visit)
	samples = append(samples, nameSamples...)
	enumerateSeq(seqFullDepth, seqSweep, visit)
	samples = append(samples, seqSamples...)
	enumerateChain(tier == "thorough", visit)
	samples = append(samples, chainSamples...)
	chainRule := "depth 1: 16 per layer x slot of 0..3 foreign wrappers (all 85 sequences over P,C,S,F) x all six roots x base outcome; depth 2: roots {rec, rec-value, rec-terminal, grpc} x per layer {pass/pass, pass/nil, nil/pass, addopt/addopt, short/short} x every slot 0..2 wrappers (21 sequences each) x base outcome, roots {inproc, http} x the four shapes per layer x the same slots, outcome ok; depth 3: roots {rec, rec-value, rec-terminal, grpc} x per layer {pass/pass, pass/nil, nil/pass} x every slot one of {empty, P, S, SS, SF, SC}, outcome ok"
	if tier == "thorough" {
		chainRule = "depth 1: 16 per layer x slot of 0..3 foreign wrappers (all 85 sequences over P,C,S,F) x all six roots x base outcome; depth 2: roots {rec, rec-value, rec-terminal, grpc} x 16 per layer x every slot 0..2 wrappers (21 sequences each) x base outcome, roots {inproc, http} x six per layer x the same slots x base outcome; depth 3: per layer {pass/pass, pass/nil, nil/pass, addopt/addopt, short/short} (roots inproc, http: the first three) x every slot one of {empty, P, S, SS, SF, SC}, outcome ok"
	}
	if n := len(suppressedFPs); n > 0 {
		fmt.Printf("(%d further distinct fingerprints not reported individually after the first %d)\n", n, maxReported)
	}
	os.Exit(rep.Finish("exploration", map[string]interface{}{
		"evaluations":        evals,
		"reentrant_cases":    reCases,
		"reentries_observed": reentries,
		"rpc_calls":          calls,
		"sequence_cases":     seqCases,
		"sequence_cases_by_context_source_and_derivation": seqBySrc,
		"sequence_follow_up_pairs_made":                   seqStats.followUps,
		"sequence_first_call_left_no_context_source":      seqStats.noSource,
		"sequence_context_source_already_done":            seqStats.deadSource,
		"distinct_nontrivial_single_and_reentrant":        len(distinct),
		"method_name_cases_by_spelling":                   nameCases,
		"method_name_cases_nontrivial":                    nameDistinct,
		"method_name_comparisons_at_participants":         nameChecks,
		"method_name_spellings":                           spellingTable(),
		"real_base_called_directly_reference":             refTable(),
		"distinct_nontrivial_sequences":                   len(seqDistinct),
		"chain_cases":                                     chainCases,
		"chain_cases_by_root":                             chainByRoot,
		"distinct_nontrivial_chains":                      chainDistinct,
		"distinct_nontrivial":                             len(distinct) + len(seqDistinct) + chainDistinct,
		"rule":                                            "every configuration of: wrapping depth 0..3 x per layer (unary {nil,pass,short-circuit,append-an-option} x stream {same}) x base {recording stub, real *grpc.ClientConn over bufconn, inprocgrpc.Channel, httpgrpc.Channel over an in-memory RoundTripper} x base outcome {ok,error}; each makes one unary call and one stream creation (real streams are driven to completion). The caller's context is live, already cancelled (recording base only), or cancelled by the innermost interceptor reached just before it returns (recording base: both kinds; real bases: unary); the base's error is a NotFound status with one detail and must arrive unchanged (identity on the recording base, code+message+details on the real ones). RE-ENTRANT cases: a third-party WrappedClientConn sits between 0-1 pass/pass layers over the base and 1-2 layers above; its first Unwrap() issues a second RPC through the outermost channel on the same goroutine; every interceptor of both RPCs must be given the right cc and see its RPC exactly once. A configuration is non-trivial when at least one layer has an interceptor, i.e. a wrapper object of intercept.go is on the path; distinct by all parameters. SEQUENCE cases (where the context of a call comes from): a first call (unary | stream) on a new context through the outermost wrapper, then a second and a third call (each unary | stream, all four pairs) on ONE context that is {fresh: new and unrelated | same: the caller's context of the first call | stream: Context() of the stream the first call returned, which is still open (request sent, server handler started, nothing read) and is completed after the follow-up calls | icpt@Lj: the context the interceptor of layer j was handed during the first call, for every layer j whose interceptor the first call reaches} x {as it is | context.WithValue of it | context.WithCancel of it}; crossed with base x base outcome x layer configurations " + seqRule + "; every one of the three calls is checked with the full single-call oracle (event log = every applicable layer exactly once, outermost first, then the base; cc; method, messages, options; results). A sequence case is non-trivial when the context is not the fresh one and at least one follow-up call is due to pass an interceptor; distinct by all parameters. Not crossed with the sequences: the cancelled-context modes and the re-entrant third-party wrapper. METHOD NAME (how the caller spells it; all cases above use the spelling of generated stubs, \"/t.C/U\" and \"/t.C/S\"): each of the 10 other spellings of method_name_spellings (no leading slash, empty, \"/\", method only, trailing slash, doubled leading slash, leading space, inner and trailing space, percent-encoded so that unescaping gives the canonical name, bare percent sign) x {unary call, stream creation} x base outcome x [recording base: the complete single-call layer grammar, depth 0..3, 16 per layer | each real base: " + nameRule + "], live context. Every interceptor reached and the recording base must be given exactly the caller's string (and the same request/response objects, StreamDesc pointer and options as ever); a real base is compared with a reference, the same call made on the base channel directly with no wrapper (made twice, must agree; table real_base_called_directly_reference): server handler entered equally often, same method seen by the server, same request read, same status code + message + number of details, same response/messages, same number of header values delivered to every grpc.Header option. Plus, recording base: every spelling (canonical too) x depth 1..3 x per layer (unary {nil, pass, rename} x stream {same}) with at least one renaming interceptor, which hands on the name it was given + \"#L<i>\": every participant further in must be given exactly what the interceptor before it handed on. Spelling cases are counted as non-trivial by the same rule (a wrapper object on the path). Not crossed with the spellings: cancelled contexts, re-entrant and sequence cases. After every call the caller's request message and StreamDesc must read as before. CHAIN (what else is in the chain of channels; all cases above have nothing but grpchan's own layers over a pointer-typed root, plus one pointer-typed third-party wrapper in the re-entrant cases): the chain is layer d > slot d-1 > ... > layer 1 > slot 0 > root; a slot holds a sequence of foreign wrappers (user-written grpchan.WrappedClientConn implementations that hand calls on unchanged and log themselves), each one of P = pointer type, C = comparable struct value, S = struct value with a slice field (not comparable), F = struct value with a func field (another non-comparable type); the root is rec (the recording base, a pointer), rec-value (the recording base as a non-comparable struct value), rec-terminal (a wrapper whose Unwrap() returns nil and which serves the calls itself), grpc, inproc or http. Enumerated: " + chainRule + "; live contexts, canonical names, one unary call and one stream creation each. Oracle: the single-call oracle with the foreign wrappers as participants (each one beneath the outermost layer passed exactly once in chain order unless short-circuited above it, given the method name, message objects, StreamDesc and options of its place in the chain, handing back what it got); Unwrap() of every layer yields the channel it wrapped; cc = the root *grpc.ClientConn for every interceptor on a grpc root through any foreign wrappers, nil on every other root; no panic (recovered per call). A chain case is non-trivial when a layer with an interceptor has a foreign wrapper or an unusual root somewhere beneath it.",
		"samples":                                         samples,
		"exhaustive":                                      true,
		"suppressed_reports":                              len(suppressedFPs),
	}, []string{
		"the real gRPC connection runs over google.golang.org/grpc/test/bufconn (in-memory), the HTTP channel over common.HandlerRT; no sockets",
		"sequence cases: follow-up calls are made while the first call's stream is open and every context live (calls on a dead context are the ctx=1 single-call cases, recording base); the streams of the recording base and of short-circuiting interceptors are stubs whose Context() is the context their creator was given; contexts are reused only on the wrapped channel they came from, not across differently wrapped channels",
		"unusual method names on the real bases: nothing is assumed about whether a base serves or rejects such a name, only that it does the same as when it is called directly; the reference is made once per (base, kind, name, base outcome) on a background context and cached",
		"identity of messages/options at the base is observed on the recording stub; on the three real bases the base is observed through the server handler (ran once, read the request) and through grpc.Header options being filled",
	}))
}
