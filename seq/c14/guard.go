package main

// Panics of library code. By the contract a panic that escapes (or is recovered from)
// library code is a violation for the input at hand, whatever the phase. The client-side
// calls are guarded where they are made (invoke, streamCallReq). This file guards the
// HANDLER side, which the check reaches in three ways:
//
//   - directly on a recorder (runServer, carrierCase.serve, the registrations' probes):
//     serveRecorded;
//   - inside a round tripper (streaming end to end, the chain's backend hop): the real
//     streaming client calls the transport on a goroutine of its own, so a panic of the
//     handler would end the process there; handlerRT recovers it and lets the round trip
//     fail the way a dropped connection does;
//   - under net/http on loopback, where net/http itself recovers the panic and drops the
//     connection: guardHandler records it first and then aborts the reply the sanctioned
//     way (http.ErrAbortHandler), so the client still sees exactly the dropped connection.
//
// Every recovered panic goes to one log; the check function of the case takes it
// (takePanics) and reports clause "server-panic" with the case as fingerprint, and the
// enumeration goes on with the next case.

import (
	"bytes"
	"errors"
	"fmt"
	"io"
	"net/http"
	"net/http/httptest"
	"path/filepath"
	"runtime"
	"strings"
	"sync"

	"verif/seq/common"
)

const serverPanicClause = "server-panic"

type libPanic struct {
	side string // server | backend (the chain's second hop)
	val  string
	at   string // the innermost frames below the panic
}

var (
	panicMu  sync.Mutex
	panicLog []libPanic
)

// notePanic must be called from the deferred function that recovered v.
func notePanic(side string, v interface{}) {
	at := panicOrigin()
	panicMu.Lock()
	panicLog = append(panicLog, libPanic{side, fmt.Sprint(v), at})
	panicMu.Unlock()
}

// takePanics returns what was recorded since the last call.
func takePanics() []libPanic {
	panicMu.Lock()
	defer panicMu.Unlock()
	out := panicLog
	panicLog = nil
	return out
}

func panicsText(ps []libPanic) string {
	var p []string
	for i, x := range ps {
		if i == 3 {
			p = append(p, fmt.Sprintf("... %d more", len(ps)-i))
			break
		}
		p = append(p, fmt.Sprintf("%s side panicked: %q at %s", x.side, x.val, x.at))
	}
	return strings.Join(p, "; ")
}

func panicOnSide(ps []libPanic, side string) bool {
	for _, x := range ps {
		if x.side == side {
			return true
		}
	}
	return false
}

// panicOrigin: where the panic at hand was raised: the innermost frame and, below it, the
// innermost frame of the library (function and base file name: the same wherever the tree is).
func panicOrigin() string {
	pcs := make([]uintptr, 96)
	n := runtime.Callers(1, pcs)
	frames := runtime.CallersFrames(pcs[:n])
	name := func(f runtime.Frame) string {
		fn := f.Function
		if i := strings.LastIndex(fn, "/"); i >= 0 {
			fn = fn[i+1:]
		}
		return fmt.Sprintf("%s (%s:%d)", fn, filepath.Base(f.File), f.Line)
	}
	inner, lib := "", ""
	seenPanic := false
	for {
		f, more := frames.Next()
		switch {
		case f.Function == "runtime.gopanic":
			seenPanic = true // the panic being recovered is the first one met from the top
		case !seenPanic || strings.HasPrefix(f.Function, "runtime."):
			// the recovering functions; runtime.panicindex, runtime.sigpanic, ...
		case inner == "":
			inner = name(f)
			if strings.Contains(f.Function, "fullstorydev/grpchan") {
				lib = "-"
			}
		case lib == "" && strings.Contains(f.Function, "fullstorydev/grpchan"):
			lib = name(f)
		}
		if !more {
			break
		}
	}
	switch {
	case inner == "":
		return "?"
	case lib == "" || lib == "-":
		return inner
	}
	return inner + " <- ... <- " + lib
}

// guardHandler records a panic of h and aborts the reply as net/http wants it aborted.
func guardHandler(side string, h http.Handler) http.Handler {
	return http.HandlerFunc(func(w http.ResponseWriter, r *http.Request) {
		defer func() {
			if p := recover(); p != nil {
				notePanic(side, p)
				panic(http.ErrAbortHandler)
			}
		}()
		h.ServeHTTP(w, r)
	})
}

// serveRecorded: h on a recorder; a panic is in the log afterwards (aborted = true).
func serveRecorded(side string, h http.Handler, req *http.Request) (rp reply, aborted bool) {
	rec := httptest.NewRecorder()
	func() {
		defer func() {
			if p := recover(); p != nil {
				aborted = true
			}
		}()
		guardHandler(side, h).ServeHTTP(rec, req)
	}()
	return reply{rec.Code, rec.Header(), rec.Body.Bytes()}, aborted
}

var errConnDropped = errors.New("EOF (the server dropped the connection: its handler panicked)")

// handlerRT is common.HandlerRT with the handler guarded: when it panics the round trip
// fails like one whose connection the server dropped.
func handlerRT(side string, h http.Handler) http.RoundTripper {
	g := guardHandler(side, h)
	return common.RT(func(r *http.Request) (resp *http.Response, err error) {
		rec := httptest.NewRecorder()
		r2 := r.Clone(r.Context())
		if r2.Body == nil {
			r2.Body = io.NopCloser(bytes.NewReader(nil))
		}
		r2.RemoteAddr = "192.0.2.1:1234"
		r2.RequestURI = r2.URL.RequestURI()
		defer func() {
			if p := recover(); p != nil {
				resp, err = nil, errConnDropped
			}
		}()
		g.ServeHTTP(rec, r2)
		resp = rec.Result()
		resp.Request = r
		return resp, nil
	})
}

// guarded runs f (construction of servers and handlers: NewServer, RegisterService,
// HandleServices, ...); a panic goes to the log.
func guarded(side string, f func()) (ok bool) {
	defer func() {
		if p := recover(); p != nil {
			notePanic(side, p)
			ok = false
		}
	}()
	f()
	return true
}

// serverPanicVerdict: the verdict of a case during which the handler side panicked.
func serverPanicVerdict(obs string) (string, string, bool) {
	ps := takePanics()
	if len(ps) == 0 {
		return "", "", false
	}
	clause := serverPanicClause
	if !panicOnSide(ps, "server") {
		clause = "backend-panic"
	}
	return clause, strings.TrimSpace(obs + " " + panicsText(ps)), true
}

// isLibPanic: the clauses of a panic on the handler side and of a panic that took the
// evaluating process down (isolate.go); both are grouped by what was asked of the library.
func isLibPanic(clause string) bool { return isHandlerPanic(clause) || clause == escapedClause }

func isHandlerPanic(clause string) bool {
	return clause == serverPanicClause || clause == "backend-panic"
}

// panicGroup: a panic of the handler side is grouped by what the handler was asked to
// render (code, cancellation, renderer) - by the backend's code when it was the chain's
// backend that panicked -; the colliding entry, chain, carrier, entry point, "wire" and
// option list of the simplest panicking member go into the tail.
func (c serverCase) panicGroup(clause string) string {
	if clause == "backend-panic" && c.Chain != nil {
		return fmt.Sprintf("C14|chain|backend=%d|backend-details=%d|%s", c.Chain.BCode, c.Chain.BDetails, clause)
	}
	if c.OKErr {
		return fmt.Sprintf("C14|server|okerr|cancelled=%v|renderer=%s|%s", c.Cancelled, c.Renderer, clause)
	}
	g := fmt.Sprintf("C14|server|code=%d|cancelled=%v|renderer=%s|", c.Code, c.Cancelled, c.Renderer)
	if c.Timeout != "" {
		g += "timeout=" + c.Timeout + "|"
	}
	return g + clause
}

func (c serverCase) panicExtras(clause string, o optSet) string {
	s := ""
	if c.Collide != nil {
		s += "|collide=" + c.Collide.String()
	}
	if c.Chain != nil && clause == "backend-panic" {
		s += fmt.Sprintf("|gateway=%d|cancelled=%v|renderer=%s|relay=%s", c.Code, c.Cancelled, c.Renderer, c.Chain.Relay)
	} else if c.Chain != nil {
		s += fmt.Sprintf("|backend=%d|backend-details=%d|relay=%s", c.Chain.BCode, c.Chain.BDetails, c.Chain.Relay)
	}
	if c.Wire {
		s += "|wire"
	}
	return s + extras(c.MD, c.Msg, c.Details, o)
}
