// C14: every gRPC status code survives the unary HTTP mapping.
// Total enumeration: codes x request-context state x renderer (server side,
// then fed to the real client), and HTTP statuses 100..599 x header shapes.
package main

import (
	"context"
	"fmt"
	"io"
	"net/http"
	"net/http/httptest"
	"net/url"
	"os"
	"path/filepath"
	"regexp"
	"strconv"
	"strings"

	"github.com/fullstorydev/grpchan/httpgrpc"
	"google.golang.org/grpc/codes"
	"google.golang.org/grpc/status"
	"google.golang.org/protobuf/proto"
	"google.golang.org/protobuf/types/known/wrapperspb"

	"verif/seq/common"
	"verif/vlib"
)

// the checker's own copy of the documented table (cross-checked against the doc comment)
var table = map[codes.Code]int{
	codes.Canceled: 502, codes.Unknown: 500, codes.InvalidArgument: 400, codes.DeadlineExceeded: 504,
	codes.NotFound: 404, codes.AlreadyExists: 409, codes.PermissionDenied: 403, codes.Unauthenticated: 401,
	codes.ResourceExhausted: 429, codes.FailedPrecondition: 412, codes.Aborted: 409, codes.OutOfRange: 422,
	codes.Unimplemented: 501, codes.Internal: 500, codes.Unavailable: 503, codes.DataLoss: 500,
}

type okStatusErr struct{}

func (okStatusErr) Error() string              { return "error carrying an OK status" }
func (okStatusErr) GRPCStatus() *status.Status { return status.New(codes.OK, "ok?") }

type serverCase struct {
	Kind      string `json:"kind"` // server
	Code      uint32 `json:"code"`
	Cancelled bool   `json:"cancelled"`
	Renderer  string `json:"renderer"` // default | nothing | teapot
	OKErr     bool   `json:"ok_err,omitempty"`
	// Timeout is a GRPC-Timeout header to send ("" = none). "1n" has expired by the time
	// the handler returns: the handler's context is then done although the request (the
	// client) is still there, which must NOT trigger the 499 rule.
	Timeout string `json:"timeout,omitempty"`
}

type clientCase struct {
	Kind   string `json:"kind"` // client
	HTTP   int    `json:"http"`
	Header string `json:"header"` // "<absent>" or the X-GRPC-Status value
}

func parseDocTable() (map[string]int, error) {
	b, err := os.ReadFile(filepath.Join(common.RepoDir(), "httpgrpc", "server.go"))
	if err != nil {
		return nil, err
	}
	src := string(b)
	i := strings.Index(src, "// DefaultErrorRenderer translates")
	j := strings.Index(src, "func DefaultErrorRenderer(")
	if i < 0 || j < i {
		return nil, fmt.Errorf("doc comment of DefaultErrorRenderer not found")
	}
	re := regexp.MustCompile(`(?m)^//\s+(\w+):\s+\*?\s*(\d{3}) `)
	out := map[string]int{}
	for _, m := range re.FindAllStringSubmatch(src[i:j], -1) {
		n, _ := strconv.Atoi(m[2])
		out[m[1]] = n
	}
	return out, nil
}

func runServer(c serverCase) (httpStatus int, hdr http.Header, body []byte) {
	var opts []httpgrpc.ServerOption
	switch c.Renderer {
	case "nothing":
		opts = append(opts, httpgrpc.ErrorRenderer(func(context.Context, *status.Status, http.ResponseWriter) {}))
	case "teapot":
		opts = append(opts, httpgrpc.ErrorRenderer(func(_ context.Context, _ *status.Status, w http.ResponseWriter) { w.WriteHeader(418) }))
	}
	srv := httpgrpc.NewServer(opts...)
	svc := &common.Svc{Name: "t.S", Unary: map[string]common.UnaryFn{"M": func(ctx context.Context, dec func(interface{}) error) (interface{}, error) {
		var in wrapperspb.StringValue
		if err := dec(&in); err != nil {
			return nil, err
		}
		if c.OKErr {
			return nil, okStatusErr{}
		}
		if c.Timeout == "1n" {
			<-ctx.Done() // the server-side deadline derived from GRPC-Timeout
		}
		if err := status.Error(codes.Code(c.Code), "msg"); err != nil {
			return nil, err
		}
		return wrapperspb.String("resp"), nil
	}}}
	srv.RegisterService(svc.Desc(), common.Impl{})
	reqBody, _ := proto.Marshal(wrapperspb.String("req"))
	ctx, cancel := context.WithCancel(context.Background())
	defer cancel()
	if c.Cancelled {
		cancel()
	}
	req := httptest.NewRequest("POST", "/t.S/M", strings.NewReader(string(reqBody))).WithContext(ctx)
	req.Header.Set("Content-Type", httpgrpc.UnaryRpcContentType_V1)
	if c.Timeout != "" {
		req.Header.Set("GRPC-Timeout", c.Timeout)
	}
	rec := httptest.NewRecorder()
	srv.ServeHTTP(rec, req)
	return rec.Code, rec.Header(), rec.Body.Bytes()
}

// errBody fails after delivering its bytes, like a connection that breaks between the
// headers and the end of the body.
type errBody struct{ b []byte }

func (e *errBody) Read(p []byte) (int, error) {
	if len(e.b) == 0 {
		return 0, io.ErrUnexpectedEOF
	}
	n := copy(p, e.b)
	e.b = e.b[n:]
	return n, nil
}
func (e *errBody) Close() error { return nil }

// clientSeesBroken: the reply's status line and headers arrive intact, the body is cut short.
func clientSeesBroken(code int, hdr http.Header, body []byte) error {
	u, _ := url.Parse("http://example.test/")
	rt := common.RT(func(r *http.Request) (*http.Response, error) {
		if r.Body != nil {
			io.Copy(io.Discard, r.Body)
			r.Body.Close()
		}
		h := http.Header{}
		for k, v := range hdr {
			h[k] = append([]string(nil), v...)
		}
		half := body[:len(body)/2]
		return &http.Response{StatusCode: code, Status: http.StatusText(code), Proto: "HTTP/1.1", ProtoMajor: 1, ProtoMinor: 1,
			Header: h, Body: &errBody{b: half}, Request: r, ContentLength: int64(len(body) + 64)}, nil
	})
	ch := &httpgrpc.Channel{Transport: rt, BaseURL: u}
	var out wrapperspb.StringValue
	return ch.Invoke(context.Background(), "/t.S/M", wrapperspb.String("req"), &out)
}

func clientSees(code int, hdr http.Header, body []byte) error {
	u, _ := url.Parse("http://example.test/")
	ch := &httpgrpc.Channel{Transport: common.CannedRT(code, hdr, body), BaseURL: u}
	var out wrapperspb.StringValue
	return ch.Invoke(context.Background(), "/t.S/M", wrapperspb.String("req"), &out)
}

// checkServer returns "" when the case satisfies the property.
func checkServer(c serverCase) (string, string) {
	hs, hdr, body := runServer(c)
	code := codes.Code(c.Code)
	wantCode := code
	if c.OKErr {
		wantCode = codes.Internal // an error carrying OK must not become success
	}
	obs := fmt.Sprintf("http=%d x-grpc-status=%q", hs, hdr.Get("X-GRPC-Status"))
	if code == codes.OK && !c.OKErr {
		if hs != 200 {
			return "ok-not-200", obs
		}
		if err := clientSees(hs, hdr, body); err != nil {
			return "ok-call-failed", obs + " client=" + err.Error()
		}
		return "", obs
	}
	if c.Renderer == "default" {
		want, ok := table[wantCode]
		if !ok {
			want = 500
		}
		if c.Cancelled && (wantCode == codes.Canceled || wantCode == codes.DeadlineExceeded) {
			want = 499
		}
		if hs != want {
			return "http-status", fmt.Sprintf("%s want %d", obs, want)
		}
		if hs < 400 {
			return "non-error-http-status", obs
		}
	}
	err := clientSees(hs, hdr, body)
	if got := status.Code(err); got != wantCode || err == nil {
		return "client-code", fmt.Sprintf("%s client=%v(%d) want %d", obs, got, uint32(got), uint32(wantCode))
	}
	// the status travels in the headers: a body cut short afterwards must not replace the handler's code
	err = clientSeesBroken(hs, hdr, body)
	if got := status.Code(err); got != wantCode || err == nil {
		return "client-code-with-broken-body", fmt.Sprintf("%s client=%v(%d) want %d", obs, got, uint32(got), uint32(wantCode))
	}
	return "", obs
}

func checkClient(c clientCase) (string, string) {
	hdr := http.Header{}
	if c.Header != "<absent>" {
		hdr.Set("X-GRPC-Status", c.Header)
	}
	body, _ := proto.Marshal(wrapperspb.String("resp"))
	err := clientSees(c.HTTP, hdr, body)
	obs := fmt.Sprintf("err=%v", err)
	is2xx := c.HTTP >= 200 && c.HTTP < 300
	if c.Header == "5" {
		if status.Code(err) != codes.NotFound {
			return "header-code-ignored", obs
		}
		return "", obs
	}
	if is2xx && err != nil {
		return "2xx-not-ok", obs
	}
	if !is2xx && (err == nil || status.Code(err) == codes.OK) {
		return "non-2xx-ok", obs
	}
	return "", obs
}

func main() {
	rep := vlib.NewReporter("C14")
	if p := common.Arg("replay"); p != "" {
		var probe struct {
			Kind string `json:"kind"`
		}
		common.LoadReplay(p, &probe)
		var clause, obs string
		if probe.Kind == "server" {
			var c serverCase
			common.LoadReplay(p, &c)
			clause, obs = checkServer(c)
		} else {
			var c clientCase
			common.LoadReplay(p, &c)
			clause, obs = checkClient(c)
		}
		fmt.Println("replay:", clause, obs)
		if clause != "" {
			fmt.Printf("VIOLATION property=C14 replay=%s\n", p)
			os.Exit(1)
		}
		os.Exit(0)
	}

	evals := 0
	distinct := map[string]bool{}
	var samples []interface{}

	// the documented table, parsed from the current tree, against the checker's copy
	doc, err := parseDocTable()
	if err != nil {
		fmt.Fprintln(os.Stderr, "INCONCLUSIVE:", err)
		os.Exit(2)
	}
	for c, want := range table {
		evals++
		if got, ok := doc[c.String()]; !ok || got != want {
			rep.Violation(fmt.Sprintf("C14|doc-table|%s", c), fmt.Sprintf("documented table says %s -> %d (present=%v), checker's copy says %d", c, got, ok, want),
				map[string]interface{}{"kind": "doc", "code": c.String()})
		}
	}
	if len(doc) != len(table) {
		rep.Violation("C14|doc-table|size", fmt.Sprintf("documented table has %d rows, expected %d", len(doc), len(table)), map[string]interface{}{"kind": "doc"})
	}

	var codeList []uint32
	for c := uint32(0); c <= 17; c++ {
		codeList = append(codeList, c)
	}
	codeList = append(codeList, 99, 1000, 1<<31-1, 1<<31, 3000000000, 1<<32-1)
	for _, code := range codeList {
		for _, cancelled := range []bool{false, true} {
			for _, r := range []string{"default", "nothing", "teapot"} {
				c := serverCase{Kind: "server", Code: code, Cancelled: cancelled, Renderer: r}
				evals++
				clause, obs := checkServer(c)
				if code != 0 {
					distinct[fmt.Sprintf("srv|%d|%v|%s", code, cancelled, r)] = true
				}
				if len(samples) < 4 && code%5 == 1 {
					samples = append(samples, map[string]interface{}{"case": c, "observed": obs})
				}
				if clause != "" {
					rep.Violation(fmt.Sprintf("C14|server|code=%d|cancelled=%v|renderer=%s|%s", code, cancelled, r, clause), clause+": "+obs, c)
				}
			}
		}
	}
	// server-side deadline (GRPC-Timeout) expired, or far away, while the request itself is alive or cancelled
	for _, code := range []uint32{1, 4, 5} {
		for _, cancelled := range []bool{false, true} {
			for _, to := range []string{"1n", "1H"} {
				c := serverCase{Kind: "server", Code: code, Cancelled: cancelled, Renderer: "default", Timeout: to}
				evals++
				distinct[fmt.Sprintf("srv|%d|%v|timeout=%s", code, cancelled, to)] = true
				if clause, obs := checkServer(c); clause != "" {
					rep.Violation(fmt.Sprintf("C14|server|code=%d|cancelled=%v|renderer=default|timeout=%s|%s", code, cancelled, to, clause), clause+": "+obs, c)
				}
			}
		}
	}
	for _, cancelled := range []bool{false, true} {
		c := serverCase{Kind: "server", Code: 0, Cancelled: cancelled, Renderer: "default", OKErr: true}
		evals++
		distinct[fmt.Sprintf("srv|okerr|%v", cancelled)] = true
		if clause, obs := checkServer(c); clause != "" {
			rep.Violation(fmt.Sprintf("C14|server|okerr|cancelled=%v|%s", cancelled, clause), clause+": "+obs, c)
		}
	}
	for hs := 100; hs <= 599; hs++ {
		for _, h := range []string{"<absent>", "", "x:y", ":", "5"} {
			c := clientCase{Kind: "client", HTTP: hs, Header: h}
			evals++
			clause, obs := checkClient(c)
			distinct[fmt.Sprintf("cli|%d|%s", hs, h)] = true
			if len(samples) < 8 && hs%137 == 0 && h == "<absent>" {
				samples = append(samples, map[string]interface{}{"case": c, "observed": obs})
			}
			if clause != "" {
				rep.Violation(fmt.Sprintf("C14|client|http=%d|header=%s|%s", hs, h, clause), clause+": "+obs, c)
			}
		}
	}
	os.Exit(rep.Finish("exploration", map[string]interface{}{
		"evaluations":         evals,
		"distinct_nontrivial": len(distinct),
		"rule":                "total enumeration of (gRPC code 0..17,99,2^31-1) x (request context live/cancelled) x (default / empty / 418 renderer) through the real server on a recorder and then the real client; plus every HTTP status 100..599 x 5 X-GRPC-Status shapes through the real client. A case is non-trivial when it reaches the error renderer or the status-derivation path (everything except the plain OK reply); distinct by its parameters.",
		"samples":             samples,
		"exhaustive":          true,
	}, []string{"net/http itself is not exercised: server on httptest.ResponseRecorder, client on a canned RoundTripper"}))
}
