// C14: every gRPC status code survives the unary HTTP mapping.
//
// Total enumeration of
//   - (code x request-context state x renderer x handler metadata x message x details)
//     through the real server on a recorder, then the recorded reply through the real
//     client once for EVERY list of call options the caller may pass (opts.go) and with
//     the body intact / cut short;
//   - HTTP statuses 100..599 x X-GRPC-Status shapes x reply metadata x details header x
//     body x call options through the real client (unary Invoke), and the same statuses
//     x shapes x call options through the real streaming client (NewStream), which
//     derives its status with the same function;
//   - (code x handler metadata x message x details x messages sent x call options) for a
//     server-streaming method end to end (status in the body trailer);
//   - how the handler's error carries the code (bare status, wrapped with %w, custom
//     types, joined errors, context errors) x who wraps it (the handler, a server
//     interceptor) x codes x cancellation x renderers x entry points (carrier.go);
//   - every sequence of 1..3 registrations over (entry point x renderer option), each in
//     a process of its own, every handler judged against its own options after every
//     registration (register.go).
//
// The oracle is the statement: the HTTP status of the table (499 rule), and the caller
// recovers exactly the code (and message and details) the handler returned whenever
// the reply carries X-GRPC-Status - whatever options it passed; without the header OK
// for 2xx only. The options must not change the outcome, and grpc.Header/grpc.Trailer
// variables receive the metadata the handler set (reference: grpc-go).
//
// A panic of library code is a violation for the case at hand in every phase, and the
// enumeration goes on: the handler side is guarded wherever it runs (recorder, inside a
// round tripper, under net/http on loopback: guard.go, clause server-panic /
// backend-panic), the client's calls are made under recover (clause panic), and the
// calls of the streaming client - whose own goroutine no recover of the caller's can
// reach - are made in a child process (isolate.go, clause panic-escaped).
package main

import (
	"context"
	"encoding/base64"
	"fmt"
	"hash/fnv"
	"io"
	"net/http"
	"net/http/httptest"
	"net/url"
	"os"
	"path/filepath"
	"regexp"
	"strconv"
	"strings"
	"sync/atomic"
	"time"

	"github.com/fullstorydev/grpchan/httpgrpc"
	"google.golang.org/grpc"
	"google.golang.org/grpc/codes"
	"google.golang.org/grpc/metadata"
	"google.golang.org/grpc/status"
	"google.golang.org/protobuf/proto"
	"google.golang.org/protobuf/types/known/anypb"
	"google.golang.org/protobuf/types/known/wrapperspb"

	"verif/seq/common"
	"verif/vlib"
)

// the checker's own copy of the documented table (cross-checked against the doc comment)
var table = map[codes.Code]int{
	codes.Canceled: 502, codes.Unknown: 500, codes.InvalidArgument: 400, codes.DeadlineExceeded: 504,
	codes.NotFound: 404, codes.AlreadyExists: 409, codes.PermissionDenied: 403, codes.Unauthenticated: 401,
	codes.ResourceExhausted: 429, codes.FailedPrecondition: 412, codes.Aborted: 409, codes.OutOfRange: 422,
	codes.Unimplemented: 501, codes.Internal: 500, codes.Unavailable: 503, codes.DataLoss: 500,
}

type okStatusErr struct{}

func (okStatusErr) Error() string              { return "error carrying an OK status" }
func (okStatusErr) GRPCStatus() *status.Status { return status.New(codes.OK, "ok?") }

type serverCase struct {
	Kind      string `json:"kind"` // server
	Code      uint32 `json:"code"`
	Cancelled bool   `json:"cancelled"`
	Renderer  string `json:"renderer"` // default | nothing | teapot (| found | nocontent in the thorough tier)
	OKErr     bool   `json:"ok_err,omitempty"`
	// Timeout is a GRPC-Timeout header to send ("" = none). "1n" has expired by the time
	// the handler returns: the handler's context is then done although the request (the
	// client) is still there, which must NOT trigger the 499 rule.
	Timeout string `json:"timeout,omitempty"`
	MD      string `json:"md,omitempty"`      // metadata the handler sets: "" | header | trailer | both
	Msg     string `json:"msg,omitempty"`     // status message: "" = "msg" | empty | colon
	Details int    `json:"details,omitempty"` // number of status details (0..2)
	// Hdr: the verb(s) the handler hands its response headers over with before it returns
	// (sendhdr.go): "" = grpc.SetHeader | send | set+send | send+set
	Hdr string `json:"hdr,omitempty"`
	// Collide: a handler-set metadata entry whose key collides with a header of the
	// protocol itself (collide.go); Chain: the handler is a gateway that first relays the
	// response metadata of a backend call (collide.go); Wire: over net/http on loopback
	// instead of recorder + canned round tripper.
	Collide *collide   `json:"collide,omitempty"`
	Chain   *chainSpec `json:"chain,omitempty"`
	Wire    bool       `json:"wire,omitempty"`
	// Opts is the call-option list of the failing client call (replay only; nil = all lists)
	Opts *optSet `json:"opts,omitempty"`
}

// wantMD: which of h-key / t-key the caller's grpc.Header / grpc.Trailer variables must hold.
func (c serverCase) wantMD() string {
	if c.Chain != nil {
		return c.Chain.wantMD()
	}
	return c.MD
}

func (c serverCase) outcome() string {
	if c.Code == 0 && !c.OKErr {
		return "success"
	}
	return "failure"
}

type clientCase struct {
	Kind    string  `json:"kind"` // client
	HTTP    int     `json:"http"`
	Header  string  `json:"header"`            // "<absent>" or the X-GRPC-Status value
	MD      bool    `json:"md,omitempty"`      // reply carries H-Key and (unary) X-Grpc-Trailer-T-Key
	Details bool    `json:"details,omitempty"` // reply carries one X-GRPC-Details value
	Body    string  `json:"body,omitempty"`    // unary: "" = an encoded response | empty | page (a proxy's 2 KiB error page)
	Stream  bool    `json:"stream,omitempty"`  // through NewStream instead of Invoke
	Opts    *optSet `json:"opts,omitempty"`
}

type streamCase struct {
	Kind    string `json:"kind"` // stream
	Code    uint32 `json:"code"`
	OKErr   bool   `json:"ok_err,omitempty"`
	MD      string `json:"md,omitempty"`
	Msg     string `json:"msg,omitempty"`
	Details int    `json:"details,omitempty"`
	NMsgs   int    `json:"nmsgs"` // messages the handler sends before returning
	// Collide: see serverCase (place hdr = SetHeader, send = SendHeader, tlr = SetTrailer)
	Collide *collide `json:"collide,omitempty"`
	Wire    bool     `json:"wire,omitempty"`
	Opts    *optSet  `json:"opts,omitempty"`
}

func msgText(id string) string {
	switch id {
	case "empty":
		return ""
	case "colon":
		return "a:b: c"
	}
	return "msg"
}

func detailMsgs(n int) []proto.Message {
	all := []proto.Message{wrapperspb.String("d1"), wrapperspb.Int32(2)}
	return all[:n]
}

// handlerErr is what the handler of a case returns.
func handlerErr(code uint32, okErr bool, msgID string, details int) error {
	if okErr {
		return okStatusErr{}
	}
	if code == 0 {
		return nil
	}
	st := status.New(codes.Code(code), msgText(msgID))
	if details > 0 {
		sp := st.Proto()
		for _, d := range detailMsgs(details) {
			a, err := anypb.New(d)
			if err != nil {
				panic(err)
			}
			sp.Details = append(sp.Details, a)
		}
		st = status.FromProto(sp)
	}
	return st.Err()
}

// wantOf: what the caller must recover.
func wantOf(code uint32, okErr bool, msgID string, details int) (codes.Code, string, []proto.Message) {
	if okErr {
		return codes.Internal, "ok?", nil // an error carrying OK must not become success
	}
	return codes.Code(code), msgText(msgID), detailMsgs(details)
}

// anyMsg as the wanted message: the message is not judged (carrier.go, joined errors).
const anyMsg = "\x00any"

// statusMismatch compares the caller's error with the status the handler returned.
func statusMismatch(err error, wantCode codes.Code, wantMsg string, wantDetails []proto.Message) (string, string) {
	if err == nil {
		return "client-code", fmt.Sprintf("client=success want %v(%d)", wantCode, uint32(wantCode))
	}
	st, ok := status.FromError(err)
	if !ok || st.Code() != wantCode {
		return "client-code", fmt.Sprintf("client=%v(%d) %q want %v(%d)", status.Code(err), uint32(status.Code(err)), err.Error(), wantCode, uint32(wantCode))
	}
	if wantMsg != anyMsg && st.Message() != wantMsg {
		return "client-message", fmt.Sprintf("client message=%q want %q", st.Message(), wantMsg)
	}
	got := st.Details()
	bad := len(got) != len(wantDetails)
	for i := 0; !bad && i < len(got); i++ {
		m, ok := got[i].(proto.Message)
		bad = !ok || !proto.Equal(m, wantDetails[i])
	}
	if bad {
		return "client-details", fmt.Sprintf("client details=%v want %v", got, wantDetails)
	}
	return "", ""
}

func parseDocTable() (map[string]int, error) {
	b, err := os.ReadFile(filepath.Join(common.RepoDir(), "httpgrpc", "server.go"))
	if err != nil {
		return nil, err
	}
	src := string(b)
	i := strings.Index(src, "// DefaultErrorRenderer translates")
	j := strings.Index(src, "func DefaultErrorRenderer(")
	if i < 0 || j < i {
		return nil, fmt.Errorf("doc comment of DefaultErrorRenderer not found")
	}
	re := regexp.MustCompile(`(?m)^//\s+(\w+):\s+\*?\s*(\d{3}) `)
	out := map[string]int{}
	for _, m := range re.FindAllStringSubmatch(src[i:j], -1) {
		n, _ := strconv.Atoi(m[2])
		out[m[1]] = n
	}
	return out, nil
}

type reply struct {
	status int
	hdr    http.Header
	body   []byte
}

func rendererHandlerOpts(name string) []httpgrpc.HandlerOption {
	wr := func(code int) []httpgrpc.HandlerOption {
		return []httpgrpc.HandlerOption{httpgrpc.ErrorRenderer(func(_ context.Context, _ *status.Status, w http.ResponseWriter) { w.WriteHeader(code) })}
	}
	switch name {
	case "nothing":
		return []httpgrpc.HandlerOption{httpgrpc.ErrorRenderer(func(context.Context, *status.Status, http.ResponseWriter) {})}
	case "teapot":
		return wr(418)
	case "found":
		return wr(302)
	case "nocontent":
		return wr(204)
	case "doc", "docstream":
		// a descriptive error document under the documented status; "doc" declares its
		// length, "docstream" does not and flushes (chunked over net/http)
		return []httpgrpc.HandlerOption{httpgrpc.ErrorRenderer(func(_ context.Context, st *status.Status, w http.ResponseWriter) {
			doc := errorDoc(st)
			w.Header().Set("Content-Type", "application/json")
			if name == "doc" {
				w.Header().Set("Content-Length", strconv.Itoa(len(doc)))
			}
			w.WriteHeader(docHTTPStatus(st.Code()))
			w.Write(doc)
			if f, ok := w.(http.Flusher); ok && name == "docstream" {
				f.Flush()
			}
		})}
	}
	return nil
}

func rendererOpts(name string) []httpgrpc.ServerOption {
	var out []httpgrpc.ServerOption
	for _, o := range rendererHandlerOpts(name) {
		out = append(out, o)
	}
	return out
}

// buildServer: the real server with the handler of the case; the second result releases
// what the case holds (the backend's listener of a chain over loopback).
func buildServer(c serverCase) (*httpgrpc.Server, func()) {
	var cleanup []func()
	relay := func(context.Context) {}
	if c.Chain != nil {
		relay = c.Chain.relayFn(c.Wire, &cleanup)
	}
	srv := httpgrpc.NewServer(rendererOpts(c.Renderer)...)
	svc := &common.Svc{Name: "t.S", Unary: map[string]common.UnaryFn{"M": func(ctx context.Context, dec func(interface{}) error) (interface{}, error) {
		var in wrapperspb.StringValue
		if err := dec(&in); err != nil {
			return nil, err
		}
		relay(ctx)
		c.applyHeaders(ctx) // grpc.SetHeader and / or grpc.SendHeader (sendhdr.go)
		if mdHasTrailer(c.MD) {
			grpc.SetTrailer(ctx, metadata.Pairs("t-key", "t-val"))
		}
		c.Collide.applyUnary(ctx, c.Code)
		if c.Timeout == "1n" {
			<-ctx.Done() // the server-side deadline derived from GRPC-Timeout
		}
		if err := handlerErr(c.Code, c.OKErr, c.Msg, c.Details); err != nil {
			return nil, err
		}
		return wrapperspb.String("resp"), nil
	}}}
	srv.RegisterService(svc.Desc(), common.Impl{})
	return srv, func() {
		for _, f := range cleanup {
			f()
		}
	}
}

// runServer: the case's handler on a recorder. A panic of the library (building the
// server or serving the request) is in the panic log afterwards (guard.go).
func runServer(c serverCase) (rp reply) {
	takePanics()
	var srv *httpgrpc.Server
	done := func() {}
	if !guarded("server", func() { srv, done = buildServer(c) }) {
		return reply{hdr: http.Header{}}
	}
	defer done()
	reqBody, _ := proto.Marshal(wrapperspb.String("req"))
	ctx, cancel := context.WithCancel(context.Background())
	defer cancel()
	if c.Cancelled {
		cancel()
	}
	req := httptest.NewRequest("POST", "/t.S/M", strings.NewReader(string(reqBody))).WithContext(ctx)
	req.Header.Set("Content-Type", httpgrpc.UnaryRpcContentType_V1)
	if c.Timeout != "" {
		req.Header.Set("GRPC-Timeout", c.Timeout)
	}
	rp, _ = serveRecorded("server", srv, req)
	return rp
}

// errBody fails after delivering its bytes, like a connection that breaks between the
// headers and the end of the body.
type errBody struct{ b []byte }

func (e *errBody) Read(p []byte) (int, error) {
	if len(e.b) == 0 {
		return 0, io.ErrUnexpectedEOF
	}
	n := copy(p, e.b)
	e.b = e.b[n:]
	return n, nil
}
func (e *errBody) Close() error { return nil }

// brokenRT: the reply's status line and headers arrive intact, the body is cut short.
func brokenRT(rp reply, o optSet) http.RoundTripper {
	return common.RT(func(r *http.Request) (*http.Response, error) {
		if r.Body != nil {
			io.Copy(io.Discard, r.Body)
			r.Body.Close()
		}
		h := http.Header{}
		for k, v := range rp.hdr {
			h[k] = append([]string(nil), v...)
		}
		half := rp.body[:len(rp.body)/2]
		resp := &http.Response{StatusCode: rp.status, Status: http.StatusText(rp.status), Proto: "HTTP/1.1", ProtoMajor: 1, ProtoMinor: 1,
			Header: h, Body: &errBody{b: half}, Request: r, ContentLength: int64(len(rp.body) + 64)}
		frameReply(resp, o.Len, resp.ContentLength)
		return resp, nil
	})
}

var baseURL, _ = url.Parse("http://example.test/")

var progress int64 // bumped by every client call; the watchdog turns a hang into exit 2
var current atomic.Value

// invoke makes one unary call with the given option list through the real client.
func invoke(rt http.RoundTripper, o optSet) (out string, h *optHandles, err error, panicked interface{}) {
	atomic.AddInt64(&progress, 1)
	h = o.build()
	defer func() {
		if p := recover(); p != nil {
			panicked = p
		}
	}()
	ch := &httpgrpc.Channel{Transport: rt, BaseURL: baseURL}
	var resp wrapperspb.StringValue
	err = ch.Invoke(context.Background(), "/t.S/M", wrapperspb.String("req"), &resp, h.opts...)
	return resp.Value, h, err, nil
}

// checkServerReply: the option-independent half, what is on the wire.
func checkServerReply(c serverCase, rp reply) (string, string) {
	wantCode, _, _ := wantOf(c.Code, c.OKErr, c.Msg, c.Details)
	return replyMismatch(c.Renderer, c.Cancelled, wantCode, rp)
}

// replyMismatch: the recorded reply of a handler that returned wantCode, rendered by the
// named renderer ("default": the documented table and the 499 rule are demanded).
func replyMismatch(renderer string, cancelled bool, wantCode codes.Code, rp reply) (string, string) {
	obs := fmt.Sprintf("http=%d x-grpc-status=%q", rp.status, rp.hdr.Get("X-GRPC-Status"))
	if wantCode == codes.OK {
		if rp.status != 200 {
			return "ok-not-200", obs
		}
		return "", obs
	}
	if renderer == "default" {
		want, ok := table[wantCode]
		if !ok {
			want = 500
		}
		if cancelled && (wantCode == codes.Canceled || wantCode == codes.DeadlineExceeded) {
			want = 499
		}
		if rp.status != want {
			return "http-status", fmt.Sprintf("%s want %d", obs, want)
		}
		if rp.status < 400 {
			return "non-error-http-status", obs
		}
	}
	return "", obs
}

// checkServerClient: the recorded reply through the real client, called with option list o.
func checkServerClient(c serverCase, rp reply, o optSet) (string, string) {
	wantCode, wantMsg, wantDetails := wantOf(c.Code, c.OKErr, c.Msg, c.Details)
	return clientMismatch(rp, o, wantCode, wantMsg, wantDetails, c.wantMD())
}

// clientMismatch: a recorded reply through the real client with option list o; the caller
// must recover the given status (and the handler's metadata wantMD).
func clientMismatch(rp reply, o optSet, wantCode codes.Code, wantMsg string, wantDetails []proto.Message, wantMD string) (string, string) {
	obs := fmt.Sprintf("http=%d x-grpc-status=%q opts=%s", rp.status, rp.hdr.Get("X-GRPC-Status"), o)
	out, h, err, pnc := invoke(cannedFor(o, rp.status, rp.hdr, rp.body), o)
	if pnc != nil {
		return "panic", fmt.Sprintf("%s panic=%v", obs, pnc)
	}
	if wantCode == codes.OK {
		if o.mayReject(len(rp.body)) && tooLarge(err) {
			return "", obs + " (response larger than the caller's receive limit: not judged)"
		}
		if err != nil {
			return "ok-call-failed", obs + " client=" + err.Error()
		}
		if out != "resp" {
			return "ok-wrong-response", fmt.Sprintf("%s response=%q", obs, out)
		}
		if cl, d := h.checkFilled(wantMD); cl != "" {
			return cl, obs + " " + d
		}
		return "", obs
	}
	if cl, d := statusMismatch(err, wantCode, wantMsg, wantDetails); cl != "" {
		return cl, obs + " " + d
	}
	if cl, d := h.checkFilled(wantMD); cl != "" {
		return cl, obs + " " + d
	}
	// the status travels in the headers: a body cut short afterwards must not replace the handler's status
	_, h, err, pnc = invoke(brokenRT(rp, o), o)
	if pnc != nil {
		return "panic-with-broken-body", fmt.Sprintf("%s panic=%v", obs, pnc)
	}
	if cl, d := statusMismatch(err, wantCode, wantMsg, wantDetails); cl != "" {
		return cl + "-with-broken-body", obs + " " + d
	}
	if cl, d := h.checkFilled(wantMD); cl != "" {
		return cl + "-with-broken-body", obs + " " + d
	}
	return "", obs
}

var detailHeader = func() string {
	a, _ := anypb.New(wrapperspb.String("d1"))
	b, _ := proto.Marshal(a)
	return base64.RawURLEncoding.EncodeToString(b)
}()

// frame is one length-prefixed message of the streaming body; the last one (the
// trailer) has a negative size.
func frame(m proto.Message, last bool) []byte {
	b, _ := proto.Marshal(m)
	n := int32(len(b))
	if last {
		n = -n
	}
	return append([]byte{byte(uint32(n) >> 24), byte(uint32(n) >> 16), byte(uint32(n) >> 8), byte(uint32(n))}, b...)
}

func (c clientCase) replyHeader() http.Header {
	hdr := http.Header{}
	if c.Header != "<absent>" {
		hdr.Set("X-GRPC-Status", c.Header)
	}
	if c.MD {
		hdr.Set("H-Key", "h-val")
		if !c.Stream {
			hdr.Set("X-Grpc-Trailer-T-Key", "t-val")
		}
	}
	if c.Details {
		hdr.Set("X-GRPC-Details", detailHeader)
	}
	return hdr
}

// wantFromHeader: header shapes that carry a parseable code (all of them code 5). The
// message is demanded only when the header carries one.
func (c clientCase) wantFromHeader() (bool, func(error) string, []proto.Message) {
	if c.Header != "5" && !strings.HasPrefix(c.Header, "5:") {
		return false, nil, nil
	}
	var det []proto.Message
	if c.Details {
		det = detailMsgs(1)
	}
	if strings.HasPrefix(c.Header, "5:") {
		return true, func(error) string { return c.Header[2:] }, det
	}
	return true, func(err error) string { return status.Convert(err).Message() }, det
}

func checkClient(c clientCase, o optSet) (string, string) {
	if c.Stream {
		return checkStreamClient(c, o)
	}
	body, _ := proto.Marshal(wrapperspb.String("resp"))
	wantOut := "resp"
	switch c.Body {
	case "empty":
		body, wantOut = nil, ""
	case "page":
		// an error page, as a proxy writes one; only a member where the reply is a failure
		// (non-2xx, or a parseable non-OK X-GRPC-Status): main
		body, wantOut = errorPage, ""
	}
	out, h, err, pnc := invoke(cannedFor(o, c.HTTP, c.replyHeader(), body), o)
	obs := fmt.Sprintf("opts=%s err=%v", o, err)
	if pnc != nil {
		return "panic", fmt.Sprintf("opts=%s panic=%v", o, pnc)
	}
	md := ""
	if c.MD {
		md = "both"
	}
	is2xx := c.HTTP >= 200 && c.HTTP < 300
	if ok, wantMsg, wantDet := c.wantFromHeader(); ok {
		if status.Code(err) != codes.NotFound || err == nil {
			return "header-code-ignored", obs
		}
		if cl, d := statusMismatch(err, codes.NotFound, wantMsg(err), wantDet); cl != "" {
			return "header-" + strings.TrimPrefix(cl, "client-") + "-ignored", obs + " " + d
		}
		if cl, d := h.checkFilled(md); cl != "" {
			return cl, obs + " " + d
		}
		return "", obs
	}
	if is2xx && o.mayReject(len(body)) && tooLarge(err) {
		return "", obs + " (response larger than the caller's receive limit: not judged)"
	}
	if is2xx && err != nil {
		return "2xx-not-ok", obs
	}
	if !is2xx && (err == nil || status.Code(err) == codes.OK) {
		return "non-2xx-ok", obs
	}
	if is2xx {
		if out != wantOut {
			return "2xx-wrong-response", fmt.Sprintf("%s response=%q", obs, out)
		}
		if cl, d := h.checkFilled(md); cl != "" {
			return cl, obs + " " + d
		}
	}
	return "", obs
}

func watchdog() {
	last, idle := int64(-1), 0
	for {
		time.Sleep(5 * time.Second)
		p := atomic.LoadInt64(&progress)
		if p != last {
			last, idle = p, 0
			continue
		}
		if idle++; idle >= 6 {
			fmt.Fprintf(os.Stderr, "INCONCLUSIVE: no progress for 30 s in case %v\n", current.Load())
			os.Exit(2)
		}
	}
}

// reporter wrapper: one root cause fails many members of the product. The cases are
// enumerated simplest first (handler metadata none, message "msg", no details, no call
// options, ...), and for each group (the old grammar's case + clause) only the first,
// i.e. simplest, failing member is reported; its fingerprint names the group and the
// values of the new dimensions that were needed to make it fail.
// keySet is a set of case keys, kept as 64-bit FNV-1a hashes (millions of members).
type keySet map[uint64]struct{}

func (k keySet) add(key string) {
	h := fnv.New64a()
	h.Write([]byte(key))
	k[h.Sum64()] = struct{}{}
}

type collapser struct {
	rep       *vlib.Reporter
	seen      map[string]bool
	collapsed int
}

// skip: the group has been reported already (the case at hand would only be collapsed).
func (k *collapser) skip(group string) bool {
	if k.seen[group] {
		k.collapsed++
		return true
	}
	return false
}

// firstFailure: the first failing verdict of a list (replay).
func firstFailure(res []evalRes) (string, string) {
	obs := ""
	for _, r := range res {
		if r.Clause != "" {
			return r.Clause, r.Obs
		}
		obs = r.Obs
	}
	return "", obs
}

func (k *collapser) report(group, extra, what string, replay interface{}) {
	if k.seen[group] {
		k.collapsed++
		return
	}
	k.seen[group] = true
	k.rep.Violation(group+extra, what, replay)
}

func (c serverCase) extras(o optSet) string {
	s := ""
	if c.Chain != nil || c.Collide != nil {
		s = fmt.Sprintf("|code=%d|cancelled=%v|renderer=%s", c.Code, c.Cancelled, c.Renderer)
		if c.OKErr {
			s = fmt.Sprintf("|okerr|cancelled=%v|renderer=%s", c.Cancelled, c.Renderer)
		}
	}
	if c.Chain != nil {
		s += fmt.Sprintf("|backend=%d|backend-details=%d|relay=%s", c.Chain.BCode, c.Chain.BDetails, c.Chain.Relay)
	}
	if c.Hdr != "" && c.Chain == nil && c.Collide == nil {
		s = c.hdrTail()
	}
	if c.Wire {
		s += "|wire"
	}
	return s + extras(c.MD, c.Msg, c.Details, o)
}

func extras(md, msg string, details int, o optSet) string {
	s := ""
	if md != "" {
		s += "|md=" + md
	}
	if msg != "" && msg != "msg" {
		s += "|msg=" + msg
	}
	if details > 0 {
		s += fmt.Sprintf("|details=%d", details)
	}
	if o.weight() > 0 {
		s += "|opts=" + o.String()
	}
	return s
}

// Cases of the colliding-metadata and gateway dimensions form their own groups: one per
// (colliding entry | chain, outcome of the handler, clause); the code, cancellation,
// renderer (and backend outcome, "wire") of the simplest failing member go into the tail.
func (c serverCase) group(clause string) string {
	switch {
	case c.Hdr != "" && c.Chain == nil && c.Collide == nil:
		return c.hdrGroup(clause)
	case c.Chain != nil:
		return fmt.Sprintf("C14|chain|gateway=%s|%s", c.outcome(), clause)
	case c.Collide != nil:
		return fmt.Sprintf("C14|server-collide|%s|%s|%s", c.Collide, c.outcome(), clause)
	case c.OKErr:
		return fmt.Sprintf("C14|server|okerr|cancelled=%v|%s", c.Cancelled, clause)
	case c.Timeout != "":
		return fmt.Sprintf("C14|server|code=%d|cancelled=%v|renderer=%s|timeout=%s|%s", c.Code, c.Cancelled, c.Renderer, c.Timeout, clause)
	}
	return fmt.Sprintf("C14|server|code=%d|cancelled=%v|renderer=%s|%s", c.Code, c.Cancelled, c.Renderer, clause)
}

func (c clientCase) group(clause string) string {
	kind := "client"
	if c.Stream {
		kind = "stream-client"
	}
	if c.headerDecides(clause) {
		return fmt.Sprintf("C14|%s|header=%s|%s", kind, c.Header, clause)
	}
	return fmt.Sprintf("C14|%s|http=%d|header=%s|%s", kind, c.HTTP, c.Header, clause)
}

// headerDecides: when the reply carries a parseable X-GRPC-Status the HTTP status is
// irrelevant to what the caller must get, so failures of those clauses collapse over
// the HTTP statuses (the simplest failing one is named in the fingerprint's tail).
func (c clientCase) headerDecides(clause string) bool {
	ok, _, _ := c.wantFromHeader()
	return ok
}

func (c clientCase) extras(o optSet) string {
	s := ""
	if c.headerDecides("") {
		s += fmt.Sprintf("|http=%d", c.HTTP)
	}
	if c.MD {
		s += "|md"
	}
	if c.Details {
		s += "|details"
	}
	if c.Body != "" {
		s += "|body=" + c.Body
	}
	return s + extras("", "", 0, o)
}

func main() {
	if len(os.Args) > 1 && os.Args[1] == regChildFlag {
		regChildMain() // one sequence of registrations in a process of its own (register.go)
	}
	if len(os.Args) > 1 && os.Args[1] == evalChildFlag {
		evalChildMain() // the evaluations that make streaming calls (isolate.go)
	}
	rep := vlib.NewReporter("C14")
	go watchdog()
	optSets := allOptSets()
	thorough := vlib.Tier() == "thorough"
	// the synthetic-reply sweeps (500 statuses each) use, in the quick tier, every subset
	// of the four option kinds plus the doubled Header / Trailer lists (19 of the 36)
	sweepSets := optSets
	if !thorough {
		sweepSets = nil
		for _, o := range optSets {
			if (o.H <= 1 && o.T <= 1) || (!o.Peer && !o.Creds && o.H != 1 && o.T != 1) {
				sweepSets = append(sweepSets, o)
			}
		}
	}

	// the lists of the new client-side dimensions (extra.go)
	extraSets := extraOptSets(thorough)
	sweepExtra := sweepExtraSets(thorough)
	liveExtra := liveExtraSets()

	if p := common.Arg("replay"); p != "" {
		var probe struct {
			Kind string  `json:"kind"`
			Opts *optSet `json:"opts"`
		}
		common.LoadReplay(p, &probe)
		sets := append(append([]optSet(nil), optSets...), extraSets...)
		if probe.Opts != nil {
			sets = []optSet{*probe.Opts}
		}
		var clause, obs string
		switch probe.Kind {
		case "server":
			var c serverCase
			common.LoadReplay(p, &c)
			if c.Wire {
				if probe.Opts == nil {
					sets = []optSet{{}, {H: 1, T: 1}}
				}
				for _, o := range sets {
					if clause, obs = checkServerWire(c, o); clause != "" {
						break
					}
				}
				break
			}
			rp := runServer(c)
			if cl, d, bad := serverPanicVerdict(""); bad {
				clause, obs = cl, d
				break
			}
			clause, obs = checkServerReply(c, rp)
			for _, o := range sets {
				if clause != "" {
					break
				}
				clause, obs = checkServerClient(c, rp, o)
			}
		case "client":
			var c clientCase
			common.LoadReplay(p, &c)
			if c.Stream {
				clause, obs = firstFailure(isolated("stream-client", c, sets))
				break
			}
			for _, o := range sets {
				if clause, obs = checkClient(c, o); clause != "" {
					break
				}
			}
		case "stream":
			var c streamCase
			common.LoadReplay(p, &c)
			clause, obs = firstFailure(isolated("stream", c, sets))
		case "carrier":
			var c carrierCase
			common.LoadReplay(p, &c)
			if probe.Opts == nil {
				sets = []optSet{{}, {H: 1, T: 1}}
			}
			if c.Stream {
				clause, obs = firstFailure(isolated("carrier", c, sets))
				break
			}
			for _, o := range sets {
				if clause, obs = checkCarrier(c, o); clause != "" {
					break
				}
			}
		case "registrations":
			// the sequence runs in a child, as in the enumeration
			var c regCase
			common.LoadReplay(p, &c)
			res, err := runRegChild(c)
			if err != nil {
				inconclusive("%v", err)
			}
			obs = res.Sample
			if len(res.Fails) > 0 {
				f := res.Fails[0]
				clause, obs = f.Clause, fmt.Sprintf("%s%s: %s", c.group(f.Probe, f.Clause), c.extras(f.Probe), f.Obs)
			}
		case "doc":
			clause, obs = checkDoc(nil)
		default:
			fmt.Fprintln(os.Stderr, "INCONCLUSIVE: unknown replay kind", probe.Kind)
			os.Exit(2)
		}
		fmt.Println("replay:", clause, obs)
		if clause != "" {
			fmt.Printf("VIOLATION property=C14 replay=%s\n", p)
			os.Exit(1)
		}
		os.Exit(0)
	}

	evals := 0
	collideCases, chainCases, wireCases, streamCollideCases := 0, 0, 0, 0
	extraSamples, extraSamples2 := 0, 0
	// over loopback: no options, and one grpc.Header plus one grpc.Trailer
	wireSets := []optSet{{}, {H: 1, T: 1}}
	distinct := keySet{}
	var samples []interface{}
	col := &collapser{rep: rep, seen: map[string]bool{}}

	t0 := time.Now()
	lap := func(name string) {
		if os.Getenv("VERIF_DEBUG") != "" {
			fmt.Fprintf(os.Stderr, "phase %s done at %.1fs evals=%d\n", name, time.Since(t0).Seconds(), evals)
		}
	}

	// the documented table, parsed from the current tree, against the checker's copy
	if _, err := parseDocTable(); err != nil {
		fmt.Fprintln(os.Stderr, "INCONCLUSIVE:", err)
		os.Exit(2)
	}
	evals += len(table)
	checkDoc(rep)

	var codeList []uint32
	for c := uint32(0); c <= 17; c++ {
		codeList = append(codeList, c)
	}
	codeList = append(codeList, 99, 1000, 1<<31-1, 1<<31, 3000000000, 1<<32-1)
	quickCodes := append([]uint32(nil), codeList...)
	renderers := []string{"default", "nothing", "teapot"}
	if thorough {
		for c := uint32(18); c <= 64; c++ {
			codeList = append(codeList, c)
		}
		codeList = append(codeList, 255, 256, 65535, 65536, 1<<31+5, 1<<32-2)
		renderers = append(renderers, "found", "nocontent")
	}
	mds := []string{"", "header", "trailer", "both"}
	msgs := []string{"msg", "empty", "colon"}

	// what the phase at hand passes to doServer's client half: phase (a) every list,
	// the older ones and those of the new dimensions; (e), (f) the older ones
	allSets := append(append([]optSet(nil), optSets...), extraSets...)
	serverSets := allSets
	serverWireSets := wireSets
	extraEvals, extraWireCases := 0, 0
	reportServer := func(c serverCase, o optSet, clause, obs string) {
		cc := c
		cc.Opts = &o
		if isLibPanic(clause) {
			col.report(c.panicGroup(clause), c.panicExtras(clause, o), clause+": "+obs, cc)
			return
		}
		if g, ok := c.optGroup(o, clause); ok {
			col.report(g, c.optExtras(o), clause+": "+obs, cc)
			return
		}
		col.report(c.group(clause), c.extras(o), clause+": "+obs, cc)
	}
	// one server case: the reply once, then the client once per option list
	doServer := func(c serverCase, key string) {
		current.Store(fmt.Sprintf("%+v", c))
		if c.Wire {
			// over loopback every option list is a call of its own
			for _, o := range serverWireSets {
				evals++
				clause, obs := checkServerWire(c, o)
				distinct.add(key + "|wire|" + o.String())
				if o.X != "" {
					extraEvals++
				}
				if clause != "" {
					reportServer(c, o, clause, obs)
				}
			}
			return
		}
		rp := runServer(c)
		evals++
		if clause, obs, bad := serverPanicVerdict(""); bad {
			distinct.add(key)
			col.report(c.panicGroup(clause), c.panicExtras(clause, optSet{}), clause+": "+obs, c)
			return
		}
		// non-trivial: the handler failed, or the reply carries a status / details header
		// although it succeeded (a colliding entry that reached the wire)
		nontrivial := c.Code != 0 || c.OKErr || len(rp.hdr.Values("X-GRPC-Status")) > 0 || len(rp.hdr.Values("X-GRPC-Details")) > 0
		clause, obs := checkServerReply(c, rp)
		if clause != "" {
			col.report(c.group(clause), c.extras(optSet{}), clause+": "+obs, c)
			return
		}
		for _, o := range serverSets {
			evals++
			if o.X != "" || o.Len != "" {
				extraEvals++
			}
			clause, obs := checkServerClient(c, rp, o)
			if nontrivial {
				distinct.add(key + "|" + o.String())
			}
			if extraSamples2 < 4 && c.Code%6 == 5 && c.MD == "" && c.Details == 0 && c.Msg == "" && !c.Cancelled && c.Collide == nil && c.Chain == nil && (c.Renderer == "doc" || c.Renderer == "default") && (o.X == "recv=fit" || o.X == "recv=1k") && o.Len == "declared" && o.H == 0 {
				extraSamples2++
				samples = append(samples, map[string]interface{}{"case": c, "opts": o.String(), "observed": obs})
			}
			if len(samples) < 6 && c.Code%5 == 1 && c.MD == "both" && c.Details == 1 && o.H == 1 && o.T == 1 && !o.Peer && !o.Creds && !c.Cancelled {
				samples = append(samples, map[string]interface{}{"case": c, "opts": o.String(), "observed": obs})
			}
			if (c.Collide != nil || c.Chain != nil) && nontrivial && extraSamples < 6 && c.Code%9 == 5 && c.Renderer == "default" && !c.Cancelled && o.H == 1 && o.T == 1 && !o.Peer && !o.Creds &&
				(c.Chain != nil && c.Chain.BCode%7 == 2 && c.Chain.Relay == "both" || c.Collide != nil && c.Collide.Place == "hdr" && c.Details == 0 && c.Msg == "" && (c.Collide.Val == "other" || c.Collide.Val == "valid")) {
				extraSamples++
				samples = append(samples, map[string]interface{}{"case": c, "opts": o.String(), "observed": obs})
			}
			if clause != "" {
				reportServer(c, o, clause, obs)
			}
		}
	}
	// phase (a) also with the renderer that writes an error document
	renderersA := append(append([]string(nil), renderers...), "doc")

	// simplest first: the new dimensions at their base value (the old grammar), then the rest
	for pass := 0; pass < 2; pass++ {
		for _, code := range codeList {
			for _, cancelled := range []bool{false, true} {
				for _, r := range renderersA {
					for _, md := range mds {
						for _, msg := range msgs {
							for det := 0; det <= 2; det++ {
								base := md == "" && msg == "msg" && det == 0
								if base != (pass == 0) {
									continue
								}
								if code == 0 && !base && (msg != "msg" || det != 0) {
									continue // a success has no message or details
								}
								c := serverCase{Kind: "server", Code: code, Cancelled: cancelled, Renderer: r, MD: md, Msg: msg, Details: det}
								if msg == "msg" {
									c.Msg = ""
								}
								// the lists of the new client-side dimensions: handler metadata none / both,
								// message "msg", 0..1 details
								serverSets = optSets
								if (md == "" || md == "both") && msg == "msg" && det <= 1 {
									serverSets = allSets
								}
								doServer(c, fmt.Sprintf("srv|%d|%v|%s|%s|%s|%d", code, cancelled, r, md, msg, det))
							}
						}
					}
				}
			}
		}
	}
	lap("unary server->client")
	serverSets = allSets
	// server-side deadline (GRPC-Timeout) expired, or far away, while the request itself is alive or cancelled
	for _, code := range []uint32{1, 4, 5} {
		for _, cancelled := range []bool{false, true} {
			for _, to := range []string{"1n", "1H"} {
				for _, md := range []string{"", "both"} {
					c := serverCase{Kind: "server", Code: code, Cancelled: cancelled, Renderer: "default", Timeout: to, MD: md}
					doServer(c, fmt.Sprintf("srv|%d|%v|timeout=%s|%s", code, cancelled, to, md))
				}
			}
		}
	}
	for _, cancelled := range []bool{false, true} {
		for _, r := range renderersA {
			for _, md := range []string{"", "both"} {
				c := serverCase{Kind: "server", Code: 0, Cancelled: cancelled, Renderer: r, OKErr: true, MD: md}
				doServer(c, fmt.Sprintf("srv|okerr|%v|%s|%s", cancelled, r, md))
			}
		}
	}
	serverSets = optSets // the phases below: the older lists

	// (m) the verb the handler hands its response headers over with (sendhdr.go), crossed
	// with phase (a): codes x live/cancelled x renderers x handler metadata x 0..1 details
	// x the older option lists; then the GRPC-Timeout and error-carrying-OK cases
	hdrCases, hdrWireCases := 0, 0
	for _, code := range codeList {
		for _, cancelled := range []bool{false, true} {
			for _, r := range renderersA {
				for _, md := range mds {
					for _, how := range hdrHows(md) {
						for det := 0; det <= 1; det++ {
							if code == 0 && det != 0 {
								continue
							}
							c := serverCase{Kind: "server", Code: code, Cancelled: cancelled, Renderer: r, MD: md, Details: det, Hdr: how}
							hdrCases++
							doServer(c, fmt.Sprintf("srv-hdr|%s|%d|%v|%s|%s|%d", how, code, cancelled, r, md, det))
						}
					}
				}
			}
		}
	}
	for _, md := range []string{"", "both"} {
		for _, how := range hdrHows(md) {
			for _, cancelled := range []bool{false, true} {
				for _, code := range []uint32{1, 4, 5} {
					for _, to := range []string{"1n", "1H"} {
						c := serverCase{Kind: "server", Code: code, Cancelled: cancelled, Renderer: "default", Timeout: to, MD: md, Hdr: how}
						hdrCases++
						doServer(c, fmt.Sprintf("srv-hdr|%s|%d|%v|timeout=%s|%s", how, code, cancelled, to, md))
					}
				}
				for _, r := range renderersA {
					c := serverCase{Kind: "server", Code: 0, Cancelled: cancelled, Renderer: r, OKErr: true, MD: md, Hdr: how}
					hdrCases++
					doServer(c, fmt.Sprintf("srv-hdr|%s|okerr|%v|%s|%s", how, cancelled, r, md))
				}
			}
		}
	}
	lap("header verbs")

	// synthetic replies through the real client
	headers := []string{"<absent>", "", "x:y", ":", "5", "5:a:b: c"}
	// judgeClient: one synthetic reply under every option list; verdict(i) is the check's
	// answer for sets[i]
	judgeClient := func(c clientCase, sets []optSet, verdict func(i int) (string, string)) {
		for i, o := range sets {
			evals++
			if o.X != "" || o.Len != "" {
				extraEvals++
			}
			clause, obs := verdict(i)
			distinct.add(fmt.Sprintf("cli|%v|%d|%s|%v|%v|%s|%s", c.Stream, c.HTTP, c.Header, c.MD, c.Details, c.Body, o))
			if len(samples) < 10 && c.HTTP%137 == 0 && c.Header == "<absent>" && c.MD && !c.Details && c.Body == "" && o.H == 1 && o.T == 1 && !o.Peer && !o.Creds {
				samples = append(samples, map[string]interface{}{"case": c, "opts": o.String(), "observed": obs})
			}
			if clause != "" {
				o := o
				cc := c
				cc.Opts = &o
				if o.X != "" {
					kind := "client-opt"
					if c.Stream {
						kind = "stream-client-opt"
					}
					col.report(fmt.Sprintf("C14|%s|%s|header=%s|%s", kind, o.X, c.Header, clause), fmt.Sprintf("|http=%d", c.HTTP)+strings.TrimPrefix(c.extras(o), fmt.Sprintf("|http=%d", c.HTTP)), clause+": "+obs, cc)
					continue
				}
				col.report(c.group(clause), c.extras(o), clause+": "+obs, cc)
			}
		}
	}
	doClient := func(c clientCase, sets []optSet) {
		current.Store(fmt.Sprintf("%+v", c))
		judgeClient(c, sets, func(i int) (string, string) { return checkClient(c, sets[i]) })
	}
	// streaming calls are evaluated in the child (isolate.go), a batch at a time; nothing
	// more is asked of a group whose call already took the process down
	seenGroup := func(g string) bool { return col.seen[g] }
	doClientStreams := func(cs []clientCase, sets []optSet) {
		jobs := make([]isoJob, len(cs))
		for j, c := range cs {
			jobs[j] = isoJob{c: c, opts: sets, group: c.group(escapedClause)}
		}
		current.Store(fmt.Sprintf("%+v ... (%d cases)", cs[0], len(cs)))
		res := isolatedBatch("stream-client", jobs, seenGroup)
		for j, c := range cs {
			if res[j] == nil {
				col.collapsed++
				continue
			}
			judgeClient(c, sets, func(i int) (string, string) { return res[j][i].Clause, res[j][i].Obs })
		}
	}
	for pass := 0; pass < 2; pass++ {
		for hs := 100; hs <= 599; hs++ {
			for _, h := range headers {
				for _, md := range []bool{false, true} {
					for _, det := range []bool{false, true} {
						for _, body := range []string{"", "empty"} {
							base := !md && !det && body == ""
							if base != (pass == 0) {
								continue
							}
							doClient(clientCase{Kind: "client", HTTP: hs, Header: h, MD: md, Details: det, Body: body}, sweepSets)
						}
					}
				}
			}
		}
	}
	// the new client-side dimensions over the same statuses and header shapes: the body an
	// encoded response, or - where the reply is a failure - a proxy's error page
	for hs := 100; hs <= 599; hs++ {
		for _, h := range headers {
			for _, body := range []string{"", "page"} {
				c := clientCase{Kind: "client", HTTP: hs, Header: h, Body: body}
				if body == "page" && hs >= 200 && hs < 300 && !c.headerDecides("") {
					continue // a 2xx reply without a code whose body is no response: nothing to derive
				}
				doClient(c, sweepExtra)
			}
		}
	}
	lap("unary synthetic replies")
	// the streaming client derives its status from the reply with the same function
	for hs := 100; hs <= 599; hs++ {
		var batch []clientCase
		for _, h := range headers {
			for _, md := range []bool{false, true} {
				for _, det := range []bool{false, true} {
					if det && !thorough && h != "5" && h != "5:a:b: c" {
						continue // quick tier: the details header only where it must be recovered
					}
					batch = append(batch, clientCase{Kind: "client", HTTP: hs, Header: h, MD: md, Details: det, Stream: true})
				}
			}
		}
		doClientStreams(batch, sweepSets)
	}

	lap("streaming synthetic replies")
	// server-streaming method end to end: the status travels in the body trailer
	streamCodes := codeList
	type streamJob struct {
		c    streamCase
		msg  string
		sets []optSet
	}
	for pass := 0; pass < 2; pass++ {
		for _, code := range streamCodes {
			var batch []streamJob
			for _, md := range mds {
				for _, msg := range msgs {
					for det := 0; det <= 2; det++ {
						for n := 0; n <= 1; n++ {
							base := md == "" && msg == "msg" && det == 0 && n == 0
							if base != (pass == 0) {
								continue
							}
							if code == 0 && (msg != "msg" || det != 0) {
								continue
							}
							c := streamCase{Kind: "stream", Code: code, MD: md, Msg: msg, Details: det, NMsgs: n}
							if msg == "msg" {
								c.Msg = ""
							}
							sets := optSets
							if (md == "" || md == "both") && msg == "msg" && det <= 1 {
								// the extra option kinds (extra.go), alone and with one of each older kind
								sets = append(append([]optSet(nil), optSets...), liveExtra...)
							}
							batch = append(batch, streamJob{c, msg, sets})
						}
					}
				}
			}
			if len(batch) == 0 {
				continue
			}
			// the streaming calls of one code: in the child (isolate.go)
			jobs := make([]isoJob, len(batch))
			for j, b := range batch {
				jobs[j] = isoJob{c: b.c, opts: b.sets, group: fmt.Sprintf("C14|stream|code=%d|%s", code, escapedClause)}
			}
			current.Store(fmt.Sprintf("%+v ... (%d cases)", batch[0].c, len(batch)))
			res := isolatedBatch("stream", jobs, seenGroup)
			for j, b := range batch {
				if res[j] == nil {
					col.collapsed++
					continue
				}
				c, md, msg, det, n := b.c, b.c.MD, b.msg, b.c.Details, b.c.NMsgs
				for i, o := range b.sets {
					evals++
					if o.X != "" {
						extraEvals++
					}
					clause, obs := res[j][i].Clause, res[j][i].Obs
					if code != 0 {
						distinct.add(fmt.Sprintf("str|%d|%s|%s|%d|%d|%s", code, md, msg, det, n, o))
					}
					if len(samples) < 13 && code%7 == 2 && md == "both" && det == 1 && n == 1 && o.H == 1 && o.T == 1 && !o.Peer && !o.Creds {
						samples = append(samples, map[string]interface{}{"case": c, "opts": o.String(), "observed": obs})
					}
					if clause != "" {
						o := o
						cc := c
						cc.Opts = &o
						if o.X != "" && !isHandlerPanic(clause) {
							// (a panic of the handler has nothing to do with the caller's options; one
							// that took the process down under an extra option did not do so without it)
							outcome := "failure"
							if code == 0 {
								outcome = "success"
							}
							col.report(fmt.Sprintf("C14|stream-opt|%s|%s|%s", o.X, outcome, clause), fmt.Sprintf("|code=%d", code)+extras(md, c.Msg, det, o)+fmt.Sprintf("|nmsgs=%d", n), clause+": "+obs, cc)
							continue
						}
						col.report(fmt.Sprintf("C14|stream|code=%d|%s", code, clause), extras(md, c.Msg, det, o)+fmt.Sprintf("|nmsgs=%d", n), clause+": "+obs, cc)
					}
				}
			}
		}
	}
	for _, md := range []string{"", "both"} {
		c := streamCase{Kind: "stream", OKErr: true, MD: md}
		current.Store(fmt.Sprintf("%+v", c))
		isoRes := isolated("stream", c, optSets)
		for i, o := range optSets {
			evals++
			distinct.add(fmt.Sprintf("str|okerr|%s|%s", md, o))
			if clause, obs := isoRes[i].Clause, isoRes[i].Obs; clause != "" {
				o := o
				cc := c
				cc.Opts = &o
				col.report("C14|stream|okerr|"+clause, extras(md, "", 0, o), clause+": "+obs, cc)
			}
		}
	}

	lap("streaming end to end")

	// ---- handler-set metadata that collides with the protocol's own response headers ----
	unaryCollides := allCollides([]string{"hdr", "tlr", "hdrp"})
	streamCollides := allCollides([]string{"hdr", "send", "tlr"})
	collideMDs := []string{""}
	if thorough {
		collideMDs = []string{"", "both"}
	}
	// (e) crossed with code x cancellation x renderer (x handler metadata in the thorough
	// tier); status details 1..2 swept where the entry is a status or details header,
	// the message shapes where it is a status header
	for pass := 0; pass < 2; pass++ {
		for _, k := range unaryCollides {
			for _, code := range codeList {
				for _, cancelled := range []bool{false, true} {
					for _, r := range renderers {
						for _, md := range collideMDs {
							for _, msg := range msgs {
								for det := 0; det <= 2; det++ {
									base := msg == "msg" && det == 0
									if base != (pass == 0) {
										continue
									}
									if !base {
										statusKey := k.Key == "x-grpc-status"
										if code == 0 || (det > 0 && msg != "msg") || (det > 0 && !statusKey && k.Key != "x-grpc-details") || (msg != "msg" && !statusKey) {
											continue
										}
									}
									k := k
									c := serverCase{Kind: "server", Code: code, Cancelled: cancelled, Renderer: r, MD: md, Msg: msg, Details: det, Collide: &k}
									if msg == "msg" {
										c.Msg = ""
									}
									collideCases++
									doServer(c, fmt.Sprintf("srv|%s|%d|%v|%s|%s|%s|%d", k, code, cancelled, r, md, msg, det))
								}
							}
						}
					}
				}
			}
		}
	}
	for _, k := range unaryCollides {
		for _, r := range renderers {
			k := k
			c := serverCase{Kind: "server", Renderer: r, OKErr: true, Collide: &k}
			collideCases++
			doServer(c, fmt.Sprintf("srv|%s|okerr|%s", k, r))
		}
	}
	lap("unary colliding metadata")

	// (f) the two-hop chain: backend outcome x gateway outcome x renderer x what is relayed
	gatewayCodes := []uint32{0, 1, 5, 14, 17, 3000000000}
	cancelledList := []bool{false}
	if thorough {
		gatewayCodes = quickCodes // the backend ranges over the full thorough list
		cancelledList = []bool{false, true}
	}
	for _, bcode := range codeList {
		for bdet := 0; bdet <= 1; bdet++ {
			if bcode == 0 && bdet > 0 {
				continue
			}
			for _, gcode := range gatewayCodes {
				for gdet := 0; gdet <= 1; gdet++ {
					if gcode == 0 && gdet > 0 {
						continue
					}
					for _, cancelled := range cancelledList {
						for _, r := range renderers {
							for _, relay := range []string{"hdr", "tlr", "both"} {
								c := serverCase{Kind: "server", Code: gcode, Cancelled: cancelled, Renderer: r, Details: gdet, Chain: &chainSpec{BCode: bcode, BDetails: bdet, Relay: relay}}
								chainCases++
								doServer(c, fmt.Sprintf("chain|%d|%d|%d|%d|%v|%s|%s", bcode, bdet, gcode, gdet, cancelled, r, relay))
							}
						}
					}
				}
			}
		}
	}
	lap("two-hop chain")

	// (g) over net/http on loopback: every colliding entry, and the chain, around three codes
	for _, code := range []uint32{0, 5, 14} {
		for _, r := range renderers {
			for _, k := range unaryCollides {
				k := k
				c := serverCase{Kind: "server", Code: code, Renderer: r, Collide: &k, Wire: true}
				wireCases++
				doServer(c, fmt.Sprintf("srv|%s|%d|%s", k, code, r))
			}
			for _, bcode := range []uint32{0, 5, 14} {
				for _, relay := range []string{"hdr", "tlr", "both"} {
					c := serverCase{Kind: "server", Code: code, Renderer: r, Chain: &chainSpec{BCode: bcode, BDetails: 1, Relay: relay}, Wire: true}
					if bcode == 0 {
						c.Chain.BDetails = 0
					}
					wireCases++
					doServer(c, fmt.Sprintf("chain|%d|%d|%s|%s", bcode, code, r, relay))
				}
			}
		}
	}
	// (g') the plain cases over net/http on loopback, where the real stack frames the
	// reply (a short body or one with a Content-Length: declared; "docstream": chunked):
	// codes x renderers x (no option, header+trailer, and every extra option alone and
	// with one of each older kind)
	serverWireSets = append(append([]optSet(nil), wireSets...), liveExtra...)
	wireCodes := quickCodes
	if thorough {
		wireCodes = codeList
	}
	for _, code := range wireCodes {
		for _, r := range append(append([]string(nil), renderersA...), "docstream") {
			c := serverCase{Kind: "server", Code: code, Renderer: r, Wire: true}
			extraWireCases++
			doServer(c, fmt.Sprintf("srv-wire|%d|%s", code, r))
		}
	}
	serverWireSets = wireSets
	// (m) over net/http on loopback, where "sent" can really mean on the wire:
	// codes x renderers x handler metadata none / both x verb x {none, header+trailer}
	for _, code := range wireCodes {
		for _, r := range append(append([]string(nil), renderersA...), "docstream") {
			for _, md := range []string{"", "both"} {
				for _, how := range hdrHows(md) {
					c := serverCase{Kind: "server", Code: code, Renderer: r, MD: md, Hdr: how, Wire: true}
					hdrWireCases++
					doServer(c, fmt.Sprintf("srv-hdr-wire|%s|%d|%s|%s", how, code, r, md))
				}
			}
		}
	}
	lap("loopback")

	// (h) streams: SetHeader / SendHeader / SetTrailer with a colliding key
	// (the streaming calls: a batch at a time in the child, isolate.go)
	doStreams := func(cs []streamCase, sets []optSet) {
		jobs := make([]isoJob, len(cs))
		for j, c := range cs {
			jobs[j] = isoJob{c: c, opts: sets, group: fmt.Sprintf("C14|stream|code=%d|%s", c.Code, escapedClause)}
		}
		current.Store(fmt.Sprintf("%+v ... (%d cases)", cs[0], len(cs)))
		res := isolatedBatch("stream", jobs, seenGroup)
		for j, c := range cs {
			if res[j] == nil {
				col.collapsed++
				continue
			}
			for i, o := range sets {
				evals++
				clause, obs := res[j][i].Clause, res[j][i].Obs
				distinct.add(fmt.Sprintf("str|%s|%v|%d|%d|%d|%s", c.Collide, c.Wire, c.Code, c.Details, c.NMsgs, o))
				if extraSamples < 8 && c.Code == 5 && c.NMsgs == 1 && !c.Wire && c.Collide.Val == "ok" && c.Collide.Place != "tlr" && o.H == 1 && o.T == 1 && !o.Peer && !o.Creds {
					extraSamples++
					samples = append(samples, map[string]interface{}{"case": c, "opts": o.String(), "observed": obs})
				}
				if clause != "" {
					o := o
					cc := c
					cc.Opts = &o
					outcome := "failure"
					if c.Code == 0 {
						outcome = "success"
					}
					tail := fmt.Sprintf("|code=%d", c.Code)
					if c.Wire {
						tail += "|wire"
					}
					if isLibPanic(clause) {
						// grouped with the plain streaming cases of the code: the colliding entry goes into the tail
						col.report(fmt.Sprintf("C14|stream|code=%d|%s", c.Code, clause), "|collide="+c.Collide.String()+strings.TrimPrefix(tail, fmt.Sprintf("|code=%d", c.Code))+extras("", "", c.Details, o)+fmt.Sprintf("|nmsgs=%d", c.NMsgs), clause+": "+obs, cc)
						continue
					}
					col.report(fmt.Sprintf("C14|stream-collide|%s|%s|%s", c.Collide, outcome, clause), tail+extras("", "", c.Details, o)+fmt.Sprintf("|nmsgs=%d", c.NMsgs), clause+": "+obs, cc)
				}
			}
		}
	}
	for _, k := range streamCollides {
		var batch []streamCase
		for _, code := range codeList {
			for n := 0; n <= 1; n++ {
				for det := 0; det <= 1; det++ {
					if det > 0 && (code == 0 || (k.Key != "x-grpc-status" && k.Key != "x-grpc-details")) {
						continue
					}
					k := k
					streamCollideCases++
					batch = append(batch, streamCase{Kind: "stream", Code: code, Details: det, NMsgs: n, Collide: &k})
				}
			}
		}
		doStreams(batch, optSets)
	}
	for _, k := range streamCollides {
		var batch []streamCase
		for _, code := range []uint32{0, 5} {
			k := k
			wireCases++
			batch = append(batch, streamCase{Kind: "stream", Code: code, NMsgs: 1, Collide: &k, Wire: true})
		}
		doStreams(batch, wireSets)
	}
	lap("streams colliding metadata")

	// (i) how the handler's error carries the code (carrier.go)
	carrierCases, carrierStreamCases := 0, 0
	carrierSamples := 0
	// judgeCarrier: one case under the option lists; verdict(i) is the check's answer for wireSets[i]
	judgeCarrier := func(c carrierCase, verdict func(i int) (string, string)) {
		if c.Stream {
			carrierStreamCases++
		} else {
			carrierCases++
		}
		for i, o := range wireSets {
			evals++
			clause, obs := verdict(i)
			if !c.succeeds() {
				distinct.add(fmt.Sprintf("carrier|%+v|%s", c, o))
			}
			if carrierSamples < 6 && c.Code == 5 && c.Details == 1 && !c.Cancelled && o.H == 1 && c.Renderer == "default" && c.Entry == "NewServer" && c.NMsgs == 0 &&
				(c.Interceptor == "annotate") == (c.Carrier == "bare" || c.Carrier == "custom") && (c.Carrier == "bare" || c.Carrier == "wrap2" || c.Carrier == "custom" || c.Carrier == "join-last") && c.Interceptor != "pass" {
				carrierSamples++
				samples = append(samples, map[string]interface{}{"case": c, "opts": o.String(), "observed": obs})
			}
			if clause != "" {
				o := o
				cc := c
				cc.Opts = &o
				col.report(c.group(clause), c.extras(clause, o), clause+": "+strings.ReplaceAll(obs, "\n", `\n`), cc)
			}
		}
	}
	calibrated := func(c carrierCase) {
		if err := c.calibrate(); err != nil {
			fmt.Fprintln(os.Stderr, "INCONCLUSIVE:", err)
			os.Exit(2)
		}
	}
	doCarrier := func(c carrierCase) {
		current.Store(fmt.Sprintf("%+v", c))
		calibrated(c)
		judgeCarrier(c, func(i int) (string, string) { return checkCarrier(c, wireSets[i]) })
	}
	// (the streaming calls: a batch at a time in the child, isolate.go)
	doCarrierStreams := func(cs []carrierCase) {
		jobs := make([]isoJob, len(cs))
		for j, c := range cs {
			calibrated(c)
			jobs[j] = isoJob{c: c, opts: wireSets, group: c.group(escapedClause)}
		}
		current.Store(fmt.Sprintf("%+v ... (%d cases)", cs[0], len(cs)))
		res := isolatedBatch("carrier", jobs, seenGroup)
		for j, c := range cs {
			if res[j] == nil {
				col.collapsed++
				carrierStreamCases++
				continue
			}
			judgeCarrier(c, func(i int) (string, string) { return res[j][i].Clause, res[j][i].Obs })
		}
	}
	type entryRenderer struct{ entry, renderer string }
	// the renderers through NewServer; the function entry points with their default (no
	// option: the cross entry point x renderer option is dimension (j))
	var unaryEntries, streamEntries []entryRenderer
	for _, r := range renderers {
		unaryEntries = append(unaryEntries, entryRenderer{"NewServer", r})
	}
	unaryEntries = append(unaryEntries, entryRenderer{"HandleServices", "default"}, entryRenderer{"HandleMethod", "default"})
	streamEntries = []entryRenderer{{"NewServer", "default"}, {"HandleServices", "default"}, {"HandleStream", "default"}}
	for _, carrier := range allCarriers() {
		maxDet := 1
		if carrier == "plain" || strings.HasPrefix(carrier, "ctx") {
			maxDet = 0
		}
		for _, ic := range interceptors {
			for _, er := range unaryEntries {
				for _, code := range carrierCodes(carrier, codeList) {
					for _, cancelled := range []bool{false, true} {
						for det := 0; det <= maxDet; det++ {
							if code == 0 && det > 0 {
								continue
							}
							doCarrier(carrierCase{Kind: "carrier", Carrier: carrier, Interceptor: ic, Entry: er.entry, Code: code, Cancelled: cancelled, Renderer: er.renderer, Details: det})
						}
					}
				}
			}
			for _, er := range streamEntries {
				var batch []carrierCase
				for _, code := range carrierCodes(carrier, codeList) {
					for det := 0; det <= maxDet; det++ {
						for n := 0; n <= 1; n++ {
							if code == 0 && det > 0 {
								continue
							}
							batch = append(batch, carrierCase{Kind: "carrier", Carrier: carrier, Interceptor: ic, Entry: er.entry, Stream: true, Code: code, Renderer: er.renderer, Details: det, NMsgs: n})
						}
					}
				}
				doCarrierStreams(batch)
			}
		}
	}
	lap("error carriers")

	// (j) several registrations in one process (register.go), each sequence in a child process
	tripleCodes := []uint32{0, 1, 4, 5, 17}
	if thorough {
		tripleCodes = quickCodes
	}
	tripleSpecs := allRegSpecs()
	if !thorough {
		// quick tier: the explicit default renderer takes part in the sequences of 1 and 2 only
		tripleSpecs = nil
		for _, sp := range allRegSpecs() {
			if sp.Renderer != "default" {
				tripleSpecs = append(tripleSpecs, sp)
			}
		}
	}
	regCases := allRegCases(codeList, tripleCodes, tripleSpecs)
	regResults, err := runRegCases(regCases)
	if err != nil {
		fmt.Fprintln(os.Stderr, "INCONCLUSIVE:", err)
		os.Exit(2)
	}
	regProbes, regNontrivial, regSamples := 0, 0, 0
	for i, res := range regResults {
		c := regCases[i]
		evals += res.Evals
		regProbes += res.Evals
		regNontrivial += res.Nontrivial
		if regSamples < 3 && len(c.Seq) > 1 && c.Seq[0].Renderer == "none" && c.Seq[0].Entry != "NewServer" && c.Seq[0].Entry != "HandleStream" && c.Seq[len(c.Seq)-1].Renderer == "nothing" && c.Seq[len(c.Seq)-1].Entry == "HandleMethod" && (len(c.Seq) == 2 || c.Seq[1].Renderer == "teapot" && c.Seq[1].Entry == "NewServer") {
			regSamples++
			samples = append(samples, map[string]interface{}{"case": map[string]interface{}{"kind": "registrations", "seq": c.seqString()}, "probe": "handler #0, code 5, request live, after the last registration", "observed": res.Sample})
		}
		for _, f := range res.Fails {
			cc := c
			p := f.Probe
			cc.Failing = &p
			col.report(c.group(f.Probe, f.Clause), c.extras(f.Probe), f.Clause+": "+f.Obs, cc)
		}
	}
	lap("registrations")
	iso.stop()
	os.Exit(rep.Finish("exploration", map[string]interface{}{
		"evaluations":         evals,
		"distinct_nontrivial": len(distinct) + regNontrivial,
		"option_lists":        len(optSets),
		"option_lists_sweeps": len(sweepSets),
		"collapsed_failures":  col.collapsed,
		"rule": fmt.Sprintf("total enumeration. (a) unary, server then client: (%d gRPC codes: 0..17, 99, 1000, 2^31-1, 2^31, 3e9, 2^32-1%s) x (request context live/cancelled) x (%d renderers: %s) x (handler sets no metadata / header / trailer / both) x (message \"msg\" / empty / with colons) x (0..2 status details) through the real server on a recorder [plus GRPC-Timeout expired/far x cancelled x 3 codes, and an error carrying OK x renderers], and every recorded reply through the real client once for EACH of the %d call-option lists {0,1,2 grpc.Header} x {0,1,2 grpc.Trailer} x {grpc.Peer or not} x {grpc.PerRPCCredentials or not}, body intact and cut short. (b) unary, synthetic replies: every HTTP status 100..599 x 6 X-GRPC-Status shapes (absent, \"\", \"x:y\", \":\", \"5\", \"5:a:b: c\") x reply metadata present or not x X-GRPC-Details present or not x body (encoded response / empty) x %d option lists (quick tier: every subset of the four option kinds plus the doubled Header/Trailer lists, 19; thorough: all 36) through Invoke. (c) the same statuses x shapes x metadata (x details header%s) x the same option lists through NewStream with a well-formed framed body. (d) server-streaming method end to end through the real server and client: codes x handler metadata x message x details x (0 or 1 message sent first) x option lists, plus an error carrying OK. (e) handler-set metadata colliding with the protocol's own response headers: %d entries = {x-grpc-status: another code+message / \"0:OK\" / unparseable / the handler's code with another message; x-grpc-details: a decodable stale detail / not base64; content-type: text/plain / application/json; content-length: 0 / 3 / 99999} x {grpc.SetHeader(key), grpc.SetTrailer(key), grpc.SetHeader(\"x-grpc-trailer-\"+key)}, each contradicting what the handler then returns, crossed with codes x live/cancelled x renderers x handler metadata (%s) x all option lists, body intact and cut short; status details 1..2 swept for the status/details entries and the message shapes for the status entries; plus an error carrying OK x entries x renderers [%d server cases]. (f) the two-hop chain end to end: a backend httpgrpc server (every code x 0..1 details, sets h-key/t-key) called through an httpgrpc channel by a gateway handler that relays the backend call's grpc.Header / grpc.Trailer metadata (header only / trailer only / both) with grpc.SetHeader / SetTrailer and then returns its own outcome (%d gateway codes x 0..1 details, %s) x renderers x all option lists of the outer caller [%d cases]. (g) the same entries and the chain (backend codes 0/5/14, both hops) over net/http on loopback for gateway codes 0/5/14 x renderers x option lists {none, header+trailer}, and the stream entries for codes 0/5 [%d cases]. (h) server-streaming method: the same %d key/value pairs x {SetHeader, SendHeader, SetTrailer} x codes x (0 or 1 message sent) x (0..1 details for status/details entries) x all option lists [%d cases]. Oracle: documented HTTP status (499 rule); the caller gets exactly the handler's code, message and details whenever X-GRPC-Status is present, under every option list; without it OK for 2xx only; grpc.Header/grpc.Trailer variables hold the handler's h-key/t-key. In (e)-(h) the oracle is the same: what the HANDLER (the gateway) returned, whatever metadata it set. A case is non-trivial when it reaches the error renderer or the status-derivation path (everything except the plain OK reply of (a)/(d); a success of (e)/(f) counts only when a status or details header is on the recorded reply; (g)/(h) by all parameters); distinct by all its parameters including the option list. Failures are reported once per (old-grammar case, clause) - in (e)-(h) once per (colliding entry or chain, handler succeeded/failed, clause) - under the simplest failing member; the rest are counted in collapsed_failures. (i) how the handler's error carries the code: %d carriers {status.Error as it is; wrapped with %%w once / twice; inside an application error type with Unwrap(); errors.Join(status, other) / errors.Join(other, status); an application error type with GRPCStatus(), bare / wrapped with %%w [these two also with an OK status]; context.Canceled / context.DeadlineExceeded bare / wrapped once / twice / in an Unwrap() type / joined; errors.New (Unknown)} x server interceptor {none, passes the error on, annotates it with %%w} x every code the carrier can carry (all codes of (a); 1 and 4 for context errors) x 0..1 status details; unary: x request live/cancelled x {NewServer+WithServerUnaryInterceptor with each renderer; HandleServices, HandleMethod with their unaryInt argument, default renderer} [%d cases]; server-streaming: x {NewServer+WithServerStreamInterceptor, HandleServices, HandleStream with streamInt} x (0 or 1 message sent) [%d cases]; each x option lists {none, header+trailer}, body intact and cut short. The status the handler returned is what grpc-go reads from the error (status.FromError, i.e. errors.As, then status.FromContextError, i.e. errors.Is); every member is first calibrated: that reading must give the code the member was built from. Oracle as in (a)/(d) with that status (message of a joined error not judged). Reported once per (carrier, wrapped by the handler alone / also by an annotating interceptor) under the simplest failing member, whose clause is in the tail. (j) several registrations in one process: every sequence of 1 and 2 registrations over %d (entry point, renderer option) pairs = {HandleServices, HandleMethod, HandleStream, NewServer+RegisterService} x {no option, ErrorRenderer(DefaultErrorRenderer), a renderer that writes nothing, a renderer with its own status 418} and every sequence of 3 over %d of them (quick tier: without the explicit default) = %d sequences, EACH IN A PROCESS OF ITS OWN (child of this binary); sequences of 1 and 2: after every registration every handler made so far (unary and streaming) is called with every code of (a) x request live/cancelled (streams: live); sequences of 3: after the third registration every handler with codes %v x live/cancelled [%d requests]. Each handler is judged against its OWN options: no option / explicit default -> the documented table and the 499 rule and no custom renderer called; custom renderer -> exactly its own renderer called once with the handler's code, nobody else's; always: the caller recovers the code (unary: recorded reply through the real client; stream: end to end). Reported once per (entry point and option of the judged handler, unary/stream, clause) under the shortest failing sequence. distinct_nontrivial adds for (i) every case x option list except the plain success and for (j) every request with a non-OK code (distinct by sequence, judged handler, moment, method kind, code, cancellation; counted in the children). (k)+(l) the client-side dimensions of extra.go: (k) one option of the kinds the channel does not act on today, %d members {grpc.MaxCallRecvMsgSize 0 / exactly the response's size (%d) / 1024 / MaxInt32; MaxCallSendMsgSize exactly the request's size (%d) / 1024; both limits at the exact sizes; WaitForReady true / false; CallContentSubtype(proto); ForceCodec(proto); UseCompressor(gzip); MaxRetryRPCBufferSize(1024); OnFinish}, and (l) how the transport reports the reply's length {declared: ContentLength and Content-Length header = the body's size; chunked: ContentLength -1}. Crossed with phase (a) - which for this also gets a fourth renderer, \"doc\", writing a 2 KiB JSON error document with Content-Length under the documented status - as %d further lists per recorded reply (of the cases with handler metadata none / both, message \"msg\", 0..1 details, and of the GRPC-Timeout and error-carrying-OK cases): {no extra, each extra} x %s x framing (%s), body intact and cut short; with the synthetic replies of (b) for every status x header shape x body {encoded response; a proxy's 2 KiB error page, where the reply is a failure} x %d lists; with the streaming method of (d) for handler metadata none/both x 0..1 details x every extra x {alone, with one of each older kind}; and with the plain cases over net/http on loopback (g'): %d codes x renderers {%s, docstream = the document without Content-Length, flushed} x {none, header+trailer, every extra alone / with one of each older kind} [%d cases], where net/http itself frames the reply. Oracle unchanged: a failed call carries no response message, so no limit applies to it and the caller recovers exactly the handler's code, message and details, however long the error body; a success must stay a success, except that where a delivered message is larger than the receive limit (recv=0) both success and ResourceExhausted (grpc-go) are accepted. Failures of a list with an extra option are reported once per (extra option, renderer, handler succeeded/failed, clause) - synthetic: (extra option, header shape, clause); stream: (extra option, succeeded/failed, clause) - under the simplest failing member. PANICS: a panic of library code is a violation for the case at hand in every phase, and the enumeration goes on with the next case. The handler side (building the server or handler through its entry point, and serving the request) is guarded wherever it runs - on a recorder, inside a round tripper (streaming end to end, the chain's backend hop), and under net/http on loopback, where the panic is recorded before net/http drops the connection and the verdict names what the caller then saw -: clause server-panic (backend-panic for the chain's backend), grouped by what the handler was asked to render (code, cancellation, renderer; streams: code), the rest of the simplest panicking member in the tail. Client calls are made under recover (clause panic). Every evaluation that makes a STREAMING call (phases (c), (d), (h) and the streaming half of (i)) is made in a child process of this binary, a batch of cases at a time, because the streaming client derives the status on a goroutine of its own where no recover of the caller reaches: if the child dies of a Go panic the call it was making gets clause panic-escaped (the answer for a call is written only after the goroutines the library started for it have ended), the remaining option lists of that case and the remaining cases of its group are not run, the child is started again and the enumeration goes on; a sequence of (j) whose process dies of a panic is reported the same way for the sequence as a whole.",
			len(codeList), map[bool]string{true: ", 18..64, 255, 256, 65535, 65536, 2^31+5, 2^32-2", false: ""}[thorough], len(renderers), strings.Join(renderers, "/"), len(optSets), len(sweepSets), map[bool]string{true: "", false: " only where a code is parseable"}[thorough],
			len(unaryCollides), map[bool]string{true: "none / both", false: "none; none / both in the thorough tier"}[thorough], collideCases,
			len(gatewayCodes), map[bool]string{true: "request live/cancelled", false: "request live; the 24 quick-tier codes and live/cancelled in the thorough tier"}[thorough], chainCases, wireCases, len(streamCollides)/3, streamCollideCases,
			len(allCarriers()), carrierCases, carrierStreamCases, len(allRegSpecs()), len(tripleSpecs), len(regCases), tripleCodes, regProbes,
			len(extraIDs), respSize, reqSize, len(extraSets), map[bool]string{true: "{none, header, trailer, header+trailer, peer, creds, one of each, two headers + two trailers + peer + creds}", false: "{no other option, one of each older kind}"}[thorough], map[bool]string{true: "declared / chunked", false: "declared / chunked for the size options and for no extra, declared for the rest"}[thorough], len(sweepExtra), len(wireCodes), strings.Join(renderersA, "/"), extraWireCases),
		"eval_child_restarts":    iso.Restarts,
		"eval_child_not_run":     iso.NotRun,
		"extra_option_lists":     len(extraSets),
		"extra_evaluations":      extraEvals,
		"loopback_plain_cases":   extraWireCases,
		"header_verb_cases":      hdrCases,
		"header_verb_wire_cases": hdrWireCases,
		"header_verb_rule":       "(m) what the unary handler does to its response headers before it returns (sendhdr.go): {grpc.SendHeader(its header metadata, or an empty MD where it sets none); grpc.SetHeader(h-key) then grpc.SendHeader(nil); grpc.SendHeader(h-key) then a refused grpc.SetHeader(late-key)} - the older phases use grpc.SetHeader only - crossed with phase (a): every code x request live/cancelled x renderers (with doc) x handler metadata none / header / trailer / both x 0..1 details x every older option list, body intact and cut short, plus the GRPC-Timeout and error-carrying-OK cases for metadata none / both; and over net/http on loopback: codes x renderers (with doc, docstream) x metadata none / both x verb x option lists {none, header+trailer}. Oracle of (a) unchanged: documented HTTP status (499 rule), caller recovers exactly the code, message, details and h-key / t-key. Reported once per (verb, handler succeeded/failed, clause) under the first failing member.",
		"colliding_entries":      len(unaryCollides),
		"collide_cases":          collideCases,
		"chain_cases":            chainCases,
		"loopback_cases":         wireCases,
		"stream_collide_cases":   streamCollideCases,
		"carrier_cases":          carrierCases + carrierStreamCases,
		"registration_sequences": len(regCases),
		"registration_requests":  regProbes,
		"samples":                samples,
		"exhaustive":             iso.NotRun == 0,
	}, []string{
		"net/http itself is exercised only in (g) (loopback, keep-alives off); everywhere else: server on httptest.ResponseRecorder, client on a canned RoundTripper (streaming end to end: the handler runs inside RoundTrip, the reply is complete when it returns)",
		"colliding metadata keys are lower case (what metadata.Pairs and a relayed grpc.Header variable produce); one colliding entry per handler, except in the chain, which relays everything the backend reply carried",
		"the chain's backend hop runs without a recorder in between only in (g); in (f) both hops are recorder-based",
		"one extra option (k) per call (plus the pair of both limits); the deprecated aliases FailFast and CallCustomCodec are not members; send limits below the request's size and receive limits between 1 and the response's size minus 1 are not members (the handler may then not run / what a delivered oversized message turns into is not the statement's subject); (k) and (l) are not crossed with the colliding-metadata, chain, carrier and registration phases",
		"(m) the header verbs are issued by the handler itself, before its trailer metadata, one sequence per call; a server interceptor issuing them, SendHeader after SetTrailer, and (m) crossed with the colliding-metadata, chain, carrier, registration and extra-option phases are not members",
		"the JSON unary content type is not enumerated (the real client never sends it)",
		"panics: unary Invoke reads the reply body on a goroutine of its own that runs no library code of the pinned tree (ioutil.ReadAll and Close of the transport's body); a change that puts panicking library code on that goroutine ends the checking process (exit 2, could not decide) instead of being reported; after more than 400 deaths of the evaluating child the remaining streaming cases are not run (eval_child_not_run, exhaustive false)",
		"(i) the entry points other than NewServer are crossed with the carriers under the default renderer only (entry point x renderer option is (j)); one wrapping layer per interceptor, one interceptor per handler; an interceptor that REPLACES the status is not a member (the status the handler returned is then not defined)",
		"(j) all registrations of a sequence use the same service (t.S with unary M and server-streaming SS; the request value selects the code), no interceptors; sequences of 3 are exercised only after the third registration (the states before it are the cases of the shorter sequences) and, in the quick tier, with 5 codes and without the explicit-default option; sequences longer than 3 are not enumerated",
	}))
}

// checkDoc compares the documented table with the checker's copy; with a reporter it
// reports, without one it returns the first difference (replay).
func checkDoc(rep *vlib.Reporter) (string, string) {
	doc, err := parseDocTable()
	if err != nil {
		return "doc-table", err.Error()
	}
	first, firstObs := "", ""
	note := func(fp, what string, code string) {
		if first == "" {
			first, firstObs = "doc-table", what
		}
		if rep != nil {
			rep.Violation(fp, what, map[string]interface{}{"kind": "doc", "code": code})
		}
	}
	for c := codes.Code(1); c <= 16; c++ {
		want := table[c]
		if got, ok := doc[c.String()]; !ok || got != want {
			note(fmt.Sprintf("C14|doc-table|%s", c), fmt.Sprintf("documented table says %s -> %d (present=%v), checker's copy says %d", c, got, ok, want), c.String())
		}
	}
	if len(doc) != len(table) {
		note("C14|doc-table|size", fmt.Sprintf("documented table has %d rows, expected %d", len(doc), len(table)), "")
	}
	return first, firstObs
}
