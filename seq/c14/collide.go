package main

// The dimension "handler-set response metadata whose key collides with a header of the
// protocol itself". A handler may pass any metadata.MD to grpc.SetHeader / SetTrailer
// (SendHeader on streams); the transport writes it onto the same HTTP response that
// carries X-GRPC-Status, X-GRPC-Details, Content-Type, Content-Length and the
// X-GRPC-Trailer- prefixed trailers. The realistic source of such keys is a gateway:
// the httpgrpc client hands the wire headers of a reply (X-GRPC-Status included) to the
// application as ordinary header metadata, and a handler that relays the metadata of a
// backend call passes them on. Every member carries a value that contradicts what the
// handler then returns. The oracle does not change: the caller recovers what the
// handler RETURNED.

import (
	"context"
	"encoding/base64"
	"fmt"
	"net/http"
	"net/http/httptest"

	"github.com/fullstorydev/grpchan/httpgrpc"
	"google.golang.org/grpc"
	"google.golang.org/grpc/metadata"
	"google.golang.org/grpc/status"
	"google.golang.org/protobuf/proto"
	"google.golang.org/protobuf/types/known/anypb"
	"google.golang.org/protobuf/types/known/wrapperspb"

	"verif/seq/common"
)

// collide is one colliding metadata entry.
type collide struct {
	// Place: unary  hdr = grpc.SetHeader(key) | tlr = grpc.SetTrailer(key) |
	//               hdrp = grpc.SetHeader("x-grpc-trailer-"+key)
	//        stream hdr = SetHeader | send = SendHeader | tlr = SetTrailer
	Place string `json:"place"`
	Key   string `json:"key"`
	Val   string `json:"val"` // value id, see value()
}

func (k collide) String() string { return k.Place + ":" + k.Key + "=" + k.Val }

var collideAlphabet = []struct {
	key  string
	vals []string
}{
	// other: a different non-OK code and message | ok: "0:OK" | junk: no parseable code |
	// samecode: the handler's code with a different message
	{"x-grpc-status", []string{"other", "ok", "junk", "samecode"}},
	// valid: a decodable detail the handler did not return | junk: not base64
	{"x-grpc-details", []string{"valid", "junk"}},
	{"content-type", []string{"text", "json"}},
	{"content-length", []string{"0", "3", "99999"}},
}

func allCollides(places []string) []collide {
	var out []collide
	for _, a := range collideAlphabet {
		for _, v := range a.vals {
			for _, p := range places {
				out = append(out, collide{Place: p, Key: a.key, Val: v})
			}
		}
	}
	return out
}

var staleDetailHeader = func() string {
	a, _ := anypb.New(wrapperspb.String("stale"))
	b, _ := proto.Marshal(a)
	return base64.RawURLEncoding.EncodeToString(b)
}()

// value: the text of the entry, given the code the handler is going to return.
func (k collide) value(code uint32) string {
	switch k.Key {
	case "x-grpc-status":
		switch k.Val {
		case "other":
			other := 5
			if code == 5 {
				other = 7
			}
			return fmt.Sprintf("%d:stale", other)
		case "ok":
			return "0:OK"
		case "junk":
			return "x:y"
		case "samecode":
			return fmt.Sprintf("%d:stale", int32(code)) // the way the server prints a code
		}
	case "x-grpc-details":
		if k.Val == "valid" {
			return staleDetailHeader
		}
		return "!!!"
	case "content-type":
		if k.Val == "text" {
			return "text/plain"
		}
		return "application/json"
	case "content-length":
		return k.Val
	}
	panic("unknown collide " + k.String())
}

func (k collide) md(code uint32) metadata.MD {
	key := k.Key
	if k.Place == "hdrp" {
		key = "x-grpc-trailer-" + key
	}
	return metadata.Pairs(key, k.value(code))
}

// applyUnary sets the entry from inside a unary handler.
func (k *collide) applyUnary(ctx context.Context, code uint32) {
	if k == nil {
		return
	}
	if k.Place == "tlr" {
		grpc.SetTrailer(ctx, k.md(code))
	} else {
		grpc.SetHeader(ctx, k.md(code))
	}
}

// applyStream sets the entry from inside a streaming handler.
func (k *collide) applyStream(s grpc.ServerStream, code uint32) {
	if k == nil {
		return
	}
	switch k.Place {
	case "tlr":
		s.SetTrailer(k.md(code))
	case "send":
		s.SendHeader(k.md(code))
	default:
		s.SetHeader(k.md(code))
	}
}

// chainSpec turns the handler of a serverCase into a gateway: it first calls a backend
// (a second httpgrpc server, through a second httpgrpc channel) with grpc.Header and
// grpc.Trailer options, passes the metadata it got on with grpc.SetHeader / SetTrailer,
// and then returns its OWN outcome (the serverCase's code, message and details).
type chainSpec struct {
	BCode    uint32 `json:"backend_code"`
	BDetails int    `json:"backend_details"`
	Relay    string `json:"relay"` // hdr | tlr | both
}

func backendErr(code uint32, details int) error {
	if code == 0 {
		return nil
	}
	sp := status.New(0, "backend says no").Proto()
	sp.Code = int32(code)
	for i := 0; i < details; i++ {
		a, _ := anypb.New(wrapperspb.String(fmt.Sprintf("backend-detail-%d", i)))
		sp.Details = append(sp.Details, a)
	}
	return status.FromProto(sp).Err()
}

// relayFn builds the backend and returns what the gateway handler runs first.
func (ch *chainSpec) relayFn(wire bool, cleanup *[]func()) func(ctx context.Context) {
	bsrv := httpgrpc.NewServer()
	bsvc := &common.Svc{Name: "t.S", Unary: map[string]common.UnaryFn{"M": func(ctx context.Context, dec func(interface{}) error) (interface{}, error) {
		var in wrapperspb.StringValue
		if err := dec(&in); err != nil {
			return nil, err
		}
		grpc.SetHeader(ctx, metadata.Pairs("h-key", "h-val"))
		grpc.SetTrailer(ctx, metadata.Pairs("t-key", "t-val"))
		if err := backendErr(ch.BCode, ch.BDetails); err != nil {
			return nil, err
		}
		return wrapperspb.String("backend-resp"), nil
	}}}
	bsrv.RegisterService(bsvc.Desc(), common.Impl{})
	brt := handlerRT("backend", bsrv)
	if wire {
		bts := httptest.NewServer(guardHandler("backend", bsrv))
		*cleanup = append(*cleanup, bts.Close)
		brt = wireRT(bts)
	}
	bch := &httpgrpc.Channel{Transport: brt, BaseURL: baseURL}
	return func(ctx context.Context) {
		var hdr, tlr metadata.MD
		var out wrapperspb.StringValue
		bch.Invoke(ctx, "/t.S/M", wrapperspb.String("req"), &out, grpc.Header(&hdr), grpc.Trailer(&tlr))
		if ch.Relay != "tlr" {
			grpc.SetHeader(ctx, hdr)
		}
		if ch.Relay != "hdr" {
			grpc.SetTrailer(ctx, tlr)
		}
	}
}

func (ch *chainSpec) wantMD() string {
	switch ch.Relay {
	case "hdr":
		return "header"
	case "tlr":
		return "trailer"
	}
	return "both"
}

// The real net/http stack on loopback, for the members whose effect (if any) is only
// visible there: Content-Length / Content-Type decide how net/http frames a reply.
var wireTransport = &http.Transport{DisableKeepAlives: true}

func wireRT(ts *httptest.Server) http.RoundTripper {
	addr := ts.Listener.Addr().String()
	return common.RT(func(r *http.Request) (*http.Response, error) {
		r2 := r.Clone(r.Context())
		r2.URL.Host = addr
		r2.Host = ""
		return wireTransport.RoundTrip(r2)
	})
}

// spyRT records status line and headers of the reply.
func spyRT(rt http.RoundTripper, got *reply) http.RoundTripper {
	return common.RT(func(r *http.Request) (*http.Response, error) {
		resp, err := rt.RoundTrip(r)
		if resp != nil {
			got.status = resp.StatusCode
			got.hdr = resp.Header.Clone()
		}
		return resp, err
	})
}

// checkServerWire: one serverCase end to end over loopback with option list o.
//
// A panic on the handler side is recovered by net/http, which drops the connection; it is
// recorded first (guardHandler) and reported as such, with what the caller saw.
func checkServerWire(c serverCase, o optSet) (string, string) {
	takePanics()
	var srv *httpgrpc.Server
	done := func() {}
	if !guarded("server", func() { srv, done = buildServer(c) }) {
		cl, d, _ := serverPanicVerdict("wire: building the server:")
		return cl, d
	}
	defer done()
	ts := httptest.NewServer(guardHandler("server", srv))
	defer ts.Close()
	got := reply{hdr: http.Header{}}
	out, h, err, pnc := invoke(spyRT(wireRT(ts), &got), o)
	obs := fmt.Sprintf("wire http=%d x-grpc-status=%q opts=%s", got.status, got.hdr.Values("X-GRPC-Status"), o)
	if cl, d, bad := serverPanicVerdict(fmt.Sprintf("%s client=%v;", obs, err)); bad {
		return cl, d
	}
	if pnc != nil {
		return "panic", fmt.Sprintf("%s panic=%v", obs, pnc)
	}
	if cl, d := checkServerReply(c, got); cl != "" {
		return cl, d
	}
	wantCode, wantMsg, wantDetails := wantOf(c.Code, c.OKErr, c.Msg, c.Details)
	if wantCode == 0 {
		if o.mayReject(respSize) && tooLarge(err) {
			return "", obs + " (response larger than the caller's receive limit: not judged)"
		}
		if err != nil {
			return "ok-call-failed", obs + " client=" + err.Error()
		}
		if out != "resp" {
			return "ok-wrong-response", fmt.Sprintf("%s response=%q", obs, out)
		}
	} else if cl, d := statusMismatch(err, wantCode, wantMsg, wantDetails); cl != "" {
		return cl, obs + " " + d
	}
	if cl, d := h.checkFilled(c.wantMD()); cl != "" {
		return cl, obs + " " + d
	}
	return "", obs
}
