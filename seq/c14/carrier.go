package main

// The dimension "how the handler's error carries the code". "The status a handler
// returned" is, for grpc-go (server.go processUnaryRPC / processStreamingRPC), what
// status.FromError finds in the error - with errors.As semantics, so also a status that
// is wrapped - and otherwise what status.FromContextError makes of it (errors.Is
// semantics, so also a wrapped context error). The members:
//
//	bare         status.Error                              (the old grammar)
//	wrap1        fmt.Errorf("...: %w", statusErr)
//	wrap2        the same, wrapped twice
//	unwrapper    an error type of the application with Unwrap() error
//	custom       an error type of the application with GRPCStatus()
//	custom-wrap  fmt.Errorf("...: %w", custom)
//	join-first   errors.Join(statusErr, errors.New(...))
//	join-last    errors.Join(errors.New(...), statusErr)
//	ctx          context.Canceled / context.DeadlineExceeded as they are
//	ctx-wrap1, ctx-wrap2, ctx-unwrapper, ctx-join    the same four shapes around them
//	plain        errors.New(...), no status at all (Unknown)
//
// crossed with who does the wrapping: the handler alone, or a server interceptor
// (WithServerUnaryInterceptor / WithServerStreamInterceptor, the unaryInt / streamInt
// arguments of HandleServices / HandleMethod / HandleStream) that passes the error on
// or annotates it with %w on its way out.

import (
	"bytes"
	"context"
	"errors"
	"fmt"
	"io"
	"net/http"
	"net/http/httptest"
	"strings"

	"github.com/fullstorydev/grpchan"
	"github.com/fullstorydev/grpchan/httpgrpc"
	"google.golang.org/grpc"
	"google.golang.org/grpc/codes"
	"google.golang.org/grpc/status"
	"google.golang.org/protobuf/proto"
	"google.golang.org/protobuf/types/known/wrapperspb"

	"verif/seq/common"
)

var statusCarriers = []string{"bare", "wrap1", "wrap2", "unwrapper", "join-first", "join-last"}
var customCarriers = []string{"custom", "custom-wrap"}
var ctxCarriers = []string{"ctx", "ctx-wrap1", "ctx-wrap2", "ctx-unwrapper", "ctx-join"}
var interceptors = []string{"none", "pass", "annotate"}

// appError: an application error type that carries a status of its own.
type appError struct{ st *status.Status }

func (e *appError) Error() string              { return "application error: " + e.st.Message() }
func (e *appError) GRPCStatus() *status.Status { return e.st }

// opError: an application error type that wraps a cause (like *os.PathError, *net.OpError).
type opError struct {
	op  string
	err error
}

func (e *opError) Error() string { return e.op + ": " + e.err.Error() }
func (e *opError) Unwrap() error { return e.err }

type carrierCase struct {
	Kind        string `json:"kind"` // carrier
	Carrier     string `json:"carrier"`
	Interceptor string `json:"interceptor"` // none | pass | annotate
	// Entry: NewServer | HandleServices | HandleMethod (unary) | HandleStream (stream)
	Entry     string  `json:"entry"`
	Stream    bool    `json:"stream,omitempty"`
	Code      uint32  `json:"code"`
	Cancelled bool    `json:"cancelled,omitempty"`
	Renderer  string  `json:"renderer"`
	Details   int     `json:"details,omitempty"`
	NMsgs     int     `json:"nmsgs,omitempty"`
	Opts      *optSet `json:"opts,omitempty"`
}

func shape(kind string, base error) error {
	switch kind {
	case "wrap1":
		return fmt.Errorf("lookup failed: %w", base)
	case "wrap2":
		return fmt.Errorf("handler: %w", fmt.Errorf("lookup failed: %w", base))
	case "unwrapper":
		return &opError{"lookup", base}
	case "join-first":
		return errors.Join(base, errors.New("cleanup failed"))
	case "join-last", "join":
		return errors.Join(errors.New("cleanup failed"), base)
	}
	return base
}

// handlerError: what the handler of the case returns.
func (c carrierCase) handlerError() error {
	st := func() *status.Status {
		if c.Code == 0 {
			return status.New(codes.OK, "ok?")
		}
		return status.Convert(handlerErr(c.Code, false, "", c.Details))
	}
	switch c.Carrier {
	case "bare", "wrap1", "wrap2", "unwrapper", "join-first", "join-last":
		return shape(c.Carrier, handlerErr(c.Code, false, "", c.Details))
	case "custom":
		return &appError{st()}
	case "custom-wrap":
		return shape("wrap1", &appError{st()})
	case "ctx", "ctx-wrap1", "ctx-wrap2", "ctx-unwrapper", "ctx-join":
		base := context.Canceled
		if c.Code == uint32(codes.DeadlineExceeded) {
			base = context.DeadlineExceeded
		}
		return shape(strings.TrimPrefix(strings.TrimPrefix(c.Carrier, "ctx"), "-"), base)
	case "plain":
		return errors.New("boom")
	}
	panic("unknown carrier " + c.Carrier)
}

func annotate(fullMethod string, err error) error {
	return fmt.Errorf("%s failed: %w", fullMethod, err)
}

func (c carrierCase) fullMethod() string {
	if c.Stream {
		return "/t.S/SS"
	}
	return "/t.S/M"
}

// succeeds: the one member that is no error at all.
func (c carrierCase) succeeds() bool { return c.Code == 0 && c.Carrier == "bare" }

// finalError: what reaches the transport.
func (c carrierCase) finalError() error {
	if c.succeeds() {
		return nil
	}
	err := c.handlerError()
	if c.Interceptor == "annotate" {
		err = annotate(c.fullMethod(), err)
	}
	return err
}

// reference: grpc-go's reading of an error a handler returned.
func referenceStatus(err error) *status.Status {
	if st, ok := status.FromError(err); ok {
		return st
	}
	return status.FromContextError(err)
}

// want: what the caller must recover. The code is the case's code by construction;
// calibrate() checks that grpc-go's reading of the error agrees.
func (c carrierCase) want() (codes.Code, string, []proto.Message) {
	if c.succeeds() {
		return codes.OK, "", nil
	}
	ref := referenceStatus(c.finalError())
	code := ref.Code()
	if code == codes.OK {
		code = codes.Internal // an error carrying OK must not become a success
	}
	msg := ref.Message()
	if c.Carrier == "join-first" || c.Carrier == "join-last" || c.Carrier == "ctx-join" {
		msg = anyMsg // the joined text has a line break; what a header does with it is not this property
	}
	n := c.Details
	if len(ref.Proto().GetDetails()) != n {
		n = -1
	}
	if n < 0 {
		panic(fmt.Sprintf("carrier %+v: the reference status has %d details", c, len(ref.Proto().GetDetails())))
	}
	return code, msg, detailMsgs(n)
}

// calibrate: for every member the reference reading (status.FromError, then
// status.FromContextError) yields exactly the code the case was built from.
func (c carrierCase) calibrate() error {
	ref := referenceStatus(c.finalError())
	want := codes.Code(c.Code)
	if ref.Code() != want {
		return fmt.Errorf("carrier %+v: grpc-go reads code %v from the handler's error, the case says %v", c, ref.Code(), want)
	}
	if status.Code(c.finalError()) != want && c.Carrier != "plain" && c.Carrier[:3] != "ctx" {
		return fmt.Errorf("carrier %+v: status.Code says %v", c, status.Code(c.finalError()))
	}
	return nil
}

func (c carrierCase) unaryInterceptor() grpc.UnaryServerInterceptor {
	switch c.Interceptor {
	case "pass":
		return func(ctx context.Context, req interface{}, _ *grpc.UnaryServerInfo, h grpc.UnaryHandler) (interface{}, error) {
			return h(ctx, req)
		}
	case "annotate":
		return func(ctx context.Context, req interface{}, info *grpc.UnaryServerInfo, h grpc.UnaryHandler) (interface{}, error) {
			resp, err := h(ctx, req)
			if err != nil {
				return nil, annotate(info.FullMethod, err)
			}
			return resp, nil
		}
	}
	return nil
}

func (c carrierCase) streamInterceptor() grpc.StreamServerInterceptor {
	switch c.Interceptor {
	case "pass":
		return func(srv interface{}, ss grpc.ServerStream, _ *grpc.StreamServerInfo, h grpc.StreamHandler) error {
			return h(srv, ss)
		}
	case "annotate":
		return func(srv interface{}, ss grpc.ServerStream, info *grpc.StreamServerInfo, h grpc.StreamHandler) error {
			if err := h(srv, ss); err != nil {
				return annotate(info.FullMethod, err)
			}
			return nil
		}
	}
	return nil
}

// handler: the real handler of the case, made through the case's entry point.
func (c carrierCase) handler() http.Handler {
	svc := &common.Svc{Name: "t.S",
		Unary: map[string]common.UnaryFn{"M": func(ctx context.Context, dec func(interface{}) error) (interface{}, error) {
			var in wrapperspb.StringValue
			if err := dec(&in); err != nil {
				return nil, err
			}
			if c.succeeds() {
				return wrapperspb.String("resp"), nil
			}
			return nil, c.handlerError()
		}},
		Streams: map[string]common.StreamDef{"SS": {ServerStreams: true, Fn: func(s grpc.ServerStream) error {
			var in wrapperspb.StringValue
			if err := s.RecvMsg(&in); err != nil {
				return err
			}
			for i := 0; i < c.NMsgs; i++ {
				if err := s.SendMsg(wrapperspb.String("resp")); err != nil {
					return err
				}
			}
			if c.succeeds() {
				return nil
			}
			return c.handlerError()
		}}},
	}
	desc := svc.Desc()
	opts := rendererHandlerOpts(c.Renderer)
	switch c.Entry {
	case "NewServer":
		so := []httpgrpc.ServerOption{}
		for _, o := range opts {
			so = append(so, o)
		}
		if ui := c.unaryInterceptor(); ui != nil {
			so = append(so, httpgrpc.WithServerUnaryInterceptor(ui))
		}
		if si := c.streamInterceptor(); si != nil {
			so = append(so, httpgrpc.WithServerStreamInterceptor(si))
		}
		srv := httpgrpc.NewServer(so...)
		srv.RegisterService(desc, common.Impl{})
		return srv
	case "HandleServices":
		mux := http.NewServeMux()
		reg := grpchan.HandlerMap{}
		reg.RegisterService(desc, common.Impl{})
		httpgrpc.HandleServices(mux.HandleFunc, "/", reg, c.unaryInterceptor(), c.streamInterceptor(), opts...)
		return mux
	case "HandleMethod":
		return httpgrpc.HandleMethod(common.Impl{}, desc.ServiceName, &desc.Methods[0], c.unaryInterceptor(), opts...)
	case "HandleStream":
		return httpgrpc.HandleStream(common.Impl{}, desc.ServiceName, &desc.Streams[0], c.streamInterceptor(), opts...)
	}
	panic("unknown entry point " + c.Entry)
}

// checkCarrier: one case with call-option list o.
func checkCarrier(c carrierCase, o optSet) (clause, obs string) {
	takePanics()
	defer func() {
		// making the handler through the case's entry point
		if p := recover(); p != nil {
			notePanic("server", p)
			clause, obs, _ = serverPanicVerdict("making the handler:")
		}
	}()
	wantCode, wantMsg, wantDetails := c.want()
	h := c.handler()
	if c.Stream {
		so := streamCall(handlerRT("server", h), o)
		obs = so.obs(o)
		if cl, d, bad := serverPanicVerdict(obs + ";"); bad {
			return cl, d
		}
		switch {
		case so.panicked != nil:
			return "stream-panic", fmt.Sprintf("%s panic=%v", obs, so.panicked)
		case so.newErr != nil:
			return "stream-not-created", obs + " NewStream: " + so.newErr.Error()
		case wantCode == codes.OK && (so.final != io.EOF || so.n != c.NMsgs):
			return "stream-ok-call-failed", obs
		case wantCode == codes.OK:
			return "", obs
		case so.final == io.EOF:
			return "stream-client-code", obs + " want " + wantCode.String()
		}
		if cl, d := statusMismatch(so.final, wantCode, wantMsg, wantDetails); cl != "" {
			return "stream-" + cl, obs + " " + d
		}
		if so.n != c.NMsgs {
			return "stream-messages", fmt.Sprintf("%s want %d messages before the error", obs, c.NMsgs)
		}
		return "", obs
	}
	rp := c.serve(h)
	if cl, d, bad := serverPanicVerdict(""); bad {
		return cl, d
	}
	if cl, d := replyMismatch(c.Renderer, c.Cancelled, wantCode, rp); cl != "" {
		return cl, d
	}
	return clientMismatch(rp, o, wantCode, wantMsg, wantDetails, "")
}

func (c carrierCase) serve(h http.Handler) reply {
	reqBody, _ := proto.Marshal(wrapperspb.String("req"))
	ctx, cancel := context.WithCancel(context.Background())
	defer cancel()
	if c.Cancelled {
		cancel()
	}
	req := httptest.NewRequest("POST", "/t.S/M", bytes.NewReader(reqBody)).WithContext(ctx)
	req.Header.Set("Content-Type", httpgrpc.UnaryRpcContentType_V1)
	rp, _ := serveRecorded("server", h, req)
	return rp
}

// carrierCodes: the codes a carrier can carry.
func carrierCodes(carrier string, codeList []uint32) []uint32 {
	switch {
	case carrier == "plain":
		return []uint32{uint32(codes.Unknown)}
	case len(carrier) >= 3 && carrier[:3] == "ctx":
		return []uint32{uint32(codes.Canceled), uint32(codes.DeadlineExceeded)}
	case carrier == "custom" || carrier == "custom-wrap" || carrier == "bare":
		return codeList // 0 too: nil for "bare", an error carrying OK for the custom type
	}
	var out []uint32
	for _, c := range codeList {
		if c != 0 {
			out = append(out, c) // there is no status error with code OK to wrap
		}
	}
	return out
}

func allCarriers() []string {
	out := append([]string(nil), statusCarriers...)
	out = append(out, customCarriers...)
	out = append(out, ctxCarriers...)
	return append(out, "plain")
}

// group: one per (carrier, wrapped by the handler alone / also by an annotating
// interceptor); the clause and the rest of the simplest failing member go into the tail.
func (c carrierCase) group(clause string) string {
	if isLibPanic(clause) {
		// a panic of the handler side is grouped with the plain cases of what the handler
		// was asked to render; carrier, interceptor and entry point go into the tail
		if c.Stream {
			return fmt.Sprintf("C14|stream|code=%d|%s", c.Code, clause)
		}
		return fmt.Sprintf("C14|server|code=%d|cancelled=%v|renderer=%s|%s", c.Code, c.Cancelled, c.Renderer, clause)
	}
	by := "handler"
	if c.Interceptor == "annotate" {
		by = "handler+annotating-interceptor"
	}
	return fmt.Sprintf("C14|carrier|%s|by=%s", c.Carrier, by)
}

func (c carrierCase) extras(clause string, o optSet) string {
	if isLibPanic(clause) {
		s := fmt.Sprintf("|carrier=%s|interceptor=%s|entry=%s", c.Carrier, c.Interceptor, c.Entry)
		if c.Stream {
			s += fmt.Sprintf("|nmsgs=%d", c.NMsgs)
		}
		return s + extras("", "", c.Details, o)
	}
	s := fmt.Sprintf("|%s|entry=%s", clause, c.Entry)
	if c.Stream {
		s += fmt.Sprintf("|stream|nmsgs=%d", c.NMsgs)
	}
	if c.Interceptor == "pass" {
		s += "|interceptor=pass"
	}
	s += fmt.Sprintf("|code=%d", c.Code)
	if !c.Stream {
		s += fmt.Sprintf("|cancelled=%v|renderer=%s", c.Cancelled, c.Renderer)
	}
	return s + extras("", "", c.Details, o)
}
