package main

// The dimension "call options passed by the caller". The property quantifies over
// callers; what a caller can vary besides the method and the message is the list of
// grpc.CallOptions. The httpgrpc channel acts on four kinds of option (grpc.Header,
// grpc.Trailer, grpc.Peer, grpc.PerRPCCredentials) and collects Header/Trailer/Peer
// in slices, so the multiplicity of Header and Trailer is part of the domain.

import (
	"context"
	"fmt"
	"sort"
	"strings"

	"google.golang.org/grpc"
	"google.golang.org/grpc/metadata"
	"google.golang.org/grpc/peer"
)

type optSet struct {
	H     int  `json:"header"`  // number of grpc.Header options
	T     int  `json:"trailer"` // number of grpc.Trailer options
	Peer  bool `json:"peer,omitempty"`
	Creds bool `json:"creds,omitempty"`
	// X: one option of the kinds the channel does not act on today ("" = none), and
	// Len: how the transport reports the length of a canned reply ("" = as the older
	// phases do | declared | chunked). Both: extra.go.
	X   string `json:"x,omitempty"`
	Len string `json:"len,omitempty"`
}

func (o optSet) weight() int {
	w := o.H + o.T
	if o.Peer {
		w++
	}
	if o.Creds {
		w++
	}
	if o.X != "" {
		w++
	}
	if o.Len != "" {
		w++
	}
	return w
}

func (o optSet) String() string {
	var p []string
	n := func(name string, k int) {
		switch {
		case k == 1:
			p = append(p, name)
		case k > 1:
			p = append(p, fmt.Sprintf("%s*%d", name, k))
		}
	}
	n("header", o.H)
	n("trailer", o.T)
	if o.Peer {
		p = append(p, "peer")
	}
	if o.Creds {
		p = append(p, "creds")
	}
	if o.X != "" {
		p = append(p, o.X)
	}
	s := "none"
	if len(p) > 0 {
		s = strings.Join(p, "+")
	}
	if o.Len != "" {
		s += "/len=" + o.Len
	}
	return s
}

// allOptSets: {0,1,2} grpc.Header x {0,1,2} grpc.Trailer x {no,yes} grpc.Peer x
// {no,yes} grpc.PerRPCCredentials = 36 lists, simplest first (none, header, trailer,
// peer, creds, header*2, header+trailer, ...).
func allOptSets() []optSet {
	var out []optSet
	for _, creds := range []bool{false, true} {
		for _, pr := range []bool{false, true} {
			for t := 0; t <= 2; t++ {
				for h := 0; h <= 2; h++ {
					out = append(out, optSet{H: h, T: t, Peer: pr, Creds: creds})
				}
			}
		}
	}
	sort.SliceStable(out, func(i, j int) bool { return out[i].weight() < out[j].weight() })
	return out
}

type tokCreds struct{}

func (tokCreds) GetRequestMetadata(context.Context, ...string) (map[string]string, error) {
	return map[string]string{"authorization": "tok"}, nil
}
func (tokCreds) RequireTransportSecurity() bool { return false }

// optHandles are the variables the options of one call point at.
type optHandles struct {
	opts  []grpc.CallOption
	hdrs  []*metadata.MD
	tlrs  []*metadata.MD
	peers []*peer.Peer
}

func (o optSet) build() *optHandles {
	h := &optHandles{}
	h.opts = append(h.opts, o.extraOpts()...)
	if o.Creds {
		h.opts = append(h.opts, grpc.PerRPCCredentials(tokCreds{}))
	}
	if o.Peer {
		p := new(peer.Peer)
		h.peers = append(h.peers, p)
		h.opts = append(h.opts, grpc.Peer(p))
	}
	for i := 0; i < o.H; i++ {
		md := new(metadata.MD)
		h.hdrs = append(h.hdrs, md)
		h.opts = append(h.opts, grpc.Header(md))
	}
	for i := 0; i < o.T; i++ {
		md := new(metadata.MD)
		h.tlrs = append(h.tlrs, md)
		h.opts = append(h.opts, grpc.Trailer(md))
	}
	return h
}

// The metadata a handler (or a synthetic reply) attaches: header h-key=h-val and/or
// trailer t-key=t-val. md is "", "header", "trailer" or "both".
func mdHasHeader(md string) bool  { return md == "header" || md == "both" }
func mdHasTrailer(md string) bool { return md == "trailer" || md == "both" }

func one(v []string, want string) bool { return len(v) == 1 && v[0] == want }

// checkFilled: every grpc.Header variable received the handler's header, every
// grpc.Trailer variable its trailer (as with grpc-go, also when the RPC failed).
func (h *optHandles) checkFilled(md string) (string, string) {
	if mdHasHeader(md) {
		for i, p := range h.hdrs {
			if !one(p.Get("h-key"), "h-val") {
				return "option-header-not-filled", fmt.Sprintf("grpc.Header #%d got %v, want h-key=h-val", i, *p)
			}
		}
	}
	if mdHasTrailer(md) {
		for i, p := range h.tlrs {
			if !one(p.Get("t-key"), "t-val") {
				return "option-trailer-not-filled", fmt.Sprintf("grpc.Trailer #%d got %v, want t-key=t-val", i, *p)
			}
		}
	}
	return "", ""
}
