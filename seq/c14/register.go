package main

// The dimension "several registrations in one process". The property quantifies over
// handlers and renderers; a program may create many handlers, through four entry points
// (httpgrpc.HandleServices, HandleMethod, HandleStream, NewServer + RegisterService),
// each with its own HandlerOptions. Every handler must render errors according to ITS
// OWN options whatever was registered before or after it. A member of this dimension is
// a sequence of registrations; after each registration every handler made so far is
// exercised again with every code (request live / cancelled) and judged against the
// table (no renderer / DefaultErrorRenderer given explicitly) or against "my renderer
// was called exactly once, with the handler's code, and nobody else's" (custom renderers).
//
// State that outlives a call is process state, so every sequence runs in a process of its
// own (a child of this binary, flag --regchild, the case on stdin): what is observed for
// a sequence cannot depend on the sequences enumerated before it, and a replay (again a
// fresh process) sees exactly the same history.

import (
	"bytes"
	"context"
	"encoding/json"
	"fmt"
	"io"
	"net/http"
	"net/http/httptest"
	"os"
	"os/exec"
	"runtime"
	"strconv"
	"strings"
	"sync"
	"sync/atomic"
	"time"

	"github.com/fullstorydev/grpchan"
	"github.com/fullstorydev/grpchan/httpgrpc"
	"google.golang.org/grpc"
	"google.golang.org/grpc/codes"
	"google.golang.org/grpc/status"
	"google.golang.org/protobuf/proto"
	"google.golang.org/protobuf/types/known/wrapperspb"

	"verif/seq/common"
)

const regChildFlag = "--regchild"

var regEntries = []string{"HandleServices", "HandleMethod", "HandleStream", "NewServer"}

// none: no option | default: ErrorRenderer(DefaultErrorRenderer) | nothing: a renderer
// that writes nothing | teapot: a renderer with a status of its own (418)
var regRenderers = []string{"none", "default", "nothing", "teapot"}

type regSpec struct {
	Entry    string `json:"entry"`
	Renderer string `json:"renderer"`
}

func (r regSpec) String() string { return r.Entry + "(" + r.Renderer + ")" }

func allRegSpecs() []regSpec {
	var out []regSpec
	for _, e := range regEntries {
		for _, r := range regRenderers {
			out = append(out, regSpec{e, r})
		}
	}
	return out
}

// regProbe is one request to one of the handlers of a sequence.
type regProbe struct {
	Judged    int    `json:"judged"` // index in Seq of the registration whose handler is called
	After     int    `json:"after"`  // number of registrations made at that moment
	Stream    bool   `json:"stream,omitempty"`
	Code      uint32 `json:"code"`
	Cancelled bool   `json:"cancelled,omitempty"`
}

type regCase struct {
	Kind  string    `json:"kind"` // registrations
	Seq   []regSpec `json:"seq"`
	Codes []uint32  `json:"codes"`
	// EachStep: every handler made so far is exercised after every registration; otherwise
	// only after the last one (the states before it are the shorter sequences' own cases)
	EachStep bool      `json:"each_step"`
	Failing  *regProbe `json:"failing,omitempty"` // the probe reported (information; a replay runs them all)
}

func (c regCase) seqString() string {
	var p []string
	for _, s := range c.Seq {
		p = append(p, s.String())
	}
	return strings.Join(p, ",")
}

type registration struct {
	spec   regSpec
	unary  http.Handler
	stream http.Handler
	calls  int // calls of this registration's own custom renderer
	last   codes.Code
}

func (r *registration) options() []httpgrpc.HandlerOption {
	custom := func(write func(http.ResponseWriter)) []httpgrpc.HandlerOption {
		return []httpgrpc.HandlerOption{httpgrpc.ErrorRenderer(func(_ context.Context, st *status.Status, w http.ResponseWriter) {
			r.calls++
			r.last = st.Code()
			write(w)
		})}
	}
	switch r.spec.Renderer {
	case "default":
		return []httpgrpc.HandlerOption{httpgrpc.ErrorRenderer(httpgrpc.DefaultErrorRenderer)}
	case "nothing":
		return custom(func(http.ResponseWriter) {})
	case "teapot":
		return custom(func(w http.ResponseWriter) { w.WriteHeader(418) })
	}
	return nil
}

// regService: the request value is the decimal code the handler fails with (0 = succeeds).
func regService() *common.Svc {
	outcome := func(v string) error {
		n, err := strconv.ParseUint(v, 10, 32)
		if err != nil {
			panic("registrations: bad request value " + v)
		}
		return handlerErr(uint32(n), false, "", 0)
	}
	return &common.Svc{Name: "t.S",
		Unary: map[string]common.UnaryFn{"M": func(ctx context.Context, dec func(interface{}) error) (interface{}, error) {
			var in wrapperspb.StringValue
			if err := dec(&in); err != nil {
				return nil, err
			}
			if err := outcome(in.Value); err != nil {
				return nil, err
			}
			return wrapperspb.String("resp"), nil
		}},
		Streams: map[string]common.StreamDef{"SS": {ServerStreams: true, Fn: func(s grpc.ServerStream) error {
			var in wrapperspb.StringValue
			if err := s.RecvMsg(&in); err != nil {
				return err
			}
			return outcome(in.Value)
		}}},
	}
}

func register(spec regSpec) *registration {
	r := &registration{spec: spec}
	desc := regService().Desc()
	opts := r.options()
	switch spec.Entry {
	case "NewServer":
		var so []httpgrpc.ServerOption
		for _, o := range opts {
			so = append(so, o)
		}
		srv := httpgrpc.NewServer(so...)
		srv.RegisterService(desc, common.Impl{})
		r.unary, r.stream = srv, srv
	case "HandleServices":
		mux := http.NewServeMux()
		reg := grpchan.HandlerMap{}
		reg.RegisterService(desc, common.Impl{})
		httpgrpc.HandleServices(mux.HandleFunc, "/", reg, nil, nil, opts...)
		r.unary, r.stream = mux, mux
	case "HandleMethod":
		r.unary = httpgrpc.HandleMethod(common.Impl{}, desc.ServiceName, &desc.Methods[0], nil, opts...)
	case "HandleStream":
		r.stream = httpgrpc.HandleStream(common.Impl{}, desc.ServiceName, &desc.Streams[0], nil, opts...)
	default:
		panic("unknown entry point " + spec.Entry)
	}
	return r
}

func rendererCalls(regs []*registration) string {
	var p []string
	for i, r := range regs {
		if r.calls > 0 {
			p = append(p, fmt.Sprintf("#%d %s x%d with %v", i, r.spec, r.calls, r.last))
		}
	}
	if len(p) == 0 {
		return "no custom renderer called"
	}
	return "custom renderers called: " + strings.Join(p, "; ")
}

// regProbeRun: one request; the verdict for the judged handler under its own options.
func regProbeRun(regs []*registration, p regProbe) (clause, obs string) {
	takePanics()
	defer func() {
		if pn := recover(); pn != nil {
			notePanic("server", pn)
			clause, obs, _ = serverPanicVerdict("")
		}
	}()
	for _, r := range regs {
		r.calls, r.last = 0, 0
	}
	me := regs[p.Judged]
	want := codes.Code(p.Code)
	reqVal := strconv.FormatUint(uint64(p.Code), 10)
	if p.Stream {
		so := streamCallReq(handlerRT("server", me.stream), optSet{}, reqVal)
		obs = so.obs(optSet{}) + "; " + rendererCalls(regs)
		if cl, d, bad := serverPanicVerdict(obs + ";"); bad {
			return cl, d
		}
		switch {
		case so.panicked != nil:
			return "stream-panic", fmt.Sprintf("%s panic=%v", obs, so.panicked)
		case so.newErr != nil:
			return "stream-not-created", obs + " NewStream: " + so.newErr.Error()
		case want == codes.OK && so.final != io.EOF:
			return "stream-ok-call-failed", obs
		case want == codes.OK:
			return "", obs
		case so.final == io.EOF:
			return "stream-client-code", obs + " want " + want.String()
		}
		if cl, d := statusMismatch(so.final, want, "msg", nil); cl != "" {
			return "stream-" + cl, obs + " " + d
		}
		return "", obs
	}
	reqBody, _ := proto.Marshal(wrapperspb.String(reqVal))
	ctx, cancel := context.WithCancel(context.Background())
	defer cancel()
	if p.Cancelled {
		cancel()
	}
	req := httptest.NewRequest("POST", "/t.S/M", bytes.NewReader(reqBody)).WithContext(ctx)
	req.Header.Set("Content-Type", httpgrpc.UnaryRpcContentType_V1)
	rp, _ := serveRecorded("server", me.unary, req)
	calls := rendererCalls(regs)
	if cl, d, bad := serverPanicVerdict(calls + ";"); bad {
		return cl, d
	}
	ownCustom := me.spec.Renderer == "nothing" || me.spec.Renderer == "teapot"
	renderer := "default"
	if ownCustom {
		renderer = me.spec.Renderer
	}
	cl, obs := replyMismatch(renderer, p.Cancelled, want, rp)
	obs += "; " + calls
	if cl != "" {
		return cl, obs
	}
	for i, r := range regs {
		switch {
		case r.calls == 0:
		case want == codes.OK:
			return "renderer-called-on-success", obs
		case i != p.Judged:
			return "foreign-renderer-called", obs
		}
	}
	if want != codes.OK && ownCustom {
		if me.calls != 1 {
			return "own-renderer-not-called-once", obs
		}
		if me.last != want {
			return "own-renderer-wrong-status", obs
		}
	}
	if cl, d := clientMismatch(rp, optSet{}, want, "msg", nil, ""); cl != "" {
		return cl, d + "; " + calls
	}
	return "", obs
}

type regFail struct {
	Probe  regProbe `json:"probe"`
	Clause string   `json:"clause"`
	Obs    string   `json:"obs"`
}

type regResult struct {
	Evals      int       `json:"evals"`
	Nontrivial int       `json:"nontrivial"`
	Fails      []regFail `json:"fails"`
	Sample     string    `json:"sample"`
}

// runRegCase runs one sequence in THIS process.
func runRegCase(c regCase) (res regResult) {
	var regs []*registration
	for k, spec := range c.Seq {
		var r *registration
		func() {
			defer func() {
				if pn := recover(); pn != nil {
					res.Fails = append(res.Fails, regFail{regProbe{Judged: k, After: k}, "panic-registering", fmt.Sprintf("%v at %s", pn, panicOrigin())})
				}
			}()
			r = register(spec)
		}()
		if r == nil {
			return
		}
		regs = append(regs, r)
		if !c.EachStep && k != len(c.Seq)-1 {
			continue
		}
		for j, me := range regs {
			for _, stream := range []bool{false, true} {
				if (stream && me.stream == nil) || (!stream && me.unary == nil) {
					continue
				}
				for _, code := range c.Codes {
					for _, cancelled := range []bool{false, true} {
						if stream && cancelled {
							continue
						}
						p := regProbe{Judged: j, After: k + 1, Stream: stream, Code: code, Cancelled: cancelled}
						clause, obs := regProbeRun(regs, p)
						res.Evals++
						if code != 0 {
							res.Nontrivial++
						}
						if clause != "" {
							res.Fails = append(res.Fails, regFail{p, clause, obs})
						}
						if !stream && code == 5 && !cancelled && j == 0 && k == len(c.Seq)-1 {
							res.Sample = obs
						}
					}
				}
			}
		}
	}
	return
}

// regChildMain: the child side. The case on stdin, the result on stdout.
func regChildMain() {
	var c regCase
	if err := json.NewDecoder(os.Stdin).Decode(&c); err != nil {
		fmt.Fprintln(os.Stderr, "regchild:", err)
		os.Exit(2)
	}
	go watchdog()
	json.NewEncoder(os.Stdout).Encode(runRegCase(c))
	os.Exit(0)
}

func runRegChild(c regCase) (regResult, error) {
	var res regResult
	exe, err := os.Executable()
	if err != nil {
		return res, err
	}
	job, _ := json.Marshal(c)
	ctx, cancel := context.WithTimeout(context.Background(), 2*time.Minute) // hang guard
	defer cancel()
	cmd := exec.CommandContext(ctx, exe, regChildFlag)
	cmd.Env = append(os.Environ(), "GOMAXPROCS=2")
	cmd.Stdin = bytes.NewReader(job)
	var stdout, stderr bytes.Buffer
	cmd.Stdout, cmd.Stderr = &stdout, &stderr
	if err := cmd.Run(); err != nil {
		if crash := goCrash(stderr.String()); crash != "" && ctx.Err() == nil {
			// the child died of a panic that nothing in it could recover (raised on a goroutine
			// the library started itself): a violation for this sequence; the other sequences go on
			res.Evals = 1
			obs := "the process of this sequence died: " + crash
			if at := crashFrame(stderr.String()); at != "" {
				obs += " at " + at
			}
			res.Fails = []regFail{{regProbe{Judged: -1}, escapedClause, obs}}
			return res, nil
		}
		return res, fmt.Errorf("child for %s: %v: %s", c.seqString(), err, stderr.String())
	}
	if err := json.Unmarshal(stdout.Bytes(), &res); err != nil {
		return res, fmt.Errorf("child for %s: %v: %q", c.seqString(), err, stdout.String())
	}
	return res, nil
}

// goCrash: the head of a Go crash report ("panic: ..." / "fatal error: ..." followed by
// goroutine traces) in a child's stderr, "" if there is none.
func goCrash(stderr string) string {
	if !strings.Contains(stderr, "\ngoroutine ") {
		return ""
	}
	for _, l := range strings.Split(stderr, "\n") {
		if strings.HasPrefix(l, "panic: ") || strings.HasPrefix(l, "fatal error: ") {
			return l
		}
	}
	return ""
}

// runRegCases: one child per case, a few at a time; results in the order of the cases.
func runRegCases(cases []regCase) ([]regResult, error) {
	out := make([]regResult, len(cases))
	errs := make([]error, len(cases))
	workers := runtime.NumCPU()
	if workers > 8 {
		workers = 8
	}
	var next int64 = -1
	var wg sync.WaitGroup
	for w := 0; w < workers; w++ {
		wg.Add(1)
		go func() {
			defer wg.Done()
			for {
				i := int(atomic.AddInt64(&next, 1))
				if i >= len(cases) {
					return
				}
				out[i], errs[i] = runRegChild(cases[i])
				atomic.AddInt64(&progress, 1)
			}
		}()
	}
	wg.Wait()
	for _, e := range errs {
		if e != nil {
			return nil, e
		}
	}
	return out, nil
}

// allRegCases: every sequence of 1 and 2 registrations over the 16 (entry point, renderer
// option) pairs and every sequence of 3 over tripleSpecs, shortest first. Singles and
// pairs with the full code list and every handler exercised after every registration;
// triples with tripleCodes, every handler exercised after the third registration.
func allRegCases(codeList, tripleCodes []uint32, tripleSpecs []regSpec) []regCase {
	specs := allRegSpecs()
	var out []regCase
	for _, a := range specs {
		out = append(out, regCase{Kind: "registrations", Seq: []regSpec{a}, Codes: codeList, EachStep: true})
	}
	for _, a := range specs {
		for _, b := range specs {
			out = append(out, regCase{Kind: "registrations", Seq: []regSpec{a, b}, Codes: codeList, EachStep: true})
		}
	}
	for _, a := range tripleSpecs {
		for _, b := range tripleSpecs {
			for _, c := range tripleSpecs {
				out = append(out, regCase{Kind: "registrations", Seq: []regSpec{a, b, c}, Codes: tripleCodes})
			}
		}
	}
	return out
}

func (c regCase) group(p regProbe, clause string) string {
	if clause == escapedClause {
		// the process of the sequence died: no probe to name; by the last registration made
		return fmt.Sprintf("C14|registrations|last=%s|%s", c.Seq[len(c.Seq)-1], clause)
	}
	kind := "unary"
	if p.Stream {
		kind = "stream"
	}
	return fmt.Sprintf("C14|registrations|judged=%s|%s|%s", c.Seq[p.Judged], kind, clause)
}

func (c regCase) extras(p regProbe) string {
	if p.After == 0 && p.Judged < 0 {
		return "|seq=" + c.seqString()
	}
	return fmt.Sprintf("|seq=%s|judged=#%d|after=%d|code=%d|cancelled=%v", c.seqString(), p.Judged, p.After, p.Code, p.Cancelled)
}
