package main

// Two dimensions of the CLIENT half of a case that used to be held fixed.
//
// (k) The kinds of call option. opts.go enumerates the four kinds the channel acts on
// today; a caller may pass any grpc.CallOption, and the channel already parses two
// more (grpc.MaxCallRecvMsgSize, grpc.MaxCallSendMsgSize) next to a "TODO: enforce".
// The alphabet below is every remaining public option constructor of grpc-go v1.57
// (the deprecated aliases FailFast = WaitForReady(!x) and CallCustomCodec = ForceCodec
// left out), each with values that are legal for the call at hand: the request and
// every message of the reply fit the limits named "fit" (exactly their encoded size)
// and larger; "recv=0" is the boundary grpc-go reads as "zero bytes".
//
// (l) How the transport tells the client the length of the reply body. An
// http.Response either declares it (ContentLength = n, a Content-Length header) or does
// not (ContentLength = -1, chunked). The canned round tripper of the older phases
// leaves the field at 0 with a non-empty body, which no real transport produces.
//
// The oracle does not change. A receive limit is a limit on a response MESSAGE: a
// failed call has none (grpc-go never applies the limit to a status-only reply), so
// the caller recovers exactly the handler's code whatever the limit and however long
// the body the error renderer (or a proxy) wrote. Only where a limit is smaller than a
// message that really is delivered (a successful unary reply under recv=0) the
// statement promises nothing: success with the response and ResourceExhausted (what
// grpc-go does) are both accepted there.

import (
	"fmt"
	"math"
	"net/http"
	"strconv"
	"strings"

	"google.golang.org/grpc"
	"google.golang.org/grpc/codes"
	"google.golang.org/grpc/encoding"
	_ "google.golang.org/grpc/encoding/gzip" // registers "gzip" (UseCompressor)
	grpcproto "google.golang.org/grpc/encoding/proto"
	"google.golang.org/grpc/status"
	"google.golang.org/protobuf/proto"
	"google.golang.org/protobuf/types/known/wrapperspb"

	"verif/seq/common"
)

// encoded sizes of the one request and the one response message of every case
var (
	reqSize  = len(mustMarshal(wrapperspb.String("req")))
	respSize = len(mustMarshal(wrapperspb.String("resp")))
)

func mustMarshal(m proto.Message) []byte {
	b, err := proto.Marshal(m)
	if err != nil {
		panic(err)
	}
	return b
}

// extraIDs: the members of dimension (k), limits first.
var extraIDs = []string{
	"recv=0", "recv=fit", "recv=1k", "recv=max", "limits=fit",
	"send=fit", "send=1k",
	"wait=true", "wait=false", "subtype=proto", "codec=proto", "compressor=gzip", "retrybuf=1k", "onfinish",
}

// recvLimit: the receive limit the extra option sets (ok=false: none).
func (o optSet) recvLimit() (int, bool) {
	switch o.X {
	case "recv=0":
		return 0, true
	case "recv=fit", "limits=fit":
		return respSize, true
	case "recv=1k":
		return 1024, true
	case "recv=max":
		return math.MaxInt32, true
	}
	return 0, false
}

// sized: the option is about message sizes, so the framing of the reply (l) may matter to it.
func (o optSet) sized() bool { _, ok := o.recvLimit(); return ok }

// mayReject: a delivered message of n bytes exceeds the caller's receive limit; what the
// caller then gets is not the subject of the statement.
func (o optSet) mayReject(n int) bool {
	lim, ok := o.recvLimit()
	return ok && n > lim
}

// tooLarge: the outcome grpc-go gives when a delivered message exceeds the limit.
func tooLarge(err error) bool { return err != nil && status.Code(err) == codes.ResourceExhausted }

func (o optSet) extraOpts() []grpc.CallOption {
	switch o.X {
	case "":
		return nil
	case "recv=0", "recv=fit", "recv=1k", "recv=max":
		lim, _ := o.recvLimit()
		return []grpc.CallOption{grpc.MaxCallRecvMsgSize(lim)}
	case "limits=fit":
		return []grpc.CallOption{grpc.MaxCallSendMsgSize(reqSize), grpc.MaxCallRecvMsgSize(respSize)}
	case "send=fit":
		return []grpc.CallOption{grpc.MaxCallSendMsgSize(reqSize)}
	case "send=1k":
		return []grpc.CallOption{grpc.MaxCallSendMsgSize(1024)}
	case "wait=true":
		return []grpc.CallOption{grpc.WaitForReady(true)}
	case "wait=false":
		return []grpc.CallOption{grpc.WaitForReady(false)}
	case "subtype=proto":
		return []grpc.CallOption{grpc.CallContentSubtype(grpcproto.Name)}
	case "codec=proto":
		return []grpc.CallOption{grpc.ForceCodec(encoding.GetCodec(grpcproto.Name))}
	case "compressor=gzip":
		return []grpc.CallOption{grpc.UseCompressor("gzip")}
	case "retrybuf=1k":
		return []grpc.CallOption{grpc.MaxRetryRPCBufferSize(1024)}
	case "onfinish":
		return []grpc.CallOption{grpc.OnFinish(func(error) {})}
	}
	panic("unknown extra option " + o.X)
}

// the four older kinds once each
var allFour = optSet{H: 1, T: 1, Peer: true, Creds: true}

// extraOptSets: the lists of the new dimensions for the canned-reply phases.
//
//	quick:    {no extra, 14 extras} x {no other option, one of each older kind} x framing,
//	          framing = {declared, chunked} for the size options and for no extra,
//	          {declared} for the rest
//	thorough: {no extra, 14 extras} x {none, header, trailer, header+trailer, peer, creds,
//	          one of each, two headers + two trailers + peer + creds} x {declared, chunked}
func extraOptSets(thorough bool) []optSet {
	bases := []optSet{{}, allFour}
	if thorough {
		bases = []optSet{{}, {H: 1}, {T: 1}, {H: 1, T: 1}, {Peer: true}, {Creds: true}, allFour, {H: 2, T: 2, Peer: true, Creds: true}}
	}
	var out []optSet
	for _, x := range append([]string{""}, extraIDs...) {
		for _, b := range bases {
			for _, l := range []string{"declared", "chunked"} {
				o := b
				o.X, o.Len = x, l
				if l == "chunked" && !thorough && x != "" && !o.sized() {
					continue
				}
				out = append(out, o)
			}
		}
	}
	return out
}

// sweepExtraSets: the lists for the 500-status sweeps (no other option).
func sweepExtraSets(thorough bool) []optSet {
	var out []optSet
	for _, o := range extraOptSets(thorough) {
		plain := o
		plain.X, plain.Len = "", ""
		if plain == (optSet{}) || thorough && plain == allFour {
			out = append(out, o)
		}
	}
	return out
}

// liveExtraSets: the lists for the phases where the reply is produced live (loopback,
// streaming end to end): the framing is whatever the server side produces.
func liveExtraSets() []optSet {
	var out []optSet
	for _, x := range extraIDs {
		for _, b := range []optSet{{}, allFour} {
			o := b
			o.X = x
			out = append(out, o)
		}
	}
	return out
}

// cannedFor: the recorded reply as the transport hands it to the client, framed as the
// list says ("" = the older phases' canned round tripper).
func cannedFor(o optSet, code int, hdr http.Header, body []byte) http.RoundTripper {
	if o.Len == "" {
		return common.CannedRT(code, hdr, body)
	}
	inner := common.CannedRT(code, hdr, body)
	return common.RT(func(r *http.Request) (*http.Response, error) {
		resp, err := inner.RoundTrip(r)
		if resp != nil {
			frameReply(resp, o.Len, int64(len(body)))
		}
		return resp, err
	})
}

func frameReply(resp *http.Response, how string, n int64) {
	switch how {
	case "declared":
		resp.ContentLength = n
		resp.Header.Set("Content-Length", strconv.FormatInt(n, 10))
	case "chunked":
		resp.ContentLength = -1
		resp.Header.Del("Content-Length")
		resp.TransferEncoding = []string{"chunked"}
	}
}

// ---- error documents ----

// errorDoc: what a renderer that "renders a descriptive error document" writes: 2 KiB,
// i.e. longer than the 1 KiB limit and than every message of the cases.
func errorDoc(st *status.Status) []byte {
	return []byte(fmt.Sprintf(`{"error":%q,"message":%q,"help":%s}`, st.Code().String(), st.Message(), docHelp))
}

var docHelp = strconv.Quote(strings.Repeat("see the handbook. ", 120))

// errorPage: what a proxy writes under its own status.
var errorPage = []byte("<html><body><h1>error</h1><p>" + strings.Repeat("the upstream server did not answer. ", 60) + "</p></body></html>\n")

func docHTTPStatus(c codes.Code) int {
	if s, ok := table[c]; ok {
		return s
	}
	return 500
}

// ---- fingerprints ----

// optGroup: failures of a list that carries an extra option collapse over the codes:
// one report per (extra option, renderer, outcome of the handler, clause).
func (c serverCase) optGroup(o optSet, clause string) (string, bool) {
	if o.X == "" || c.Chain != nil || c.Collide != nil {
		return "", false
	}
	return fmt.Sprintf("C14|server-opt|%s|renderer=%s|%s|%s", o.X, c.Renderer, c.outcome(), clause), true
}

func (c serverCase) optExtras(o optSet) string {
	s := fmt.Sprintf("|code=%d|cancelled=%v", c.Code, c.Cancelled)
	if c.OKErr {
		s = fmt.Sprintf("|okerr|cancelled=%v", c.Cancelled)
	}
	if c.Timeout != "" {
		s += "|timeout=" + c.Timeout
	}
	if c.Wire {
		s += "|wire"
	}
	return s + extras(c.MD, c.Msg, c.Details, o)
}
