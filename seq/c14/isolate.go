package main

// Panics that recover() cannot reach. The streaming client runs the round trip and the
// whole decoding of the reply (the status derivation of this property included) on a
// goroutine it starts itself; a panic of library code there ends the process, whatever
// the caller wraps. So every evaluation that makes a streaming call is made in a child
// process of this binary (flag --evalchild, like the registrations' children): the
// parent sends (kind, case, option lists) as one JSON line, the child answers one line
// per option list. If the child dies of a Go panic before it has answered, the call it
// was making is a violation, clause "panic-escaped", fingerprinted like every other
// failure of that case; the child is started again and the enumeration goes on with the
// next case. A child that ends in any other way (its hang guard) makes the run
// inconclusive (exit 2), as before.
//
// The child computes with the very same functions (checkStream, checkStreamClient,
// checkCarrier), so verdicts and observations are those of an in-process evaluation.

import (
	"bufio"
	"bytes"
	"encoding/json"
	"fmt"
	"io"
	"os"
	"os/exec"
	"runtime"
	"strings"
	"sync/atomic"
	"time"
)

const evalChildFlag = "--evalchild"
const escapedClause = "panic-escaped"

type evalReq struct {
	Kind string          `json:"kind"` // stream | stream-client | carrier
	Case json.RawMessage `json:"case"`
	Opts []optSet        `json:"opts"`
}

type evalRes struct {
	Clause string `json:"clause"`
	Obs    string `json:"obs"`
}

// evalFunc: the check function of a kind, bound to the case.
func evalFunc(kind string, raw json.RawMessage) (func(optSet) (string, string), string, error) {
	switch kind {
	case "stream":
		var c streamCase
		err := json.Unmarshal(raw, &c)
		return func(o optSet) (string, string) { return checkStream(c, o) }, fmt.Sprintf("%+v", c), err
	case "stream-client":
		var c clientCase
		err := json.Unmarshal(raw, &c)
		return func(o optSet) (string, string) { return checkStreamClient(c, o) }, fmt.Sprintf("%+v", c), err
	case "carrier":
		var c carrierCase
		err := json.Unmarshal(raw, &c)
		return func(o optSet) (string, string) { return checkCarrier(c, o) }, fmt.Sprintf("%+v", c), err
	}
	return nil, "", fmt.Errorf("unknown kind %q", kind)
}

// evalChildMain: the child side. Requests on stdin, one answer per option list on stdout.
func evalChildMain() {
	var busy int32
	go watchdog()
	go func() { // waiting for the parent is not a hang
		for {
			time.Sleep(time.Second)
			if atomic.LoadInt32(&busy) == 0 {
				atomic.AddInt64(&progress, 1)
			}
		}
	}()
	baseline := runtime.NumGoroutine()
	dec := json.NewDecoder(bufio.NewReader(os.Stdin))
	out := bufio.NewWriter(os.Stdout)
	enc := json.NewEncoder(out)
	for {
		var rq evalReq
		if err := dec.Decode(&rq); err == io.EOF {
			os.Exit(0)
		} else if err != nil {
			fmt.Fprintln(os.Stderr, "evalchild:", err)
			os.Exit(2)
		}
		f, name, err := evalFunc(rq.Kind, rq.Case)
		if err != nil {
			fmt.Fprintln(os.Stderr, "evalchild:", err)
			os.Exit(2)
		}
		atomic.StoreInt32(&busy, 1)
		for _, o := range rq.Opts {
			current.Store(name + " opts=" + o.String())
			cl, obs := f(o)
			quiesce(baseline)
			enc.Encode(evalRes{cl, obs})
			out.Flush()
		}
		atomic.StoreInt32(&busy, 0)
	}
}

// quiesce returns when no goroutine started by the library is left. The call has returned
// to its caller by now, but the library's goroutine may still be on its way out - and a
// panic raised there lets its deferred functions hand the caller an ordinary-looking end
// of stream before it ends the process. The answer for a call must not be written
// before it is known that the call's goroutines ended without one (otherwise the death
// of the process would be pinned on the next call). No timing: a library goroutine that
// never ends is a hang, for the hang guard.
func quiesce(baseline int) {
	buf := stackBuf
	defer func() { stackBuf = buf }()
	for spin := 0; ; spin++ {
		if runtime.NumGoroutine() <= baseline {
			return
		}
		if spin < 32 {
			runtime.Gosched()
			continue
		}
		var n int
		for {
			if n = runtime.Stack(buf, true); n < len(buf) {
				break
			}
			buf = make([]byte, 2*len(buf))
		}
		// (this goroutine is in evalChildMain: no frame of the library on its stack)
		if !bytes.Contains(buf[:n], []byte("github.com/fullstorydev/grpchan")) {
			return
		}
		runtime.Gosched()
	}
}

var stackBuf = make([]byte, 1<<16)

type evalWorker struct {
	cmd      *exec.Cmd
	in       io.WriteCloser
	out      *bufio.Reader
	errBuf   *bytes.Buffer
	Restarts int
	NotRun   int // jobs not run because the budget of restarts was used up
}

// maxRestarts bounds what a tree whose streaming client dies in very many distinct groups
// of cases costs (a restart is some 30 ms); beyond it the remaining streaming cases are not
// run, and the evidence says so (exhaustive: false). The verdict is a violation long since.
const maxRestarts = 400

var iso evalWorker

func (w *evalWorker) start() error {
	exe, err := os.Executable()
	if err != nil {
		return err
	}
	cmd := exec.Command(exe, evalChildFlag)
	// one P: a streaming call is a chain of hand-overs between the caller and the client's own
	// goroutine, several times cheaper when both run on the same P
	cmd.Env = append(os.Environ(), "GOMAXPROCS=1")
	w.errBuf = &bytes.Buffer{}
	cmd.Stderr = w.errBuf
	if w.in, err = cmd.StdinPipe(); err != nil {
		return err
	}
	op, err := cmd.StdoutPipe()
	if err != nil {
		return err
	}
	w.out = bufio.NewReaderSize(op, 1<<16)
	if err := cmd.Start(); err != nil {
		return err
	}
	w.cmd = cmd
	return nil
}

// stop ends the child, if there is one.
func (w *evalWorker) stop() {
	if w.cmd == nil {
		return
	}
	w.in.Close()
	w.cmd.Wait()
	w.cmd = nil
}

func inconclusive(format string, a ...interface{}) {
	fmt.Fprintf(os.Stderr, "INCONCLUSIVE: "+format+"\n", a...)
	os.Exit(2)
}

// isoJob is one case for the child: the option lists to run it with, and the group a
// "panic-escaped" verdict of it is reported under.
type isoJob struct {
	c     interface{}
	opts  []optSet
	group string
}

// isolated evaluates one case with each of the option lists in the child.
func isolated(kind string, c interface{}, opts []optSet) []evalRes {
	return isolatedBatch(kind, []isoJob{{c: c, opts: opts}}, nil)[0]
}

// isolatedBatch evaluates the jobs, in order, in the child; the requests are written
// ahead, so the child computes while the parent judges. When the child dies of a panic,
// the option list at hand gets clause "panic-escaped", the remaining lists of that case
// are not run (verdict "", saying so), and the child is started again for the jobs after
// it. A job whose group already has such a verdict (in this batch, or reported earlier:
// seen) is not run at all - it could only be collapsed into that report -: its entry in
// the result is nil.
func isolatedBatch(kind string, jobs []isoJob, seen func(group string) bool) [][]evalRes {
	out := make([][]evalRes, len(jobs))
	dead := map[string]bool{}
	lines := make([][]byte, len(jobs))
	raws := make([]json.RawMessage, len(jobs))
	for j, job := range jobs {
		raw, err := json.Marshal(job.c)
		if err != nil {
			inconclusive("%v", err)
		}
		raws[j] = raw
		lines[j], _ = json.Marshal(evalReq{Kind: kind, Case: raw, Opts: job.opts})
	}
	for next := 0; next < len(jobs); {
		var idx []int
		for j := next; j < len(jobs); j++ {
			g := jobs[j].group
			if g != "" && (dead[g] || seen != nil && seen(g)) {
				continue
			}
			if len(jobs[j].opts) == 0 {
				out[j] = []evalRes{}
				continue
			}
			idx = append(idx, j)
		}
		next = len(jobs)
		if len(idx) == 0 {
			break
		}
		if iso.Restarts >= maxRestarts {
			iso.NotRun += len(idx)
			break
		}
		if iso.cmd == nil {
			if err := iso.start(); err != nil {
				inconclusive("cannot start the evaluating process: %v", err)
			}
		}
		written := make(chan struct{})
		go func(in io.Writer) {
			defer close(written)
			w := bufio.NewWriterSize(in, 1<<16)
			for _, j := range idx {
				w.Write(lines[j])
				if err := w.WriteByte('\n'); err != nil {
					return
				}
			}
			w.Flush()
		}(iso.in)
		died := false
		for _, j := range idx {
			job := jobs[j]
			res := make([]evalRes, 0, len(job.opts))
			for len(res) < len(job.opts) {
				b, err := iso.out.ReadBytes('\n')
				if err != nil {
					break
				}
				var r evalRes
				if err := json.Unmarshal(b, &r); err != nil {
					inconclusive("the evaluating process answered %q", b)
				}
				res = append(res, r)
				atomic.AddInt64(&progress, 1)
			}
			if len(res) == len(job.opts) {
				out[j] = res
				continue
			}
			// the child is gone
			iso.in.Close()
			io.Copy(io.Discard, iso.out)
			iso.cmd.Wait()
			<-written
			iso.cmd = nil
			iso.Restarts++
			stderr := iso.errBuf.String()
			crash := goCrash(stderr)
			if crash == "" {
				inconclusive("the evaluating process ended without an answer for %s %s: %s", kind, raws[j], stderr)
			}
			culprit := job.opts[len(res)]
			if os.Getenv("VERIF_DEBUG") != "" {
				fmt.Fprintf(os.Stderr, "evaluating process died on %s %s opts=%s: %s\n", kind, raws[j], culprit, crash)
			}
			obs := fmt.Sprintf("opts=%s the process making this call died: %s", culprit, crash)
			if at := crashFrame(stderr); at != "" {
				obs += " at " + at
			}
			res = append(res, evalRes{escapedClause, obs})
			for len(res) < len(job.opts) {
				res = append(res, evalRes{"", "(not run: the process died on an earlier option list of this case)"})
			}
			out[j] = res
			if job.group != "" {
				dead[job.group] = true
			}
			next, died = j+1, true
			break
		}
		if !died {
			<-written
		}
	}
	return out
}

// crashFrame: the innermost frame of the library in the crash report's first goroutine.
func crashFrame(stderr string) string {
	seen := false
	for _, l := range strings.Split(stderr, "\n") {
		if strings.HasPrefix(l, "goroutine ") {
			if seen {
				return ""
			}
			seen = true
		}
		if seen && strings.Contains(l, "fullstorydev/grpchan") && !strings.HasPrefix(l, "\t") {
			if i := strings.LastIndex(l, "("); i > 0 {
				l = l[:i] // the arguments are addresses
			}
			if i := strings.LastIndex(l, "/"); i >= 0 {
				l = l[i+1:]
			}
			return l
		}
	}
	return ""
}
