package main

// (m) What the unary HANDLER does to its response headers before it returns.
//
// Every unary handler of the older phases hands its response headers over with
// grpc.SetHeader only, i.e. they are still pending when the handler returns its status.
// grpc-go gives a handler a second verb, grpc.SendHeader ("sends header metadata ...
// at most once"), after which the headers count as sent, and the two may be combined.
// The statement quantifies over "every gRPC code a unary handler can return" without
// regard to what the handler did to its metadata before: whichever verb it used, the
// code must arrive as its documented HTTP status and the caller must recover exactly
// the code, message and details (and the h-key / t-key the handler set).
//
// Members (the field Hdr of a serverCase; "" = the old grammar, grpc.SetHeader):
//
//	send      grpc.SendHeader(md) with md = the handler's header metadata (h-key), or
//	          an empty MD where the case's handler sets no header metadata at all
//	set+send  grpc.SetHeader(h-key), then grpc.SendHeader(nil)   (only with header metadata)
//	send+set  grpc.SendHeader(h-key), then grpc.SetHeader(late-key), which grpc-go
//	          refuses; the handler ignores that error, as handlers do, and goes on
//	          (only with header metadata; late-key is not demanded from the caller)
//
// each before the trailer metadata is set and before the handler returns its outcome.
// The oracle is that of phase (a), unchanged.

import (
	"context"
	"fmt"

	"google.golang.org/grpc"
	"google.golang.org/grpc/metadata"
)

// hdrHows: the members of (m) that apply to a handler with the given metadata.
func hdrHows(md string) []string {
	if mdHasHeader(md) {
		return []string{"send", "set+send", "send+set"}
	}
	return []string{"send"}
}

// applyHeaders hands the handler's header metadata over the way the case says.
func (c serverCase) applyHeaders(ctx context.Context) {
	hk := metadata.MD{}
	if mdHasHeader(c.MD) {
		hk = metadata.Pairs("h-key", "h-val")
	}
	switch c.Hdr {
	case "":
		if mdHasHeader(c.MD) {
			grpc.SetHeader(ctx, hk)
		}
	case "send":
		grpc.SendHeader(ctx, hk)
	case "set+send":
		grpc.SetHeader(ctx, hk)
		grpc.SendHeader(ctx, nil)
	case "send+set":
		grpc.SendHeader(ctx, hk)
		grpc.SetHeader(ctx, metadata.Pairs("late-key", "late-val"))
	default:
		panic("unknown header verb " + c.Hdr)
	}
}

// hdrGroup: failures of a case with a member of (m) collapse over codes, renderers and
// the rest: one report per (verb, outcome of the handler, clause).
func (c serverCase) hdrGroup(clause string) string {
	return fmt.Sprintf("C14|server-sendheader|%s|%s|%s", c.Hdr, c.outcome(), clause)
}

func (c serverCase) hdrTail() string {
	s := fmt.Sprintf("|code=%d|cancelled=%v|renderer=%s", c.Code, c.Cancelled, c.Renderer)
	if c.OKErr {
		s = fmt.Sprintf("|okerr|cancelled=%v|renderer=%s", c.Cancelled, c.Renderer)
	}
	return s
}
