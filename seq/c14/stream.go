package main

// Streaming calls: the HTTP status is always 200 and the status travels in the body
// trailer, but the client derives "did the reply itself fail" with the same
// statFromResponse as unary calls, and the call options are served by different code.

import (
	"context"
	"fmt"
	"io"
	"net/http"
	"net/http/httptest"
	"strings"
	"sync/atomic"

	"github.com/fullstorydev/grpchan/httpgrpc"
	"google.golang.org/grpc"
	"google.golang.org/grpc/codes"
	"google.golang.org/grpc/metadata"
	"google.golang.org/grpc/status"
	"google.golang.org/protobuf/proto"
	"google.golang.org/protobuf/types/known/wrapperspb"

	"verif/seq/common"
)

type streamOut struct {
	n        int // messages received
	final    error
	h        *optHandles
	hdr      metadata.MD
	hdrErr   error
	tlr      metadata.MD
	newErr   error
	panicked interface{}
}

// streamCall: what generated code does for a server-streaming method, then drain.
func streamCall(rt http.RoundTripper, o optSet) streamOut { return streamCallReq(rt, o, "req") }

// streamCallReq: the same with a chosen request value (register.go: it selects the outcome).
func streamCallReq(rt http.RoundTripper, o optSet, reqVal string) (so streamOut) {
	atomic.AddInt64(&progress, 1)
	so.h = o.build()
	defer func() {
		if p := recover(); p != nil {
			so.panicked = p
		}
	}()
	ctx, cancel := context.WithCancel(context.Background())
	defer cancel()
	ch := &httpgrpc.Channel{Transport: rt, BaseURL: baseURL}
	cs, err := ch.NewStream(ctx, &grpc.StreamDesc{StreamName: "SS", ServerStreams: true}, "/t.S/SS", so.h.opts...)
	if err != nil {
		so.newErr = err
		return
	}
	cs.SendMsg(wrapperspb.String(reqVal))
	cs.CloseSend()
	for so.n <= 8 {
		var out wrapperspb.StringValue
		if err := cs.RecvMsg(&out); err != nil {
			so.final = err
			break
		}
		so.n++
	}
	so.hdr, so.hdrErr = cs.Header()
	so.tlr = cs.Trailer()
	return
}

func (so streamOut) obs(o optSet) string {
	return fmt.Sprintf("opts=%s received=%d final=%v", o, so.n, so.final)
}

// checkFilled for a stream: the options, and the stream's own Header()/Trailer().
func (so streamOut) checkFilled(md string, trailerToo bool) (string, string) {
	if !trailerToo && mdHasHeader(md) {
		md = "header"
	} else if !trailerToo {
		md = ""
	}
	if cl, d := so.h.checkFilled(md); cl != "" {
		return "stream-" + cl, d
	}
	if mdHasHeader(md) && !one(so.hdr.Get("h-key"), "h-val") {
		return "stream-header-method", fmt.Sprintf("Header()=%v,%v want h-key=h-val", so.hdr, so.hdrErr)
	}
	if mdHasTrailer(md) && !one(so.tlr.Get("t-key"), "t-val") {
		return "stream-trailer-method", fmt.Sprintf("Trailer()=%v want t-key=t-val", so.tlr)
	}
	return "", ""
}

func checkStream(c streamCase, o optSet) (clause, obs string) {
	takePanics()
	defer func() {
		// building the server (NewServer, RegisterService)
		if p := recover(); p != nil {
			notePanic("server", p)
			clause, obs, _ = serverPanicVerdict("building the server:")
		}
	}()
	srv := httpgrpc.NewServer()
	svc := &common.Svc{Name: "t.S", Streams: map[string]common.StreamDef{"SS": {ServerStreams: true, Fn: func(s grpc.ServerStream) error {
		var in wrapperspb.StringValue
		if err := s.RecvMsg(&in); err != nil {
			return err
		}
		if mdHasHeader(c.MD) {
			s.SetHeader(metadata.Pairs("h-key", "h-val"))
		}
		if mdHasTrailer(c.MD) {
			s.SetTrailer(metadata.Pairs("t-key", "t-val"))
		}
		c.Collide.applyStream(s, c.Code)
		for i := 0; i < c.NMsgs; i++ {
			if err := s.SendMsg(wrapperspb.String("resp")); err != nil {
				return err
			}
		}
		return handlerErr(c.Code, c.OKErr, c.Msg, c.Details)
	}}}}
	srv.RegisterService(svc.Desc(), common.Impl{})
	// (the streaming client calls the transport on a goroutine of its own: handlerRT)
	rt := handlerRT("server", srv)
	if c.Wire {
		ts := httptest.NewServer(guardHandler("server", srv))
		defer ts.Close()
		rt = wireRT(ts)
	}
	so := streamCall(rt, o)
	obs = so.obs(o)
	if cl, d, bad := serverPanicVerdict(obs + ";"); bad {
		return cl, d
	}
	if so.panicked != nil {
		return "stream-panic", fmt.Sprintf("%s panic=%v", obs, so.panicked)
	}
	if so.newErr != nil {
		return "stream-not-created", obs + " NewStream: " + so.newErr.Error()
	}
	wantCode, wantMsg, wantDetails := wantOf(c.Code, c.OKErr, c.Msg, c.Details)
	if c.NMsgs > 0 && o.mayReject(respSize) && tooLarge(so.final) && so.n < c.NMsgs {
		return "", obs + " (message larger than the caller's receive limit: not judged)"
	}
	if wantCode == codes.OK {
		if so.final != io.EOF || so.n != c.NMsgs {
			return "stream-ok-call-failed", obs
		}
	} else {
		if so.final == io.EOF {
			return "stream-client-code", obs + " want " + wantCode.String()
		}
		if cl, d := statusMismatch(so.final, wantCode, wantMsg, wantDetails); cl != "" {
			return "stream-" + cl, obs + " " + d
		}
		if so.n != c.NMsgs {
			return "stream-messages", fmt.Sprintf("%s want %d messages before the error", obs, c.NMsgs)
		}
	}
	if cl, d := so.checkFilled(c.MD, true); cl != "" {
		return cl, obs + " " + d
	}
	return "", obs
}

// checkStreamClient: a synthetic reply (HTTP status x X-GRPC-Status shape) to a streaming call.
func checkStreamClient(c clientCase, o optSet) (string, string) {
	tr := &httpgrpc.HttpTrailer{Code: 0, Message: "OK"}
	if c.MD {
		tr.Metadata = map[string]*httpgrpc.TrailerValues{"t-key": {Values: []string{"t-val"}}}
	}
	body := append(frame(wrapperspb.String("resp"), false), frame(tr, true)...)
	so := streamCall(common.CannedRT(c.HTTP, c.replyHeader(), body), o)
	obs := so.obs(o)
	if so.panicked != nil {
		return "panic", fmt.Sprintf("%s panic=%v", obs, so.panicked)
	}
	if so.newErr != nil {
		return "stream-not-created", obs + " NewStream: " + so.newErr.Error()
	}
	md := ""
	if c.MD {
		md = "both"
	}
	is2xx := c.HTTP >= 200 && c.HTTP < 300
	if ok, wantMsg, wantDet := c.wantFromHeader(); ok {
		if so.final == nil || so.final == io.EOF || status.Code(so.final) != codes.NotFound || so.n != 0 {
			return "header-code-ignored", obs
		}
		if cl, d := statusMismatch(so.final, codes.NotFound, wantMsg(so.final), wantDet); cl != "" {
			return "header-" + strings.TrimPrefix(cl, "client-") + "-ignored", obs + " " + d
		}
		if cl, d := so.checkFilled(md, false); cl != "" {
			return cl, obs + " " + d
		}
		return "", obs
	}
	if is2xx {
		if so.final != io.EOF || so.n != 1 {
			return "2xx-not-ok", obs
		}
		if cl, d := so.checkFilled(md, true); cl != "" {
			return cl, obs + " " + d
		}
		return "", obs
	}
	if so.final == nil || so.final == io.EOF || status.Code(so.final) == codes.OK || so.n != 0 {
		return "non-2xx-ok", obs
	}
	return "", obs
}

var _ = proto.Marshal
