// C13, THE CONTEXT OF THE CALL.
//
// "... the handler's peer report the remote address, and TLS authentication
// info whenever the connection uses TLS, for unary and streaming calls alike."
//
// Everywhere else in this check the caller's context is context.Background()
// (with or without outgoing metadata) under a plain cancel: it never has a
// deadline, so the HTTP client never sends a GRPC-Timeout header and the server
// never takes the path that derives the handler's context from a timeout; and
// the peer is read by the method's handler only. The server builds the
// handler's context out of several independent parts (the request's context,
// the peer, the incoming metadata, the deadline), and what one part is derived
// from decides whether another survives. This file makes the CALL CONTEXT a
// dimension:
//
//	deadline      {none, 30 s (, 2 h)}: with one the HTTP client sends
//	              GRPC-Timeout and the server gives the handler a context with
//	              a deadline; in-process the deadline travels with the context
//	metadata      caller's outgoing metadata {absent, present} x credentials
//	              {none, with metadata}: whether there is incoming metadata to
//	              attach to the handler's context
//	who reads     the method's handler alone, or a server interceptor
//	              (WithServerUnaryInterceptor / WithServerStreamInterceptor, the
//	              channel's for in-process) in front of it as well: the
//	              interceptor runs as part of handling the call, on the context
//	              the library made for the handler
//
// crossed with {in-process, in-memory RoundTripper, http loopback, https
// loopback (, https with HTTP/2)} x kinds, the peer option always passed.
//
// Oracle, from the statement: in every member the handler finds a peer with
// the remote address (over HTTP: what the HTTP server saw as remote address),
// and TLS info on a TLS connection; so does the server interceptor when there
// is one; the clauses about the call, the metadata and the grpc.Peer target
// apply as everywhere. Nothing is asked about the deadline itself (not this
// property's subject); whether it reached the handler is recorded, as the
// evidence that the member exercised the path. thorough runs grpc-go (server
// interceptors as server options) through the same clauses.
package main

import (
	"context"
	"fmt"
	"time"

	"github.com/fullstorydev/grpchan/httpgrpc"
	"github.com/fullstorydev/grpchan/inprocgrpc"
	"google.golang.org/grpc"
)

type callCtxT struct {
	// Deadline of the caller's context: "" (none) | 30s | 2h
	Deadline string `json:"deadline,omitempty"`
	// Interceptor: a server interceptor (of the call's kind) is installed and
	// reads the peer from the context it is given, before the handler does
	Interceptor bool `json:"server_interceptor_reads_peer,omitempty"`
}

func (cc *callCtxT) String() string {
	if cc == nil {
		return "-"
	}
	s := "caller's context without a deadline"
	if cc.Deadline != "" {
		s = "caller's context with a deadline in " + cc.Deadline
	}
	if cc.Interceptor {
		return s + "; peer read by a server interceptor and by the handler"
	}
	return s + "; peer read by the handler"
}

func (cc *callCtxT) timeout() (time.Duration, error) {
	if cc == nil || cc.Deadline == "" {
		return 0, nil
	}
	d, err := time.ParseDuration(cc.Deadline)
	if err != nil || d < 10*time.Second {
		return 0, fmt.Errorf("call context: bad deadline %q (a duration of at least 10s: the call must never run into it)", cc.Deadline)
	}
	return d, nil
}

func (cc *callCtxT) check(c caseT) error {
	if cc == nil {
		return nil
	}
	if _, err := cc.timeout(); err != nil {
		return err
	}
	switch c.Transport {
	case "inproc", "http-rt", "http-loopback", "https", "https-h2", "grpc-go":
	default:
		return fmt.Errorf("call context %+v is not defined for transport %s", *cc, c.Transport)
	}
	if c.Via != nil || c.Arrive != nil || c.Reject != "" {
		return fmt.Errorf("call context %+v: not combined with via / arrive / reject", *cc)
	}
	return nil
}

// with applies the deadline to the caller's context.
func (cc *callCtxT) with(ctx context.Context) (context.Context, context.CancelFunc) {
	d, _ := cc.timeout()
	if d == 0 {
		return ctx, func() {}
	}
	return context.WithTimeout(ctx, d)
}

func (cc *callCtxT) unaryInt(s *seen) grpc.UnaryServerInterceptor {
	return func(ctx context.Context, req interface{}, _ *grpc.UnaryServerInfo, h grpc.UnaryHandler) (interface{}, error) {
		s.record(ctx)
		return h(ctx, req)
	}
}

func (cc *callCtxT) streamInt(s *seen) grpc.StreamServerInterceptor {
	return func(srv interface{}, ss grpc.ServerStream, _ *grpc.StreamServerInfo, h grpc.StreamHandler) error {
		s.record(ss.Context())
		return h(srv, ss)
	}
}

// httpServerOpts / inproc / grpcServerOpts install the interceptors the three
// ways there are.
func (cc *callCtxT) httpServerOpts(s *seen) []httpgrpc.ServerOption {
	if cc == nil || !cc.Interceptor {
		return nil
	}
	return []httpgrpc.ServerOption{httpgrpc.WithServerUnaryInterceptor(cc.unaryInt(s)), httpgrpc.WithServerStreamInterceptor(cc.streamInt(s))}
}

func (cc *callCtxT) inproc(ch *inprocgrpc.Channel, s *seen) {
	if cc == nil || !cc.Interceptor {
		return
	}
	ch.WithServerUnaryInterceptor(cc.unaryInt(s)).WithServerStreamInterceptor(cc.streamInt(s))
}

func (cc *callCtxT) grpcServerOpts(s *seen) []grpc.ServerOption {
	if cc == nil || !cc.Interceptor {
		return nil
	}
	return []grpc.ServerOption{grpc.UnaryInterceptor(cc.unaryInt(s)), grpc.StreamInterceptor(cc.streamInt(s))}
}

// interceptorPeerFindings: the clauses about the peer as the server interceptor
// found it; the same demands as on the handler's.
func interceptorPeerFindings(c caseT, o obsT) (fs []finding) {
	if c.Call == nil || !c.Call.Interceptor || o.IRan == 0 {
		return nil
	}
	ctx := fmt.Sprintf(" (%s; the handler's own peer present: %v)", c.Call, o.HPeerOK)
	f := finding{clause: "server-interceptor-peer-address"}
	switch {
	case !o.IPeerOK:
		f.fail, f.detail = "absent", "peer.FromContext in the server interceptor, on the context the library handed it for the call, found nothing"+ctx
	case o.iPeerNil || o.IPeerAddr == "":
		f.fail, f.detail = "no-address", "the peer the server interceptor found has no address"+ctx
	case c.overHTTP() && !sameRemote(o.IPeerAddr, o.Remote):
		f.fail, f.detail = "address-mismatch", fmt.Sprintf("the server interceptor's peer address %q, the HTTP server saw the request from %q", o.IPeerAddr, o.Remote)+ctx
	}
	fs = append(fs, f)
	if c.connTLS() {
		f = finding{clause: "server-interceptor-peer-tls-info"}
		if o.IPeerAuth != "tls" {
			f.fail, f.detail = "no-tls-authinfo", fmt.Sprintf("connection uses TLS but the AuthInfo of the peer the server interceptor found is %q", o.IPeerAuth)+ctx
		}
		fs = append(fs, f)
	}
	return fs
}

// callCtxCases: the grammar. ref: the members grpc-go is asked about.
func callCtxCases(tier string, ref bool) (out []caseT) {
	trs := []string{"inproc", "http-rt", "http-loopback", "https"}
	ops := []string{"unary", "bidi"}
	dls := []string{"", "30s"}
	mds := [][2]string{{"none", "none"}, {"some", "none"}, {"some", "both"}} // caller metadata, credentials
	if tier == "thorough" {
		trs = append(trs, "https-h2")
		ops = append(ops, "server-stream", "client-stream")
		dls = append(dls, "2h")
		mds = append(mds, [2]string{"none", "both"})
	}
	if ref {
		trs = []string{"grpc-go"}
	}
	for _, t := range trs {
		host := "v4"
		if t == "inproc" || t == "grpc-go" {
			host = ""
		}
		for _, op := range ops {
			for _, dl := range dls {
				for _, md := range mds {
					for _, ic := range []bool{false, true} {
						out = append(out, caseT{Transport: t, Op: op, Host: host, Creds: md[1], CallerMD: md[0], PeerOpt: true, Call: &callCtxT{Deadline: dl, Interceptor: ic}})
					}
				}
			}
		}
	}
	return out
}

var callCtxDimNames = []string{"deadline", "timeout", "caller-md", "creds", "read-by", "transport", "kind"}

func callCtxDims(c caseT) [][2]string {
	dl, to := "none", "n/a"
	if c.Call.Deadline != "" {
		dl, to = "set", c.Call.Deadline
	}
	by := "handler-only"
	if c.Call.Interceptor {
		by = "interceptor-and-handler"
	}
	return [][2]string{{"deadline", dl}, {"timeout", to}, {"caller-md", c.CallerMD}, {"creds", c.Creds}, {"read-by", by}, {"transport", c.Transport}, {"kind", opKind(c.Op)}}
}

// calibrateCallCtx feeds the peer clauses synthetic observations of calls with
// a deadline.
func calibrateCallCtx() (n int, err error) {
	type tc struct {
		name      string
		transport string
		call      callCtxT
		hOK       bool
		hAddr     string
		hAuth     string
		iRan      int
		iOK       bool
		iAddr     string
		iAuth     string
		want      map[string]string
	}
	const hA, hT, iA, iT = "handler-peer-address", "handler-peer-tls-info", "server-interceptor-peer-address", "server-interceptor-peer-tls-info"
	const ra = "127.0.0.1:4711"
	tcs := []tc{
		{"deadline, all there", "https", callCtxT{Deadline: "30s", Interceptor: true}, true, ra, "tls", 1, true, ra, "tls", map[string]string{hA: "", hT: "", iA: "", iT: ""}},
		{"deadline, no peer anywhere", "https", callCtxT{Deadline: "30s", Interceptor: true}, false, "", "", 1, false, "", "", map[string]string{hA: "absent", hT: "no-tls-authinfo", iA: "absent", iT: "no-tls-authinfo"}},
		{"deadline, no peer, handler only", "http-loopback", callCtxT{Deadline: "30s"}, false, "", "", 0, false, "", "", map[string]string{hA: "absent"}},
		{"deadline, interceptor sees none, handler does", "http-rt", callCtxT{Deadline: "2h", Interceptor: true}, true, ra, "", 1, false, "", "", map[string]string{hA: "", iA: "absent"}},
		{"no deadline, interceptor's peer without TLS info", "https", callCtxT{Interceptor: true}, true, ra, "tls", 1, true, ra, "", map[string]string{hA: "", hT: "", iA: "", iT: "no-tls-authinfo"}},
		{"in-process, deadline, interceptor's peer has another address than nothing to compare", "inproc", callCtxT{Deadline: "30s", Interceptor: true}, true, "inproc", "", 1, true, "", "", map[string]string{hA: "", iA: "no-address"}},
		{"deadline, interceptor reports another address", "http-loopback", callCtxT{Deadline: "30s", Interceptor: true}, true, ra, "", 1, true, "127.0.0.1:1", "", map[string]string{hA: "", iA: "address-mismatch"}},
	}
	for _, t := range tcs {
		n++
		cc := t.call
		c := caseT{Transport: t.transport, Op: "bidi", Host: "v4", Creds: "none", CallerMD: "none", Call: &cc}
		if t.transport == "inproc" {
			c.Host = ""
		}
		if err := cc.check(c); err != nil {
			return n, fmt.Errorf("call-context calibration %q: %v", t.name, err)
		}
		o := obsT{HandlerRan: 1, Reply: "resp", Requests: 1, HPeerOK: t.hOK, HPeerAddr: t.hAddr, HPeerAuth: t.hAuth, Remote: ra,
			IRan: t.iRan, IPeerOK: t.iOK, IPeerAddr: t.iAddr, IPeerAuth: t.iAuth, HDeadline: cc.Deadline != ""}
		got := map[string]string{}
		for _, f := range check(c, o) {
			got[f.clause] = f.fail
		}
		for k, w := range t.want {
			if g, ok := got[k]; !ok || g != w {
				return n, fmt.Errorf("call-context calibration %q: clause %s gave %q (evaluated: %v; all: %v), expected %q", t.name, k, g, ok, got, w)
			}
		}
		if _, evaluated := got[iA]; evaluated != (t.iRan > 0) {
			return n, fmt.Errorf("call-context calibration %q: clause %s evaluated: %v, interceptor ran %d time(s)", t.name, iA, evaluated, t.iRan)
		}
	}
	return n, nil
}
