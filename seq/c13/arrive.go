// C13, WHERE THE REQUEST COMES FROM as the HTTP server sees it.
//
// "... the handler's peer report the remote address, and TLS authentication
// info whenever the connection uses TLS, for unary and streaming calls alike."
//
// Everywhere else in this check the httpgrpc handler gets its requests from a
// loopback TCP listener (or from the in-memory RoundTripper, which imitates
// one): Request.RemoteAddr is always a literal "IPv4:port". net/http promises
// nothing of the kind ("RemoteAddr ... has no defined format"): it is the
// String() of whatever net.Addr the listener's connections report, and any
// handler in front may have replaced it. This file makes the SHAPE OF
// Request.RemoteAddr a dimension:
//
//	who sets it   the listener {loopback TCP, a Unix-domain socket (the clients
//	              are unnamed sockets: "@" on Linux)} or a middleware in front of
//	              the httpgrpc handler that replaces it, as the usual "real IP"
//	              middlewares do with the bare client IP taken from
//	              X-Forwarded-For / X-Real-IP, or a PROXY-protocol listener does
//	              with what the proxy announced
//	its value     remoteAlphabet: IPv4:port, bare IPv4, bare IPv6, [IPv6]:port,
//	              [IPv6%zone]:port, name:port, bare name, "@", a socket path,
//	              "pipe" (what in-memory listeners report), the empty string
//
// crossed with {in-memory RoundTripper, http loopback, https loopback (, https
// with HTTP/2)} x kinds x {no credentials, credentials} with the peer option.
//
// Oracle, from the statement: whatever the shape, the handler finds a peer whose
// address says what the HTTP server knows as the remote address (the same
// string, or the same IP and port written differently, see sameRemote), and on
// a TLS connection credentials.TLSInfo of the completed handshake. When the
// HTTP server itself has no remote address (empty string) there is no address
// to report and only the TLS clause is asked. The clauses about the call
// itself, the metadata and the grpc.Peer target apply as in every other case.
// thorough runs grpc-go with its server on a Unix-domain socket through the
// same clauses (the oracle has to accept it).
package main

import (
	"fmt"
	"net"
	"net/http"
	"net/netip"
	"os"
	"strings"
	"sync/atomic"
)

type arriveT struct {
	// Listener: what the HTTP server listens on: tcp | unix; "" for the
	// in-memory RoundTripper (no listener at all)
	Listener string `json:"listener,omitempty"`
	// Rewrite: name of the member of remoteAlphabet a middleware in front of the
	// httpgrpc handler sets Request.RemoteAddr to; "" = no such middleware
	Rewrite string `json:"remote_addr_set_by_middleware,omitempty"`
}

type remoteShape struct {
	name, lit string
	quick     bool
}

// remoteAlphabet: the values of Request.RemoteAddr, by shape. The first one is
// the shape of every other case of this check (control).
var remoteAlphabet = []remoteShape{
	{"ip4-port", "203.0.113.7:4711", true},
	{"ip4", "203.0.113.7", true}, // "real IP" middlewares: the bare client IP
	{"ip6", "2001:db8::7", true},
	{"ip6-port", "[2001:db8::7]:4711", true},
	{"ip6-zone-port", "[fe80::7%eth0]:4711", false},
	{"name-port", "client.example:4711", true}, // a listener or proxy that reports names
	{"name", "client.example", false},
	{"unix-unnamed", "@", true}, // what net/http reports for a client of a Unix-domain socket (Linux)
	{"unix-path", "/run/client.sock", false},
	{"pipe", "pipe", false}, // net.Pipe and other in-memory listeners
	{"empty", "", true},     // no remote address known
}

func remoteLiteral(name string) (string, bool) {
	for _, s := range remoteAlphabet {
		if s.name == name {
			return s.lit, true
		}
	}
	return "", false
}

// shapeOf classifies a RemoteAddr as the HTTP server reported it.
func shapeOf(s string) string {
	switch {
	case s == "":
		return "empty"
	case s == "@":
		return "unix-unnamed"
	case s == "pipe":
		return "pipe"
	case strings.HasPrefix(s, "/") || strings.HasPrefix(s, "@"):
		return "unix-path"
	}
	if ap, err := netip.ParseAddrPort(s); err == nil {
		switch {
		case ap.Addr().Is4():
			return "ip4-port"
		case ap.Addr().Zone() != "":
			return "ip6-zone-port"
		}
		return "ip6-port"
	}
	if a, err := netip.ParseAddr(s); err == nil {
		if a.Is4() {
			return "ip4"
		}
		return "ip6"
	}
	if _, _, err := net.SplitHostPort(s); err == nil {
		return "name-port"
	}
	return "name"
}

func (a *arriveT) unix() bool { return a != nil && a.Listener == "unix" }

const unixSuffix = "@unix"

func (a *arriveT) serverSuffix() string {
	if a.unix() {
		return unixSuffix
	}
	return ""
}

func (a *arriveT) String() string {
	if a == nil {
		return "-"
	}
	var parts []string
	switch a.Listener {
	case "tcp":
		parts = append(parts, "server on a loopback TCP listener")
	case "unix":
		parts = append(parts, "server on a Unix-domain socket")
	case "":
		parts = append(parts, "in-memory RoundTripper")
	}
	if a.Rewrite != "" {
		lit, _ := remoteLiteral(a.Rewrite)
		parts = append(parts, fmt.Sprintf("a middleware in front of the handler sets Request.RemoteAddr to %q", lit))
	} else {
		parts = append(parts, "Request.RemoteAddr as net/http set it")
	}
	return strings.Join(parts, ", ")
}

// setBy: who decided the value of RemoteAddr the httpgrpc handler sees.
func (a *arriveT) setBy() string {
	switch {
	case a.Rewrite != "" && a.Listener == "unix":
		return "middleware-behind-unix-listener"
	case a.Rewrite != "":
		return "middleware"
	}
	return a.Listener + "-listener"
}

func (a *arriveT) check(transport string) error {
	if a == nil {
		return nil
	}
	if a.Rewrite != "" {
		if _, ok := remoteLiteral(a.Rewrite); !ok {
			return fmt.Errorf("unknown RemoteAddr shape %q", a.Rewrite)
		}
	}
	switch transport {
	case "http-rt":
		if a.Listener != "" || a.Rewrite == "" {
			return fmt.Errorf("arrive %+v: the in-memory RoundTripper has no listener, only the middleware", *a)
		}
	case "http-loopback", "https", "https-h2":
		if a.Listener != "tcp" && a.Listener != "unix" {
			return fmt.Errorf("arrive %+v: listener must be tcp or unix", *a)
		}
	case "grpc-go":
		if a.Listener != "unix" || a.Rewrite != "" {
			return fmt.Errorf("arrive %+v: the grpc-go reference has the Unix-domain listener only", *a)
		}
	default:
		return fmt.Errorf("arrive %+v is not defined for transport %s", *a, transport)
	}
	return nil
}

// remoteAddrMiddleware: the handler in front of the httpgrpc handler. It
// records what the httpgrpc handler is handed as RemoteAddr.
func (e *env) remoteAddrMiddleware(a *arriveT, h http.Handler) http.Handler {
	if a == nil || a.Rewrite == "" {
		return h
	}
	lit, _ := remoteLiteral(a.Rewrite)
	return http.HandlerFunc(func(w http.ResponseWriter, r *http.Request) {
		r.RemoteAddr = lit
		e.mu.Lock()
		e.lastRemote = r.RemoteAddr
		e.mu.Unlock()
		h.ServeHTTP(w, r)
	})
}

var unixSeq int64

// listenUnix listens on a fresh Unix-domain socket in the abstract namespace
// (nothing to clean up); where that is not available, on a path in a temporary
// directory.
func listenUnix() (net.Listener, error) {
	n := atomic.AddInt64(&unixSeq, 1)
	l, err := net.Listen("unix", fmt.Sprintf("@verif-c13-%d-%d", os.Getpid(), n))
	if err == nil {
		return l, nil
	}
	dir, derr := os.MkdirTemp("", "verif-c13-")
	if derr != nil {
		return nil, fmt.Errorf("%v; %v", err, derr)
	}
	return net.Listen("unix", fmt.Sprintf("%s/%d.sock", dir, n))
}

// sameRemote: does the address the handler's peer reports (its String()) say
// what the HTTP server knows as the remote address? The same string; or the
// same IP address and port in another spelling (a peer that holds a
// *net.TCPAddr prints "[::1]:80" for "[0:0:0:0:0:0:0:1]:80"); or, when the
// server knows a bare IP address, that address with any port.
func sameRemote(reported, remote string) bool {
	if reported == remote {
		return true
	}
	type hp struct {
		a       netip.Addr
		port    uint16
		hasPort bool
	}
	parse := func(s string) (hp, bool) {
		if ap, err := netip.ParseAddrPort(s); err == nil {
			return hp{ap.Addr().Unmap(), ap.Port(), true}, true
		}
		if a, err := netip.ParseAddr(s); err == nil {
			return hp{a.Unmap(), 0, false}, true
		}
		return hp{}, false
	}
	x, ok1 := parse(reported)
	y, ok2 := parse(remote)
	if !ok1 || !ok2 || x.a != y.a {
		return false
	}
	return !y.hasPort || (x.hasPort && x.port == y.port)
}

// arriveCases: the arrival grammar. ref: the members grpc-go can be asked about.
func arriveCases(tier string, ref bool) (out []caseT) {
	ops := []string{"unary", "bidi"}
	nets := []string{"http-loopback", "https"}
	if tier == "thorough" {
		ops = append(ops, "server-stream", "client-stream")
		nets = append(nets, "https-h2")
	}
	creds := []string{"none", "both"}
	if ref {
		for _, op := range ops {
			for _, cr := range creds {
				out = append(out, caseT{Transport: "grpc-go", Op: op, Creds: cr, CallerMD: "some", PeerOpt: true, Arrive: &arriveT{Listener: "unix"}})
			}
		}
		return out
	}
	var shapes []string
	for _, s := range remoteAlphabet {
		if s.quick || tier == "thorough" {
			shapes = append(shapes, s.name)
		}
	}
	var arrivals []struct {
		t string
		a arriveT
	}
	add := func(t string, a arriveT) {
		arrivals = append(arrivals, struct {
			t string
			a arriveT
		}{t, a})
	}
	for _, sh := range shapes {
		add("http-rt", arriveT{Rewrite: sh})
	}
	for _, t := range nets {
		add(t, arriveT{Listener: "tcp"}) // control: what every other case of the check has
		add(t, arriveT{Listener: "unix"})
		for _, sh := range shapes {
			add(t, arriveT{Listener: "tcp", Rewrite: sh})
		}
		if tier == "thorough" {
			for _, sh := range shapes {
				add(t, arriveT{Listener: "unix", Rewrite: sh})
			}
		}
	}
	for _, ar := range arrivals {
		for _, op := range ops {
			for _, cr := range creds {
				a := ar.a
				out = append(out, caseT{Transport: ar.t, Op: op, Host: "v4", Creds: cr, CallerMD: "some", PeerOpt: true, Arrive: &a})
			}
		}
	}
	return out
}

var arriveDimNames = []string{"remote-addr", "set-by", "transport", "kind", "creds"}

// arriveDims: the shape is that of the RemoteAddr the httpgrpc handler was
// really handed (for a listener's own value: as observed).
func arriveDims(c caseT, o obsT) [][2]string {
	shape := c.Arrive.Rewrite
	if shape == "" {
		shape = shapeOf(o.Remote)
	}
	return [][2]string{{"remote-addr", shape}, {"set-by", c.Arrive.setBy()}, {"transport", c.Transport}, {"kind", opKind(c.Op)}, {"creds", c.Creds}}
}

// calibrateArrive feeds the handler-peer clauses synthetic observations.
func calibrateArrive() (n int, err error) {
	type tc struct {
		name      string
		transport string
		arrive    arriveT
		remote    string
		peerOK    bool
		addr      string
		auth      string
		want      map[string]string
	}
	const addrC, tlsC, unkC = "handler-peer-address", "handler-peer-tls-info", "handler-peer-address-unknown-to-http-server"
	tcs := []tc{
		{"bare IP, reported as is", "http-loopback", arriveT{Listener: "tcp", Rewrite: "ip4"}, "203.0.113.7", true, "203.0.113.7", "", map[string]string{addrC: ""}},
		{"bare IP, reported with port 0", "http-loopback", arriveT{Listener: "tcp", Rewrite: "ip4"}, "203.0.113.7", true, "203.0.113.7:0", "", map[string]string{addrC: ""}},
		{"bare IP, no peer", "http-loopback", arriveT{Listener: "tcp", Rewrite: "ip4"}, "203.0.113.7", false, "", "", map[string]string{addrC: "absent"}},
		{"bare IP, peer without address", "http-loopback", arriveT{Listener: "tcp", Rewrite: "ip4"}, "203.0.113.7", true, "", "", map[string]string{addrC: "no-address"}},
		{"bare IP, another address", "http-loopback", arriveT{Listener: "tcp", Rewrite: "ip4"}, "203.0.113.7", true, "127.0.0.1:4711", "", map[string]string{addrC: "address-mismatch"}},
		{"IPv6 in another spelling", "http-rt", arriveT{Rewrite: "ip6-port"}, "[2001:db8:0:0:0:0:0:7]:4711", true, "[2001:db8::7]:4711", "", map[string]string{addrC: ""}},
		{"IPv6, another port", "http-rt", arriveT{Rewrite: "ip6-port"}, "[2001:db8::7]:4711", true, "[2001:db8::7]:4712", "", map[string]string{addrC: "address-mismatch"}},
		{"name:port, reported as is", "http-rt", arriveT{Rewrite: "name-port"}, "client.example:4711", true, "client.example:4711", "", map[string]string{addrC: ""}},
		{"name:port, no peer", "http-rt", arriveT{Rewrite: "name-port"}, "client.example:4711", false, "", "", map[string]string{addrC: "absent"}},
		{"unix over TLS, all there", "https", arriveT{Listener: "unix"}, "@", true, "@", "tls", map[string]string{addrC: "", tlsC: ""}},
		{"unix over TLS, no peer", "https", arriveT{Listener: "unix"}, "@", false, "", "", map[string]string{addrC: "absent", tlsC: "no-tls-authinfo"}},
		{"unix over TLS, address only", "https", arriveT{Listener: "unix"}, "@", true, "@", "", map[string]string{addrC: "", tlsC: "no-tls-authinfo"}},
		{"empty, cleartext, no peer", "http-loopback", arriveT{Listener: "tcp", Rewrite: "empty"}, "", false, "", "", map[string]string{unkC: ""}},
		{"empty, cleartext, peer without address", "http-loopback", arriveT{Listener: "tcp", Rewrite: "empty"}, "", true, "", "", map[string]string{unkC: ""}},
		{"empty over TLS, TLS info there", "https", arriveT{Listener: "tcp", Rewrite: "empty"}, "", true, "", "tls", map[string]string{unkC: "", tlsC: ""}},
		{"empty over TLS, no peer", "https", arriveT{Listener: "tcp", Rewrite: "empty"}, "", false, "", "", map[string]string{unkC: "", tlsC: "no-tls-authinfo"}},
	}
	for _, t := range tcs {
		n++
		a := t.arrive
		c := caseT{Transport: t.transport, Op: "bidi", Host: "v4", Creds: "none", CallerMD: "none", Arrive: &a}
		if err := a.check(c.Transport); err != nil {
			return n, fmt.Errorf("arrive calibration %q: %v", t.name, err)
		}
		o := obsT{HandlerRan: 1, Reply: "resp", Requests: 1, HPeerOK: t.peerOK, HPeerAddr: t.addr, HPeerAuth: t.auth, Remote: t.remote}
		got := map[string]string{}
		for _, f := range check(c, o) {
			got[f.clause] = f.fail
		}
		for k, w := range t.want {
			if g, ok := got[k]; !ok || g != w {
				return n, fmt.Errorf("arrive calibration %q: clause %s gave %q (evaluated: %v; all: %v), expected %q", t.name, k, g, ok, got, w)
			}
		}
		for _, k := range []string{addrC, unkC} {
			if _, evaluated := got[k]; evaluated {
				if _, wanted := t.want[k]; !wanted {
					return n, fmt.Errorf("arrive calibration %q: clause %s evaluated, not expected (all: %v)", t.name, k, got)
				}
			}
		}
	}
	for _, s := range remoteAlphabet {
		n++
		if got := shapeOf(s.lit); got != s.name {
			return n, fmt.Errorf("arrive calibration: shapeOf(%q) = %s, the alphabet calls it %s", s.lit, got, s.name)
		}
	}
	return n, nil
}
