// Call-option target objects reused across a sequence of calls.
//
// The grpc.Peer / grpc.Header / grpc.Trailer options hand the library pointers
// to variables of the caller. Nothing says those variables are zero when the
// call starts: a caller may keep ONE peer.Peer, ONE header MD and ONE trailer
// MD and pass them to call after call. After each call they have to describe
// THAT call: its address, TLS info exactly when that call's connection uses
// TLS (never on a cleartext one), that call's headers and trailers.
//
// Grammar: every ordered pair over the step alphabet {in-process, http, https
// (thorough: + http loopback, https with HTTP/2)} x {unary, bidi (thorough: +
// server-stream, client-stream)} x {no credentials, credentials} plus the
// rejected calls (unknown method -> the server answers 404 without a handler)
// on the HTTP transports; every triple over {in-process, http, https
// (thorough: + https with HTTP/2)} x {unary, bidi}. Each sequence is run three
// times: with fresh (zero) targets for every call (the control), with one
// target set reused by every call, and with the reused set and a fresh set
// passed to the same call.
package main

import (
	"fmt"
	"sort"
	"strings"

	"google.golang.org/grpc/credentials"
	"google.golang.org/grpc/metadata"
	"google.golang.org/grpc/peer"
)

// targetSet: the caller's variables behind one grpc.Peer + grpc.Header +
// grpc.Trailer option triple.
type targetSet struct {
	name string // reused | fresh
	pr   *peer.Peer
	hdr  *metadata.MD
	tlr  *metadata.MD
}

func newTargetSet(name string) *targetSet {
	return &targetSet{name: name, pr: &peer.Peer{}, hdr: new(metadata.MD), tlr: new(metadata.MD)}
}

// targetObs is what a target set holds after a call. Headers and trailers are
// recorded on the keys the handlers of a sequence can set (hdrUniverse,
// tlrUniverse): a transport may add keys of its own (content-type, date).
type targetObs struct {
	Name string      `json:"target"`
	Addr string      `json:"peer_addr,omitempty"`
	Auth string      `json:"peer_auth,omitempty"` // authDigest
	Hdr  metadata.MD `json:"header,omitempty"`
	Tlr  metadata.MD `json:"trailer,omitempty"`
	conn string      // authConnID: which TLS connection the TLS info is of
}

var (
	reuseTags   = []string{"1", "2", "3"}
	hdrUniverse = []string{"hdr", "call", "hdr-1", "hdr-2", "hdr-3"}
	tlrUniverse = []string{"call", "tlr-1", "tlr-2", "tlr-3"}
)

func restrict(md metadata.MD, keys []string) metadata.MD {
	out := metadata.MD{}
	for _, k := range keys {
		if vs, ok := md[k]; ok {
			out[k] = append([]string(nil), vs...)
		}
	}
	return out
}

// authDigest is authKind plus, for TLS, the parameters of the handshake that
// do not depend on the run (two different https servers of the environment
// differ in the negotiated protocol).
func authDigest(ai credentials.AuthInfo) string {
	k := authKind(ai)
	if k != "tls" {
		return k
	}
	var st = func() (s struct {
		v, cs uint16
		alpn  string
		sn    string
		certs int
	}) {
		switch t := ai.(type) {
		case credentials.TLSInfo:
			s.v, s.cs, s.alpn, s.sn, s.certs = t.State.Version, t.State.CipherSuite, t.State.NegotiatedProtocol, t.State.ServerName, len(t.State.PeerCertificates)
		case *credentials.TLSInfo:
			s.v, s.cs, s.alpn, s.sn, s.certs = t.State.Version, t.State.CipherSuite, t.State.NegotiatedProtocol, t.State.ServerName, len(t.State.PeerCertificates)
		}
		return s
	}()
	return fmt.Sprintf("tls{version=%#x suite=%#x alpn=%q sni=%q peer-certs=%d}", st.v, st.cs, st.alpn, st.sn, st.certs)
}

func (t *targetSet) observe() targetObs {
	o := targetObs{Name: t.name, Auth: authDigest(t.pr.AuthInfo), conn: authConnID(t.pr.AuthInfo)}
	if t.pr.Addr != nil {
		o.Addr = t.pr.Addr.String()
	}
	o.Hdr, o.Tlr = restrict(*t.hdr, hdrUniverse), restrict(*t.tlr, tlrUniverse)
	return o
}

// ---- sequences ---------------------------------------------------------------

type reuseT struct {
	// Targets: fresh (every call gets zero targets: the control) | reused (one
	// peer.Peer, one header MD, one trailer MD passed to every call) |
	// reused+fresh (every call gets the reused set and a zero set)
	Targets    string  `json:"targets"`
	ReuseSteps []caseT `json:"reuse_steps"`
}

type reuseFinding struct {
	finding
	step   int
	target string
}

func wantHdr(tag string) metadata.MD {
	return metadata.MD{"hdr": {"v"}, "hdr-" + tag: {tag}, "call": {tag}}
}
func wantTlr(tag string) metadata.MD { return metadata.MD{"tlr-" + tag: {tag}, "call": {tag}} }

// targetFindings: the clauses about one target set after call c observed as o.
// ctl is the fresh target of the same call of the control run (nil in the
// control run itself).
func targetFindings(c caseT, o obsT, t targetObs, ctl *targetObs, ok, rejected bool) (fs []finding) {
	suffix := ""
	if rejected {
		suffix = "-on-rejected-call"
	}
	fs = append(fs, peerTargetFindings(c, o, t.Addr != "", t.Addr, t.Auth, t.conn, suffix)...)
	if ctl != nil {
		// differential: what the library writes into a zero target is, by the
		// clauses above, this call's peer; a target that held something before
		// the call has to end up with the same
		f := finding{clause: "peer-target-same-as-with-fresh-target" + suffix}
		switch {
		case t.Addr != ctl.Addr:
			f.fail, f.detail = "address-differs", fmt.Sprintf("%s %s: the %s grpc.Peer target has address %q after the call, a zero target handed to the same call of the same sequence gets %q", c.Transport, c.Op, t.Name, t.Addr, ctl.Addr)
		case t.Auth != ctl.Auth:
			f.fail, f.detail = "auth-info-differs", fmt.Sprintf("%s %s: the %s grpc.Peer target has AuthInfo %q after the call, a zero target handed to the same call of the same sequence gets %q", c.Transport, c.Op, t.Name, t.Auth, ctl.Auth)
		}
		fs = append(fs, f)
	}
	if !ok {
		return fs
	}
	f := finding{clause: "header-target-exactly-this-call"}
	if want := wantHdr(c.Tag); !sameMD(t.Hdr, want) {
		f.fail, f.detail = "differs", fmt.Sprintf("%s %s: the handler of this call set headers %s; the %s grpc.Header target holds %s on the keys %q", c.Transport, c.Op, mdString(want), t.Name, mdString(t.Hdr), hdrUniverse)
	}
	fs = append(fs, f)
	f = finding{clause: "trailer-target-exactly-this-call"}
	if want := wantTlr(c.Tag); !sameMD(t.Tlr, want) {
		f.fail, f.detail = "differs", fmt.Sprintf("%s %s: the handler of this call set trailers %s; the %s grpc.Trailer target holds %s on the keys %q", c.Transport, c.Op, mdString(want), t.Name, mdString(t.Tlr), tlrUniverse)
	}
	return append(fs, f)
}

// runReuse runs the sequence with the targets its mode says. ctl: observations
// of the control run (nil when q is the control).
func runReuse(e *env, q reuseT, ctl []obsT) (obs []obsT, fs []reuseFinding) {
	var reused *targetSet
	if q.Targets != "fresh" {
		reused = newTargetSet("reused")
	}
	for i, c := range q.ReuseSteps {
		c.Tag = reuseTags[i]
		c.PeerOpt, c.HdrOpt = false, false // the targets are the sequence's
		var tgs []*targetSet
		switch q.Targets {
		case "fresh":
			tgs = []*targetSet{newTargetSet("fresh")}
		case "reused":
			tgs = []*targetSet{reused}
		case "reused+fresh":
			tgs = []*targetSet{reused, newTargetSet("fresh")}
		default:
			panic("bad targets mode " + q.Targets)
		}
		o := guardedTg(e, c, nil, tgs)
		obs = append(obs, o)
		ok, rejected := false, c.Reject != "" && o.Requests > 0
		for _, f := range check(c, o) {
			fs = append(fs, reuseFinding{f, i, "-"})
			if f.clause == "call-succeeds" && f.fail == "" {
				ok = true
			}
		}
		if !ok && !rejected {
			continue // refused before any request: nothing is known about a peer
		}
		for _, t := range o.Targets {
			var cf *targetObs
			if ctl != nil && i < len(ctl) {
				for j := range ctl[i].Targets {
					if ctl[i].Targets[j].Name == "fresh" {
						cf = &ctl[i].Targets[j]
					}
				}
			}
			for _, f := range targetFindings(c, o, t, cf, ok, rejected) {
				fs = append(fs, reuseFinding{f, i, t.Name})
			}
		}
	}
	return obs, fs
}

func trClass(t string) string {
	switch {
	case isHTTP(t):
		return "http"
	case isTLS(t):
		return "https"
	}
	return t
}

func opKind(op string) string {
	if op == "unary" {
		return "unary"
	}
	return "stream"
}

var reuseDimNames = []string{"targets", "target", "call", "transport", "kind", "creds", "reject", "earlier-calls"}

// reuseDims: the parameters of a finding a fingerprint may mention (the
// grouper leaves out those for which the clause fails at every value).
func reuseDims(q reuseT, f reuseFinding) [][2]string {
	c := q.ReuseSteps[f.step]
	earlier := "-"
	if f.step > 0 {
		set := map[string]bool{}
		for _, p := range q.ReuseSteps[:f.step] {
			set[trClass(p.Transport)] = true
		}
		var ks []string
		for k := range set {
			ks = append(ks, k)
		}
		sort.Strings(ks)
		earlier = strings.Join(ks, "+")
	}
	return [][2]string{{"targets", q.Targets}, {"target", f.target}, {"call", fmt.Sprint(f.step + 1)}, {"transport", trClass(c.Transport)},
		{"kind", opKind(c.Op)}, {"creds", c.Creds}, {"reject", c.Reject}, {"earlier-calls", earlier}}
}

func reuseSteps(tier string, ref bool) (pairSteps, tripleSteps []caseT) {
	trs, ops := []string{"inproc", "http-rt", "https"}, []string{"unary", "bidi"}
	small := trs
	if tier == "thorough" {
		trs = []string{"inproc", "http-rt", "http-loopback", "https", "https-h2"}
		ops = append(ops, "server-stream", "client-stream")
		small = []string{"inproc", "http-rt", "https", "https-h2"}
	}
	if ref {
		trs, small = []string{"grpc-go"}, []string{"grpc-go"}
	}
	host := func(t string) string {
		if t == "inproc" || t == "grpc-go" {
			return ""
		}
		return "v4"
	}
	for _, t := range trs {
		for _, op := range ops {
			for _, cr := range []string{"none", "both"} {
				pairSteps = append(pairSteps, caseT{Transport: t, Op: op, Host: host(t), Creds: cr, CallerMD: "none"})
			}
		}
	}
	for _, t := range trs {
		if t == "inproc" || t == "grpc-go" {
			continue
		}
		for _, op := range ops {
			pairSteps = append(pairSteps, caseT{Transport: t, Op: op, Host: host(t), Creds: "none", CallerMD: "none", Reject: "unknown-method"})
		}
	}
	for _, t := range small {
		for _, op := range []string{"unary", "bidi"} {
			tripleSteps = append(tripleSteps, caseT{Transport: t, Op: op, Host: host(t), Creds: "none", CallerMD: "none"})
		}
	}
	return
}

// reuseSeqs: the step sequences; each is run in every mode.
func reuseSeqs(tier string, ref bool) (out [][]caseT) {
	ps, ts := reuseSteps(tier, ref)
	for _, a := range ps {
		for _, b := range ps {
			out = append(out, []caseT{a, b})
		}
	}
	for _, a := range ts {
		for _, b := range ts {
			for _, c := range ts {
				out = append(out, []caseT{a, b, c})
			}
		}
	}
	return out
}

var reuseModes = []string{"reused", "reused+fresh"}

// calibrateReuse feeds the per-target clauses synthetic observations: a target
// that describes the call must be accepted; one that keeps the previous call's
// TLS info / in-process info / address / header key / trailer key, or misses
// this call's, must be rejected by the clause that is about it.
func calibrateReuse() (n int, err error) {
	const tlsD = `tls{version=0x304 suite=0x1301 alpn="" sni="" peer-certs=1}`
	type tc struct {
		name      string
		transport string
		t         targetObs
		ctl       targetObs
		want      map[string]string // clause -> fail ("" = must hold)
	}
	hdr2, tlr2 := wantHdr("2"), wantTlr("2")
	stale := func(md metadata.MD, k string) metadata.MD {
		out := md.Copy()
		out[k] = []string{"1"}
		return out
	}
	callOf1 := func(md metadata.MD) metadata.MD {
		out := md.Copy()
		out["call"] = []string{"1"}
		return out
	}
	both := func(md metadata.MD) metadata.MD {
		out := md.Copy()
		out["call"] = []string{"1", "2"}
		return out
	}
	httpOK := targetObs{Name: "fresh", Addr: "192.0.2.9:8080", Auth: "", Hdr: hdr2, Tlr: tlr2}
	httpsOK := targetObs{Name: "fresh", Addr: "192.0.2.9:8080", Auth: tlsD, Hdr: hdr2, Tlr: tlr2}
	inprocOK := targetObs{Name: "fresh", Addr: "0", Auth: "other:inproc", Hdr: hdr2, Tlr: tlr2}
	with := func(t targetObs, f func(*targetObs)) targetObs { t.Name = "reused"; f(&t); return t }
	all := map[string]string{"client-peer-address": "", "peer-target-same-as-with-fresh-target": "", "header-target-exactly-this-call": "", "trailer-target-exactly-this-call": ""}
	plus := func(kv ...string) map[string]string {
		m := map[string]string{}
		for k, v := range all {
			m[k] = v
		}
		for i := 0; i < len(kv); i += 2 {
			m[kv[i]] = kv[i+1]
		}
		return m
	}
	tcs := []tc{
		{"http describes the call", "http-rt", with(httpOK, func(*targetObs) {}), httpOK, plus("client-peer-no-tls-info-on-cleartext", "")},
		{"https describes the call", "https", with(httpsOK, func(*targetObs) {}), httpsOK, plus("client-peer-tls-info", "")},
		{"inproc describes the call", "inproc", with(inprocOK, func(*targetObs) {}), inprocOK, plus()},
		{"http keeps TLS info", "http-rt", with(httpOK, func(t *targetObs) { t.Auth = tlsD }), httpOK, plus("client-peer-no-tls-info-on-cleartext", "tls-authinfo-on-cleartext", "peer-target-same-as-with-fresh-target", "auth-info-differs")},
		{"http keeps in-process info", "http-rt", with(httpOK, func(t *targetObs) { t.Auth = "other:inproc" }), httpOK, plus("client-peer-no-tls-info-on-cleartext", "", "peer-target-same-as-with-fresh-target", "auth-info-differs")},
		{"https keeps no info", "https", with(httpsOK, func(t *targetObs) { t.Auth = "" }), httpsOK, plus("client-peer-tls-info", "no-tls-authinfo", "peer-target-same-as-with-fresh-target", "auth-info-differs")},
		{"https keeps the other server's TLS info", "https", with(httpsOK, func(t *targetObs) { t.Auth = strings.Replace(tlsD, `alpn=""`, `alpn="h2"`, 1) }), httpsOK, plus("client-peer-tls-info", "", "peer-target-same-as-with-fresh-target", "auth-info-differs")},
		{"https keeps the TLS info of an earlier connection to the same server", "https", with(httpsOK, func(t *targetObs) { t.conn = "aa" }), httpsOK, plus("client-peer-tls-info", "tls-info-of-another-connection")},
		{"inproc keeps the http address", "inproc", with(inprocOK, func(t *targetObs) { t.Addr = "192.0.2.9:8080" }), inprocOK, plus("peer-target-same-as-with-fresh-target", "address-differs")},
		{"http keeps the in-process address", "http-rt", with(httpOK, func(t *targetObs) { t.Addr = "0" }), httpOK, plus("client-peer-no-tls-info-on-cleartext", "", "client-peer-address", "malformed-address", "peer-target-same-as-with-fresh-target", "address-differs")},
		{"header key of the previous call kept", "inproc", with(inprocOK, func(t *targetObs) { t.Hdr = stale(hdr2, "hdr-1") }), inprocOK, plus("header-target-exactly-this-call", "differs")},
		{"headers of the previous call", "inproc", with(inprocOK, func(t *targetObs) { t.Hdr = wantHdr("1") }), inprocOK, plus("header-target-exactly-this-call", "differs")},
		{"header values of both calls", "inproc", with(inprocOK, func(t *targetObs) { t.Hdr = both(hdr2) }), inprocOK, plus("header-target-exactly-this-call", "differs")},
		{"header value of the previous call", "inproc", with(inprocOK, func(t *targetObs) { t.Hdr = callOf1(hdr2) }), inprocOK, plus("header-target-exactly-this-call", "differs")},
		{"no headers", "inproc", with(inprocOK, func(t *targetObs) { t.Hdr = metadata.MD{} }), inprocOK, plus("header-target-exactly-this-call", "differs")},
		{"trailer key of the previous call kept", "https", with(httpsOK, func(t *targetObs) { t.Tlr = stale(tlr2, "tlr-1") }), httpsOK, plus("client-peer-tls-info", "", "trailer-target-exactly-this-call", "differs")},
		{"trailers of the previous call", "http-rt", with(httpOK, func(t *targetObs) { t.Tlr = wantTlr("1") }), httpOK, plus("client-peer-no-tls-info-on-cleartext", "", "trailer-target-exactly-this-call", "differs")},
		{"trailer values of both calls", "http-rt", with(httpOK, func(t *targetObs) { t.Tlr = both(tlr2) }), httpOK, plus("client-peer-no-tls-info-on-cleartext", "", "trailer-target-exactly-this-call", "differs")},
		{"no trailers", "http-rt", with(httpOK, func(t *targetObs) { t.Tlr = metadata.MD{} }), httpOK, plus("client-peer-no-tls-info-on-cleartext", "", "trailer-target-exactly-this-call", "differs")},
	}
	for _, k := range tcs {
		c := caseT{Transport: k.transport, Op: "unary", Creds: "none", CallerMD: "none", Tag: "2"}
		o := obsT{HandlerRan: 1, Reply: "resp", serverConn: "bb"}
		if k.t.conn == "" && isTLS(k.transport) {
			k.t.conn = "bb"
		}
		if k.transport != "inproc" {
			o.BaseURL, o.wantHost, o.wantPort, o.portGiven = "http://192.0.2.9:8080/", "192.0.2.9", "8080", true
		}
		ctl := k.ctl
		got := map[string]string{}
		for _, f := range targetFindings(c, o, k.t, &ctl, true, false) {
			got[f.clause] = f.fail
		}
		n++
		if len(got) != len(k.want) {
			return n, fmt.Errorf("reuse calibration %q: clauses evaluated %v, expected %v", k.name, got, k.want)
		}
		for cl, w := range k.want {
			if g, ok := got[cl]; !ok || g != w {
				return n, fmt.Errorf("reuse calibration %q: clause %s gave %q (evaluated: %v), expected %q", k.name, cl, g, ok, w)
			}
		}
	}
	return n, nil
}
