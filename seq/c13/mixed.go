// A dimension of the property's quantifier ("credentials requiring security or
// not" x "credential metadata maps") that the supplier grammar of supply.go held
// at one value: when SEVERAL grpc.PerRPCCredentials options are in one call (the
// caller passes two; the caller passes one and an auth interceptor adds one;
// two interceptors add one each), all of them shared the case's
// RequireTransportSecurity and the case's metadata kind. Here every credential
// of a call has PROPERTIES OF ITS OWN.
//
// Grammar (mixCases): the option lists
//
//	[caller, caller2]       the caller passes two credentials options, no wrapper
//	[caller, L1]            the caller and one grpchan.InterceptClientConn wrapper
//	[L1, L2]                two wrappers, the caller passes nothing
//	[caller, L1, L2]        all three
//	thorough also: the interceptors' options in front ([L1, caller], [L2, L1],
//	[L2, L1, caller]), a wrapper installed for the kind of the call only,
//	[caller, caller2, L1]
//
// x EVERY assignment of a (metadata kind, requires security) pair to each
// position of the list, kinds {one: {tok: v}, the key all credentials share;
// own: {tok-<supplier>: v}, a key no other credential has; empty; error}
// (quick: lists of three over {one, own} only) x every transport x every op x
// caller metadata {absent, present}; values are marked with their supplier.
// Plus the base-URL scheme alphabet swept around [caller, caller2] with the
// requirement on the first or on the second only.
//
// Oracle. The statement speaks of "the" credentials of a call; of a list of
// credentials options the LAST is in effect - that is what grpc-go does
// (thorough runs this grammar against grpc-go over bufconn and requires the
// oracle to accept it). So the clauses of the single call are asked of the
// credential in effect: it requires security and the base URL is not https ->
// the call fails before any request; its GetRequestMetadata fails -> the call
// fails, no handler runs; else the call works and its metadata reaches the
// handler merged with the caller's. About the credentials NOT in effect the
// statement promises one thing ("never cross an insecure transport", "fails
// before any request is issued"): when one of them requires transport security
// and the base URL is not https, its metadata is in no request that leaves the
// client (counting RoundTripper sees none of its values, neither does the
// handler). A library that reads "they require transport security" over all
// credentials attached and refuses such a call before any request conforms as
// well, as does one that fails the call because a credential not in effect
// returned an error; whether the metadata of credentials that accept any
// transport is sent although a later option replaced them is free.
package main

import (
	"fmt"
	"sort"
	"strings"

	"google.golang.org/grpc/metadata"
)

// credSpecT: the properties of one supplier's credential.
type credSpecT struct {
	Kind    string `json:"kind"` // one | own | empty | error (and the other kinds of credMD)
	Require bool   `json:"require_transport_security"`
}

func (s credSpecT) String() string { return fmt.Sprintf("%s/require=%v", s.Kind, s.Require) }

// ownKey: the metadata key only the credential of who uses.
func ownKey(who string) string { return "tok-" + strings.ToLower(who) }

var ownKeys = []string{ownKey("caller"), ownKey("caller2"), ownKey("L1"), ownKey("L2")}

// md: what the credential of who hands out. Values of everybody but the
// caller's first credential are marked with the supplier, as in supply.go.
func (s credSpecT) md(who string) (map[string]string, error) {
	var m map[string]string
	var err error
	if s.Kind == "own" {
		m = map[string]string{ownKey(who): "t1"}
	} else {
		m, err = credMD(s.Kind)
	}
	if who == "" || who == "caller" || len(m) == 0 {
		return m, err
	}
	out := map[string]string{}
	for k, v := range m {
		out[k] = v + "@" + who
	}
	return out, err
}

func (v *viaT) eachString() string {
	if v == nil || len(v.Each) == 0 {
		return ""
	}
	var ps []string
	for _, who := range v.optionOrder() {
		if sp, ok := v.Each[who]; ok {
			ps = append(ps, who+"="+sp.String())
		}
	}
	return "; every credential with properties of its own, in option order: " + strings.Join(ps, " ")
}

func (v *viaT) checkEach() error {
	for who, sp := range v.Each {
		switch who {
		case "caller", "caller2", "L1", "L2":
		default:
			return fmt.Errorf("bad supplier %q in via.each", who)
		}
		switch sp.Kind {
		case "own", "nil", "empty", "one", "overlap", "both", "error":
		default:
			return fmt.Errorf("bad credential kind %q in via.each", sp.Kind)
		}
	}
	return nil
}

// specOf: the properties of who's credential when the case gives every
// credential its own.
func (c caseT) specOf(who string) (credSpecT, bool) {
	if c.Via == nil || c.Via.Each == nil {
		return credSpecT{}, false
	}
	sp, ok := c.Via.Each[who]
	return sp, ok
}

func (c caseT) kindOf(who string) string {
	if sp, ok := c.specOf(who); ok {
		return sp.Kind
	}
	return c.Creds
}

func (c caseT) requireOf(who string) bool {
	if sp, ok := c.specOf(who); ok {
		return sp.Require
	}
	return c.Require
}

// effKind / effRequire: of the credential in effect.
func (c caseT) effKind() string {
	if w := c.credWinner(); w != "" {
		return c.kindOf(w)
	}
	return c.Creds
}

func (c caseT) effRequire() bool {
	if w := c.credWinner(); w != "" {
		return c.requireOf(w)
	}
	return c.Require
}

// credSuppliers: who passes a credentials option, in the order of the list the
// channel is given.
func (c caseT) credSuppliers() (out []string) {
	if c.Via == nil {
		if c.Creds != "none" {
			return []string{"caller"}
		}
		return nil
	}
	for _, who := range c.Via.optionOrder() {
		if c.supplies(who, "creds") {
			out = append(out, who)
		}
	}
	return out
}

func hasValue(vs []string, v string) bool {
	for _, x := range vs {
		if x == v {
			return true
		}
	}
	return false
}

const clauseNotInEffect = "secure-creds-not-in-effect-kept-off-insecure-transport"

// notInEffectFindings: the clause about the credentials of a call that a later
// grpc.PerRPCCredentials option replaced. free: the call was ended in a way the
// statement leaves open for such a list (see the head of this file); nothing
// else is asked of it then.
func notInEffectFindings(c caseT, o obsT, insecure bool) (fs []finding, free bool) {
	if c.Via == nil {
		return nil, false
	}
	winner := c.credWinner()
	var secure []string
	loserErr := false
	for _, who := range c.credSuppliers() {
		if who == winner {
			continue
		}
		if c.requireOf(who) {
			secure = append(secure, who)
		}
		if c.kindOf(who) == "error" {
			loserErr = true
		}
	}
	if len(secure) == 0 && !loserErr {
		return nil, false
	}
	// decided only when such a credential has metadata to tell it by
	withValues := false
	for _, who := range secure {
		m, _ := c.credMDFor(who)
		withValues = withValues || len(m) > 0
	}
	if insecure && withValues {
		f := finding{clause: clauseNotInEffect}
	search:
		for _, who := range secure {
			m, _ := c.credMDFor(who)
			var ks []string
			for k := range m {
				ks = append(ks, k)
			}
			sort.Strings(ks)
			for _, k := range ks {
				lk := strings.ToLower(k)
				if hasValue(o.Sent[lk], m[k]) || hasValue(o.HandlerMD[lk], m[k]) {
					f.fail = "metadata-sent"
					f.detail = fmt.Sprintf("the credentials passed by %s require transport security and the base URL %s is not https, yet their metadata %s=%q left the client: %d HTTP request(s), credential metadata handed to the RoundTripper: %v, handler saw %s=%q; err=%v. Credentials options of the call, in the order the channel gets them: %s; in effect (the last): %s, which accepts any transport; call options supplied by %s",
						who, o.BaseURL, k, m[k], o.Requests, credSent(o), lk, o.HandlerMD[lk], o.err, c.specList(), winner, c.Via)
					break search
				}
			}
		}
		fs = append(fs, f)
	}
	decidedByWinner := c.effRequire() && insecure || c.effKind() == "error"
	if decidedByWinner {
		return fs, false
	}
	refused := o.err != nil && o.Requests == 0 && o.HandlerRan == 0
	if len(secure) > 0 && refused && (insecure || c.Transport == "inproc" || c.schemeClass() == "https-other-case") {
		return fs, true
	}
	if loserErr && o.err != nil && o.HandlerRan == 0 {
		return fs, true
	}
	return fs, false
}

// specList: the credentials of the call in option order, each with its properties.
func (c caseT) specList() string {
	var ps []string
	for _, who := range c.credSuppliers() {
		ps = append(ps, fmt.Sprintf("%s[%s/require=%v]", who, c.kindOf(who), c.requireOf(who)))
	}
	return strings.Join(ps, " ")
}

// ---- enumeration ---------------------------------------------------------------

func mixShapes(tier string) (out []*viaT) {
	both := func(adds ...string) (ls []layerT) {
		for _, a := range adds {
			ls = append(ls, layerT{"both", a})
		}
		return ls
	}
	out = []*viaT{
		{Caller: "two"},
		{Caller: "all", Layers: both("creds+peer")},
		{Caller: "none", Layers: both("creds", "creds+peer")},
		{Caller: "all", Layers: both("creds", "creds+peer")},
	}
	if tier == "thorough" {
		out = append(out,
			&viaT{Caller: "all", Layers: both("creds+peer"), Prepend: true},
			&viaT{Caller: "all", Layers: []layerT{{"matching", "creds+peer"}}},
			&viaT{Caller: "none", Layers: both("creds", "creds+peer"), Prepend: true},
			&viaT{Caller: "all", Layers: both("creds", "creds+peer"), Prepend: true},
			&viaT{Caller: "two", Layers: both("creds+peer")},
		)
	}
	return out
}

func mixSpecs(kinds []string) (out []credSpecT) {
	for _, k := range kinds {
		out = append(out, credSpecT{k, false}, credSpecT{k, true})
	}
	return out
}

// tuples: every assignment of a member of alphabet to n positions.
func specTuples(alphabet []credSpecT, n int) (out [][]credSpecT) {
	if n == 0 {
		return [][]credSpecT{nil}
	}
	for _, rest := range specTuples(alphabet, n-1) {
		for _, a := range alphabet {
			out = append(out, append(append([]credSpecT(nil), rest...), a))
		}
	}
	return out
}

func withEach(v *viaT, order []string, t []credSpecT) *viaT {
	w := *v
	w.Each = map[string]credSpecT{}
	for i, who := range order {
		w.Each[who] = t[i]
	}
	return &w
}

func mixCases(tier string, ref bool) (out []caseT) {
	trs := []string{"inproc", "http-rt", "http-loopback", "https"}
	ops := []string{"unary", "bidi"}
	if tier == "thorough" {
		trs = append(trs, "https-h2")
		ops = append(ops, "server-stream", "client-stream")
	}
	if ref {
		trs = []string{"grpc-go"}
	}
	full := mixSpecs([]string{"one", "own", "empty", "error"})
	small := mixSpecs([]string{"one", "own"})
	for _, v := range mixShapes(tier) {
		order := caseT{Creds: "mixed", Via: v}.credSuppliers()
		alphabet := full
		if len(order) > 2 && tier != "thorough" {
			alphabet = small
		}
		tuples := specTuples(alphabet, len(order))
		for _, t := range trs {
			host := "v4"
			if t == "inproc" || t == "grpc-go" {
				host = ""
			}
			for _, op := range ops {
				for _, cm := range []string{"none", "some"} {
					for _, tu := range tuples {
						out = append(out, caseT{Transport: t, Op: op, Host: host, Creds: "mixed", CallerMD: cm, Via: withEach(v, order, tu)})
					}
				}
			}
		}
	}
	if ref {
		return out
	}
	// the scheme alphabet around a list of two whose members differ in the requirement
	two := &viaT{Caller: "two"}
	for _, sch := range schemeAlphabet {
		for _, op := range ops {
			for _, first := range []bool{false, true} {
				tu := []credSpecT{{"own", first}, {"own", !first}}
				out = append(out, caseT{Transport: "scheme-rt", Scheme: sch, Op: op, Host: "v4", Creds: "mixed", CallerMD: "none", Via: withEach(two, []string{"caller", "caller2"}, tu)})
			}
		}
	}
	return out
}

var mixDimNames = []string{"transport", "scheme", "kind", "caller-md", "credentials-from", "installed", "option-order", "in-effect", "kinds-not-in-effect", "not-in-effect-requiring-security", "target-of"}

func mixDims(c caseT, f finding) [][2]string {
	order := "appended"
	if c.Via.Prepend {
		order = "prepended"
	}
	if len(c.Via.Layers) == 0 {
		order = "no-interceptor"
	}
	about := f.about
	if about == "" {
		about = "n/a"
	}
	scheme := "as-the-transport"
	if isSchemeTransport(c.Transport) {
		scheme = showScheme(c.Scheme)
	}
	winner := c.credWinner()
	eff := "n/a"
	seen := map[string]bool{}
	var others []string
	nOthers, nSecure := 0, 0
	for _, who := range c.credSuppliers() {
		sp, _ := c.specOf(who)
		if who == winner {
			eff = sp.String()
			continue
		}
		nOthers++
		if sp.Require {
			nSecure++
		}
		if !seen[sp.Kind] {
			seen[sp.Kind] = true
			others = append(others, sp.Kind)
		}
	}
	sort.Strings(others)
	requiring := "none"
	switch {
	case nSecure == nOthers:
		requiring = "all"
	case nSecure > 0:
		requiring = "some"
	}
	return [][2]string{{"transport", c.Transport}, {"scheme", scheme}, {"kind", opKind(c.Op)}, {"caller-md", c.CallerMD}, {"credentials-from", strings.Join(c.credSuppliers(), ">")},
		{"installed", c.Via.installedSummary()}, {"option-order", order}, {"in-effect", eff}, {"kinds-not-in-effect", strings.Join(others, "+")}, {"not-in-effect-requiring-security", requiring}, {"target-of", about}}
}

// ---- calibration ---------------------------------------------------------------

// calibrateMixed feeds check() synthetic observations of lists of two
// credentials that differ in the requirement: what conforms has to be accepted,
// the two ways of getting the requirement of a list wrong (the secure
// credential's metadata sent along; the requirement of the one in effect
// forgotten) have to be rejected by the clause that is about them.
func calibrateMixed() (n int, err error) {
	verdicts := func(c caseT, o obsT) map[string]string {
		m := map[string]string{}
		for _, f := range check(c, o) {
			k := f.clause
			if f.about != "" {
				k += "@" + f.about
			}
			m[k] = f.fail
		}
		return m
	}
	expect := func(name string, c caseT, o obsT, want map[string]string, nothingFails bool) error {
		n++
		got := verdicts(c, o)
		for k, w := range want {
			if g, ok := got[k]; !ok || g != w {
				return fmt.Errorf("mixed-credentials calibration %q: clause %s gave %q (evaluated: %v; all: %v), expected %q", name, k, g, ok, got, w)
			}
		}
		if nothingFails {
			for k, g := range got {
				if g != "" {
					return fmt.Errorf("mixed-credentials calibration %q: clause %s failed (%s), nothing should", name, k, g)
				}
			}
		}
		return nil
	}
	obs := func(md metadata.MD) obsT {
		sent := map[string][]string{}
		for k, v := range md {
			sent[k] = v
		}
		return obsT{HandlerRan: 1, Reply: "resp", Requests: 1, HandlerMD: md, Sent: sent, HPeerOK: true, HPeerAddr: "192.0.2.1:1234", Remote: "192.0.2.1:1234",
			BaseURL: "http://192.0.2.9:8080/", wantHost: "192.0.2.9", wantPort: "8080", portGiven: true,
			Suppliers: []supObs{{Who: "caller", Cred: true, Peer: true, PeerSet: true, PeerAddr: "192.0.2.9:8080"}, {Who: "caller2", Cred: true}}}
	}
	refused := obsT{err: fmt.Errorf("transport security is required"), BaseURL: "http://192.0.2.9:8080/"}
	mk := func(tr string, a, b credSpecT) caseT {
		return caseT{Transport: tr, Op: "unary", Host: "v4", Creds: "mixed", CallerMD: "none", Via: withEach(&viaT{Caller: "two"}, []string{"caller", "caller2"}, []credSpecT{a, b})}
	}
	for _, tr := range []string{"http-rt", "http-loopback"} {
		// the first requires security, the second (in effect) does not
		c := mk(tr, credSpecT{"own", true}, credSpecT{"own", false})
		if w := c.credWinner(); w != "caller2" {
			return n, fmt.Errorf("mixed-credentials calibration: credential in effect for %v is %q, expected caller2", c.Via, w)
		}
		if err := expect("secure then open, only the open one's metadata sent", c, obs(metadata.MD{"tok-caller2": {"t1@caller2"}}), map[string]string{clauseNotInEffect: "", "call-succeeds": "", "metadata-merge": ""}, true); err != nil {
			return n, err
		}
		if err := expect("secure then open, both sent", c, obs(metadata.MD{"tok-caller2": {"t1@caller2"}, "tok-caller": {"t1"}}), map[string]string{clauseNotInEffect: "metadata-sent"}, false); err != nil {
			return n, err
		}
		if err := expect("secure then open, refused", c, refused, map[string]string{clauseNotInEffect: ""}, true); err != nil {
			return n, err
		}
		lost := obs(metadata.MD{})
		if err := expect("secure then open, nothing sent", c, lost, map[string]string{clauseNotInEffect: "", "metadata-merge": "key=tok-caller2"}, false); err != nil {
			return n, err
		}
		// same key, the one in effect has an empty map
		c = mk(tr, credSpecT{"one", true}, credSpecT{"empty", false})
		if err := expect("secure then empty, the secure one's metadata sent", c, obs(metadata.MD{"tok": {"t1"}}), map[string]string{clauseNotInEffect: "metadata-sent"}, false); err != nil {
			return n, err
		}
		if err := expect("secure then empty, nothing sent", c, obs(metadata.MD{}), map[string]string{clauseNotInEffect: "", "call-succeeds": ""}, true); err != nil {
			return n, err
		}
		// the second (in effect) requires security
		c = mk(tr, credSpecT{"own", false}, credSpecT{"own", true})
		if err := expect("open then secure, carried", c, obs(metadata.MD{"tok-caller2": {"t1@caller2"}}), map[string]string{"secure-creds-refused-on-insecure-transport": "request-issued"}, false); err != nil {
			return n, err
		}
		if err := expect("open then secure, only the open one's metadata carried", c, obs(metadata.MD{"tok-caller": {"t1"}}), map[string]string{"secure-creds-refused-on-insecure-transport": "request-issued"}, false); err != nil {
			return n, err
		}
		if err := expect("open then secure, refused", c, refused, map[string]string{"secure-creds-refused-on-insecure-transport": ""}, true); err != nil {
			return n, err
		}
		// a credential not in effect fails
		c = mk(tr, credSpecT{"error", false}, credSpecT{"own", false})
		if err := expect("failing then open, carried", c, obs(metadata.MD{"tok-caller2": {"t1@caller2"}}), map[string]string{"call-succeeds": "", "metadata-merge": ""}, true); err != nil {
			return n, err
		}
		if err := expect("failing then open, call failed", c, obsT{err: fmt.Errorf("credential source failed"), BaseURL: "http://192.0.2.9:8080/"}, nil, true); err != nil {
			return n, err
		}
		c = mk(tr, credSpecT{"own", false}, credSpecT{"error", false})
		if err := expect("open then failing, carried", c, obs(metadata.MD{"tok-caller": {"t1"}}), map[string]string{"credential-error-fails-call": "handler-ran"}, false); err != nil {
			return n, err
		}
	}
	// a secure transport carries all of it
	c := mk("https", credSpecT{"own", true}, credSpecT{"own", false})
	o := obs(metadata.MD{"tok-caller2": {"t1@caller2"}, "tok-caller": {"t1"}})
	o.HPeerAuth = "tls"
	o.Suppliers[0].PeerAuth = "tls"
	if err := expect("secure then open on https, both sent", c, o, map[string]string{"call-succeeds": "", "metadata-merge": ""}, true); err != nil {
		return n, err
	}
	if got := verdicts(c, o); got[clauseNotInEffect] != "" {
		return n, fmt.Errorf("mixed-credentials calibration: the not-in-effect clause fails on https")
	}
	return n, nil
}
