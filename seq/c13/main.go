// C13: per-RPC credentials never cross an insecure transport; their metadata is
// merged with the caller's; the peer (address, and TLS info under TLS) is
// reported to the peer call option and to the handler, unary and streaming.
//
// Bounded-exhaustive over {in-process, http via recorder RoundTripper, http on
// loopback, https on loopback (httptest.NewTLSServer, its own client
// transport)} x credentials {absent, RequireTransportSecurity x metadata {nil,
// {}, one key, overlapping key, both, error}} x caller metadata {absent, with
// an overlapping multi-valued set} x {unary, streaming} x peer option x header
// option.
package main

import (
	"context"
	"errors"
	"fmt"
	"io"
	"log"
	"net"
	"net/http"
	"net/http/httptest"
	"net/url"
	"os"
	"runtime/debug"
	"sort"
	"strings"
	"sync"
	"sync/atomic"
	"time"

	"github.com/fullstorydev/grpchan/httpgrpc"
	"github.com/fullstorydev/grpchan/inprocgrpc"
	"google.golang.org/grpc"
	"google.golang.org/grpc/credentials"
	"google.golang.org/grpc/credentials/insecure"
	"google.golang.org/grpc/metadata"
	"google.golang.org/grpc/peer"
	"google.golang.org/grpc/test/bufconn"
	"google.golang.org/protobuf/types/known/wrapperspb"

	"verif/seq/common"
	"verif/vlib"
)

// ---- case ------------------------------------------------------------------

type caseT struct {
	Transport string `json:"transport"`      // inproc | http-rt | http-loopback | https | https-h2 | (grpc-go reference, internal)
	Op        string `json:"op"`             // unary | bidi | server-stream | client-stream
	Host      string `json:"host,omitempty"` // how the base URL names the server: v4 | v4-noport | v6 | v6-long | v6-noport (HTTP transports only)
	Creds     string `json:"creds"`          // none | nil | empty | one | overlap | both | error
	Require   bool   `json:"require_transport_security"`
	CallerMD  string `json:"caller_md"` // none | some
	PeerOpt   bool   `json:"peer_option"`
	HdrOpt    bool   `json:"header_option"`
	Reject    string `json:"reject,omitempty"` // "" | unknown-method (404 from the server) | front-503 (a front handler sheds the request)
}

func credMD(kind string) (map[string]string, error) {
	switch kind {
	case "nil":
		return nil, nil
	case "empty":
		return map[string]string{}, nil
	case "one":
		return map[string]string{"tok": "t1"}, nil
	case "overlap":
		return map[string]string{"shared": "cred-v"}, nil
	case "both":
		return map[string]string{"tok": "t1", "shared": "cred-v"}, nil
	case "error":
		return nil, errors.New("credential source failed")
	}
	panic("bad cred kind " + kind)
}

func callerMD(kind string) metadata.MD {
	if kind == "some" {
		return metadata.MD{"a": {"1", "2"}, "shared": {"caller-v"}}
	}
	return nil
}

type cred struct {
	kind     string
	require  bool
	nRequire int64
	nGet     int64
	uri      atomic.Value
}

func (c *cred) GetRequestMetadata(ctx context.Context, uri ...string) (map[string]string, error) {
	atomic.AddInt64(&c.nGet, 1)
	c.uri.Store(strings.Join(uri, ","))
	return credMD(c.kind)
}
func (c *cred) RequireTransportSecurity() bool {
	atomic.AddInt64(&c.nRequire, 1)
	return c.require
}

// ---- server side: what the handler saw ------------------------------------

type seen struct {
	mu      sync.Mutex
	n       int
	md      metadata.MD
	peerOK  bool
	addr    string
	addrNil bool
	auth    string // "", "tls", "tls-incomplete", or the AuthType of something else
}

func authKind(ai credentials.AuthInfo) string {
	switch t := ai.(type) {
	case nil:
		return ""
	case credentials.TLSInfo:
		if t.State.HandshakeComplete {
			return "tls"
		}
		return "tls-incomplete"
	case *credentials.TLSInfo:
		if t != nil && t.State.HandshakeComplete {
			return "tls"
		}
		return "tls-incomplete"
	default:
		return "other:" + ai.AuthType()
	}
}

func (s *seen) record(ctx context.Context) {
	s.mu.Lock()
	defer s.mu.Unlock()
	s.n++
	md, _ := metadata.FromIncomingContext(ctx)
	s.md = md.Copy()
	p, ok := peer.FromContext(ctx)
	s.peerOK = ok
	if ok {
		if p.Addr == nil {
			s.addrNil = true
		} else {
			s.addr = p.Addr.String()
		}
		s.auth = authKind(p.AuthInfo)
	}
}

func service(s *seen) *grpc.ServiceDesc {
	stream := func(clientStreams bool) common.StreamFn {
		return func(str grpc.ServerStream) error {
			s.record(str.Context())
			_ = str.SetHeader(metadata.Pairs("hdr", "v"))
			for {
				var in wrapperspb.StringValue
				err := str.RecvMsg(&in)
				if err == io.EOF {
					break
				}
				if err != nil {
					return err
				}
				if !clientStreams {
					break
				}
			}
			return str.SendMsg(wrapperspb.String("resp"))
		}
	}
	svc := &common.Svc{Name: "t.S",
		Unary: map[string]common.UnaryFn{"U": func(ctx context.Context, dec func(interface{}) error) (interface{}, error) {
			s.record(ctx)
			_ = grpc.SetHeader(ctx, metadata.Pairs("hdr", "v"))
			var in wrapperspb.StringValue
			if err := dec(&in); err != nil {
				return nil, err
			}
			return wrapperspb.String("resp"), nil
		}},
		Streams: map[string]common.StreamDef{
			"B":  {Fn: stream(true), ClientStreams: true, ServerStreams: true},
			"SS": {Fn: stream(false), ServerStreams: true},
			"CS": {Fn: stream(true), ClientStreams: true},
		}}
	return svc.Desc()
}

// ---- transports ------------------------------------------------------------

type countRT struct {
	inner http.RoundTripper
	n     int64
}

func (c *countRT) RoundTrip(r *http.Request) (*http.Response, error) {
	atomic.AddInt64(&c.n, 1)
	return c.inner.RoundTrip(r)
}

// env holds the loopback servers, shared by all cases; the httpgrpc.Server
// behind them is swapped per case.
type env struct {
	mu         sync.Mutex
	cur        http.Handler
	lastRemote string
	lastTLS    bool
	servers    map[string]*httptest.Server
}

func (e *env) ServeHTTP(w http.ResponseWriter, r *http.Request) {
	e.mu.Lock()
	h := e.cur
	e.lastRemote = r.RemoteAddr
	e.lastTLS = r.TLS != nil
	e.mu.Unlock()
	h.ServeHTTP(w, r)
}

// connections abandoned when a case's transport is closed are not news
var quiet = log.New(io.Discard, "", 0)

func (e *env) server(kind string) *httptest.Server {
	if s := e.servers[kind]; s != nil {
		return s
	}
	var s *httptest.Server
	switch kind {
	case "http-loopback":
		s = httptest.NewUnstartedServer(e)
		s.Config.ErrorLog = quiet
		s.Start()
	case "https":
		s = httptest.NewUnstartedServer(e)
		s.Config.ErrorLog = quiet
		s.StartTLS()
	case "https-h2":
		s = httptest.NewUnstartedServer(e)
		s.Config.ErrorLog = quiet
		s.EnableHTTP2 = true
		s.StartTLS()
	}
	if e.servers == nil {
		e.servers = map[string]*httptest.Server{}
	}
	e.servers[kind] = s
	return s
}

// hostFor spells the server's address in the base URL. The IPv6 spellings do
// not need an IPv6 interface: the transport dials the real listener whatever
// the URL says (or there is no network at all, http-rt).
func hostFor(kind, ip4, port string) string {
	switch kind {
	case "", "v4":
		return ip4 + ":" + port
	case "v4-noport":
		return ip4
	case "v6":
		return "[::1]:" + port
	case "v6-long":
		return "[0:0:0:0:0:0:0:1]:" + port
	case "v6-noport":
		return "[::1]"
	}
	panic("bad host kind " + kind)
}

func (o *obsT) setWant(u *url.URL) {
	o.BaseURL = u.String()
	o.wantHost, o.wantPort = u.Hostname(), u.Port()
	o.portGiven = o.wantPort != ""
	if !o.portGiven {
		o.wantPort = map[string]string{"http": "80", "https": "443"}[u.Scheme]
	}
}

type obsT struct {
	Err        string      `json:"err,omitempty"`
	Requests   int64       `json:"http_requests"`
	HandlerRan int         `json:"handler_ran"`
	HandlerMD  metadata.MD `json:"handler_md,omitempty"`
	HPeerOK    bool        `json:"handler_peer_present"`
	HPeerAddr  string      `json:"handler_peer_addr,omitempty"`
	HPeerAuth  string      `json:"handler_peer_auth,omitempty"`
	Remote     string      `json:"server_saw_remote_addr,omitempty"`
	CPeerSet   bool        `json:"client_peer_set"`
	CPeerAddr  string      `json:"client_peer_addr,omitempty"`
	CPeerAuth  string      `json:"client_peer_auth,omitempty"`
	BaseURL    string      `json:"base_url,omitempty"`
	wantHost   string
	wantPort   string
	portGiven  bool
	CredCalls  [2]int64 `json:"cred_calls_require_get"`
	CredURI    string   `json:"cred_uri,omitempty"`
	Panic      string   `json:"panic,omitempty"`
	Reply      string   `json:"reply,omitempty"`
	hPeerNil   bool
	err        error
}

func opDesc(op string) (string, *grpc.StreamDesc) {
	switch op {
	case "bidi":
		return "/t.S/B", &grpc.StreamDesc{StreamName: "B", ClientStreams: true, ServerStreams: true}
	case "server-stream":
		return "/t.S/SS", &grpc.StreamDesc{StreamName: "SS", ServerStreams: true}
	case "client-stream":
		return "/t.S/CS", &grpc.StreamDesc{StreamName: "CS", ClientStreams: true}
	}
	return "/t.S/U", nil
}

func run(e *env, c caseT) obsT { return runCtx(e, c, nil) }

// runCtx runs one call; base, when given, is the caller's context (sequences
// share one), else it is made from c.CallerMD.
func runCtx(e *env, c caseT, base context.Context) (o obsT) {
	front := func(h http.Handler) http.Handler {
		if c.Reject == "front-503" {
			return http.HandlerFunc(func(w http.ResponseWriter, r *http.Request) {
				http.Error(w, "shedding load", http.StatusServiceUnavailable)
			})
		}
		return h
	}
	s := &seen{}
	desc := service(s)
	var cc grpc.ClientConnInterface
	var crt *countRT
	var cleanup func()
	switch c.Transport {
	case "inproc":
		ch := &inprocgrpc.Channel{}
		ch.RegisterService(desc, common.Impl{})
		cc = ch
	case "http-rt":
		srv := httpgrpc.NewServer()
		srv.RegisterService(desc, common.Impl{})
		crt = &countRT{inner: common.HandlerRT(http.HandlerFunc(func(w http.ResponseWriter, r *http.Request) {
			e.mu.Lock()
			e.lastRemote = r.RemoteAddr
			e.mu.Unlock()
			front(srv).ServeHTTP(w, r)
		}))}
		u, err := url.Parse("http://" + hostFor(c.Host, "192.0.2.9", "8080") + "/")
		if err != nil {
			o.Panic = "checker: " + err.Error()
			return
		}
		o.setWant(u)
		cc = &httpgrpc.Channel{Transport: crt, BaseURL: u}
	case "http-loopback", "https", "https-h2":
		srv := httpgrpc.NewServer()
		srv.RegisterService(desc, common.Impl{})
		e.mu.Lock()
		e.cur = front(srv)
		e.lastRemote = ""
		e.mu.Unlock()
		ts := e.server(c.Transport)
		tr := ts.Client().Transport
		if t, ok := tr.(*http.Transport); ok {
			t.CloseIdleConnections() // every case gets its own connection (and handshake)
		}
		realAddr := ts.Listener.Addr().String()
		ip4, port, _ := net.SplitHostPort(realAddr)
		scheme := ts.URL[:strings.Index(ts.URL, "://")]
		if c.Host != "" && c.Host != "v4" {
			// same client configuration (root CAs, HTTP/2 setting), but the dialer
			// goes to the real listener whatever host the URL names
			t2 := tr.(*http.Transport).Clone()
			t2.DialContext = func(ctx context.Context, _, _ string) (net.Conn, error) {
				var d net.Dialer
				return d.DialContext(ctx, "tcp", realAddr)
			}
			tr = t2
			cleanup = t2.CloseIdleConnections
		}
		crt = &countRT{inner: tr}
		u, err := url.Parse(scheme + "://" + hostFor(c.Host, ip4, port) + "/")
		if err != nil {
			o.Panic = "checker: " + err.Error()
			return
		}
		o.setWant(u)
		cc = &httpgrpc.Channel{Transport: crt, BaseURL: u}
	case "grpc-go":
		lis := bufconn.Listen(1 << 16)
		gs := grpc.NewServer()
		gs.RegisterService(desc, common.Impl{})
		go gs.Serve(lis)
		conn, err := grpc.Dial("bufnet", grpc.WithContextDialer(func(ctx context.Context, _ string) (net.Conn, error) { return lis.DialContext(ctx) }),
			grpc.WithTransportCredentials(insecure.NewCredentials()))
		if err != nil {
			o.err = err
			o.Err = err.Error()
			return
		}
		cc = conn
		cleanup = func() { conn.Close(); gs.Stop() }
	default:
		o.Panic = "checker: unknown transport " + c.Transport
		return
	}
	if cleanup != nil {
		defer cleanup()
	}

	if base == nil {
		base = context.Background()
		if md := callerMD(c.CallerMD); md != nil {
			base = metadata.NewOutgoingContext(base, md)
		}
	}
	ctx, cancel := context.WithCancel(base)
	defer cancel()
	var opts []grpc.CallOption
	var cr *cred
	if c.Creds != "none" {
		cr = &cred{kind: c.Creds, require: c.Require}
		opts = append(opts, grpc.PerRPCCredentials(cr))
	}
	var pr peer.Peer
	if c.PeerOpt {
		opts = append(opts, grpc.Peer(&pr))
	}
	var hdr metadata.MD
	if c.HdrOpt {
		opts = append(opts, grpc.Header(&hdr))
	}

	func() {
		defer func() {
			if p := recover(); p != nil {
				o.Panic = fmt.Sprint(p)
			}
		}()
		name, sd := opDesc(c.Op)
		if c.Reject == "unknown-method" {
			name = "/t.S/Nope"
		}
		if sd == nil {
			var out wrapperspb.StringValue
			o.err = cc.Invoke(ctx, name, wrapperspb.String("req"), &out, opts...)
			o.Reply = out.Value
			return
		}
		cs, err := cc.NewStream(ctx, sd, name, opts...)
		if err != nil {
			o.err = err
			return
		}
		sendErr := cs.SendMsg(wrapperspb.String("req"))
		if sd.ClientStreams && sendErr == nil {
			sendErr = cs.SendMsg(wrapperspb.String("req2"))
		}
		_ = cs.CloseSend()
		var out wrapperspb.StringValue
		if err := cs.RecvMsg(&out); err != nil {
			if err == io.EOF {
				err = fmt.Errorf("stream ended without a response message (send error: %v)", sendErr)
			}
			o.err = err
			return
		}
		o.Reply = out.Value
		if sd.ServerStreams {
			var out2 wrapperspb.StringValue
			if err := cs.RecvMsg(&out2); err != io.EOF {
				if err == nil {
					err = errors.New("unexpected second response message")
				}
				o.err = err
			}
		}
	}()

	if o.err != nil {
		o.Err = o.err.Error()
	}
	if crt != nil {
		o.Requests = atomic.LoadInt64(&crt.n)
	}
	s.mu.Lock()
	o.HandlerRan, o.HandlerMD, o.HPeerOK, o.HPeerAddr, o.HPeerAuth, o.hPeerNil = s.n, s.md, s.peerOK, s.addr, s.auth, s.addrNil
	s.mu.Unlock()
	e.mu.Lock()
	o.Remote = e.lastRemote
	e.mu.Unlock()
	if c.PeerOpt {
		if pr.Addr != nil {
			o.CPeerSet = true
			o.CPeerAddr = pr.Addr.String()
		}
		o.CPeerAuth = authKind(pr.AuthInfo)
	}
	if cr != nil {
		o.CredCalls = [2]int64{atomic.LoadInt64(&cr.nRequire), atomic.LoadInt64(&cr.nGet)}
		o.CredURI, _ = cr.uri.Load().(string)
	}
	return o
}

// ---- oracle ----------------------------------------------------------------

type finding struct {
	clause string // the oracle clause that was applicable
	fail   string // "" = held, else a short stable description of how it failed
	detail string
}

func isHTTP(t string) bool { return t == "http-rt" || t == "http-loopback" }
func isTLS(t string) bool  { return t == "https" || t == "https-h2" }

// wantMD is what the handler has to find at least (multiset per key).
func wantMD(c caseT) map[string][]string {
	w := map[string][]string{}
	for k, vs := range callerMD(c.CallerMD) {
		w[k] = append(w[k], vs...)
	}
	if c.Creds != "none" {
		m, _ := credMD(c.Creds)
		for k, v := range m {
			w[k] = append(w[k], v)
		}
	}
	return w
}

func containsAll(have, want []string) bool {
	h := map[string]int{}
	for _, v := range have {
		h[v]++
	}
	for _, v := range want {
		if h[v] == 0 {
			return false
		}
		h[v]--
	}
	return true
}

func check(c caseT, o obsT) (fs []finding) {
	if o.Panic != "" {
		return []finding{{"no-panic", "panic", o.Panic}}
	}
	insecure := isHTTP(c.Transport) || c.Transport == "grpc-go"
	if c.Reject != "" {
		f := finding{clause: "rejected-call-fails"}
		if o.err == nil || o.HandlerRan > 0 {
			f.fail, f.detail = "not-rejected", fmt.Sprintf("the server answered with an error status (%s), yet err=%v, handler ran %d time(s)", c.Reject, o.err, o.HandlerRan)
		}
		fs = append(fs, f)
		if o.Requests > 0 {
			// a response was received: the peer is known, whatever the status
			fs = append(fs, peerOptFindings(c, o, "-on-rejected-call")...)
		}
		return fs
	}
	switch {
	case c.Creds != "none" && c.Require && insecure:
		// "the call fails before any request is issued"
		f := finding{clause: "secure-creds-refused-on-insecure-transport"}
		switch {
		case o.Requests > 0 || o.HandlerRan > 0:
			f.fail = "request-issued"
			f.detail = fmt.Sprintf("credentials require transport security, base URL is http, yet %d HTTP request(s) left the client (handler ran %d time(s)); err=%v", o.Requests, o.HandlerRan, o.err)
		case o.err == nil:
			f.fail = "call-succeeded"
			f.detail = "no request issued but the call reported success"
		}
		return append(fs, f)
	case c.Creds == "error":
		f := finding{clause: "credential-error-fails-call"}
		switch {
		case o.HandlerRan > 0:
			f.fail = "handler-ran"
			f.detail = fmt.Sprintf("the credential returned an error, yet the handler ran (err=%v)", o.err)
		case o.err == nil:
			f.fail = "call-succeeded"
			f.detail = "the credential returned an error, yet the call reported success"
		}
		return append(fs, f)
	case c.Creds != "none" && c.Require && c.Transport == "inproc" && o.err != nil && o.HandlerRan == 0:
		// in-process counts as secure in the library; refusing instead would not
		// contradict the statement. Nothing to check.
		return nil
	}
	// the call has to work
	f := finding{clause: "call-succeeds"}
	if o.err != nil || o.HandlerRan != 1 || o.Reply != "resp" {
		f.fail = "failed"
		f.detail = fmt.Sprintf("err=%v handler ran %d time(s) reply=%q", o.err, o.HandlerRan, o.Reply)
		return append(fs, f)
	}
	fs = append(fs, f)

	// metadata merge
	want := wantMD(c)
	if len(want) > 0 {
		f := finding{clause: "metadata-merge"}
		var keys []string
		for k := range want {
			keys = append(keys, k)
		}
		sort.Strings(keys)
		for _, k := range keys {
			if !containsAll(o.HandlerMD[k], want[k]) {
				f.fail = "key=" + k
				f.detail = fmt.Sprintf("handler saw %q=%q, needs all of %q (caller metadata %v, credential metadata kind %q)", k, o.HandlerMD[k], want[k], callerMD(c.CallerMD), c.Creds)
				break
			}
		}
		fs = append(fs, f)
	}

	// handler's peer
	f = finding{clause: "handler-peer-address"}
	switch {
	case !o.HPeerOK:
		f.fail, f.detail = "absent", "peer.FromContext in the handler found nothing"
	case o.hPeerNil || o.HPeerAddr == "":
		f.fail, f.detail = "no-address", "handler's peer has no address"
	case (isHTTP(c.Transport) || isTLS(c.Transport)) && o.HPeerAddr != o.Remote:
		f.fail, f.detail = "address-mismatch", fmt.Sprintf("handler's peer address %q, the HTTP server saw the request from %q", o.HPeerAddr, o.Remote)
	}
	fs = append(fs, f)
	if isTLS(c.Transport) {
		f = finding{clause: "handler-peer-tls-info"}
		if o.HPeerAuth != "tls" {
			f.fail, f.detail = "no-tls-authinfo", fmt.Sprintf("connection uses TLS but the handler's peer AuthInfo is %q", o.HPeerAuth)
		}
		fs = append(fs, f)
	}

	fs = append(fs, peerOptFindings(c, o, "")...)
	return fs
}

// peerOptFindings: what the grpc.Peer target has to hold once the call is over.
func peerOptFindings(c caseT, o obsT, suffix string) (fs []finding) {
	var f finding
	if c.PeerOpt {
		f = finding{clause: "client-peer-address" + suffix}
		switch {
		case !o.CPeerSet || o.CPeerAddr == "":
			f.fail, f.detail = "unset", "the grpc.Peer target has no address after the call completed"
		case o.wantHost != "":
			// the address has to split into the base URL's host and port; when the
			// URL names no port, an address without a port (the URL's host as
			// written) is accepted as well as host:default-port
			h, p, err := net.SplitHostPort(o.CPeerAddr)
			switch {
			case err == nil && (h != o.wantHost || p != o.wantPort):
				f.fail, f.detail = "address-mismatch", fmt.Sprintf("grpc.Peer target address %q = host %q port %q, base URL %s names host %q port %q", o.CPeerAddr, h, p, o.BaseURL, o.wantHost, o.wantPort)
			case err != nil && !(!o.portGiven && (o.CPeerAddr == o.wantHost || o.CPeerAddr == "["+o.wantHost+"]")):
				f.fail, f.detail = "malformed-address", fmt.Sprintf("grpc.Peer target address %q does not split into host and port (%v); base URL %s names host %q port %q", o.CPeerAddr, err, o.BaseURL, o.wantHost, o.wantPort)
			}
		}
		fs = append(fs, f)
		if isTLS(c.Transport) {
			f = finding{clause: "client-peer-tls-info" + suffix}
			if o.CPeerAuth != "tls" {
				f.fail, f.detail = "no-tls-authinfo", fmt.Sprintf("connection uses TLS but the grpc.Peer target's AuthInfo is %q (want credentials.TLSInfo of the completed handshake)", o.CPeerAuth)
			}
			fs = append(fs, f)
		}
	}
	return fs
}

// ---- enumeration -----------------------------------------------------------

func cases(tier string) []caseT {
	trs := []string{"inproc", "http-rt", "http-loopback", "https"}
	ops := []string{"unary", "bidi"}
	if tier == "thorough" {
		trs = append(trs, "https-h2")
		ops = append(ops, "server-stream", "client-stream")
	}
	type cr struct {
		kind string
		req  bool
	}
	crs := []cr{{"none", false}}
	for _, k := range []string{"nil", "empty", "one", "overlap", "both", "error"} {
		crs = append(crs, cr{k, false}, cr{k, true})
	}
	var out []caseT
	for _, t := range trs {
		hosts := []string{""}
		if t != "inproc" {
			hosts = []string{"v4", "v4-noport", "v6", "v6-long", "v6-noport"}
		}
		for _, host := range hosts {
			for _, op := range ops {
				for _, cred := range crs {
					for _, cm := range []string{"none", "some"} {
						for _, po := range []bool{false, true} {
							for _, ho := range []bool{false, true} {
								out = append(out, caseT{Transport: t, Op: op, Host: host, Creds: cred.kind, Require: cred.req, CallerMD: cm, PeerOpt: po, HdrOpt: ho})
							}
						}
					}
				}
			}
		}
	}
	// rejected calls: a response comes back, but not from a handler
	for _, t := range trs {
		if t == "inproc" {
			continue
		}
		for _, host := range []string{"v4", "v6"} {
			for _, op := range ops {
				for _, rej := range []string{"unknown-method", "front-503"} {
					for _, cr := range []string{"none", "both"} {
						for _, ho := range []bool{false, true} {
							out = append(out, caseT{Transport: t, Op: op, Host: host, Creds: cr, CallerMD: "none", PeerOpt: true, HdrOpt: ho, Reject: rej})
						}
					}
				}
			}
		}
	}
	return out
}

// ---- sequences of calls on one caller context ------------------------------

type seqT struct {
	CallerCtx string  `json:"caller_ctx"` // new: metadata.NewOutgoingContext(md) | new+append: NewOutgoingContext then AppendToOutgoingContext
	Steps     []caseT `json:"steps"`
}

var mdUniverse = []string{"a", "shared", "tok"}

func seqContext(kind string) (context.Context, metadata.MD, metadata.MD) {
	if kind == "new+append" {
		md := metadata.MD{"shared": {"caller-v"}}
		ctx := metadata.NewOutgoingContext(context.Background(), md)
		return metadata.AppendToOutgoingContext(ctx, "a", "1", "a", "2"), md, md.Copy()
	}
	md := callerMD("some")
	return metadata.NewOutgoingContext(context.Background(), md), md, md.Copy()
}

type seqFinding struct {
	finding
	step int
}

func sameMD(a, b metadata.MD) bool {
	if len(a) != len(b) {
		return false
	}
	for k, v := range a {
		if strings.Join(v, "\x00") != strings.Join(b[k], "\x00") || len(v) != len(b[k]) {
			return false
		}
	}
	return true
}

func runSeq(e *env, q seqT) (obs []obsT, fs []seqFinding) {
	ctx, md, orig := seqContext(q.CallerCtx)
	mutated := false
	for i, c := range q.Steps {
		c.CallerMD = "some"
		o := guardedCtx(e, c, ctx)
		obs = append(obs, o)
		for _, f := range check(c, o) {
			fs = append(fs, seqFinding{f, i})
		}
		if o.HandlerRan == 1 && o.err == nil {
			f := finding{clause: "metadata-exact-in-sequence"}
			want := wantMD(c)
			for _, k := range mdUniverse {
				have, w := append([]string(nil), o.HandlerMD[k]...), append([]string(nil), want[k]...)
				sort.Strings(have)
				sort.Strings(w)
				if strings.Join(have, "\x00") != strings.Join(w, "\x00") || len(have) != len(w) {
					f.fail = "key=" + k
					f.detail = fmt.Sprintf("call %d of the sequence (%s %s creds=%s): handler saw %q=%q, exactly %q expected (caller metadata + this call's credential metadata)", i+1, c.Transport, c.Op, c.Creds, k, o.HandlerMD[k], want[k])
					break
				}
			}
			fs = append(fs, seqFinding{f, i})
		}
		f := finding{clause: "caller-md-unchanged"}
		if !mutated && !sameMD(md, orig) {
			mutated = true
			f.fail = "mutated"
			f.detail = fmt.Sprintf("after call %d (%s %s creds=%s) the metadata.MD the caller put into its context is %v, was %v", i+1, c.Transport, c.Op, c.Creds, md, orig)
		}
		fs = append(fs, seqFinding{f, i})
	}
	return obs, fs
}

func seqFingerprint(q seqT, f seqFinding) string {
	c := q.Steps[f.step]
	earlier := "no-creds"
	for _, p := range q.Steps[:f.step] {
		if p.Creds != "none" {
			earlier = "creds"
		}
	}
	// the op and the require flag of the failing call are collapsed: what
	// matters is its transport, whether it had credentials and what preceded
	cr := "none"
	if c.Creds != "none" {
		cr = "yes"
	}
	return fmt.Sprintf("C13|seq|ctx=%s|%s|%s|call=%s/creds=%s|earlier-calls=%s", q.CallerCtx, f.clause, f.fail, c.Transport, cr, earlier)
}

func seqs(tier string, ref bool) []seqT {
	trs := []string{"inproc", "http-rt", "https"}
	if tier == "thorough" {
		trs = append(trs, "http-loopback", "https-h2")
	}
	if ref {
		trs = []string{"grpc-go"}
	}
	var steps []caseT
	for _, t := range trs {
		for _, op := range []string{"unary", "bidi"} {
			steps = append(steps, caseT{Transport: t, Op: op, Creds: "none"}, caseT{Transport: t, Op: op, Creds: "both"}, caseT{Transport: t, Op: op, Creds: "both", Require: true})
		}
	}
	var out []seqT
	for _, k := range []string{"new", "new+append"} {
		for _, a := range steps {
			for _, b := range steps {
				out = append(out, seqT{CallerCtx: k, Steps: []caseT{a, b}})
			}
		}
	}
	if tier == "thorough" {
		var small []caseT
		for _, st := range steps {
			if st.Transport == "inproc" || st.Transport == "http-rt" || st.Transport == "https" || ref {
				small = append(small, st)
			}
		}
		for _, a := range small {
			for _, b := range small {
				for _, c := range small {
					out = append(out, seqT{CallerCtx: "new", Steps: []caseT{a, b, c}})
				}
			}
		}
	}
	return out
}

// dims are the case parameters a fingerprint collapses when the clause fails
// for every value of them for which it was evaluated.
func dims(c caseT) [][2]string {
	creds := c.Creds
	if c.Creds != "none" {
		creds = fmt.Sprintf("%s/require=%v", c.Creds, c.Require)
	}
	return [][2]string{{"reject", c.Reject}, {"host", c.Host}, {"creds", creds}, {"caller-md", c.CallerMD}, {"peer-opt", fmt.Sprint(c.PeerOpt)}, {"hdr-opt", fmt.Sprint(c.HdrOpt)}}
}

func guarded(e *env, c caseT) obsT { return guardedCtx(e, c, nil) }

func guardedCtx(e *env, c caseT, base context.Context) obsT {
	ch := make(chan obsT, 1)
	go func() { ch <- runCtx(e, c, base) }()
	select {
	case o := <-ch:
		return o
	case <-time.After(30 * time.Second):
		fmt.Fprintf(os.Stderr, "INCONCLUSIVE: case %+v did not complete within 30 s\n", c)
		os.Exit(2)
	}
	panic("unreachable")
}

func main() {
	debug.SetMemoryLimit(3 << 30)
	rep := vlib.NewReporter("C13")
	e := &env{}

	if p := common.Arg("replay"); p != "" {
		var q seqT
		if err := common.LoadReplay(p, &q); err == nil && len(q.Steps) > 0 {
			obs, fs := runSeq(e, q)
			fmt.Printf("replay: sequence on one context (%s)\n", q.CallerCtx)
			bad := false
			for i, o := range obs {
				fmt.Printf("  call %d %+v\n    observed: err=%q requests=%d handler ran=%d handler md=%v\n", i+1, q.Steps[i], o.Err, o.Requests, o.HandlerRan, o.HandlerMD)
				for _, f := range fs {
					if f.step == i && f.fail != "" {
						fmt.Printf("    clause %s: FAILED %s: %s\n", f.clause, f.fail, f.detail)
						bad = true
					}
				}
			}
			if bad {
				fmt.Printf("VIOLATION property=C13 replay=%s\n", p)
				os.Exit(1)
			}
			os.Exit(0)
		}
		var c caseT
		if err := common.LoadReplay(p, &c); err != nil {
			fmt.Fprintln(os.Stderr, "INCONCLUSIVE:", err)
			os.Exit(2)
		}
		o := guarded(e, c)
		fmt.Printf("replay: case=%+v\n  observed: %+v\n", c, o)
		bad := false
		for _, f := range check(c, o) {
			v := "held"
			if f.fail != "" {
				v = "FAILED " + f.fail + ": " + f.detail
				bad = true
			}
			fmt.Printf("  clause %s: %s\n", f.clause, v)
		}
		if bad {
			fmt.Printf("VIOLATION property=C13 replay=%s\n", p)
			os.Exit(1)
		}
		os.Exit(0)
	}

	// thorough: the oracle itself has to accept what grpc-go does (insecure
	// transport over bufconn) on the same credential/metadata/peer grammar.
	refRuns := 0
	if rep.Tier == "thorough" {
		for _, c := range cases("thorough") {
			if c.Transport != "inproc" || c.Reject != "" {
				continue
			}
			c.Transport, c.Host = "grpc-go", ""
			o := guarded(e, c)
			refRuns++
			for _, f := range check(c, o) {
				if f.fail != "" {
					fmt.Fprintf(os.Stderr, "INCONCLUSIVE: the oracle rejects grpc-go's own behaviour on %+v: %s %s: %s\n", c, f.clause, f.fail, f.detail)
					os.Exit(2)
				}
			}
		}
	}

	if rep.Tier == "thorough" {
		for _, q := range seqs("thorough", true) {
			_, fs := runSeq(e, q)
			refRuns++
			for _, f := range fs {
				if f.fail != "" {
					fmt.Fprintf(os.Stderr, "INCONCLUSIVE: the oracle rejects grpc-go's own behaviour on sequence %+v: %s %s: %s\n", q, f.clause, f.fail, f.detail)
					os.Exit(2)
				}
			}
		}
	}

	type group struct {
		first   caseT
		detail  string
		failing []map[string]bool
		order   int
	}
	applicable := map[string][]map[string]bool{} // transport|op|clause -> per dim the values evaluated
	groups := map[string]*group{}                // transport|op|clause|fail
	distinct := map[string]bool{}
	clauseCount := map[string]int{}
	var samples []interface{}
	sampled := map[string]bool{}
	evals := 0
	all := cases(rep.Tier)
	for _, c := range all {
		o := guarded(e, c)
		evals++
		if o.CredCalls[0]+o.CredCalls[1] > 0 || o.CPeerSet || isTLS(c.Transport) {
			distinct[fmt.Sprintf("%+v", c)] = true
		}
		fs := check(c, o)
		ds := dims(c)
		for _, f := range fs {
			ak := c.Transport + "|" + c.Op + "|" + f.clause
			clauseCount[f.clause]++
			if applicable[ak] == nil {
				applicable[ak] = make([]map[string]bool, len(ds))
				for i := range ds {
					applicable[ak][i] = map[string]bool{}
				}
			}
			for i, d := range ds {
				applicable[ak][i][d[1]] = true
			}
			if f.fail == "" {
				continue
			}
			gk := ak + "|" + f.fail
			g := groups[gk]
			if g == nil {
				g = &group{first: c, detail: f.detail, order: len(groups), failing: make([]map[string]bool, len(ds))}
				for i := range ds {
					g.failing[i] = map[string]bool{}
				}
				groups[gk] = g
			}
			for i, d := range ds {
				g.failing[i][d[1]] = true
			}
		}
		sk := c.Transport + "|" + c.Op
		if !sampled[sk] && c.Creds == "both" && c.CallerMD == "some" && c.PeerOpt {
			sampled[sk] = true
			samples = append(samples, map[string]interface{}{"case": c, "observed": o})
		}
	}

	var gks []string
	for k := range groups {
		gks = append(gks, k)
	}
	sort.Slice(gks, func(i, j int) bool { return groups[gks[i]].order < groups[gks[j]].order })
	names := []string{"reject", "host", "creds", "caller-md", "peer-opt", "hdr-opt"}
	for _, gk := range gks {
		g := groups[gk]
		ak := gk[:strings.LastIndex(gk, "|")]
		fp := "C13|" + gk
		scope := ""
		for i, n := range names {
			if len(g.failing[i]) == len(applicable[ak][i]) {
				continue // fails for every value of this parameter the clause was evaluated with
			}
			var vs []string
			for v := range g.failing[i] {
				vs = append(vs, v)
			}
			sort.Strings(vs)
			fp += "|" + n + "=" + strings.Join(vs, ",")
			scope += fmt.Sprintf(" only for %s in {%s};", n, strings.Join(vs, ","))
		}
		if scope == "" {
			scope = " for every host spelling / credential / caller-metadata / option combination the clause applies to"
		}
		rep.Violation(fp, g.detail+" —"+scope+fmt.Sprintf(" first case %+v", g.first), g.first)
	}

	// sequences of calls sharing the caller's context
	nSeq, nSeqCalls := 0, 0
	for _, q := range seqs(rep.Tier, false) {
		obs, fs := runSeq(e, q)
		nSeq++
		nSeqCalls += len(obs)
		evals++
		withCreds := false
		for _, st := range q.Steps {
			withCreds = withCreds || st.Creds != "none"
		}
		if withCreds {
			distinct[fmt.Sprintf("%+v", q)] = true
		}
		for _, f := range fs {
			clauseCount[f.clause]++
			if f.fail != "" {
				rep.Violation(seqFingerprint(q, f), f.detail, q)
			}
		}
		if nSeq == 200 {
			samples = append(samples, map[string]interface{}{"sequence": q, "observed": obs})
		}
	}

	for _, s := range e.servers {
		s.CloseClientConnections()
		s.Close()
	}
	os.Exit(rep.Finish("exploration", map[string]interface{}{
		"evaluations":         evals,
		"distinct_nontrivial": len(distinct),
		"rule": "full product {in-process, http via recorder RoundTripper, http loopback, https loopback (httptest TLS server + its client transport)" +
			map[bool]string{true: ", https with HTTP/2", false: ""}[rep.Tier == "thorough"] + "} x base-URL host spelling {IPv4:port, IPv4 without port, [::1]:port, [0:0:0:0:0:0:0:1]:port, [::1] without port; HTTP transports, the dialer always reaches the real listener} x ops x credentials {absent, {require security or not} x metadata {nil, empty, one key, overlapping key, both, error}} x caller metadata {absent, {a:[1,2],shared:[caller-v]}} x peer option x header option. " +
			"Plus rejected calls (unknown method -> 404, a front handler answering 503) x HTTP transports x {IPv4, IPv6} host x ops x {no creds, creds} x header option, with the peer option. " +
			"Plus every sequence of 2 calls (thorough: also of 3) on ONE caller context, each call from {in-process, http, https} x {unary, bidi} x {no creds, creds, creds requiring security}, context made by NewOutgoingContext or NewOutgoingContext+AppendToOutgoingContext: per call the handler's metadata on keys {a,shared,tok} is exactly caller + that call's credential metadata, and the caller's MD object is unchanged. " +
			"A case is non-trivial when the credential object was actually consulted (its RequireTransportSecurity/GetRequestMetadata call counters are > 0), or the grpc.Peer target was written, or the connection was TLS (so the TLS-info clause of the handler's peer applies); distinct by all case parameters.",
		"clause_evaluations":          clauseCount,
		"sequences":                   nSeq,
		"sequence_calls":              nSeqCalls,
		"grpc_go_reference_oracle_ok": refRuns,
		"samples":                     samples,
		"exhaustive":                  true,
	}, []string{
		"loopback TCP/TLS only where the real net/http + crypto/tls stack is the subject (reply.TLS, r.TLS, RemoteAddr); every case uses a fresh connection",
		"in-process with credentials that require transport security: both refusing and accepting are taken as conforming (the statement only speaks about the HTTP base URL)",
		"metadata merge is demanded as multiset inclusion per key (all caller values and all credential values present), order and extra keys free",
		"a credential whose GetRequestMetadata fails has to fail the call without the handler running (as grpc-go does); the error's type is not constrained",
	}))
}
