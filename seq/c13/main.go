// C13: per-RPC credentials never cross an insecure transport; their metadata is
// merged with the caller's; the peer (address, and TLS info under TLS) is
// reported to the peer call option and to the handler, unary and streaming.
//
// Bounded-exhaustive over {in-process, http via recorder RoundTripper, http on
// loopback, https on loopback (httptest.NewTLSServer, its own client
// transport)} x credentials {absent, RequireTransportSecurity x metadata {nil,
// {}, one key, overlapping key, both, error}} x caller metadata {absent, with
// an overlapping multi-valued set} x {unary, streaming} x peer option x header
// option.
//
// Plus the key-case grammar (mergeT): spelling of the credential's keys {lower,
// Capitalised, UPPER} x spelling of the caller's keys {lower, Capitalised,
// UPPER} x {caller has the credential's key too, disjoint} x how the caller
// built its context {NewOutgoingContext, AppendToOutgoingContext, both} x
// {one, two} caller values under the shared key, on every transport and kind.
// Metadata keys are case-insensitive: the handler has to find all the caller's
// values and the credential's value under the lower-cased key.
//
// Plus call-option targets reused across a sequence of calls (reuse.go): one
// peer.Peer, one header MD and one trailer MD variable handed to every call of
// every ordered pair (and triples) of calls over the transports and kinds,
// versus fresh targets; after each call the targets describe that call.
//
// Plus WHO SUPPLIES the call options (supply.go): the caller itself, a client
// interceptor installed with grpchan.InterceptClientConn that adds
// grpc.PerRPCCredentials / grpc.Peer to the options it passes on, or both; one
// or two wrappers deep; crossed with every transport, kind, credential and
// caller-metadata value. The oracle is the same: the metadata of the credential
// in effect reaches the handler, credentials that require security refuse the
// call on an insecure transport before any request, every peer target anybody
// passed is filled.
//
// Plus the base-URL SCHEME alphabet (supply.go): {http, https, HTTP, Https, h2c,
// http+unix, ws, ""} as a url.URL literal, each with a RoundTripper that accepts
// it (a custom one, a stock http.Transport with the scheme registered, one that
// forwards to the loopback servers). Only https may carry credentials that
// require transport security.
//
// Plus WHERE THE REQUEST COMES FROM as the HTTP server sees it (arrive.go): the
// shape of Request.RemoteAddr {IPv4:port, bare IP, [IPv6]:port, name:port, "@",
// a path, "pipe", empty, ...} set by the listener {loopback TCP, Unix-domain
// socket} or by a middleware in front of the httpgrpc handler, with and
// without TLS, unary and streaming: the handler's peer reports that address,
// and TLS info on TLS.
//
// Plus THE CONTEXT OF THE CALL (callctx.go): the caller's context {without,
// with} a deadline (with one the HTTP client sends GRPC-Timeout and the server
// builds the handler's context on a timeout) x metadata travelling with the
// call {none, caller's, caller's + credential's} x who reads the peer {the
// handler, a server interceptor in front of it as well} on every transport and
// kind: the peer is there, with address and TLS info, in every member.
package main

import (
	"context"
	"crypto/tls"
	"errors"
	"fmt"
	"io"
	"log"
	"net"
	"net/http"
	"net/http/httptest"
	"net/url"
	"os"
	"runtime/debug"
	"sort"
	"strings"
	"sync"
	"sync/atomic"
	"time"

	"github.com/fullstorydev/grpchan/httpgrpc"
	"github.com/fullstorydev/grpchan/inprocgrpc"
	"google.golang.org/grpc"
	"google.golang.org/grpc/credentials"
	"google.golang.org/grpc/credentials/insecure"
	"google.golang.org/grpc/metadata"
	"google.golang.org/grpc/peer"
	"google.golang.org/grpc/test/bufconn"
	"google.golang.org/protobuf/types/known/wrapperspb"

	"verif/seq/common"
	"verif/vlib"
)

// ---- case ------------------------------------------------------------------

type caseT struct {
	Transport string `json:"transport"`      // inproc | http-rt | http-loopback | https | https-h2 | scheme-rt | scheme-registered | scheme-loopback | (grpc-go reference, internal)
	Op        string `json:"op"`             // unary | bidi | server-stream | client-stream
	Host      string `json:"host,omitempty"` // how the base URL names the server: v4 | v4-noport | v6 | v6-long | v6-noport (HTTP transports only)
	Creds     string `json:"creds"`          // none | nil | empty | one | overlap | both | error
	Require   bool   `json:"require_transport_security"`
	CallerMD  string `json:"caller_md"` // none | some
	PeerOpt   bool   `json:"peer_option"`
	HdrOpt    bool   `json:"header_option"`
	Reject    string `json:"reject,omitempty"` // "" | unknown-method (404 from the server) | front-503 (a front handler sheds the request)
	// Merge, when set, replaces the fixed credential / caller metadata of
	// Creds="both", CallerMD="some" by a member of the key-case grammar
	Merge *mergeT `json:"merge,omitempty"`
	// Tag, when set (sequences with reused call-option targets, reuse.go), makes
	// the handler of this call set headers {hdr-<tag>:<tag>, call:<tag>} and
	// trailers {tlr-<tag>:<tag>, call:<tag>}, so that every call of a sequence
	// has response metadata of its own
	Tag string `json:"tag,omitempty"`
	// Scheme: the scheme of the base URL as written in a url.URL literal, for the
	// transports scheme-rt | scheme-registered | scheme-loopback (supply.go)
	Scheme string `json:"scheme,omitempty"`
	// Via, when set, says who supplies the credentials and the peer target: the
	// caller and/or client interceptors wrapped around the channel (supply.go).
	// PeerOpt and HdrOpt are not used then.
	Via *viaT `json:"via,omitempty"`
	// Arrive, when set, says where the request comes from as the HTTP server
	// sees it: what the server listens on and whether a middleware in front of
	// the httpgrpc handler has replaced Request.RemoteAddr (arrive.go)
	Arrive *arriveT `json:"arrive,omitempty"`
	// Call, when set, says what the caller's context is like (a deadline) and
	// whether a server interceptor reads the peer too (callctx.go)
	Call *callCtxT `json:"call_context,omitempty"`
}

// mergeT: the logical metadata is always caller {a:[1,2], shared:[caller-v(,caller-w)]}
// (shared only with Overlap) and credential {tok:t1, shared:cred-v}; what varies
// is how the keys are spelled and how the caller attached its part.
type mergeT struct {
	CredKey   string `json:"cred_key"`   // lower | cap | upper: spelling of the keys of the credential's map
	CallerKey string `json:"caller_key"` // lower | cap | upper: spelling of the caller's keys
	Overlap   bool   `json:"overlap"`    // the caller has the key "shared" too
	Build     string `json:"build"`      // new (NewOutgoingContext(metadata.Pairs(...))) | append (AppendToOutgoingContext only) | new+append (first value of each key by New, the rest appended)
	Vals      int    `json:"vals"`       // caller values under "shared": 1 | 2 (0 without Overlap)
}

func spell(style, key string) string {
	switch style {
	case "lower":
		return key
	case "cap":
		return strings.ToUpper(key[:1]) + key[1:]
	case "upper":
		return strings.ToUpper(key)
	}
	panic("bad key spelling " + style)
}

func (m *mergeT) String() string {
	if m == nil {
		return "-"
	}
	return fmt.Sprintf("{cred-key=%s caller-key=%s overlap=%v build=%s vals=%d}", m.CredKey, m.CallerKey, m.Overlap, m.Build, m.Vals)
}

// relation of the credential's spelling of "shared" to the caller's
func (m *mergeT) relation() string {
	switch {
	case !m.Overlap:
		return "disjoint"
	case m.CredKey == m.CallerKey:
		return "same-case"
	}
	return "different-case"
}

func (m *mergeT) sharedVals() []string {
	if !m.Overlap {
		return nil
	}
	return []string{"caller-v", "caller-w"}[:m.Vals]
}

// callerLogical is the caller's metadata with lower-cased keys (what it means).
func (m *mergeT) callerLogical() metadata.MD {
	md := metadata.MD{"a": {"1", "2"}}
	if m.Overlap {
		md["shared"] = m.sharedVals()
	}
	return md
}

// callerContext attaches the caller's metadata the way m says; md is the MD
// object handed to NewOutgoingContext (nil when there is none). The caller
// writes its keys in its spelling through the grpc metadata package
// (metadata.Pairs, AppendToOutgoingContext), as grpc-go demands: an MD literal
// with upper-case keys is refused by grpc-go itself ("header key contains
// illegal characters"), so that is not a member of the grammar.
func (m *mergeT) callerContext() (ctx context.Context, md metadata.MD) {
	ctx = context.Background()
	ka, ks := spell(m.CallerKey, "a"), spell(m.CallerKey, "shared")
	sv := m.sharedVals()
	var kv []string
	switch m.Build {
	case "new":
		kv = []string{ka, "1", ka, "2"}
		for _, v := range sv {
			kv = append(kv, ks, v)
		}
		md, kv = metadata.Pairs(kv...), nil
	case "append":
		kv = []string{ka, "1", ka, "2"}
		for _, v := range sv {
			kv = append(kv, ks, v)
		}
	case "new+append":
		first := []string{ka, "1"}
		kv = []string{ka, "2"}
		if m.Overlap {
			first = append(first, ks, sv[0])
			for _, v := range sv[1:] {
				kv = append(kv, ks, v)
			}
		}
		md = metadata.Pairs(first...)
	default:
		panic("bad caller build " + m.Build)
	}
	if md != nil {
		ctx = metadata.NewOutgoingContext(ctx, md)
	}
	if len(kv) > 0 {
		ctx = metadata.AppendToOutgoingContext(ctx, kv...)
	}
	return ctx, md
}

func mergeShapes() (out []*mergeT) {
	styles := []string{"lower", "cap", "upper"}
	for _, ck := range styles {
		for _, lk := range styles {
			for _, b := range []string{"new", "append", "new+append"} {
				out = append(out, &mergeT{CredKey: ck, CallerKey: lk, Build: b})
				for _, n := range []int{1, 2} {
					out = append(out, &mergeT{CredKey: ck, CallerKey: lk, Overlap: true, Build: b, Vals: n})
				}
			}
		}
	}
	return out
}

func (c caseT) credMD() (map[string]string, error) {
	if c.Merge != nil {
		return map[string]string{spell(c.Merge.CredKey, "tok"): "t1", spell(c.Merge.CredKey, "shared"): "cred-v"}, nil
	}
	return credMD(c.Creds)
}

// credMDFor: what the credential supplied by who (caller | L1 | L2) hands out:
// the case's map, the values marked with the supplier when it is an interceptor.
func (c caseT) credMDFor(who string) (map[string]string, error) {
	if sp, ok := c.specOf(who); ok {
		return sp.md(who)
	}
	m, err := c.credMD()
	if who == "" || who == "caller" || len(m) == 0 {
		return m, err
	}
	out := map[string]string{}
	for k, v := range m {
		out[k] = v + "@" + who
	}
	return out, err
}

// callerLogical: the caller's metadata of the case, keys lower-cased.
func (c caseT) callerLogical() metadata.MD {
	if c.Merge != nil {
		return c.Merge.callerLogical()
	}
	return callerMD(c.CallerMD)
}

func credMD(kind string) (map[string]string, error) {
	switch kind {
	case "nil":
		return nil, nil
	case "empty":
		return map[string]string{}, nil
	case "one":
		return map[string]string{"tok": "t1"}, nil
	case "overlap":
		return map[string]string{"shared": "cred-v"}, nil
	case "both":
		return map[string]string{"tok": "t1", "shared": "cred-v"}, nil
	case "error":
		return nil, errors.New("credential source failed")
	}
	panic("bad cred kind " + kind)
}

func callerMD(kind string) metadata.MD {
	if kind == "some" {
		return metadata.MD{"a": {"1", "2"}, "shared": {"caller-v"}}
	}
	return nil
}

type cred struct {
	c        caseT
	who      string // caller | L1 | L2
	require  bool
	nRequire int64
	nGet     int64
	uri      atomic.Value
}

func (c *cred) GetRequestMetadata(ctx context.Context, uri ...string) (map[string]string, error) {
	atomic.AddInt64(&c.nGet, 1)
	c.uri.Store(strings.Join(uri, ","))
	return c.c.credMDFor(c.who)
}
func (c *cred) RequireTransportSecurity() bool {
	atomic.AddInt64(&c.nRequire, 1)
	return c.require
}

// ---- server side: what the handler saw ------------------------------------

type seen struct {
	mu      sync.Mutex
	n       int
	md      metadata.MD
	peerOK  bool
	addr    string
	addrNil bool
	auth    string // "", "tls", "tls-incomplete", or the AuthType of something else
	dl      bool   // the context had a deadline
}

// connID identifies a TLS connection: keying material exported for a fixed
// label is the same at both ends of a connection and differs between any two
// connections (also to the same server). "" when there is none to be had.
func connID(st *tls.ConnectionState) string {
	if st == nil || !st.HandshakeComplete {
		return ""
	}
	b, err := st.ExportKeyingMaterial("EXPERIMENTAL verif c13", nil, 16)
	if err != nil {
		return ""
	}
	return fmt.Sprintf("%x", b)
}

func authConnID(ai credentials.AuthInfo) (id string) {
	defer func() {
		if recover() != nil {
			id = ""
		}
	}()
	switch t := ai.(type) {
	case credentials.TLSInfo:
		return connID(&t.State)
	case *credentials.TLSInfo:
		if t != nil {
			return connID(&t.State)
		}
	}
	return ""
}

func authKind(ai credentials.AuthInfo) string {
	switch t := ai.(type) {
	case nil:
		return ""
	case credentials.TLSInfo:
		if t.State.HandshakeComplete {
			return "tls"
		}
		return "tls-incomplete"
	case *credentials.TLSInfo:
		if t != nil && t.State.HandshakeComplete {
			return "tls"
		}
		return "tls-incomplete"
	default:
		return "other:" + ai.AuthType()
	}
}

func (s *seen) record(ctx context.Context) {
	s.mu.Lock()
	defer s.mu.Unlock()
	s.n++
	md, _ := metadata.FromIncomingContext(ctx)
	s.md = md.Copy()
	_, s.dl = ctx.Deadline()
	p, ok := peer.FromContext(ctx)
	s.peerOK = ok
	if ok {
		if p.Addr == nil {
			s.addrNil = true
		} else {
			s.addr = p.Addr.String()
		}
		s.auth = authKind(p.AuthInfo)
	}
}

func service(s *seen, tag string) *grpc.ServiceDesc {
	hdrs, tlrs := metadata.Pairs("hdr", "v"), metadata.MD(nil)
	if tag != "" {
		hdrs = metadata.Pairs("hdr", "v", "hdr-"+tag, tag, "call", tag)
		tlrs = metadata.Pairs("tlr-"+tag, tag, "call", tag)
	}
	stream := func(clientStreams bool) common.StreamFn {
		return func(str grpc.ServerStream) error {
			s.record(str.Context())
			_ = str.SetHeader(hdrs)
			if tlrs != nil {
				str.SetTrailer(tlrs)
			}
			for {
				var in wrapperspb.StringValue
				err := str.RecvMsg(&in)
				if err == io.EOF {
					break
				}
				if err != nil {
					return err
				}
				if !clientStreams {
					break
				}
			}
			return str.SendMsg(wrapperspb.String("resp"))
		}
	}
	svc := &common.Svc{Name: "t.S",
		Unary: map[string]common.UnaryFn{"U": func(ctx context.Context, dec func(interface{}) error) (interface{}, error) {
			s.record(ctx)
			_ = grpc.SetHeader(ctx, hdrs)
			if tlrs != nil {
				_ = grpc.SetTrailer(ctx, tlrs)
			}
			var in wrapperspb.StringValue
			if err := dec(&in); err != nil {
				return nil, err
			}
			return wrapperspb.String("resp"), nil
		}},
		Streams: map[string]common.StreamDef{
			"B":  {Fn: stream(true), ClientStreams: true, ServerStreams: true},
			"SS": {Fn: stream(false), ServerStreams: true},
			"CS": {Fn: stream(true), ClientStreams: true},
		}}
	return svc.Desc()
}

// ---- transports ------------------------------------------------------------

type countRT struct {
	inner http.RoundTripper
	n     int64
	mu    sync.Mutex
	sent  map[string][]string // of the last request: its values under the metadata keys of the grammar
	sch   string              // of the last request: the URL scheme the RoundTripper was handed
}

func (c *countRT) RoundTrip(r *http.Request) (*http.Response, error) {
	atomic.AddInt64(&c.n, 1)
	c.mu.Lock()
	c.sent, c.sch = map[string][]string{}, r.URL.Scheme
	for _, k := range append(append([]string(nil), mdUniverse...), ownKeys...) {
		if vs := r.Header.Values(k); len(vs) > 0 {
			c.sent[k] = append([]string(nil), vs...)
		}
	}
	c.mu.Unlock()
	return c.inner.RoundTrip(r)
}

// env holds the loopback servers, shared by all cases; the httpgrpc.Server
// behind them is swapped per case.
type env struct {
	mu         sync.Mutex
	cur        http.Handler
	lastRemote string
	lastTLS    bool
	lastConn   string // connID of the TLS connection the last request arrived on
	servers    map[string]*httptest.Server
}

func (e *env) ServeHTTP(w http.ResponseWriter, r *http.Request) {
	e.mu.Lock()
	h := e.cur
	e.lastRemote = r.RemoteAddr
	e.lastTLS = r.TLS != nil
	e.lastConn = connID(r.TLS)
	e.mu.Unlock()
	h.ServeHTTP(w, r)
}

// connections abandoned when a case's transport is closed are not news
var quiet = log.New(io.Discard, "", 0)

func (e *env) server(kind string) *httptest.Server {
	if s := e.servers[kind]; s != nil {
		return s
	}
	var s *httptest.Server
	base := strings.TrimSuffix(kind, unixSuffix)
	unstarted := func() *httptest.Server {
		s := httptest.NewUnstartedServer(e)
		s.Config.ErrorLog = quiet
		if base != kind {
			// same server, but listening on a Unix-domain socket (arrive.go)
			ul, err := listenUnix()
			if err != nil {
				fmt.Fprintln(os.Stderr, "INCONCLUSIVE: cannot listen on a Unix-domain socket:", err)
				os.Exit(2)
			}
			s.Listener.Close()
			s.Listener = ul
		}
		return s
	}
	switch base {
	case "http-loopback":
		s = unstarted()
		s.Start()
	case "https":
		s = unstarted()
		s.StartTLS()
	case "https-h2":
		s = unstarted()
		s.EnableHTTP2 = true
		s.StartTLS()
	}
	if e.servers == nil {
		e.servers = map[string]*httptest.Server{}
	}
	e.servers[kind] = s
	return s
}

// hostFor spells the server's address in the base URL. The IPv6 spellings do
// not need an IPv6 interface: the transport dials the real listener whatever
// the URL says (or there is no network at all, http-rt).
func hostFor(kind, ip4, port string) string {
	switch kind {
	case "", "v4":
		return ip4 + ":" + port
	case "v4-noport":
		return ip4
	case "v6":
		return "[::1]:" + port
	case "v6-long":
		return "[0:0:0:0:0:0:0:1]:" + port
	case "v6-noport":
		return "[::1]"
	}
	panic("bad host kind " + kind)
}

func (o *obsT) setWant(u *url.URL) {
	o.BaseURL = u.String()
	o.wantHost, o.wantPort = u.Hostname(), u.Port()
	o.portGiven = o.wantPort != ""
	if !o.portGiven {
		o.wantPort = map[string]string{"http": "80", "https": "443"}[strings.ToLower(u.Scheme)]
	}
}

type obsT struct {
	Err        string      `json:"err,omitempty"`
	Requests   int64       `json:"http_requests"`
	HandlerRan int         `json:"handler_ran"`
	HandlerMD  metadata.MD `json:"handler_md,omitempty"`
	HPeerOK    bool        `json:"handler_peer_present"`
	HPeerAddr  string      `json:"handler_peer_addr,omitempty"`
	HPeerAuth  string      `json:"handler_peer_auth,omitempty"`
	Remote     string      `json:"server_saw_remote_addr,omitempty"`
	CPeerSet   bool        `json:"client_peer_set"`
	CPeerAddr  string      `json:"client_peer_addr,omitempty"`
	CPeerAuth  string      `json:"client_peer_auth,omitempty"`
	BaseURL    string      `json:"base_url,omitempty"`
	wantHost   string
	wantPort   string
	portGiven  bool
	CredCalls  [2]int64 `json:"cred_calls_require_get"`
	CredURI    string   `json:"cred_uri,omitempty"`
	Panic      string   `json:"panic,omitempty"`
	Reply      string   `json:"reply,omitempty"`
	hPeerNil   bool
	err        error
	// call-context grammar (callctx.go): did the handler's context have a
	// deadline; what the server interceptor found
	HDeadline bool   `json:"handler_ctx_has_deadline,omitempty"`
	IRan      int    `json:"server_interceptor_ran,omitempty"`
	IPeerOK   bool   `json:"server_interceptor_peer_present,omitempty"`
	IPeerAddr string `json:"server_interceptor_peer_addr,omitempty"`
	IPeerAuth string `json:"server_interceptor_peer_auth,omitempty"`
	iPeerNil  bool
	// connID of the TLS connection as the HTTP server saw it, and of the TLS
	// info in the grpc.Peer target ("" when unknown); different per run, so not
	// part of any report
	serverConn string
	cPeerConn  string
	// Targets: what every call-option target set handed to the call holds once
	// the call is over (reuse.go); empty for the single-call grammar
	Targets []targetObs `json:"targets,omitempty"`
	// Sent: what the RoundTripper was handed with the last request under the
	// metadata keys of the grammar, and the URL scheme of that request
	Sent       map[string][]string `json:"sent_metadata,omitempty"`
	SentScheme string              `json:"sent_url_scheme,omitempty"`
	// Suppliers: per supplier of call options (supply.go) what its credential
	// and its peer target saw; empty without Via
	Suppliers []supObs `json:"suppliers,omitempty"`
}

func opDesc(op string) (string, *grpc.StreamDesc) {
	switch op {
	case "bidi":
		return "/t.S/B", &grpc.StreamDesc{StreamName: "B", ClientStreams: true, ServerStreams: true}
	case "server-stream":
		return "/t.S/SS", &grpc.StreamDesc{StreamName: "SS", ServerStreams: true}
	case "client-stream":
		return "/t.S/CS", &grpc.StreamDesc{StreamName: "CS", ClientStreams: true}
	}
	return "/t.S/U", nil
}

func run(e *env, c caseT) obsT { return runCtx(e, c, nil, nil) }

// runCtx runs one call; base, when given, is the caller's context (sequences
// share one), else it is made from c.CallerMD. tgs, when given, are the
// caller's own peer/header/trailer variables to pass as call options (all of
// them, in this order) instead of the fresh ones c.PeerOpt / c.HdrOpt ask for.
func runCtx(e *env, c caseT, base context.Context, tgs []*targetSet) (o obsT) {
	front := func(h http.Handler) http.Handler {
		if c.Reject == "front-503" {
			return http.HandlerFunc(func(w http.ResponseWriter, r *http.Request) {
				http.Error(w, "shedding load", http.StatusServiceUnavailable)
			})
		}
		return e.remoteAddrMiddleware(c.Arrive, h)
	}
	if err := c.Arrive.check(c.Transport); err != nil {
		o.Panic = "checker: " + err.Error()
		return
	}
	if err := c.Call.check(c); err != nil {
		o.Panic = "checker: " + err.Error()
		return
	}
	s, si := &seen{}, &seen{} // what the handler saw; what the server interceptor saw (callctx.go)
	desc := service(s, c.Tag)
	var cc grpc.ClientConnInterface
	var crt *countRT
	var cleanup func()
	vs, err := newViaState(c)
	if err != nil {
		o.Panic = "checker: " + err.Error()
		return
	}
	switch c.Transport {
	case "inproc":
		ch := &inprocgrpc.Channel{}
		ch.RegisterService(desc, common.Impl{})
		c.Call.inproc(ch, si)
		cc = ch
	case "http-rt":
		srv := httpgrpc.NewServer(c.Call.httpServerOpts(si)...)
		srv.RegisterService(desc, common.Impl{})
		crt = &countRT{inner: common.HandlerRT(http.HandlerFunc(func(w http.ResponseWriter, r *http.Request) {
			e.mu.Lock()
			e.lastRemote = r.RemoteAddr
			e.mu.Unlock()
			front(srv).ServeHTTP(w, r)
		}))}
		u, err := url.Parse("http://" + hostFor(c.Host, "192.0.2.9", "8080") + "/")
		if err != nil {
			o.Panic = "checker: " + err.Error()
			return
		}
		o.setWant(u)
		cc = &httpgrpc.Channel{Transport: crt, BaseURL: u}
	case "http-loopback", "https", "https-h2":
		srv := httpgrpc.NewServer(c.Call.httpServerOpts(si)...)
		srv.RegisterService(desc, common.Impl{})
		e.mu.Lock()
		e.cur = front(srv)
		e.lastRemote, e.lastConn = "", ""
		e.mu.Unlock()
		ts := e.server(c.Transport + c.Arrive.serverSuffix())
		tr := ts.Client().Transport
		if t, ok := tr.(*http.Transport); ok {
			t.CloseIdleConnections() // every case gets its own connection (and handshake)
		}
		network, realAddr := "tcp", ts.Listener.Addr().String()
		ip4, port, _ := net.SplitHostPort(realAddr)
		if c.Arrive.unix() {
			// the server listens on a Unix-domain socket; the base URL keeps naming
			// a host the server's certificate is valid for
			network, ip4, port = "unix", "127.0.0.1", "8443"
		}
		scheme := ts.URL[:strings.Index(ts.URL, "://")]
		if c.Arrive.unix() || (c.Host != "" && c.Host != "v4") {
			// same client configuration (root CAs, HTTP/2 setting), but the dialer
			// goes to the real listener whatever host the URL names
			t2 := tr.(*http.Transport).Clone()
			t2.DialContext = func(ctx context.Context, _, _ string) (net.Conn, error) {
				var d net.Dialer
				return d.DialContext(ctx, network, realAddr)
			}
			tr = t2
			cleanup = t2.CloseIdleConnections
		}
		crt = &countRT{inner: tr}
		u, err := url.Parse(scheme + "://" + hostFor(c.Host, ip4, port) + "/")
		if err != nil {
			o.Panic = "checker: " + err.Error()
			return
		}
		o.setWant(u)
		cc = &httpgrpc.Channel{Transport: crt, BaseURL: u}
	case "scheme-rt", "scheme-registered", "scheme-loopback":
		srv := httpgrpc.NewServer()
		srv.RegisterService(desc, common.Impl{})
		tr, u, cl, err := e.schemeTransport(c, front(srv))
		if err != nil {
			o.Panic = "checker: " + err.Error()
			return
		}
		cleanup = cl
		crt = &countRT{inner: tr}
		o.setWant(u)
		cc = &httpgrpc.Channel{Transport: crt, BaseURL: u}
	case "grpc-go":
		var lis net.Listener
		dial := func(ctx context.Context) (net.Conn, error) { return nil, errors.New("no listener") }
		if c.Arrive.unix() {
			// reference for a server on a Unix-domain socket
			ul, err := listenUnix()
			if err != nil {
				o.Panic = "checker: " + err.Error()
				return
			}
			lis = ul
			dial = func(ctx context.Context) (net.Conn, error) {
				var d net.Dialer
				return d.DialContext(ctx, "unix", ul.Addr().String())
			}
		} else {
			bl := bufconn.Listen(1 << 16)
			lis, dial = bl, bl.DialContext
		}
		gs := grpc.NewServer(c.Call.grpcServerOpts(si)...)
		gs.RegisterService(desc, common.Impl{})
		go gs.Serve(lis)
		// the reference for interceptor-supplied options: the same interceptor
		// functions installed the grpc-go way (dial options), nothing of the
		// library under test in between
		dopts := append([]grpc.DialOption{grpc.WithContextDialer(func(ctx context.Context, _ string) (net.Conn, error) { return dial(ctx) }),
			grpc.WithTransportCredentials(insecure.NewCredentials())}, vs.dialOptions(c.Op)...)
		conn, err := grpc.Dial("bufnet", dopts...)
		if err != nil {
			o.err = err
			o.Err = err.Error()
			return
		}
		cc = conn
		cleanup = func() { conn.Close(); gs.Stop() }
	default:
		o.Panic = "checker: unknown transport " + c.Transport
		return
	}
	if cleanup != nil {
		defer cleanup()
	}
	if c.Via != nil && c.Transport != "grpc-go" {
		cc = vs.wrap(cc, c.Op)
	}

	if base == nil {
		base = context.Background()
		if c.Merge != nil {
			base, _ = c.Merge.callerContext()
		} else if md := callerMD(c.CallerMD); md != nil {
			base = metadata.NewOutgoingContext(base, md)
		}
	}
	ctx, cancel := context.WithCancel(base)
	defer cancel()
	ctx, cancelDeadline := c.Call.with(ctx) // the caller's deadline, if the case has one (callctx.go)
	defer cancelDeadline()
	var opts []grpc.CallOption
	var cr *cred
	var pr peer.Peer
	var hdr metadata.MD
	if c.Via != nil {
		opts = vs.callerOpts()
	} else {
		if c.Creds != "none" {
			cr = &cred{c: c, who: "caller", require: c.Require}
			opts = append(opts, grpc.PerRPCCredentials(cr))
		}
		if c.PeerOpt && tgs == nil {
			opts = append(opts, grpc.Peer(&pr))
		}
		if c.HdrOpt && tgs == nil {
			opts = append(opts, grpc.Header(&hdr))
		}
	}
	for _, t := range tgs {
		opts = append(opts, grpc.Peer(t.pr), grpc.Header(t.hdr), grpc.Trailer(t.tlr))
	}

	func() {
		defer func() {
			if p := recover(); p != nil {
				o.Panic = fmt.Sprint(p)
			}
		}()
		name, sd := opDesc(c.Op)
		if c.Reject == "unknown-method" {
			name = "/t.S/Nope"
		}
		if sd == nil {
			var out wrapperspb.StringValue
			o.err = cc.Invoke(ctx, name, wrapperspb.String("req"), &out, opts...)
			o.Reply = out.Value
			return
		}
		cs, err := cc.NewStream(ctx, sd, name, opts...)
		if err != nil {
			o.err = err
			return
		}
		sendErr := cs.SendMsg(wrapperspb.String("req"))
		if sd.ClientStreams && sendErr == nil {
			sendErr = cs.SendMsg(wrapperspb.String("req2"))
		}
		_ = cs.CloseSend()
		var out wrapperspb.StringValue
		if err := cs.RecvMsg(&out); err != nil {
			if err == io.EOF {
				err = fmt.Errorf("stream ended without a response message (send error: %v)", sendErr)
			}
			o.err = err
			return
		}
		o.Reply = out.Value
		if sd.ServerStreams {
			var out2 wrapperspb.StringValue
			if err := cs.RecvMsg(&out2); err != io.EOF {
				if err == nil {
					err = errors.New("unexpected second response message")
				}
				o.err = err
			}
		}
	}()

	if o.err != nil {
		o.Err = o.err.Error()
	}
	if crt != nil {
		o.Requests = atomic.LoadInt64(&crt.n)
		crt.mu.Lock()
		o.Sent, o.SentScheme = crt.sent, crt.sch
		crt.mu.Unlock()
	}
	s.mu.Lock()
	o.HandlerRan, o.HandlerMD, o.HPeerOK, o.HPeerAddr, o.HPeerAuth, o.hPeerNil = s.n, s.md, s.peerOK, s.addr, s.auth, s.addrNil
	o.HDeadline = s.dl
	s.mu.Unlock()
	si.mu.Lock()
	o.IRan, o.IPeerOK, o.IPeerAddr, o.IPeerAuth, o.iPeerNil = si.n, si.peerOK, si.addr, si.auth, si.addrNil
	si.mu.Unlock()
	e.mu.Lock()
	o.Remote, o.serverConn = e.lastRemote, e.lastConn
	e.mu.Unlock()
	if c.PeerOpt && tgs == nil && c.Via == nil {
		if pr.Addr != nil {
			o.CPeerSet = true
			o.CPeerAddr = pr.Addr.String()
		}
		o.CPeerAuth = authKind(pr.AuthInfo)
		o.cPeerConn = authConnID(pr.AuthInfo)
	}
	if c.Via != nil {
		o.Suppliers = vs.observe()
		for _, so := range o.Suppliers {
			o.CredCalls[0] += so.CredCalls[0]
			o.CredCalls[1] += so.CredCalls[1]
			o.CPeerSet = o.CPeerSet || so.PeerSet
			if so.CredURI != "" {
				o.CredURI = so.CredURI
			}
		}
	}
	for _, t := range tgs {
		o.Targets = append(o.Targets, t.observe())
	}
	if cr != nil {
		o.CredCalls = [2]int64{atomic.LoadInt64(&cr.nRequire), atomic.LoadInt64(&cr.nGet)}
		o.CredURI, _ = cr.uri.Load().(string)
	}
	return o
}

// ---- oracle ----------------------------------------------------------------

type finding struct {
	clause string // the oracle clause that was applicable
	fail   string // "" = held, else a short stable description of how it failed
	detail string
	about  string // Via cases: whose peer target the clause is about (caller | L1 | L2), else ""
}

func isHTTP(t string) bool { return t == "http-rt" || t == "http-loopback" }
func isTLS(t string) bool  { return t == "https" || t == "https-h2" }

// wantMD is what the handler has to find at least (multiset per key).
func wantMD(c caseT) map[string][]string {
	w := map[string][]string{}
	for k, vs := range c.callerLogical() {
		w[k] = append(w[k], vs...)
	}
	if c.hasCreds() {
		m, _ := c.credMDFor(c.credWinner())
		for k, v := range m {
			// metadata keys are case-insensitive; the handler sees them lower-cased
			k = strings.ToLower(k)
			w[k] = append(w[k], v)
		}
	}
	return w
}

// callerSpelled is the caller's metadata with the keys as the caller wrote them.
func (m *mergeT) callerSpelled() metadata.MD {
	md := metadata.MD{}
	for k, vs := range m.callerLogical() {
		md[spell(m.CallerKey, k)] = vs
	}
	return md
}

// mdString prints a map in key order (fmt does that for maps).
func mdString(md metadata.MD) string { return fmt.Sprint(map[string][]string(md)) }

func mapKeys(m map[string]string) string {
	var ks []string
	for k := range m {
		ks = append(ks, k)
	}
	sort.Strings(ks)
	return fmt.Sprintf("%q", ks)
}

func containsAll(have, want []string) bool {
	h := map[string]int{}
	for _, v := range have {
		h[v]++
	}
	for _, v := range want {
		if h[v] == 0 {
			return false
		}
		h[v]--
	}
	return true
}

// check: the clauses applicable to the case and whether they held. The cases
// of the key-case grammar are about metadata only (the peer clauses are
// covered by the main product) and get clause names of their own, so that
// their parameters are collapsed among themselves.
func check(c caseT, o obsT) []finding {
	fs := check0(c, o)
	if c.Merge == nil {
		return fs
	}
	var out []finding
	for _, f := range fs {
		if strings.Contains(f.clause, "peer") {
			continue
		}
		f.clause = "key-case/" + f.clause
		out = append(out, f)
	}
	return out
}

func check0(c caseT, o obsT) (fs []finding) {
	if o.Panic != "" {
		return []finding{{clause: "no-panic", fail: "panic", detail: o.Panic}}
	}
	insecure := c.insecureURL()
	if c.Reject != "" {
		f := finding{clause: "rejected-call-fails"}
		if o.err == nil || o.HandlerRan > 0 {
			f.fail, f.detail = "not-rejected", fmt.Sprintf("the server answered with an error status (%s), yet err=%v, handler ran %d time(s)", c.Reject, o.err, o.HandlerRan)
		}
		fs = append(fs, f)
		if o.Requests > 0 {
			// a response was received: the peer is known, whatever the status
			fs = append(fs, peerOptFindings(c, o, "-on-rejected-call")...)
		}
		return fs
	}
	// with several credentials options of different properties in one call
	// (mixed.go) the one in effect decides; the others must not leak
	effKind, effRequire := c.effKind(), c.effRequire()
	lfs, free := notInEffectFindings(c, o, insecure)
	fs = append(fs, lfs...)
	if free {
		return fs
	}
	switch {
	case c.hasCreds() && effRequire && insecure:
		// "the call fails before any request is issued"
		f := finding{clause: "secure-creds-refused-on-insecure-transport"}
		switch {
		case o.Requests > 0 || o.HandlerRan > 0:
			f.fail = "request-issued"
			what := "base URL is http"
			if c.Scheme != "" || isSchemeTransport(c.Transport) {
				what = fmt.Sprintf("base URL %s has scheme %q, which is not https", o.BaseURL, c.Scheme)
			}
			if c.Via != nil {
				what += "; call options supplied by " + c.Via.String()
			}
			f.detail = fmt.Sprintf("credentials require transport security, %s, yet %d HTTP request(s) left the client (credential metadata handed to the RoundTripper: %v; handler ran %d time(s)); err=%v", what, o.Requests, credSent(o), o.HandlerRan, o.err)
		case o.err == nil:
			f.fail = "call-succeeded"
			f.detail = "no request issued but the call reported success"
		}
		return append(fs, f)
	case c.hasCreds() && effKind == "error":
		f := finding{clause: "credential-error-fails-call"}
		switch {
		case o.HandlerRan > 0:
			f.fail = "handler-ran"
			f.detail = fmt.Sprintf("the credential returned an error, yet the handler ran (err=%v)", o.err)
		case o.err == nil:
			f.fail = "call-succeeded"
			f.detail = "the credential returned an error, yet the call reported success"
		}
		return append(fs, f)
	case c.hasCreds() && effRequire && c.Transport == "inproc" && o.err != nil && o.HandlerRan == 0:
		// in-process counts as secure in the library; refusing instead would not
		// contradict the statement. Nothing to check.
		return nil
	case c.hasCreds() && effRequire && c.schemeClass() == "https-other-case" && o.err != nil && o.HandlerRan == 0 && o.Requests == 0:
		// "Https": not literally https (so refusing is what the statement says),
		// but URL schemes are case-insensitive and net/http sends the request over
		// TLS (so carrying is not a leak). Both conform. Nothing to check.
		return nil
	}
	// the call has to work
	f := finding{clause: "call-succeeds"}
	if o.err != nil || o.HandlerRan != 1 || o.Reply != "resp" {
		f.fail = "failed"
		f.detail = fmt.Sprintf("err=%v handler ran %d time(s) reply=%q", o.err, o.HandlerRan, o.Reply)
		return append(fs, f)
	}
	fs = append(fs, f)

	// metadata merge
	want := wantMD(c)
	if len(want) > 0 {
		f := finding{clause: "metadata-merge"}
		var keys []string
		for k := range want {
			keys = append(keys, k)
		}
		sort.Strings(keys)
		for _, k := range keys {
			if !containsAll(o.HandlerMD[k], want[k]) {
				f.fail = "key=" + k
				f.detail = fmt.Sprintf("handler saw %q=%q, needs all of %q (caller metadata %v, credential metadata kind %q)", k, o.HandlerMD[k], want[k], callerMD(c.CallerMD), effKind)
				if c.Via != nil {
					f.detail += fmt.Sprintf("; call options supplied by %s: the credential in effect is the one of %s (the last grpc.PerRPCCredentials option in the list the channel is given, as in grpc-go)", c.Via, c.credWinner())
				}
				if c.Merge != nil {
					// which values are missing is left out on purpose: when two spellings
					// of one key collide in a map, the survivor depends on Go's map
					// iteration order, the verdict (not everything arrived) does not.
					// --replay prints what the handler saw.
					cm, _ := c.credMD()
					f.detail = fmt.Sprintf("the handler did not receive all of %q under key %q: caller attached %s by %s, credential map has keys spelled %s (relation of the two spellings of %q: %s)",
						want[k], k, mdString(c.Merge.callerSpelled()), c.Merge.Build, mapKeys(cm), "shared", c.Merge.relation())
				}
				break
			}
		}
		fs = append(fs, f)
	}

	// handler's peer
	f = finding{clause: "handler-peer-address"}
	switch {
	case c.Arrive != nil && c.overHTTP() && o.Remote == "":
		// the HTTP server itself has no remote address for this request (arrive.go):
		// there is nothing to report; the TLS clause below still applies
		f.clause = "handler-peer-address-unknown-to-http-server"
	case !o.HPeerOK:
		f.fail, f.detail = "absent", "peer.FromContext in the handler found nothing"
		if c.Arrive != nil {
			f.detail += fmt.Sprintf(" (the httpgrpc handler got the request with RemoteAddr %q: %s)", o.Remote, c.Arrive)
		}
	case o.hPeerNil || o.HPeerAddr == "":
		f.fail, f.detail = "no-address", "handler's peer has no address"
		if c.Arrive != nil {
			f.detail += fmt.Sprintf(" (the httpgrpc handler got the request with RemoteAddr %q: %s)", o.Remote, c.Arrive)
		}
	case c.overHTTP() && !sameRemote(o.HPeerAddr, o.Remote):
		f.fail, f.detail = "address-mismatch", fmt.Sprintf("handler's peer address %q, the HTTP server saw the request from %q", o.HPeerAddr, o.Remote)
	}
	fs = append(fs, f)
	if c.connTLS() {
		f = finding{clause: "handler-peer-tls-info"}
		if o.HPeerAuth != "tls" {
			f.fail, f.detail = "no-tls-authinfo", fmt.Sprintf("connection uses TLS but the handler's peer AuthInfo is %q", o.HPeerAuth)
			if c.Arrive != nil {
				f.detail += fmt.Sprintf(" (handler's peer present: %v; the httpgrpc handler got the request with RemoteAddr %q: %s)", o.HPeerOK, o.Remote, c.Arrive)
			}
		}
		fs = append(fs, f)
	}
	fs = append(fs, interceptorPeerFindings(c, o)...) // callctx.go

	fs = append(fs, peerOptFindings(c, o, "")...)
	return fs
}

// peerOptFindings: what the grpc.Peer target has to hold once the call is over.
func peerOptFindings(c caseT, o obsT, suffix string) (fs []finding) {
	if c.Via != nil {
		// every peer target anybody passed has to be filled
		for _, so := range o.Suppliers {
			if !so.Peer {
				continue
			}
			for _, f := range peerTargetFindings(c, o, so.PeerSet, so.PeerAddr, so.PeerAuth, so.conn, suffix) {
				f.about = so.Who
				if f.fail != "" {
					f.detail = fmt.Sprintf("grpc.Peer target passed by %s (call options supplied by %s): %s", so.Who, c.Via, f.detail)
				}
				fs = append(fs, f)
			}
		}
		return fs
	}
	if !c.PeerOpt {
		return nil
	}
	return peerTargetFindings(c, o, o.CPeerSet, o.CPeerAddr, o.CPeerAuth, o.cPeerConn, suffix)
}

// connCompared counts the evaluations of the TLS-info clause in which the
// connection identity was available at both ends (so "of this connection" was
// really decided).
var connCompared int

// peerTargetFindings: the clauses about one grpc.Peer target (set: it has an
// address; addr, auth: what it holds) after a call of case c observed as o.
func peerTargetFindings(c caseT, o obsT, set bool, addr, auth, conn, suffix string) (fs []finding) {
	var f finding
	o.CPeerSet, o.CPeerAddr, o.CPeerAuth = set, addr, auth
	{
		f = finding{clause: "client-peer-address" + suffix}
		switch {
		case !o.CPeerSet || o.CPeerAddr == "":
			f.fail, f.detail = "unset", "the grpc.Peer target has no address after the call completed"
		case o.wantHost != "":
			// the address has to split into the base URL's host and port; when the
			// URL names no port, an address without a port (the URL's host as
			// written) is accepted as well as host:default-port
			h, p, err := net.SplitHostPort(o.CPeerAddr)
			switch {
			case err == nil && (h != o.wantHost || p != o.wantPort):
				f.fail, f.detail = "address-mismatch", fmt.Sprintf("grpc.Peer target address %q = host %q port %q, base URL %s names host %q port %q", o.CPeerAddr, h, p, o.BaseURL, o.wantHost, o.wantPort)
			case err != nil && !(!o.portGiven && (o.CPeerAddr == o.wantHost || o.CPeerAddr == "["+o.wantHost+"]")):
				f.fail, f.detail = "malformed-address", fmt.Sprintf("grpc.Peer target address %q does not split into host and port (%v); base URL %s names host %q port %q", o.CPeerAddr, err, o.BaseURL, o.wantHost, o.wantPort)
			}
		}
		fs = append(fs, f)
		if c.connTLS() {
			f = finding{clause: "client-peer-tls-info" + suffix}
			if conn != "" && o.serverConn != "" {
				connCompared++
			}
			if !strings.HasPrefix(o.CPeerAuth+"{", "tls{") {
				f.fail, f.detail = "no-tls-authinfo", fmt.Sprintf("connection uses TLS but the grpc.Peer target's AuthInfo is %q (want credentials.TLSInfo of the completed handshake)", o.CPeerAuth)
			} else if conn != "" && o.serverConn != "" && conn != o.serverConn {
				// both ends of one TLS connection export the same keying material,
				// two connections never do
				f.fail, f.detail = "tls-info-of-another-connection", "the grpc.Peer target holds TLS info, but not of the connection this call's request travelled on (keying material exported from the target's tls.ConnectionState differs from what the HTTP server exports for the request's connection)"
			}
			fs = append(fs, f)
		}
		if c.connClear() {
			// "TLS authentication info whenever the connection uses TLS": a
			// cleartext connection must not be reported as TLS-authenticated
			f = finding{clause: "client-peer-no-tls-info-on-cleartext" + suffix}
			if strings.HasPrefix(o.CPeerAuth, "tls") {
				f.fail, f.detail = "tls-authinfo-on-cleartext", fmt.Sprintf("the connection is cleartext (base URL %s) but the grpc.Peer target's AuthInfo is %q: the call is reported as TLS-authenticated", o.BaseURL, o.CPeerAuth)
			}
			fs = append(fs, f)
		}
	}
	return fs
}

// calibrateOracle feeds the metadata-merge clause synthetic observations: for
// every shape with a key on both sides, (1) everything arrived -> must hold,
// (2) only the caller's values arrived under the shared key, (3) only the
// credential's value arrived -> both must be rejected. (2) and (3) are the two
// outcomes of two spellings of one key colliding in a map, whichever way Go's
// map iteration goes; the verdict must not depend on which one happens.
func calibrateOracle() (n int, err error) {
	for _, m := range mergeShapes() {
		c := caseT{Transport: "inproc", Op: "unary", Creds: "both", CallerMD: "shape", PeerOpt: true, Merge: m}
		verdict := func(shared []string) string {
			md := metadata.MD{"a": {"1", "2"}, "tok": {"t1"}}
			if shared != nil {
				md["shared"] = shared
			}
			o := obsT{HandlerRan: 1, Reply: "resp", HandlerMD: md, HPeerOK: true, HPeerAddr: "x", CPeerSet: true, CPeerAddr: "x"}
			for _, f := range check(c, o) {
				if f.clause == "key-case/metadata-merge" {
					return f.fail
				}
			}
			return "clause-not-evaluated"
		}
		n++
		if v := verdict(append(append([]string(nil), m.sharedVals()...), "cred-v")); v != "" {
			return n, fmt.Errorf("shape %v: complete metadata rejected (%s)", m, v)
		}
		if !m.Overlap {
			continue
		}
		if v := verdict(m.sharedVals()); v != "key=shared" {
			return n, fmt.Errorf("shape %v: loss of the credential's value not reported (%q)", m, v)
		}
		if v := verdict([]string{"cred-v"}); v != "key=shared" {
			return n, fmt.Errorf("shape %v: loss of the caller's values not reported (%q)", m, v)
		}
		n += 2
	}
	return n, nil
}

// ---- enumeration -----------------------------------------------------------

func cases(tier string) []caseT {
	trs := []string{"inproc", "http-rt", "http-loopback", "https"}
	ops := []string{"unary", "bidi"}
	if tier == "thorough" {
		trs = append(trs, "https-h2")
		ops = append(ops, "server-stream", "client-stream")
	}
	type cr struct {
		kind string
		req  bool
	}
	crs := []cr{{"none", false}}
	for _, k := range []string{"nil", "empty", "one", "overlap", "both", "error"} {
		crs = append(crs, cr{k, false}, cr{k, true})
	}
	var out []caseT
	for _, t := range trs {
		hosts := []string{""}
		if t != "inproc" {
			hosts = []string{"v4", "v4-noport", "v6", "v6-long", "v6-noport"}
		}
		for _, host := range hosts {
			for _, op := range ops {
				for _, cred := range crs {
					for _, cm := range []string{"none", "some"} {
						for _, po := range []bool{false, true} {
							for _, ho := range []bool{false, true} {
								out = append(out, caseT{Transport: t, Op: op, Host: host, Creds: cred.kind, Require: cred.req, CallerMD: cm, PeerOpt: po, HdrOpt: ho})
							}
						}
					}
				}
			}
		}
	}
	// the key-case grammar, on every transport and kind, with and without the
	// security requirement; host spelling and peer/header options (independent
	// of the metadata path) stay at one value
	shapes := mergeShapes()
	for _, t := range trs {
		host := ""
		if t != "inproc" {
			host = "v4"
		}
		for _, op := range ops {
			for _, req := range []bool{false, true} {
				for _, m := range shapes {
					out = append(out, caseT{Transport: t, Op: op, Host: host, Creds: "both", Require: req, CallerMD: "shape", PeerOpt: true, Merge: m})
				}
			}
		}
	}
	// rejected calls: a response comes back, but not from a handler
	for _, t := range trs {
		if t == "inproc" {
			continue
		}
		for _, host := range []string{"v4", "v6"} {
			for _, op := range ops {
				for _, rej := range []string{"unknown-method", "front-503"} {
					for _, cr := range []string{"none", "both"} {
						for _, ho := range []bool{false, true} {
							out = append(out, caseT{Transport: t, Op: op, Host: host, Creds: cr, CallerMD: "none", PeerOpt: true, HdrOpt: ho, Reject: rej})
						}
					}
				}
			}
		}
	}
	return out
}

// ---- sequences of calls on one caller context ------------------------------

type seqT struct {
	CallerCtx string  `json:"caller_ctx"` // new: metadata.NewOutgoingContext(md) | new+append: NewOutgoingContext then AppendToOutgoingContext | key-case: as the steps' Merge says (same caller part in every step)
	Steps     []caseT `json:"steps"`
}

var mdUniverse = []string{"a", "shared", "tok"}

func seqContext(kind string) (context.Context, metadata.MD, metadata.MD) {
	if kind == "new+append" {
		md := metadata.MD{"shared": {"caller-v"}}
		ctx := metadata.NewOutgoingContext(context.Background(), md)
		return metadata.AppendToOutgoingContext(ctx, "a", "1", "a", "2"), md, md.Copy()
	}
	md := callerMD("some")
	return metadata.NewOutgoingContext(context.Background(), md), md, md.Copy()
}

type seqFinding struct {
	finding
	step int
}

func sameMD(a, b metadata.MD) bool {
	if len(a) != len(b) {
		return false
	}
	for k, v := range a {
		if strings.Join(v, "\x00") != strings.Join(b[k], "\x00") || len(v) != len(b[k]) {
			return false
		}
	}
	return true
}

func runSeq(e *env, q seqT) (obs []obsT, fs []seqFinding) {
	var ctx context.Context
	var md, orig metadata.MD
	if m := q.Steps[0].Merge; m != nil {
		ctx, md = m.callerContext()
		orig = md.Copy()
	} else {
		ctx, md, orig = seqContext(q.CallerCtx)
	}
	mutated := false
	for i, c := range q.Steps {
		if c.Merge == nil {
			c.CallerMD = "some"
		}
		o := guardedCtx(e, c, ctx)
		obs = append(obs, o)
		for _, f := range check(c, o) {
			fs = append(fs, seqFinding{f, i})
		}
		if o.HandlerRan == 1 && o.err == nil {
			f := finding{clause: "metadata-exact-in-sequence"}
			want := wantMD(c)
			for _, k := range mdUniverse {
				have, w := append([]string(nil), o.HandlerMD[k]...), append([]string(nil), want[k]...)
				sort.Strings(have)
				sort.Strings(w)
				if strings.Join(have, "\x00") != strings.Join(w, "\x00") || len(have) != len(w) {
					f.fail = "key=" + k
					f.detail = fmt.Sprintf("call %d of the sequence (%s %s creds=%s): handler saw %q=%q, exactly %q expected (caller metadata + this call's credential metadata)", i+1, c.Transport, c.Op, c.Creds, k, o.HandlerMD[k], want[k])
					if c.Merge != nil {
						// observed values left out: see the metadata-merge clause
						f.detail = fmt.Sprintf("call %d of the sequence (%s %s, key-case shape %v): the handler's values under %q are not exactly %q (caller metadata + this call's credential metadata)", i+1, c.Transport, c.Op, c.Merge, k, want[k])
					}
					break
				}
			}
			fs = append(fs, seqFinding{f, i})
		}
		f := finding{clause: "caller-md-unchanged"}
		if !mutated && !sameMD(md, orig) {
			mutated = true
			f.fail = "mutated"
			f.detail = fmt.Sprintf("after call %d (%s %s creds=%s) the metadata.MD the caller put into its context is %v, was %v", i+1, c.Transport, c.Op, c.Creds, md, orig)
		}
		fs = append(fs, seqFinding{f, i})
	}
	return obs, fs
}

func seqFingerprint(q seqT, f seqFinding) string {
	c := q.Steps[f.step]
	earlier := "no-creds"
	for _, p := range q.Steps[:f.step] {
		if p.Creds != "none" {
			earlier = "creds"
		}
	}
	// the op and the require flag of the failing call are collapsed: what
	// matters is its transport, whether it had credentials and what preceded
	cr := "none"
	if c.Creds != "none" {
		cr = "yes"
	}
	return fmt.Sprintf("C13|seq|ctx=%s|%s|%s|call=%s/creds=%s|earlier-calls=%s", q.CallerCtx, f.clause, f.fail, c.Transport, cr, earlier)
}

func seqs(tier string, ref bool) []seqT {
	trs := []string{"inproc", "http-rt", "https"}
	if tier == "thorough" {
		trs = append(trs, "http-loopback", "https-h2")
	}
	if ref {
		trs = []string{"grpc-go"}
	}
	var steps []caseT
	for _, t := range trs {
		for _, op := range []string{"unary", "bidi"} {
			steps = append(steps, caseT{Transport: t, Op: op, Creds: "none"}, caseT{Transport: t, Op: op, Creds: "both"}, caseT{Transport: t, Op: op, Creds: "both", Require: true})
		}
	}
	var out []seqT
	for _, k := range []string{"new", "new+append"} {
		for _, a := range steps {
			for _, b := range steps {
				out = append(out, seqT{CallerCtx: k, Steps: []caseT{a, b}})
			}
		}
	}
	// key-case grammar on one shared context: every caller part x every ordered
	// pair of credential key spellings, a unary call then a stream
	for _, t := range trs {
		if !ref && t != "inproc" && t != "http-rt" && t != "https" {
			continue
		}
		host := ""
		if t != "inproc" && t != "grpc-go" {
			host = "v4"
		}
		for _, m := range mergeShapes() {
			if m.CredKey != "lower" {
				continue // one representative per caller part
			}
			for _, k1 := range []string{"lower", "cap", "upper"} {
				for _, k2 := range []string{"lower", "cap", "upper"} {
					m1, m2 := *m, *m
					m1.CredKey, m2.CredKey = k1, k2
					out = append(out, seqT{CallerCtx: "key-case", Steps: []caseT{
						{Transport: t, Op: "unary", Host: host, Creds: "both", CallerMD: "shape", Merge: &m1},
						{Transport: t, Op: "bidi", Host: host, Creds: "both", CallerMD: "shape", Merge: &m2}}})
				}
			}
		}
	}
	if tier == "thorough" {
		var small []caseT
		for _, st := range steps {
			if st.Transport == "inproc" || st.Transport == "http-rt" || st.Transport == "https" || ref {
				small = append(small, st)
			}
		}
		for _, a := range small {
			for _, b := range small {
				for _, c := range small {
					out = append(out, seqT{CallerCtx: "new", Steps: []caseT{a, b, c}})
				}
			}
		}
	}
	return out
}

// dims are the case parameters a fingerprint collapses when the clause fails
// for every value of them for which it was evaluated.
func dims(c caseT) [][2]string {
	creds := c.Creds
	if c.Creds != "none" {
		creds = fmt.Sprintf("%s/require=%v", c.Creds, c.Require)
	}
	ds := [][2]string{{"reject", c.Reject}, {"host", c.Host}, {"creds", creds}, {"caller-md", c.CallerMD}, {"peer-opt", fmt.Sprint(c.PeerOpt)}, {"hdr-opt", fmt.Sprint(c.HdrOpt)}}
	return append(ds, mergeDims(c.Merge)...)
}

var dimNames = []string{"reject", "host", "creds", "caller-md", "peer-opt", "hdr-opt", "cred-key", "caller-key", "key-relation", "caller-build", "caller-vals"}

func mergeDims(m *mergeT) [][2]string {
	if m == nil {
		return [][2]string{{"cred-key", ""}, {"caller-key", ""}, {"key-relation", ""}, {"caller-build", ""}, {"caller-vals", ""}}
	}
	vals := "n/a" // no shared key on the caller's side: not a value of this parameter
	if m.Overlap {
		vals = fmt.Sprint(m.Vals)
	}
	return [][2]string{{"cred-key", m.CredKey}, {"caller-key", m.CallerKey}, {"key-relation", m.relation()}, {"caller-build", m.Build}, {"caller-vals", vals}}
}

// grouper collapses the failing cases of one clause into one report per
// (scope, clause, failure): a parameter appears in the fingerprint only when
// the clause fails for some but not all of the values it was evaluated with.
type group struct {
	first   interface{}
	detail  string
	failing []map[string]bool
	order   int
}

type grouper struct {
	names      []string
	applicable map[string][]map[string]bool // scope|clause -> per parameter the values evaluated
	groups     map[string]*group            // scope|clause|fail
}

func newGrouper(names []string) *grouper {
	return &grouper{names: names, applicable: map[string][]map[string]bool{}, groups: map[string]*group{}}
}

func (gr *grouper) add(ak string, ds [][2]string, f finding, first interface{}) {
	if gr.applicable[ak] == nil {
		gr.applicable[ak] = make([]map[string]bool, len(ds))
		for i := range ds {
			gr.applicable[ak][i] = map[string]bool{}
		}
	}
	for i, d := range ds {
		if d[1] != "n/a" {
			gr.applicable[ak][i][d[1]] = true
		}
	}
	if f.fail == "" {
		return
	}
	gk := ak + "|" + f.fail
	g := gr.groups[gk]
	if g == nil {
		g = &group{first: first, detail: f.detail, order: len(gr.groups), failing: make([]map[string]bool, len(ds))}
		for i := range ds {
			g.failing[i] = map[string]bool{}
		}
		gr.groups[gk] = g
	}
	for i, d := range ds {
		if d[1] != "n/a" {
			g.failing[i][d[1]] = true
		}
	}
}

func (gr *grouper) report(rep *vlib.Reporter, prefix, everywhere string) {
	var gks []string
	for k := range gr.groups {
		gks = append(gks, k)
	}
	sort.Slice(gks, func(i, j int) bool { return gr.groups[gks[i]].order < gr.groups[gks[j]].order })
	for _, gk := range gks {
		g := gr.groups[gk]
		ak := gk[:strings.LastIndex(gk, "|")]
		fp := prefix + gk
		scope := ""
		for i, n := range gr.names {
			if len(g.failing[i]) == len(gr.applicable[ak][i]) {
				continue // fails for every value of this parameter the clause was evaluated with
			}
			var vs []string
			for v := range g.failing[i] {
				vs = append(vs, v)
			}
			sort.Strings(vs)
			fp += "|" + n + "=" + strings.Join(vs, ",")
			scope += fmt.Sprintf(" only for %s in {%s};", n, strings.Join(vs, ","))
		}
		if scope == "" {
			scope = everywhere
		}
		rep.Violation(fp, g.detail+" —"+scope+fmt.Sprintf(" first case %+v", g.first), g.first)
	}
}

func guarded(e *env, c caseT) obsT { return guardedCtx(e, c, nil) }

func guardedCtx(e *env, c caseT, base context.Context) obsT { return guardedTg(e, c, base, nil) }

func guardedTg(e *env, c caseT, base context.Context, tgs []*targetSet) obsT {
	ch := make(chan obsT, 1)
	go func() { ch <- runCtx(e, c, base, tgs) }()
	select {
	case o := <-ch:
		return o
	case <-time.After(30 * time.Second):
		fmt.Fprintf(os.Stderr, "INCONCLUSIVE: case %+v did not complete within 30 s\n", c)
		os.Exit(2)
	}
	panic("unreachable")
}

func main() {
	debug.SetMemoryLimit(3 << 30)
	rep := vlib.NewReporter("C13")
	e := &env{}

	if p := common.Arg("replay"); p != "" {
		var rq reuseT
		if err := common.LoadReplay(p, &rq); err == nil && len(rq.ReuseSteps) > 0 {
			ctl, cfs := runReuse(e, reuseT{Targets: "fresh", ReuseSteps: rq.ReuseSteps}, nil)
			obs, fs := ctl, cfs
			if rq.Targets != "fresh" {
				obs, fs = runReuse(e, rq, ctl)
			}
			fmt.Printf("replay: sequence of calls, call-option targets (peer.Peer, header MD, trailer MD): %s\n", rq.Targets)
			bad := false
			for i, o := range obs {
				fmt.Printf("  call %d %+v\n    observed: err=%q requests=%d handler ran=%d\n", i+1, rq.ReuseSteps[i], o.Err, o.Requests, o.HandlerRan)
				for j, t := range o.Targets {
					fmt.Printf("    target %q after the call: %+v\n", t.Name, t)
					if rq.Targets != "fresh" && j == 0 && i < len(ctl) && len(ctl[i].Targets) > 0 {
						fmt.Printf("    (control run, zero target, same call: %+v)\n", ctl[i].Targets[0])
					}
				}
				for _, f := range fs {
					if f.step == i && f.fail != "" {
						fmt.Printf("    clause %s (target %s): FAILED %s: %s\n", f.clause, f.target, f.fail, f.detail)
						bad = true
					}
				}
			}
			if bad {
				fmt.Printf("VIOLATION property=C13 replay=%s\n", p)
				os.Exit(1)
			}
			os.Exit(0)
		}
		var q seqT
		if err := common.LoadReplay(p, &q); err == nil && len(q.Steps) > 0 {
			obs, fs := runSeq(e, q)
			fmt.Printf("replay: sequence on one context (%s)\n", q.CallerCtx)
			bad := false
			for i, o := range obs {
				fmt.Printf("  call %d %+v\n    observed: err=%q requests=%d handler ran=%d handler md=%v\n", i+1, q.Steps[i], o.Err, o.Requests, o.HandlerRan, o.HandlerMD)
				for _, f := range fs {
					if f.step == i && f.fail != "" {
						fmt.Printf("    clause %s: FAILED %s: %s\n", f.clause, f.fail, f.detail)
						bad = true
					}
				}
			}
			if bad {
				fmt.Printf("VIOLATION property=C13 replay=%s\n", p)
				os.Exit(1)
			}
			os.Exit(0)
		}
		var c caseT
		if err := common.LoadReplay(p, &c); err != nil {
			fmt.Fprintln(os.Stderr, "INCONCLUSIVE:", err)
			os.Exit(2)
		}
		o := guarded(e, c)
		fmt.Printf("replay: case=%+v\n  observed: %+v\n", c, o)
		bad := false
		for _, f := range check(c, o) {
			v := "held"
			if f.fail != "" {
				v = "FAILED " + f.fail + ": " + f.detail
				bad = true
			}
			about := ""
			if f.about != "" {
				about = " (peer target passed by " + f.about + ")"
			}
			fmt.Printf("  clause %s%s: %s\n", f.clause, about, v)
		}
		if bad {
			fmt.Printf("VIOLATION property=C13 replay=%s\n", p)
			os.Exit(1)
		}
		os.Exit(0)
	}

	// thorough: the oracle itself has to accept what grpc-go does (insecure
	// transport over bufconn) on the same credential/metadata/peer grammar.
	calibrated, err := calibrateOracle()
	if err != nil {
		fmt.Fprintln(os.Stderr, "INCONCLUSIVE: oracle calibration:", err)
		os.Exit(2)
	}
	calibratedReuse, err := calibrateReuse()
	if err != nil {
		fmt.Fprintln(os.Stderr, "INCONCLUSIVE: oracle calibration:", err)
		os.Exit(2)
	}
	calibratedSupply, err := calibrateSupply()
	if err != nil {
		fmt.Fprintln(os.Stderr, "INCONCLUSIVE: oracle calibration:", err)
		os.Exit(2)
	}
	calibratedMixed, err := calibrateMixed()
	if err != nil {
		fmt.Fprintln(os.Stderr, "INCONCLUSIVE: oracle calibration:", err)
		os.Exit(2)
	}
	calibratedArrive, err := calibrateArrive()
	if err != nil {
		fmt.Fprintln(os.Stderr, "INCONCLUSIVE: oracle calibration:", err)
		os.Exit(2)
	}
	calibratedCallCtx, err := calibrateCallCtx()
	if err != nil {
		fmt.Fprintln(os.Stderr, "INCONCLUSIVE: oracle calibration:", err)
		os.Exit(2)
	}
	connCompared = 0
	refRuns := 0
	if rep.Tier == "thorough" {
		// the call context (deadline, metadata, server interceptor): grpc-go's peers
		for _, c := range callCtxCases("thorough", true) {
			o := guarded(e, c)
			refRuns++
			if c.Call.Interceptor && o.IRan != 1 {
				fmt.Fprintf(os.Stderr, "INCONCLUSIVE: grpc-go reference %+v (%v): the server interceptor ran %d time(s)\n", c, c.Call, o.IRan)
				os.Exit(2)
			}
			for _, f := range check(c, o) {
				if f.fail != "" {
					fmt.Fprintf(os.Stderr, "INCONCLUSIVE: the oracle rejects grpc-go's own behaviour on %+v (%v): %s %s: %s\n", c, c.Call, f.clause, f.fail, f.detail)
					os.Exit(2)
				}
			}
		}
	}
	if rep.Tier == "thorough" {
		// a server on a Unix-domain socket: grpc-go's handler peer
		for _, c := range arriveCases("thorough", true) {
			o := guarded(e, c)
			refRuns++
			for _, f := range check(c, o) {
				if f.fail != "" {
					fmt.Fprintf(os.Stderr, "INCONCLUSIVE: the oracle rejects grpc-go's own behaviour on %+v (%v): %s %s: %s\n", c, c.Arrive, f.clause, f.fail, f.detail)
					os.Exit(2)
				}
			}
		}
	}
	if rep.Tier == "thorough" {
		// several credentials options with properties of their own against grpc-go
		for _, c := range mixCases("thorough", true) {
			o := guarded(e, c)
			refRuns++
			for _, f := range check(c, o) {
				if f.fail != "" {
					fmt.Fprintf(os.Stderr, "INCONCLUSIVE: the oracle rejects grpc-go's own behaviour on %+v (via %v): %s %s: %s\n", c, c.Via, f.clause, f.fail, f.detail)
					os.Exit(2)
				}
			}
		}
	}
	if rep.Tier == "thorough" {
		// interceptor-supplied options against grpc-go: the same interceptor
		// functions as dial options of a grpc.ClientConn
		for _, c := range viaCases("thorough", true) {
			o := guarded(e, c)
			refRuns++
			for _, f := range check(c, o) {
				if f.fail != "" {
					fmt.Fprintf(os.Stderr, "INCONCLUSIVE: the oracle rejects grpc-go's own behaviour on %+v (via %v): %s %s: %s\n", c, c.Via, f.clause, f.fail, f.detail)
					os.Exit(2)
				}
			}
		}
	}
	if rep.Tier == "thorough" {
		for _, c := range cases("thorough") {
			if c.Transport != "inproc" || c.Reject != "" {
				continue
			}
			c.Transport, c.Host = "grpc-go", ""
			o := guarded(e, c)
			refRuns++
			for _, f := range check(c, o) {
				if f.fail != "" {
					fmt.Fprintf(os.Stderr, "INCONCLUSIVE: the oracle rejects grpc-go's own behaviour on %+v: %s %s: %s\n", c, f.clause, f.fail, f.detail)
					os.Exit(2)
				}
			}
		}
	}

	if rep.Tier == "thorough" {
		for _, q := range seqs("thorough", true) {
			_, fs := runSeq(e, q)
			refRuns++
			for _, f := range fs {
				if f.fail != "" {
					fmt.Fprintf(os.Stderr, "INCONCLUSIVE: the oracle rejects grpc-go's own behaviour on sequence %+v: %s %s: %s\n", q, f.clause, f.fail, f.detail)
					os.Exit(2)
				}
			}
		}
	}

	if rep.Tier == "thorough" {
		// reused call-option targets against grpc-go
		for _, steps := range reuseSeqs("thorough", true) {
			ctl, fs := runReuse(e, reuseT{Targets: "fresh", ReuseSteps: steps}, nil)
			refRuns++
			for _, mode := range reuseModes {
				_, mfs := runReuse(e, reuseT{Targets: mode, ReuseSteps: steps}, ctl)
				refRuns++
				fs = append(fs, mfs...)
			}
			for _, f := range fs {
				if f.fail != "" {
					fmt.Fprintf(os.Stderr, "INCONCLUSIVE: the oracle rejects grpc-go's own behaviour on a sequence with reused call-option targets %+v: %s (target %s) %s: %s\n", steps, f.clause, f.target, f.fail, f.detail)
					os.Exit(2)
				}
			}
		}
	}

	single := newGrouper(dimNames) // scope transport|op
	nKeyCase, keyCaseMerged, keyCaseTwoSpellings := 0, map[string]bool{}, map[string]bool{}
	distinct := map[string]bool{}
	clauseCount := map[string]int{}
	var samples []interface{}
	sampled := map[string]bool{}
	evals := 0
	all := cases(rep.Tier)
	for _, c := range all {
		o := guarded(e, c)
		evals++
		if o.CredCalls[0]+o.CredCalls[1] > 0 || o.CPeerSet || isTLS(c.Transport) {
			distinct[fmt.Sprintf("%+v", c)] = true
		}
		if m := c.Merge; m != nil {
			nKeyCase++
			if o.CredCalls[1] > 0 && o.HandlerRan > 0 {
				k := fmt.Sprintf("%s|%s|%v|%v", c.Transport, c.Op, c.Require, m)
				keyCaseMerged[k] = true
				if m.Overlap && m.CredKey != "lower" {
					keyCaseTwoSpellings[k] = true
				}
			}
			if sk := "key-case|" + c.Transport; !sampled[sk] && m.CredKey == "cap" && m.CallerKey == "lower" && m.Overlap && m.Build == "new+append" && m.Vals == 2 {
				sampled[sk] = true
				samples = append(samples, map[string]interface{}{"case": c, "observed": o})
			}
		}
		fs := check(c, o)
		ds := dims(c)
		for _, f := range fs {
			clauseCount[f.clause]++
			single.add(c.Transport+"|"+c.Op+"|"+f.clause, ds, f, c)
		}
		sk := c.Transport + "|" + c.Op
		if !sampled[sk] && c.Creds == "both" && c.CallerMD == "some" && c.PeerOpt {
			sampled[sk] = true
			samples = append(samples, map[string]interface{}{"case": c, "observed": o})
		}
	}

	single.report(rep, "C13|", " for every host spelling / credential / caller-metadata / option combination the clause applies to")

	// who supplies the call options (supply.go)
	viaG := newGrouper(viaDimNames) // scope: the clause
	nVia, viaReached, viaShapesSeen := 0, map[string]bool{}, map[string]bool{}
	for _, c := range viaCases(rep.Tier, false) {
		o := guarded(e, c)
		evals++
		nVia++
		viaShapesSeen[fmt.Sprintf("%v|%v", c.Creds != "none", c.Via)] = true
		reached := false
		for _, so := range o.Suppliers {
			if so.Who != "caller" && (so.CredCalls[0]+so.CredCalls[1] > 0 || so.PeerSet) {
				reached = true
			}
		}
		k := fmt.Sprintf("%+v via %v", c, c.Via)
		if reached {
			viaReached[k] = true
		}
		if o.CredCalls[0]+o.CredCalls[1] > 0 || o.CPeerSet || isTLS(c.Transport) {
			distinct[k] = true
		}
		for _, f := range check(c, o) {
			clauseCount[f.clause]++
			viaG.add("via|"+f.clause, viaDims(c, f), f, c)
		}
		sk := "via|" + c.Transport + "|" + opKind(c.Op)
		if !sampled[sk] && c.Op == "bidi" && c.Creds == "both" && c.CallerMD == "some" && len(c.Via.Layers) == 2 && c.Via.Caller == "all" && c.Via.Layers[0].Adds == "creds" && c.Via.Layers[1].Adds == "creds+peer" {
			sampled[sk] = true
			samples = append(samples, map[string]interface{}{"case": c, "observed": o})
		}
	}
	viaG.report(rep, "C13|", " for every transport / kind / credential / caller metadata / supplier configuration the clause applies to")

	// several credentials options in one call, each with properties of its own (mixed.go)
	mixG := newGrouper(mixDimNames) // scope: the clause
	nMix, mixReached, mixLists, mixRefusalOpen := 0, map[string]bool{}, map[string]bool{}, 0
	for _, c := range mixCases(rep.Tier, false) {
		o := guarded(e, c)
		evals++
		nMix++
		mixLists[fmt.Sprintf("%v|%s", c.Via.Prepend, c.specList())] = true
		k := fmt.Sprintf("%+v via %v", c, c.Via)
		for _, so := range o.Suppliers {
			if so.Who == c.credWinner() && so.CredCalls[0]+so.CredCalls[1] > 0 {
				mixReached[k], distinct[k] = true, true
			}
		}
		fs := check(c, o)
		for _, f := range fs {
			clauseCount[f.clause]++
			mixG.add("mixed|"+f.clause, mixDims(c, f), f, c)
		}
		if len(fs) == 1 && fs[0].clause == clauseNotInEffect && fs[0].fail == "" && o.err != nil {
			mixRefusalOpen++ // refused although the credential in effect accepts any transport (conforms)
		}
		sk := "mixed|" + c.Transport + "|" + opKind(c.Op)
		if sp, sp2 := c.Via.Each["caller"], c.Via.Each["caller2"]; !sampled[sk] && c.Via.Caller == "two" && len(c.Via.Layers) == 0 && sp == (credSpecT{"own", true}) && sp2 == (credSpecT{"own", false}) && c.CallerMD == "some" && !isSchemeTransport(c.Transport) {
			sampled[sk] = true
			samples = append(samples, map[string]interface{}{"case": c, "observed": o})
		}
	}
	mixG.report(rep, "C13|", " for every transport / kind / caller metadata / list of credentials the clause applies to")

	// the base URL's scheme (supply.go)
	schemeG := newGrouper(schemeDimNames) // scope: the clause
	nScheme, schemeDecided, schemeSeen := 0, map[string]bool{}, map[string]map[string]bool{}
	for _, c := range schemeCases(rep.Tier) {
		o := guarded(e, c)
		evals++
		nScheme++
		k := fmt.Sprintf("%+v via %v", c, c.Via)
		if o.CredCalls[0] > 0 {
			schemeDecided[k] = true
			if o.Requests > 0 {
				if schemeSeen[showScheme(c.Scheme)] == nil {
					schemeSeen[showScheme(c.Scheme)] = map[string]bool{}
				}
				schemeSeen[showScheme(c.Scheme)][showScheme(o.SentScheme)] = true
			}
		}
		if o.CredCalls[0]+o.CredCalls[1] > 0 || o.CPeerSet || c.connTLS() {
			distinct[k] = true
		}
		for _, f := range check(c, o) {
			clauseCount[f.clause]++
			schemeG.add("scheme|"+f.clause, schemeDims(c), f, c)
		}
		sk := "scheme|" + c.Transport + "|" + c.Scheme
		if !sampled[sk] && c.Transport == "scheme-rt" && c.Op == "bidi" && c.Creds == "one" && c.Require && c.PeerOpt && c.Host == "v4" {
			sampled[sk] = true
			samples = append(samples, map[string]interface{}{"case": c, "observed": o})
		}
	}
	schemeG.report(rep, "C13|", " for every scheme / transport / kind / host / credential / caller metadata / option combination the clause applies to")
	schemeAsSent := map[string][]string{}
	for sch, m := range schemeSeen {
		for v := range m {
			schemeAsSent[sch] = append(schemeAsSent[sch], v)
		}
		sort.Strings(schemeAsSent[sch])
	}

	// where the request comes from as the HTTP server sees it (arrive.go)
	arriveG := newGrouper(arriveDimNames) // scope: the clause
	nArrive, arriveReached, arriveShapes, arriveTLS := 0, map[string]bool{}, map[string]map[string]bool{}, 0
	for _, c := range arriveCases(rep.Tier, false) {
		o := guarded(e, c)
		evals++
		nArrive++
		ds := arriveDims(c, o)
		if lit, rewritten := remoteLiteral(c.Arrive.Rewrite); o.HandlerRan > 0 && (!rewritten || o.Remote == lit) {
			// the httpgrpc handler was handed a request with the RemoteAddr of the case
			k := fmt.Sprintf("%+v %+v", c, *c.Arrive)
			arriveReached[k], distinct[k] = true, true
			if arriveShapes[ds[0][1]] == nil {
				arriveShapes[ds[0][1]] = map[string]bool{}
			}
			arriveShapes[ds[0][1]][c.Arrive.setBy()] = true
			if c.connTLS() {
				arriveTLS++
			}
		}
		for _, f := range check(c, o) {
			clauseCount[f.clause]++
			arriveG.add("arrive|"+f.clause, ds, f, c)
		}
		sk := "arrive|" + c.Transport + "|" + c.Arrive.setBy()
		if !sampled[sk] && c.Op == "bidi" && c.Creds == "both" && (c.Arrive.Rewrite == "" || c.Arrive.Rewrite == "ip4") {
			sampled[sk] = true
			samples = append(samples, map[string]interface{}{"case": c, "observed": o})
		}
	}
	arriveG.report(rep, "C13|", " for every shape of Request.RemoteAddr / who set it / transport / kind / credential the clause applies to")
	shapesSeen := map[string][]string{}
	for sh, m := range arriveShapes {
		for by := range m {
			shapesSeen[sh] = append(shapesSeen[sh], by)
		}
		sort.Strings(shapesSeen[sh])
	}

	// the context of the call: deadline, metadata, who reads the peer (callctx.go)
	callG := newGrouper(callCtxDimNames) // scope: the clause
	nCall, callDeadlineReached, callInterceptorRead, callTLS := 0, map[string]bool{}, map[string]bool{}, 0
	for _, c := range callCtxCases(rep.Tier, false) {
		o := guarded(e, c)
		evals++
		nCall++
		k := fmt.Sprintf("%+v %+v", c, *c.Call)
		if c.Call.Deadline != "" && o.HandlerRan > 0 && o.HDeadline {
			// the deadline travelled: the handler's context was made from it
			callDeadlineReached[k], distinct[k] = true, true
			if c.connTLS() {
				callTLS++
			}
			if c.Call.Interceptor && o.IRan > 0 {
				callInterceptorRead[k] = true
			}
		}
		for _, f := range check(c, o) {
			clauseCount[f.clause]++
			callG.add("callctx|"+f.clause, callCtxDims(c), f, c)
		}
		sk := "callctx|" + c.Transport
		if !sampled[sk] && c.Op == "bidi" && c.Creds == "both" && c.Call.Deadline != "" && c.Call.Interceptor {
			sampled[sk] = true
			samples = append(samples, map[string]interface{}{"case": c, "observed": o})
		}
	}
	callG.report(rep, "C13|", " for every deadline / metadata / reader of the peer / transport / kind the clause applies to")

	// sequences of calls sharing the caller's context
	nSeq, nSeqCalls, nKeyCaseSeq := 0, 0, 0
	keyCaseSeq := newGrouper([]string{"call", "earlier-cred-key", "cred-key", "caller-key", "key-relation", "caller-build", "caller-vals"}) // scope transport
	for _, q := range seqs(rep.Tier, false) {
		obs, fs := runSeq(e, q)
		nSeq++
		nSeqCalls += len(obs)
		evals++
		withCreds := false
		for _, st := range q.Steps {
			withCreds = withCreds || st.Creds != "none"
		}
		if withCreds {
			distinct[fmt.Sprintf("%+v", q)] = true
		}
		if q.CallerCtx == "key-case" {
			nKeyCaseSeq++
		}
		for _, f := range fs {
			clauseCount[f.clause]++
			if q.CallerCtx == "key-case" {
				st := q.Steps[f.step]
				earlier := "-"
				if f.step > 0 {
					earlier = q.Steps[f.step-1].Merge.CredKey
				}
				ds := append([][2]string{{"call", fmt.Sprintf("%d:%s", f.step+1, st.Op)}, {"earlier-cred-key", earlier}}, mergeDims(st.Merge)...)
				keyCaseSeq.add(st.Transport+"|"+f.clause, ds, f.finding, q)
				continue
			}
			if f.fail != "" {
				rep.Violation(seqFingerprint(q, f), f.detail, q)
			}
		}
		if nSeq == 200 {
			samples = append(samples, map[string]interface{}{"sequence": q, "observed": obs})
		}
	}

	keyCaseSeq.report(rep, "C13|seq|ctx=key-case|", " for every key spelling / caller context construction of the key-case grammar, in both calls of the sequence")

	// sequences of calls sharing the caller's call-option targets (reuse.go)
	reuseG := newGrouper(reuseDimNames) // scope: the clause
	nReuse, nReuseSeqs, nReuseCalls, reuseWritten := 0, 0, 0, map[string]bool{}
	account := func(q reuseT, obs []obsT, fs []reuseFinding) {
		nReuse++
		evals++
		nReuseCalls += len(obs)
		known := 0 // calls after which the peer is known: a response arrived / the handler ran
		for _, o := range obs {
			if len(o.Targets) > 0 && (o.Requests > 0 || o.HandlerRan > 0) {
				known++
			}
		}
		if q.Targets != "fresh" && known >= 2 {
			k := fmt.Sprintf("%+v", q)
			reuseWritten[k], distinct[k] = true, true
		}
		for _, f := range fs {
			clauseCount[f.clause]++
			reuseG.add("reuse|"+f.clause, reuseDims(q, f), f.finding, q)
		}
	}
	for _, steps := range reuseSeqs(rep.Tier, false) {
		nReuseSeqs++
		cq := reuseT{Targets: "fresh", ReuseSteps: steps}
		ctl, cfs := runReuse(e, cq, nil)
		account(cq, ctl, cfs)
		for _, mode := range reuseModes {
			q := reuseT{Targets: mode, ReuseSteps: steps}
			obs, fs := runReuse(e, q, ctl)
			account(q, obs, fs)
			if mode == "reused" && len(steps) == 3 && steps[0].Transport == "https" && steps[1].Transport == "inproc" && isHTTP(steps[2].Transport) && steps[0].Op == "unary" && steps[1].Op == "bidi" && steps[2].Op == "unary" {
				samples = append(samples, map[string]interface{}{"sequence": q, "observed": obs})
			}
		}
	}
	reuseG.report(rep, "C13|", " for every position / transport / kind / credentials / earlier calls the clause applies to")

	for _, s := range e.servers {
		s.CloseClientConnections()
		s.Close()
	}
	os.Exit(rep.Finish("exploration", map[string]interface{}{
		"evaluations":         evals,
		"distinct_nontrivial": len(distinct),
		"rule": "full product {in-process, http via recorder RoundTripper, http loopback, https loopback (httptest TLS server + its client transport)" +
			map[bool]string{true: ", https with HTTP/2", false: ""}[rep.Tier == "thorough"] + "} x base-URL host spelling {IPv4:port, IPv4 without port, [::1]:port, [0:0:0:0:0:0:0:1]:port, [::1] without port; HTTP transports, the dialer always reaches the real listener} x ops x credentials {absent, {require security or not} x metadata {nil, empty, one key, overlapping key, both, error}} x caller metadata {absent, {a:[1,2],shared:[caller-v]}} x peer option x header option. " +
			"Plus rejected calls (unknown method -> 404, a front handler answering 503) x HTTP transports x {IPv4, IPv6} host x ops x {no creds, creds} x header option, with the peer option. " +
			"Plus every sequence of 2 calls (thorough: also of 3) on ONE caller context, each call from {in-process, http, https} x {unary, bidi} x {no creds, creds, creds requiring security}, context made by NewOutgoingContext or NewOutgoingContext+AppendToOutgoingContext: per call the handler's metadata on keys {a,shared,tok} is exactly caller + that call's credential metadata, and the caller's MD object is unchanged. " +
			"Plus the key-case grammar (81 shapes): spelling of the credential map's keys {lower, Capitalised, UPPER} x spelling of the caller's keys {lower, Capitalised, UPPER} x {caller has only key a (disjoint); caller also has the credential's key shared, with 1 or 2 values} x caller context built by {NewOutgoingContext(metadata.Pairs(keys as spelled)), AppendToOutgoingContext(keys as spelled) only, first value of each key by NewOutgoingContext(Pairs) and the rest appended}; logical content always caller {a:[1,2], shared:[caller-v(,caller-w)]}, credential {tok:t1, shared:cred-v}. Crossed with every transport x every op x {require security or not}; host spelling (IPv4:port) and peer/header options (peer only) are held at one value for these cases because they do not touch the metadata path (they are crossed with credentials in the main product). Clause key-case/metadata-merge: the handler finds all the caller's values and the credential's value under the LOWER-CASED key. " +
			"Plus, for every caller part of the key-case grammar (27) x every ordered pair of credential key spellings (9) x {in-process, http, https}: a unary call then a bidi stream on ONE caller context, with the same exact-metadata and caller-MD-unchanged clauses. " +
			"Plus call-option TARGETS reused across calls: the caller keeps ONE peer.Peer, ONE header MD and ONE trailer MD variable and passes them (grpc.Peer, grpc.Header, grpc.Trailer) to every call of a sequence. Steps: {in-process, http (recorder), https" + map[bool]string{true: ", http loopback, https with HTTP/2", false: ""}[rep.Tier == "thorough"] + "} x {unary, bidi" + map[bool]string{true: ", server-stream, client-stream", false: ""}[rep.Tier == "thorough"] + "} x {no credentials, credentials with metadata} plus, per HTTP transport and kind, a rejected call (unknown method: the server answers 404, no handler runs); EVERY ordered pair of steps, and every triple over {in-process, http, https" + map[bool]string{true: ", https with HTTP/2", false: ""}[rep.Tier == "thorough"] + "} x {unary, bidi} (credentials absent in the triples: the new dimension is swept around that base case there, it is crossed with credentials in the pairs). Every sequence is run in three modes: fresh zero targets for every call (control), one reused target set, and the reused set plus a fresh set passed to the same call. The handler of the i-th call sets headers {hdr:v, hdr-i:i, call:i} and trailers {tlr-i:i, call:i}. After each call every target set has to describe THAT call: address as for a single call; TLS info when that call's connection is TLS; no TLS info when it is cleartext; on the keys a handler of the sequence can set, exactly that call's headers and trailers; and (reused sets) address and auth info (kind; for TLS also version, cipher suite, negotiated protocol, SNI, number of peer certificates) equal to what the zero target of the same call of the control run got. " +
			"Verdicts do not depend on Go's map iteration order: when two spellings of one key collide in a map either the caller's or the credential's values survive, and both outcomes violate the inclusion (and the exact) clause; the oracle calibration feeds both outcomes (and the complete one) to the clause for every shape before the run; each case is run once; the text of a report leaves out the observed values for these cases (--replay prints them). " +
			"Plus WHO SUPPLIES the call options: what the caller passes {nothing, the credentials and a peer target} x 1 or 2 grpchan.InterceptClientConn wrappers around the channel, each installed for {the kind of the call only (the other interceptor nil), both kinds, the other kind only (the call passes through it)} (two wrappers: both kinds, plus the combinations with one wrapper of the other kind) and each adding {nothing, grpc.PerRPCCredentials, grpc.Peer, both} to the options it passes to the invoker/streamer" + map[bool]string{true: ", after or in front of the options it was given", false: " (appended)"}[rep.Tier == "thorough"] + "; without the configurations in which nobody passes anything, or nobody passes the credentials of a case that has some. CROSSED with every transport x every op x every credential {absent, {require security or not} x {nil, empty, one, overlap, both, error}} x caller metadata {absent, present}; host spelling IPv4:port and no header option (crossed with the rest in the main product). Every supplier has its own credential object (an interceptor's marks its values @L1/@L2) and its own peer.Peer. Same oracle as for single calls: the metadata of the credential in effect (the last grpc.PerRPCCredentials of the option list the channel is given) reaches the handler merged with the caller's; credentials requiring security refuse the call on http before any request (counting RoundTripper); every peer target anybody passed is filled (address; TLS info on TLS, none on cleartext). " +
			"Plus the base URL's SCHEME: {http, https, HTTP, Https, h2c, http+unix, ws, empty} as a url.URL literal x RoundTripper accepting it {custom RoundTripper serving in memory, stock http.Transport with the scheme registered by RegisterProtocol, RoundTripper forwarding https requests to the TLS loopback server and all others in the clear to the plain one} x host {IPv4:port, IPv4 without port} x every op x every credential x caller metadata x peer option; plus the alphabet swept around interceptor-supplied credentials (custom RoundTripper, one wrapper adding credentials + peer, caller passing nothing / everything, require or not, every op). Oracle: scheme https carries everything; every scheme that is not https in any spelling (HTTP and the empty one included) refuses credentials requiring security with zero requests handed to the RoundTripper and carries all other calls; Https (https in another case) may refuse (the statement read literally, what the library does) or carry (RFC 3986: schemes are case-insensitive, net/http speaks TLS for it). Peer clauses as everywhere; the in-memory RoundTrippers have no TLS whatever the URL says, so no TLS info may be reported there. " +
			"Plus SEVERAL grpc.PerRPCCredentials options in one call, EACH WITH PROPERTIES OF ITS OWN: option lists [caller, caller2] (the caller passes two, no wrapper), [caller, L1], [L1, L2], [caller, L1, L2]" + map[bool]string{true: ", the same with the interceptors' options in front, a wrapper installed for the kind of the call only, [caller, caller2, L1]", false: ""}[rep.Tier == "thorough"] + " x every assignment of (metadata kind from {one: the key tok all credentials share, own: a key only this credential has, empty map, error}, requires security or not) to every position" + map[bool]string{true: "", false: " (lists of three: kinds {one, own})"}[rep.Tier == "thorough"] + " x every transport x every op x caller metadata {absent, present}; plus the scheme alphabet around [caller, caller2] with the requirement on the first only / the second only. Oracle: the last option of the list is in effect (grpc-go; thorough requires the oracle to accept grpc-go on this grammar) and the single-call clauses are asked of it (requires security and the URL is not https: fails before any request; its error fails the call; else its metadata reaches the handler merged with the caller's); of a credential NOT in effect that requires security, on a URL that is not https, no metadata value may be handed to the RoundTripper or reach the handler (clause " + clauseNotInEffect + "); refusing such a call before any request, or failing a call because a credential not in effect returned an error, conforms as well. " +
			"Plus WHERE THE REQUEST COMES FROM as the HTTP server sees it: Request.RemoteAddr of the shapes {IPv4:port (what every other case has), bare IPv4, bare IPv6, [IPv6]:port, name:port, \"@\" (client of a Unix-domain socket), empty" + map[bool]string{true: ", [IPv6%zone]:port, bare name, a socket path, \"pipe\"", false: ""}[rep.Tier == "thorough"] + "} set by a middleware in front of the httpgrpc handler (as 'real IP' middlewares and PROXY-protocol listeners do), or left as the listener {loopback TCP, Unix-domain socket} reported it" + map[bool]string{true: ", or set by the middleware behind the Unix-domain listener", false: ""}[rep.Tier == "thorough"] + "; x {in-memory RoundTripper (middleware only), http loopback, https loopback" + map[bool]string{true: ", https with HTTP/2", false: ""}[rep.Tier == "thorough"] + "} x every op x {no credentials, credentials with metadata} with caller metadata and the peer option. Oracle: all single-call clauses; the handler's peer is present and its address says what the HTTP server knows as the remote address (the same string, or the same IP and port spelled differently, or a bare IP with any port); TLS info whenever the connection is TLS, whatever RemoteAddr looks like; with an empty RemoteAddr (the HTTP server knows no remote address) only the TLS clause is asked. thorough also runs grpc-go with its server on a Unix-domain socket through the same clauses. " +
			"Plus THE CONTEXT OF THE CALL: the caller's context {without a deadline (what every other case has), with a deadline in 30 s" + map[bool]string{true: ", in 2 h", false: ""}[rep.Tier == "thorough"] + "} (with one the HTTP client sends GRPC-Timeout and the server derives the handler's context from a timeout) x metadata travelling with the call {none, caller's outgoing metadata, caller's and a credential's" + map[bool]string{true: ", a credential's only", false: ""}[rep.Tier == "thorough"] + "} x who reads the peer {the handler, a server interceptor of the call's kind in front of it as well} x {in-process, in-memory RoundTripper, http loopback, https loopback" + map[bool]string{true: ", https with HTTP/2", false: ""}[rep.Tier == "thorough"] + "} x every op, peer option passed. Oracle: all single-call clauses: in every member the handler's peer is present with the remote address (over HTTP: Request.RemoteAddr as the HTTP server saw it) and TLS info on TLS; the same is asked of the peer the server interceptor finds on the context the library hands it (it runs as part of handling the call; grpc-go, run through the same clauses by thorough, gives it the handler's context). Nothing is demanded of the deadline itself. " +
			"A case is non-trivial when the credential object was actually consulted (its RequireTransportSecurity/GetRequestMetadata call counters are > 0), or the grpc.Peer target was written, or the connection was TLS (so the TLS-info clause of the handler's peer applies); distinct by all case parameters.",
		"clause_evaluations":          clauseCount,
		"sequences":                   nSeq,
		"sequence_calls":              nSeqCalls,
		"grpc_go_reference_oracle_ok": refRuns,
		"key_case": map[string]interface{}{
			"shapes":                   len(mergeShapes()),
			"cases":                    nKeyCase,
			"sequences":                nKeyCaseSeq,
			"distinct_reaching_merge":  len(keyCaseMerged),
			"of_those_two_spellings":   len(keyCaseTwoSpellings),
			"rule":                     "distinct (transport, op, require, shape) where GetRequestMetadata was called and the handler ran, i.e. the merged metadata travelled to the handler; 'two spellings': the credential spells the shared key with upper-case letters and the caller has that key too (the grpc metadata package hands the caller's keys to the library lower-cased), so the library holds two spellings of one key when it merges",
			"oracle_calibration_cases": calibrated,
		},
		"reused_call_option_targets": map[string]interface{}{
			"step_sequences":           nReuseSeqs,
			"runs":                     nReuse,
			"calls":                    nReuseCalls,
			"modes":                    append([]string{"fresh"}, reuseModes...),
			"distinct_reused_twice":    len(reuseWritten),
			"rule":                     "distinct (mode, steps) runs with a reused target set in which at least two calls got as far as knowing their peer (a response arrived or the in-process handler ran), i.e. the library wrote into a target that an earlier call had already written",
			"oracle_calibration_cases": calibratedReuse,
		},
		"option_suppliers": map[string]interface{}{
			"configurations": len(viaShapesSeen),
			"cases":          nVia,
			"distinct_interceptor_option_reached_channel": len(viaReached),
			"rule": "distinct cases in which an option ADDED BY AN INTERCEPTOR reached the mechanism: the interceptor's credential object was consulted (RequireTransportSecurity/GetRequestMetadata counters > 0) or the interceptor's peer.Peer was written",
		},
		"credentials_with_properties_of_their_own": map[string]interface{}{
			"cases":                 nMix,
			"distinct_option_lists": len(mixLists),
			"distinct_credential_in_effect_consulted":                  len(mixReached),
			"refused_although_the_one_in_effect_accepts_any_transport": mixRefusalOpen,
			"rule":                     "distinct cases of the mixed grammar in which the credential in effect (the last of the list) was consulted by the channel (RequireTransportSecurity/GetRequestMetadata counters > 0) while the list held at least one more credentials option; distinct_option_lists: distinct (order, per position supplier + kind + requirement) lists; clause_evaluations has how often the clause about credentials not in effect was decided",
			"oracle_calibration_cases": calibratedMixed,
		},
		"base_url_scheme": map[string]interface{}{
			"alphabet":                          len(schemeAlphabet),
			"cases":                             nScheme,
			"distinct_security_decided":         len(schemeDecided),
			"scheme_as_handed_to_round_tripper": schemeAsSent,
			"rule":                              "distinct cases of the scheme grammar in which the credential's RequireTransportSecurity was called, i.e. the library decided whether that base URL may carry it; scheme_as_handed_to_round_tripper: per base-URL scheme the URL scheme of the requests the RoundTripper got in those cases",
		},
		"request_arrival": map[string]interface{}{
			"alphabet": len(remoteAlphabet),
			"cases":    nArrive,
			"distinct_handler_ran_with_that_remote_addr": len(arriveReached),
			"of_those_on_tls":               arriveTLS,
			"remote_addr_shape_seen_set_by": shapesSeen,
			"rule":                          "distinct cases of the arrival grammar in which the handler ran and the RemoteAddr the HTTP side recorded right before the httpgrpc handler is the one of the case (the middleware's literal, or whatever the listener reported), i.e. the handler's peer was derived from a request of that shape; remote_addr_shape_seen_set_by: per shape (of the literal, or classified from the observed listener value) who set it",
			"oracle_calibration_cases":      calibratedArrive,
		},
		"call_context": map[string]interface{}{
			"cases":                             nCall,
			"distinct_deadline_reached_handler": len(callDeadlineReached),
			"of_those_on_tls":                   callTLS,
			"of_those_read_by_server_interceptor_too": len(callInterceptorRead),
			"rule":                     "distinct cases of the call-context grammar with a deadline in which the handler ran on a context that has a deadline, i.e. the deadline travelled with the call (GRPC-Timeout over HTTP) and the handler's context, where the peer is looked for, was built on the deadline path; of those, on a TLS connection; of those, with the server interceptor having run and read the peer as well",
			"oracle_calibration_cases": calibratedCallCtx,
		},
		"oracle_calibration_cases_suppliers_and_schemes": calibratedSupply,
		"tls_info_connection_identity_compared":          connCompared,
		"samples":                                        samples,
		"exhaustive":                                     true,
	}, []string{
		"loopback TCP/TLS only where the real net/http + crypto/tls stack is the subject (reply.TLS, r.TLS, RemoteAddr); every case uses a fresh connection; the arrival grammar also uses Unix-domain sockets (abstract namespace) for the same reason",
		"the remote address of the handler's peer is compared with Request.RemoteAddr as the httpgrpc handler received it (net/http documents no format for it: it is what the listener's connections report, or what a handler in front put there); its concrete net.Addr type and Network() are not constrained; when RemoteAddr is empty no address is demanded (the peer's TLS info still is)",
		"in-process with credentials that require transport security: both refusing and accepting are taken as conforming (the statement only speaks about the HTTP base URL)",
		"metadata merge is demanded as multiset inclusion per key (all caller values and all credential values present), order and extra keys free",
		"metadata keys are case-insensitive (grpc-go lower-cases the keys of a credential's map and of the outgoing metadata; thorough runs the whole key-case grammar against grpc-go over bufconn and requires the oracle to accept it): the handler has to find the values under the lower-cased key however caller and credential spelled it",
		"not in the grammar: a credential map that holds two spellings of the same key at once (grpc-go keeps only one of them); a caller metadata.MD literal with upper-case keys (grpc-go refuses the call: 'header key contains illegal characters') - the caller's spellings go through metadata.Pairs / AppendToOutgoingContext, which lower-case them in the grpc version the library is built with, so for the caller's side the spelling dimension exercises that package together with the library; the credential's map reaches the library as spelled",
		"several grpc.PerRPCCredentials options in one call (caller and interceptors all passing one): the last of the list the channel is given is in effect, as in grpc-go (thorough runs the supplier grammar against grpc-go with the interceptors installed as dial options and requires the oracle to accept it); in the supplier grammar all credentials of one case have the same RequireTransportSecurity and metadata kind; the mixed grammar gives each its own. What becomes of the metadata of a credential not in effect is free as long as it accepts any transport; when it requires transport security and the base URL is not https none of it may leave the client (\"never cross an insecure transport\"), and a library that refuses the whole call instead conforms too",
		"base-URL scheme Https: refusing and carrying are both taken as conforming (see rule); HTTP, h2c, http+unix, ws and the empty scheme are 'not https' under every reading and must refuse credentials that require security, whatever the RoundTripper would do with the request",
		"a credential whose GetRequestMetadata fails has to fail the call without the handler running (as grpc-go does); the error's type is not constrained",
		"TLS info of a grpc.Peer target has to be that of the connection the call used: keying material exported (RFC 5705/8446 exporter, fixed label) from the target's tls.ConnectionState equals what the HTTP server exports for the connection the request arrived on; every call uses a connection (and handshake) of its own, so the TLS info of any earlier call, also one to the same server, is told apart; compared whenever both ends yield an exporter value (count in tls_info_connection_identity_compared)",
		"a cleartext connection must not be reported with TLS info (the converse of 'TLS authentication info whenever the connection uses TLS'); other auth info on a cleartext or in-process call (grpc-go's insecure credentials report AuthType \"insecure\", the in-process channel reports \"inproc\") is accepted as long as a target that was used before ends up with the same as a zero target handed to the same call",
		"reused call-option targets: every handler of these sequences sets at least one header and one trailer; a call whose handler sets no headers or no trailers at all (what a reused grpc.Header/grpc.Trailer target holds after such a call) is response-metadata delivery, the subject of C03, and not a member of this grammar; headers and trailers are compared on the keys the handlers can set (a transport may add keys of its own, e.g. content-type)",
	}))
}
