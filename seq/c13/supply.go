// Two dimensions of the property's quantifier that the single-call grammar of
// main.go held at one value.
//
// (1) WHO SUPPLIES the call options. grpc.PerRPCCredentials and grpc.Peer are
// call options; they reach a channel either because the caller passes them to
// the call, or because a client interceptor (the usual "auth interceptor")
// adds them to the options it hands to the invoker / streamer, or both. The
// library's own way of installing client interceptors on a channel is
// grpchan.InterceptClientConn. Grammar (viaShapes): what the caller passes
// {nothing, credentials + peer target} x 1 or 2 wrappers around the channel,
// each wrapper installed for {the kind of the call only, both kinds, the OTHER
// kind only (the call passes through it untouched)} and adding {nothing,
// credentials, a peer target, both} of its own (thorough: in front of the
// options it was given as well as after them). Every supplier has a credential
// object and a peer.Peer variable of its own; an interceptor's credential
// marks its values with "@L1" / "@L2". The oracle is the one of the single
// calls: the credential IN EFFECT contributes its metadata (when several
// grpc.PerRPCCredentials options are in the list the channel is given, the
// last one is in effect: that is what grpc-go does, and thorough runs this
// whole grammar against grpc-go with the same interceptor functions installed
// as dial options), credentials that require transport security refuse the
// call on an insecure transport before any request, EVERY peer target anybody
// passed is filled.
//
// (2) The base URL's SCHEME. "the HTTP base URL is not https" quantifies over
// every scheme a base URL can have, not over {http, https}. Alphabet: http,
// https, HTTP, Https, h2c, http+unix, ws, "" - written in a url.URL literal
// (url.Parse would lower-case it) and given to a channel whose RoundTripper
// accepts the scheme: scheme-rt (a custom RoundTripper that serves whatever it
// gets in memory), scheme-registered (a stock http.Transport with the scheme
// registered by RegisterProtocol), scheme-loopback (a RoundTripper that
// forwards https requests to the TLS loopback server and everything else, in
// the clear, to the plain one). Each records what it is handed. Oracle:
// "https" carries everything; "Https" may go either way (see schemeClass);
// every other scheme refuses credentials that require transport security
// before any request and carries all others.
package main

import (
	"context"
	"crypto/tls"
	"fmt"
	"net"
	"net/http"
	"net/url"
	"strings"
	"sync/atomic"

	"github.com/fullstorydev/grpchan"
	"google.golang.org/grpc"
	"google.golang.org/grpc/metadata"
	"google.golang.org/grpc/peer"

	"verif/seq/common"
)

// ---- (1) who supplies the call options -----------------------------------------

type viaT struct {
	// Caller: none | all | two - what the caller itself passes to the call:
	// nothing, or the case's credentials (when it has any) and a grpc.Peer
	// target, or (mixed.go) those and a SECOND grpc.PerRPCCredentials option
	// after them (supplier "caller2")
	Caller string `json:"caller"`
	// Layers: outermost first; each is one grpchan.InterceptClientConn around
	// what is inside it
	Layers []layerT `json:"layers"`
	// Prepend: the interceptors put their options in front of the ones they
	// were given instead of after them
	Prepend bool `json:"prepend,omitempty"`
	// Each, when set (mixed.go), gives every supplier of credentials (caller |
	// caller2 | L1 | L2) a credential with properties of its own instead of the
	// case's Creds / Require shared by all
	Each map[string]credSpecT `json:"each,omitempty"`
}

type layerT struct {
	// Installed: matching (only the interceptor for the kind of the call is
	// given to InterceptClientConn, the other is nil) | both | other (only the
	// interceptor for the other kind: this call passes through untouched)
	Installed string `json:"installed"`
	// Adds: pass | creds | peer | creds+peer - what the interceptor adds to the
	// options before it calls the invoker / streamer
	Adds string `json:"adds"`
}

func (l layerT) active() bool    { return l.Installed != "other" }
func (l layerT) addsCreds() bool { return strings.Contains(l.Adds, "creds") }
func (l layerT) addsPeer() bool  { return strings.Contains(l.Adds, "peer") }

func (v *viaT) String() string {
	if v == nil {
		return "the caller"
	}
	var ls []string
	for i, l := range v.Layers {
		ls = append(ls, fmt.Sprintf("L%d[installed=%s adds=%s]", i+1, l.Installed, l.Adds))
	}
	order := "appended"
	if v.Prepend {
		order = "prepended"
	}
	if len(ls) == 0 {
		ls = []string{"none"}
	}
	return fmt.Sprintf("{caller passes %s; grpchan.InterceptClientConn wrappers, outermost first: %s; interceptor options %s%s}", v.Caller, strings.Join(ls, " "), order, v.eachString())
}

// installedSummary: how the wrappers were installed, as far as a report needs
// it: a wrapper for the other kind among them | all for both kinds | for the
// kind of the call only.
func (v *viaT) installedSummary() string {
	out := "both-kinds"
	for _, l := range v.Layers {
		switch l.Installed {
		case "other":
			return "one-wrapper-for-the-other-kind"
		case "matching":
			out = "kind-of-the-call-only"
		}
	}
	return out
}

// optionOrder: the suppliers in the order their options stand in the list the
// innermost channel is given. An interceptor that appends puts its options
// after the ones it got (caller, L1, L2); one that prepends, before (L2, L1,
// caller).
func (v *viaT) optionOrder() []string {
	out := []string{"caller"}
	if v.Caller == "two" {
		out = append(out, "caller2")
	}
	for i, l := range v.Layers {
		if !l.active() {
			continue
		}
		who := fmt.Sprintf("L%d", i+1)
		if v.Prepend {
			out = append([]string{who}, out...)
		} else {
			out = append(out, who)
		}
	}
	return out
}

func (c caseT) supplies(who, what string) bool {
	v := c.Via
	if v == nil {
		if who != "caller" {
			return false
		}
		if what == "creds" {
			return c.Creds != "none"
		}
		return c.PeerOpt
	}
	if what == "creds" && c.Creds == "none" {
		return false
	}
	if who == "caller" {
		return v.Caller == "all" || v.Caller == "two"
	}
	if who == "caller2" {
		return v.Caller == "two" && what == "creds"
	}
	var i int
	if _, err := fmt.Sscanf(who, "L%d", &i); err != nil || i < 1 || i > len(v.Layers) {
		return false
	}
	l := v.Layers[i-1]
	if !l.active() {
		return false
	}
	if what == "creds" {
		return l.addsCreds()
	}
	return l.addsPeer()
}

// credWinner: whose credential is in effect - the last grpc.PerRPCCredentials
// option of the list the channel gets ("" when there is none).
func (c caseT) credWinner() string {
	if c.Via == nil {
		if c.Creds != "none" {
			return "caller"
		}
		return ""
	}
	w := ""
	for _, who := range c.Via.optionOrder() {
		if c.supplies(who, "creds") {
			w = who
		}
	}
	return w
}

func (c caseT) hasCreds() bool { return c.credWinner() != "" }

// supObs: what one supplier's credential and peer target saw.
type supObs struct {
	Who       string   `json:"who"`
	Cred      bool     `json:"passes_credentials"`
	CredCalls [2]int64 `json:"cred_calls_require_get"`
	CredURI   string   `json:"cred_uri,omitempty"`
	Peer      bool     `json:"passes_peer_target"`
	PeerSet   bool     `json:"peer_set"`
	PeerAddr  string   `json:"peer_addr,omitempty"`
	PeerAuth  string   `json:"peer_auth,omitempty"`
	Ran       int64    `json:"interceptor_ran,omitempty"`
	conn      string
}

type supplier struct {
	who string
	cr  *cred
	pr  *peer.Peer
	ran int64
}

func (s *supplier) options() (opts []grpc.CallOption) {
	if s.cr != nil {
		opts = append(opts, grpc.PerRPCCredentials(s.cr))
	}
	if s.pr != nil {
		opts = append(opts, grpc.Peer(s.pr))
	}
	return opts
}

type viaState struct {
	c    caseT
	sups []*supplier // caller, L1, L2
}

func newViaState(c caseT) (*viaState, error) {
	vs := &viaState{c: c}
	if c.Via == nil {
		return vs, nil
	}
	if c.Via.Caller != "none" && c.Via.Caller != "all" && c.Via.Caller != "two" {
		return nil, fmt.Errorf("bad via.caller %q", c.Via.Caller)
	}
	if len(c.Via.Layers) > 2 || len(c.Via.Layers) < 1 && c.Via.Caller != "two" {
		return nil, fmt.Errorf("via needs 1 or 2 layers (or a caller passing two credentials options)")
	}
	if err := c.Via.checkEach(); err != nil {
		return nil, err
	}
	for _, l := range c.Via.Layers {
		switch l.Installed {
		case "matching", "both", "other":
		default:
			return nil, fmt.Errorf("bad layer installed %q", l.Installed)
		}
		switch l.Adds {
		case "pass", "creds", "peer", "creds+peer":
		default:
			return nil, fmt.Errorf("bad layer adds %q", l.Adds)
		}
	}
	whos := []string{"caller"}
	for i := range c.Via.Layers {
		whos = append(whos, fmt.Sprintf("L%d", i+1))
	}
	// the caller's second credentials option comes last in sups, so that layer i
	// stays at sups[i+1]
	if c.Via.Caller == "two" {
		whos = append(whos, "caller2")
	}
	for i, who := range whos {
		s := &supplier{who: who}
		// an inactive layer's interceptor (installed for the other kind) still
		// adds what its Adds says should it ever be run
		credsToo, peerToo := c.supplies(who, "creds"), c.supplies(who, "peer")
		if i > 0 && i <= len(c.Via.Layers) && !c.Via.Layers[i-1].active() {
			credsToo, peerToo = c.Creds != "none" && c.Via.Layers[i-1].addsCreds(), c.Via.Layers[i-1].addsPeer()
		}
		if credsToo {
			s.cr = &cred{c: c, who: who, require: c.requireOf(who)}
		}
		if peerToo {
			s.pr = &peer.Peer{}
		}
		vs.sups = append(vs.sups, s)
	}
	return vs, nil
}

func (vs *viaState) callerOpts() []grpc.CallOption {
	if vs.c.Via == nil || vs.c.Via.Caller == "none" {
		return nil
	}
	opts := vs.sups[0].options()
	if vs.c.Via.Caller == "two" {
		opts = append(opts, vs.sups[len(vs.sups)-1].options()...)
	}
	return opts
}

func (vs *viaState) extend(s *supplier, opts []grpc.CallOption) []grpc.CallOption {
	atomic.AddInt64(&s.ran, 1)
	extra := s.options()
	if vs.c.Via.Prepend {
		return append(append([]grpc.CallOption(nil), extra...), opts...)
	}
	return append(append([]grpc.CallOption(nil), opts...), extra...)
}

// interceptors of layer i (0 = outermost) as its Installed says for a call of
// the given kind; either may be nil.
func (vs *viaState) interceptors(i int, op string) (grpc.UnaryClientInterceptor, grpc.StreamClientInterceptor) {
	s := vs.sups[i+1]
	var u grpc.UnaryClientInterceptor = func(ctx context.Context, method string, req, reply interface{}, cc *grpc.ClientConn, invoker grpc.UnaryInvoker, opts ...grpc.CallOption) error {
		return invoker(ctx, method, req, reply, cc, vs.extend(s, opts)...)
	}
	var st grpc.StreamClientInterceptor = func(ctx context.Context, desc *grpc.StreamDesc, cc *grpc.ClientConn, method string, streamer grpc.Streamer, opts ...grpc.CallOption) (grpc.ClientStream, error) {
		return streamer(ctx, desc, cc, method, vs.extend(s, opts)...)
	}
	unary := op == "unary"
	switch vs.c.Via.Layers[i].Installed {
	case "matching":
		if unary {
			return u, nil
		}
		return nil, st
	case "other":
		if unary {
			return nil, st
		}
		return u, nil
	}
	return u, st
}

// wrap: grpchan.InterceptClientConn once per layer, innermost first.
func (vs *viaState) wrap(cc grpc.ClientConnInterface, op string) grpc.ClientConnInterface {
	for i := len(vs.c.Via.Layers) - 1; i >= 0; i-- {
		u, st := vs.interceptors(i, op)
		cc = grpchan.InterceptClientConn(cc, u, st)
	}
	return cc
}

// dialOptions: the same interceptors installed the grpc-go way (reference).
func (vs *viaState) dialOptions(op string) (out []grpc.DialOption) {
	if vs.c.Via == nil {
		return nil
	}
	var us []grpc.UnaryClientInterceptor
	var ss []grpc.StreamClientInterceptor
	for i := range vs.c.Via.Layers {
		u, st := vs.interceptors(i, op)
		if u != nil {
			us = append(us, u)
		}
		if st != nil {
			ss = append(ss, st)
		}
	}
	if len(us) > 0 {
		out = append(out, grpc.WithChainUnaryInterceptor(us...))
	}
	if len(ss) > 0 {
		out = append(out, grpc.WithChainStreamInterceptor(ss...))
	}
	return out
}

func (vs *viaState) observe() (out []supObs) {
	for _, s := range vs.sups {
		so := supObs{Who: s.who, Ran: atomic.LoadInt64(&s.ran)}
		// an inactive layer (installed for the other kind) hands on nothing
		// unless it was run by mistake
		handed := so.Ran > 0 || vs.c.supplies(s.who, "creds") || vs.c.supplies(s.who, "peer")
		if s.cr != nil && handed {
			so.Cred = true
			so.CredCalls = [2]int64{atomic.LoadInt64(&s.cr.nRequire), atomic.LoadInt64(&s.cr.nGet)}
			so.CredURI, _ = s.cr.uri.Load().(string)
		}
		if s.pr != nil && handed {
			so.Peer = true
			if s.pr.Addr != nil {
				so.PeerSet, so.PeerAddr = true, s.pr.Addr.String()
			}
			so.PeerAuth = authKind(s.pr.AuthInfo)
			so.conn = authConnID(s.pr.AuthInfo)
		}
		out = append(out, so)
	}
	return out
}

// viaShapes: the supplier configurations for a case with (withCreds) or
// without credentials. Left out as duplicates: a configuration in which nobody
// passes anything (the plain call), and for a case with credentials one in
// which nobody passes credentials (it is the case without credentials).
func viaShapes(withCreds bool, tier string) (out []*viaT) {
	adds := []string{"pass", "peer"}
	if withCreds {
		adds = []string{"pass", "creds", "peer", "creds+peer"}
	}
	full := adds[len(adds)-1]
	ok := func(v *viaT) bool {
		c := caseT{Creds: "none", Via: v}
		if withCreds {
			c.Creds = "one"
		}
		if withCreds {
			return c.hasCreds()
		}
		for _, who := range []string{"caller", "L1", "L2"} {
			if c.supplies(who, "peer") {
				return true
			}
		}
		return false
	}
	add := func(v *viaT) {
		if !ok(v) {
			return
		}
		out = append(out, v)
		active := false
		for _, l := range v.Layers {
			active = active || l.active() && l.Adds != "pass"
		}
		if tier == "thorough" && active {
			p := *v
			p.Prepend = true
			out = append(out, &p)
		}
	}
	callers := []string{"all", "none"}
	// one wrapper
	for _, inst := range []string{"matching", "both"} {
		for _, a := range adds {
			for _, cl := range callers {
				add(&viaT{Caller: cl, Layers: []layerT{{inst, a}}})
			}
		}
	}
	add(&viaT{Caller: "all", Layers: []layerT{{"other", full}}})
	// two wrappers
	for _, a1 := range adds {
		for _, a2 := range adds {
			for _, cl := range callers {
				add(&viaT{Caller: cl, Layers: []layerT{{"both", a1}, {"both", a2}}})
			}
		}
	}
	for _, cl := range callers {
		add(&viaT{Caller: cl, Layers: []layerT{{"other", full}, {"matching", full}}})
		add(&viaT{Caller: cl, Layers: []layerT{{"matching", full}, {"other", full}}})
	}
	return out
}

type credKind struct {
	kind string
	req  bool
}

func credKinds() []credKind {
	crs := []credKind{{"none", false}}
	for _, k := range []string{"one", "overlap", "both", "nil", "empty", "error"} {
		crs = append(crs, credKind{k, false}, credKind{k, true})
	}
	return crs
}

// viaCases: every supplier configuration x every transport x kind x credential
// x caller metadata. Host spelling (IPv4:port) and the header option (absent)
// stay at one value: they are crossed with credentials and the peer option in
// the main product.
func viaCases(tier string, ref bool) (out []caseT) {
	trs := []string{"inproc", "http-rt", "http-loopback", "https"}
	ops := []string{"unary", "bidi"}
	if tier == "thorough" {
		trs = append(trs, "https-h2")
		ops = append(ops, "server-stream", "client-stream")
	}
	if ref {
		trs = []string{"grpc-go"}
	}
	with, without := viaShapes(true, tier), viaShapes(false, tier)
	for _, t := range trs {
		host := "v4"
		if t == "inproc" || t == "grpc-go" {
			host = ""
		}
		for _, op := range ops {
			for _, cr := range credKinds() {
				shapes := with
				if cr.kind == "none" {
					shapes = without
				}
				for _, cm := range []string{"none", "some"} {
					for _, v := range shapes {
						out = append(out, caseT{Transport: t, Op: op, Host: host, Creds: cr.kind, Require: cr.req, CallerMD: cm, Via: v})
					}
				}
			}
		}
	}
	return out
}

// the parameters a report about a supplier case may mention; which wrapper
// adds what is summed up by whose credential is in effect and whose peer
// target the clause is about (the replay object has the configuration itself)
var viaDimNames = []string{"transport", "kind", "creds", "caller-md", "caller-passes", "wrappers", "installed", "option-order", "credential-of", "target-of"}

func viaDims(c caseT, f finding) [][2]string {
	creds := c.Creds
	if c.Creds != "none" {
		creds = fmt.Sprintf("%s/require=%v", c.Creds, c.Require)
	}
	order := "appended"
	if c.Via.Prepend {
		order = "prepended"
	}
	about := f.about
	if about == "" {
		about = "n/a"
	}
	winner := c.credWinner()
	if winner == "" {
		winner = "nobody"
	}
	return [][2]string{{"transport", c.Transport}, {"kind", opKind(c.Op)}, {"creds", creds}, {"caller-md", c.CallerMD}, {"caller-passes", c.Via.Caller},
		{"wrappers", fmt.Sprint(len(c.Via.Layers))}, {"installed", c.Via.installedSummary()}, {"option-order", order}, {"credential-of", winner}, {"target-of", about}}
}

// ---- (2) the base URL's scheme ----------------------------------------------------

var schemeAlphabet = []string{"http", "https", "HTTP", "Https", "h2c", "http+unix", "ws", ""}

func isSchemeTransport(t string) bool {
	return t == "scheme-rt" || t == "scheme-registered" || t == "scheme-loopback"
}

// schemeClass: what the statement says about a base URL with this scheme.
//
//	https             the one scheme that may (and has to) carry credentials
//	                  that require transport security
//	https-other-case  "Https", "HTTPS", ...: the statement's "is not https" read
//	                  literally refuses it - that is what the unchanged library
//	                  does (Scheme == "https") and it is the safe side; read with
//	                  RFC 3986 (schemes are case-insensitive; http.NewRequest
//	                  lower-cases it and net/http then speaks TLS) it is https.
//	                  Refusing and carrying both conform.
//	cleartext         everything else, "HTTP" and "" included: not https in
//	                  either reading, the call has to fail before any request
func schemeClassOf(s string) string {
	switch {
	case s == "https":
		return "https"
	case strings.EqualFold(s, "https"):
		return "https-other-case"
	}
	return "cleartext"
}

func (c caseT) schemeClass() string {
	if !isSchemeTransport(c.Transport) {
		return ""
	}
	return schemeClassOf(c.Scheme)
}

// insecureURL: "the HTTP base URL is not https" (grpc-go over bufconn with
// insecure transport credentials counts as that for the reference runs).
func (c caseT) insecureURL() bool {
	if isSchemeTransport(c.Transport) {
		return c.schemeClass() == "cleartext"
	}
	return isHTTP(c.Transport) || c.Transport == "grpc-go"
}

// overHTTP: the handler is reached through an HTTP server (or handler) that
// saw a remote address.
func (c caseT) overHTTP() bool {
	return isHTTP(c.Transport) || isTLS(c.Transport) || isSchemeTransport(c.Transport)
}

// connTLS / connClear: what the connection of the call really is. The
// in-memory RoundTrippers have no connection; whatever the URL says nothing
// is TLS there, so no TLS info may be reported.
func (c caseT) connTLS() bool {
	if c.Transport == "scheme-loopback" {
		return strings.EqualFold(c.Scheme, "https")
	}
	return isTLS(c.Transport)
}

func (c caseT) connClear() bool {
	switch c.Transport {
	case "scheme-rt", "scheme-registered":
		return true
	case "scheme-loopback":
		return !c.connTLS()
	}
	return isHTTP(c.Transport) || c.Transport == "grpc-go"
}

func credSent(o obsT) string {
	m := map[string][]string{}
	for _, k := range append([]string{"tok", "shared"}, ownKeys...) {
		if vs := o.Sent[k]; len(vs) > 0 {
			m[k] = vs
		}
	}
	if len(m) == 0 {
		return "none"
	}
	return fmt.Sprint(m)
}

// schemeTransport builds the RoundTripper and the base URL (a literal: the
// scheme stays as written) for a case of the scheme grammar.
func (e *env) schemeTransport(c caseT, h http.Handler) (http.RoundTripper, *url.URL, func(), error) {
	mem := common.HandlerRT(http.HandlerFunc(func(w http.ResponseWriter, r *http.Request) {
		e.mu.Lock()
		e.lastRemote, e.lastConn = r.RemoteAddr, ""
		e.mu.Unlock()
		h.ServeHTTP(w, r)
	}))
	switch c.Transport {
	case "scheme-rt":
		// a RoundTripper of the application's own: takes whatever it is handed
		return mem, &url.URL{Scheme: c.Scheme, Host: hostFor(c.Host, "192.0.2.9", "8080"), Path: "/"}, nil, nil
	case "scheme-registered":
		// a stock http.Transport; the scheme (as written, and as http.NewRequest
		// will spell it) is an alternate protocol registered with it. HTTP/2 set-up
		// is switched off: it would register "https" itself.
		t := &http.Transport{TLSNextProto: map[string]func(string, *tls.Conn) http.RoundTripper{}}
		t.RegisterProtocol(c.Scheme, mem)
		if l := strings.ToLower(c.Scheme); l != c.Scheme {
			t.RegisterProtocol(l, mem)
		}
		return t, &url.URL{Scheme: c.Scheme, Host: hostFor(c.Host, "192.0.2.9", "8080"), Path: "/"}, t.CloseIdleConnections, nil
	case "scheme-loopback":
		e.mu.Lock()
		e.cur = h
		e.lastRemote, e.lastConn = "", ""
		e.mu.Unlock()
		kind := "http-loopback"
		if strings.EqualFold(c.Scheme, "https") {
			kind = "https"
		}
		ts := e.server(kind)
		tr := ts.Client().Transport
		if t, ok := tr.(*http.Transport); ok {
			t.CloseIdleConnections()
		}
		realAddr := ts.Listener.Addr().String()
		ip4, port, _ := net.SplitHostPort(realAddr)
		fwd := common.RT(func(r *http.Request) (*http.Response, error) {
			r2 := r.Clone(r.Context())
			u := *r.URL
			u.Scheme, u.Host = "http", realAddr
			if kind == "https" {
				u.Scheme = "https"
			}
			r2.URL, r2.Host = &u, ""
			return tr.RoundTrip(r2)
		})
		return fwd, &url.URL{Scheme: c.Scheme, Host: hostFor(c.Host, ip4, port), Path: "/"}, nil, nil
	}
	return nil, nil, nil, fmt.Errorf("unknown scheme transport %q", c.Transport)
}

// schemeCases: every scheme x every scheme transport x {port given, no port}
// x kind x credential x caller metadata x peer option; plus the scheme
// alphabet swept around interceptor-supplied credentials.
func schemeCases(tier string) (out []caseT) {
	ops := []string{"unary", "bidi"}
	if tier == "thorough" {
		ops = append(ops, "server-stream", "client-stream")
	}
	for _, t := range []string{"scheme-rt", "scheme-registered", "scheme-loopback"} {
		for _, sch := range schemeAlphabet {
			for _, host := range []string{"v4", "v4-noport"} {
				for _, op := range ops {
					for _, cr := range credKinds() {
						for _, cm := range []string{"none", "some"} {
							for _, po := range []bool{false, true} {
								out = append(out, caseT{Transport: t, Scheme: sch, Op: op, Host: host, Creds: cr.kind, Require: cr.req, CallerMD: cm, PeerOpt: po})
							}
						}
					}
				}
			}
		}
	}
	for _, sch := range schemeAlphabet {
		for _, op := range ops {
			for _, req := range []bool{false, true} {
				for _, cl := range []string{"none", "all"} {
					out = append(out, caseT{Transport: "scheme-rt", Scheme: sch, Op: op, Host: "v4", Creds: "one", Require: req, CallerMD: "none",
						Via: &viaT{Caller: cl, Layers: []layerT{{"both", "creds+peer"}}}})
				}
			}
		}
	}
	return out
}

var schemeDimNames = []string{"scheme", "transport", "kind", "host", "creds", "caller-md", "peer-opt", "options-from"}

func showScheme(s string) string {
	if s == "" {
		return "(empty)"
	}
	return s
}

func schemeDims(c caseT) [][2]string {
	creds := c.Creds
	if c.Creds != "none" {
		creds = fmt.Sprintf("%s/require=%v", c.Creds, c.Require)
	}
	from := "caller"
	if c.Via != nil {
		from = "interceptor"
		if c.Via.Caller == "all" {
			from = "caller+interceptor"
		}
	}
	return [][2]string{{"scheme", showScheme(c.Scheme)}, {"transport", c.Transport}, {"kind", opKind(c.Op)}, {"host", c.Host}, {"creds", creds},
		{"caller-md", c.CallerMD}, {"peer-opt", fmt.Sprint(c.PeerOpt || c.Via != nil)}, {"options-from", from}}
}

// ---- calibration of the oracle on the new dimensions -------------------------------

// calibrateSupply feeds check() synthetic observations of cases of the two
// grammars: complete ones have to be accepted, the ways an option supplied by
// an interceptor can get lost and the ways a scheme can be misjudged have to
// be rejected by the clause that is about them.
func calibrateSupply() (n int, err error) {
	verdicts := func(c caseT, o obsT) map[string]string {
		m := map[string]string{}
		for _, f := range check(c, o) {
			k := f.clause
			if f.about != "" {
				k += "@" + f.about
			}
			m[k] = f.fail
		}
		return m
	}
	expect := func(name string, c caseT, o obsT, want map[string]string) error {
		n++
		got := verdicts(c, o)
		for k, w := range want {
			if g, ok := got[k]; !ok || g != w {
				return fmt.Errorf("supply calibration %q: clause %s gave %q (evaluated: %v; all: %v), expected %q", name, k, g, ok, got, w)
			}
		}
		return nil
	}
	httpObs := func(c caseT, md metadata.MD) obsT {
		o := obsT{HandlerRan: 1, Reply: "resp", Requests: 1, HandlerMD: md, HPeerOK: true, HPeerAddr: "192.0.2.1:1234", Remote: "192.0.2.1:1234",
			BaseURL: "http://192.0.2.9:8080/", wantHost: "192.0.2.9", wantPort: "8080", portGiven: true}
		for _, who := range []string{"caller", "L1", "L2"} {
			so := supObs{Who: who, Cred: c.supplies(who, "creds"), Peer: c.supplies(who, "peer")}
			if so.Peer {
				so.PeerSet, so.PeerAddr = true, "192.0.2.9:8080"
			}
			o.Suppliers = append(o.Suppliers, so)
		}
		return o
	}
	refused := obsT{err: fmt.Errorf("transport security is required"), BaseURL: "x://192.0.2.9:8080/"}

	// who supplies
	l1 := caseT{Transport: "http-rt", Op: "bidi", Host: "v4", Creds: "one", CallerMD: "some", Via: &viaT{Caller: "none", Layers: []layerT{{"both", "creds+peer"}}}}
	full := metadata.MD{"a": {"1", "2"}, "shared": {"caller-v"}, "tok": {"t1@L1"}}
	if err := expect("interceptor supplies, everything arrived", l1, httpObs(l1, full), map[string]string{"call-succeeds": "", "metadata-merge": "", "client-peer-address@L1": "", "client-peer-no-tls-info-on-cleartext@L1": ""}); err != nil {
		return n, err
	}
	if err := expect("interceptor's credential lost", l1, httpObs(l1, metadata.MD{"a": {"1", "2"}, "shared": {"caller-v"}}), map[string]string{"metadata-merge": "key=tok"}); err != nil {
		return n, err
	}
	o := httpObs(l1, full)
	o.Suppliers[1].PeerSet, o.Suppliers[1].PeerAddr = false, ""
	if err := expect("interceptor's peer target not filled", l1, o, map[string]string{"metadata-merge": "", "client-peer-address@L1": "unset"}); err != nil {
		return n, err
	}
	l1s := l1
	l1s.Require = true
	o = httpObs(l1s, metadata.MD{"a": {"1", "2"}, "shared": {"caller-v"}})
	if err := expect("interceptor's secure credential ignored, request issued", l1s, o, map[string]string{"secure-creds-refused-on-insecure-transport": "request-issued"}); err != nil {
		return n, err
	}
	if err := expect("interceptor's secure credential refuses", l1s, refused, map[string]string{"secure-creds-refused-on-insecure-transport": ""}); err != nil {
		return n, err
	}
	both := caseT{Transport: "http-rt", Op: "unary", Host: "v4", Creds: "one", CallerMD: "none", Via: &viaT{Caller: "all", Layers: []layerT{{"both", "pass"}, {"both", "creds+peer"}}}}
	if w := both.credWinner(); w != "L2" {
		return n, fmt.Errorf("supply calibration: credential in effect for %v is %q, expected L2", both.Via, w)
	}
	if err := expect("caller and inner interceptor supply, inner's credential arrived", both, httpObs(both, metadata.MD{"tok": {"t1@L2"}}), map[string]string{"metadata-merge": "", "client-peer-address@caller": "", "client-peer-address@L2": ""}); err != nil {
		return n, err
	}
	if err := expect("caller and inner interceptor supply, only the caller's credential arrived", both, httpObs(both, metadata.MD{"tok": {"t1"}}), map[string]string{"metadata-merge": "key=tok"}); err != nil {
		return n, err
	}
	pre := both
	pre.Via = &viaT{Caller: "all", Prepend: true, Layers: both.Via.Layers}
	if w := pre.credWinner(); w != "caller" {
		return n, fmt.Errorf("supply calibration: credential in effect for %v is %q, expected caller", pre.Via, w)
	}
	inactive := caseT{Transport: "http-rt", Op: "unary", Host: "v4", Creds: "one", CallerMD: "none", Via: &viaT{Caller: "all", Layers: []layerT{{"other", "creds+peer"}}}}
	if w := inactive.credWinner(); w != "caller" {
		return n, fmt.Errorf("supply calibration: credential in effect for %v is %q, expected caller", inactive.Via, w)
	}
	if err := expect("interceptor of the other kind ran", inactive, httpObs(inactive, metadata.MD{"tok": {"t1@L1"}}), map[string]string{"metadata-merge": "key=tok"}); err != nil {
		return n, err
	}

	// scheme
	for _, sch := range schemeAlphabet {
		for _, tr := range []string{"scheme-rt", "scheme-registered", "scheme-loopback"} {
			c := caseT{Transport: tr, Scheme: sch, Op: "unary", Host: "v4", Creds: "one", Require: true, CallerMD: "none", PeerOpt: true}
			carried := obsT{HandlerRan: 1, Reply: "resp", Requests: 1, HandlerMD: metadata.MD{"tok": {"t1"}}, HPeerOK: true, HPeerAddr: "192.0.2.1:1234", Remote: "192.0.2.1:1234",
				BaseURL: sch + "://192.0.2.9:8080/", wantHost: "192.0.2.9", wantPort: "8080", portGiven: true, CPeerSet: true, CPeerAddr: "192.0.2.9:8080", Sent: map[string][]string{"tok": {"t1"}}}
			if c.connTLS() {
				carried.HPeerAuth, carried.CPeerAuth = "tls", "tls"
			}
			var wantCarried, wantRefused map[string]string
			switch schemeClassOf(sch) {
			case "https":
				wantCarried = map[string]string{"call-succeeds": "", "metadata-merge": ""}
				wantRefused = map[string]string{"call-succeeds": "failed"}
			case "https-other-case":
				wantCarried = map[string]string{"call-succeeds": "", "metadata-merge": ""}
				wantRefused = map[string]string{}
			default:
				wantCarried = map[string]string{"secure-creds-refused-on-insecure-transport": "request-issued"}
				wantRefused = map[string]string{"secure-creds-refused-on-insecure-transport": ""}
			}
			if err := expect(fmt.Sprintf("scheme %q on %s, secure credentials carried", sch, tr), c, carried, wantCarried); err != nil {
				return n, err
			}
			if err := expect(fmt.Sprintf("scheme %q on %s, secure credentials refused", sch, tr), c, refused, wantRefused); err != nil {
				return n, err
			}
			if schemeClassOf(sch) == "https-other-case" {
				if got := verdicts(c, refused); len(got) != 0 {
					return n, fmt.Errorf("supply calibration: scheme %q refused: clauses evaluated %v, expected none", sch, got)
				}
			}
			// credentials that accept any transport are carried by every scheme
			c.Require = false
			if err := expect(fmt.Sprintf("scheme %q on %s, ordinary credentials carried", sch, tr), c, carried, map[string]string{"call-succeeds": "", "metadata-merge": ""}); err != nil {
				return n, err
			}
			if err := expect(fmt.Sprintf("scheme %q on %s, ordinary credentials refused", sch, tr), c, refused, map[string]string{"call-succeeds": "failed"}); err != nil {
				return n, err
			}
		}
	}
	return n, nil
}
