package main

import (
	"fmt"
	"strings"

	"google.golang.org/grpc/metadata"
)

// ---------------------------------------------------------------- alphabets

// keyList: valid gRPC metadata keys, none of them in a namespace a transport
// reserves for itself (grpc-, x-grpc-, HTTP hop-by-hop / framing headers).
var keyList = []string{"k", "multi", "a_b.c", "b-bin", "m-bin"}

type valDef struct{ ID, V string }

// asciiAlpha / binAlpha are ordered simplest-first; the minimiser relies on it.
var asciiAlpha, binAlpha []valDef

func init() {
	var p []byte
	for b := 0x21; b <= 0x7e; b++ {
		p = append(p, byte(b))
	}
	// no leading / trailing blanks: the gRPC spec lets a transport strip those
	asciiAlpha = []valDef{{"empty", ""}, {"v", "v"}, {"a_b", "a b"}, {"punct", "x,y;z"}, {"printable", string(p)}}
	var all []byte
	for b := 0; b < 256; b++ {
		all = append(all, byte(b))
	}
	binAlpha = []valDef{{"empty", ""}, {"00", "\x00"}, {"0a", "\x0a"}, {"fffe", "\xff\xfe"}, {"all256", string(all)}}
}

func isBin(key string) bool { return strings.HasSuffix(key, "-bin") }

func alphaOf(key string) []valDef {
	if isBin(key) {
		return binAlpha
	}
	return asciiAlpha
}

func valOf(key, id string) string {
	for _, v := range alphaOf(key) {
		if v.ID == id {
			return v.V
		}
	}
	panic("unknown value id " + id + " for key " + key)
}

func valIndex(key, id string) int {
	for i, v := range alphaOf(key) {
		if v.ID == id {
			return i
		}
	}
	panic("unknown value id " + id + " for key " + key)
}

func sameTypeKeys(key string) []string {
	var out []string
	for _, k := range keyList {
		if isBin(k) == isBin(key) {
			out = append(out, k)
		}
	}
	return out
}

// ---------------------------------------------------------------- cases

// KV is one key with its ordered values (ids into the key's alphabet).
type KV struct {
	Key  string   `json:"key"`
	Vals []string `json:"vals"`
}

// Case is one member of the grammar; it is also the replay object.
type Case struct {
	Engine    string `json:"engine"`    // always "E2"
	Transport string `json:"transport"` // inproc | http-rec | http-wire | http-net | http-gate | grpc-go (reference only)
	Kind      string `json:"kind"`      // U | CS | SS | BD
	Fail      bool   `json:"fail"`      // handler returns a NotFound status error
	NResp     int    `json:"nresp"`     // SS/BD: response messages sent before returning (0|1)
	HdrFirst  bool   `json:"hdr_first"` // streams: Header() before the first RecvMsg (else after the end of the stream)
	Opts      int    `json:"opts"`      // number of grpc.Header AND of grpc.Trailer options supplied (0..2)
	Req       []KV   `json:"req,omitempty"`
	Hdr       []KV   `json:"hdr,omitempty"`
	Trl       []KV   `json:"trl,omitempty"`
	ReqMode   string `json:"req_mode"` // new | append | new+append
	HdrMode   string `json:"hdr_mode"` // set | send | set/val | set+send | ctx:set | ctx:send
	TrlMode   string `json:"trl_mode"` // one | val | late | ctx
	// per-RPC credentials (grpc.PerRPCCredentials call option): the metadata GetRequestMetadata returns, one value
	// per key (ids into the key's alphabet); empty = the option is not passed at all
	Creds      []KV `json:"creds,omitempty"`
	CredsUpper bool `json:"creds_upper,omitempty"` // the credentials spell their keys in upper case ("K", "B-BIN")
}

const (
	baseReqMode = "new"
	baseHdrMode = "set"
	baseTrlMode = "one"
)

var allKinds = []string{"U", "CS", "SS", "BD"}

// http-gate (streams only): the recorder transport with the end of the response body held back, see gateRT
var libTransports = []string{"inproc", "http-rec", "http-wire", "http-net", "http-gate"}

const refTransport = "grpc-go"

func kvString(m []KV) string {
	var parts []string
	for _, e := range m {
		parts = append(parts, e.Key+"=["+strings.Join(e.Vals, ",")+"]")
	}
	return strings.Join(parts, " ")
}

func (c Case) key() string {
	s := fmt.Sprintf("%s|%s|f%v|n%d|h%v|o%d|%s:%s|%s:%s|%s:%s", c.Transport, c.Kind, c.Fail, c.NResp, c.HdrFirst, c.Opts,
		c.ReqMode, kvString(c.Req), c.HdrMode, kvString(c.Hdr), c.TrlMode, kvString(c.Trl))
	if len(c.Creds) > 0 {
		s += "|creds:" + c.credsString()
	}
	return s
}

// credsString: the credentials' metadata as the credentials spell it.
func (c Case) credsString() string {
	if c.CredsUpper {
		return upperKeys(c.Creds)
	}
	return kvString(c.Creds)
}

func upperKeys(m []KV) string {
	var parts []string
	for _, e := range m {
		parts = append(parts, strings.ToUpper(e.Key)+"=["+strings.Join(e.Vals, ",")+"]")
	}
	return strings.Join(parts, " ")
}

// credsMap: what the credentials' GetRequestMetadata returns in this case.
func (c Case) credsMap() map[string]string {
	out := map[string]string{}
	for _, e := range c.Creds {
		k := e.Key
		if c.CredsUpper {
			k = strings.ToUpper(k)
		}
		out[k] = valOf(e.Key, e.Vals[0])
	}
	return out
}

// sharedKeys: the keys both the caller's request metadata and the credentials carry.
func (c Case) sharedKeys() []string {
	var out []string
	for _, e := range c.Req {
		for _, ce := range c.Creds {
			if ce.Key == e.Key {
				out = append(out, e.Key)
			}
		}
	}
	return out
}

func (c Case) String() string {
	s := fmt.Sprintf("%s %s", c.Transport, c.Kind)
	if c.Fail {
		s += " handler-fails"
	} else {
		s += " handler-ok"
	}
	if c.Kind == "SS" || c.Kind == "BD" {
		s += fmt.Sprintf(" nresp=%d", c.NResp)
	}
	if c.Kind != "U" && !c.HdrFirst {
		s += " Header()-after-end"
	}
	s += fmt.Sprintf(" opts=%d", c.Opts)
	if len(c.Req) > 0 {
		s += " req(" + c.ReqMode + "){" + kvString(c.Req) + "}"
	}
	if len(c.Creds) > 0 {
		s += " creds{" + c.credsString() + "}"
	}
	if len(c.Hdr) > 0 {
		s += " hdr(" + c.HdrMode + "){" + kvString(c.Hdr) + "}"
	}
	if len(c.Trl) > 0 {
		s += " trl(" + c.TrlMode + "){" + kvString(c.Trl) + "}"
	}
	return s
}

func cloneKVs(m []KV) []KV {
	out := make([]KV, len(m))
	for i, e := range m {
		out[i] = KV{Key: e.Key, Vals: append([]string(nil), e.Vals...)}
	}
	return out
}

func (c Case) clone() Case {
	c.Req, c.Hdr, c.Trl = cloneKVs(c.Req), cloneKVs(c.Hdr), cloneKVs(c.Trl)
	if c.Creds != nil {
		c.Creds = cloneKVs(c.Creds)
	}
	return c
}

// valid says whether the combination of parameters is a member of the grammar
// (some modes only exist for some kinds).
func (c Case) valid() bool {
	if c.Transport == "http-gate" && c.Kind == "U" {
		return false // a unary call needs the whole body for its response message
	}
	if c.Kind == "U" {
		// unary handlers only have the context API, no response messages, no Header()
		if strings.HasPrefix(c.HdrMode, "ctx:") || c.TrlMode == "ctx" || c.TrlMode == "late" {
			return false
		}
		if c.NResp != 0 || !c.HdrFirst {
			return false
		}
	}
	if c.Kind == "CS" && c.NResp != 0 {
		return false
	}
	return true
}

// one server-side metadata call
type mdOp struct {
	Send bool // SendHeader instead of SetHeader (headers only)
	Ctx  bool // through grpc.SetHeader/SendHeader/SetTrailer(ctx) instead of the stream's methods
	MD   metadata.MD
	// Live (part reuse, reuse.go): MD is an object the application owns and keeps; it is handed to the library as it
	// is, not as a copy made for this one call. Want is what the application put into it.
	Live bool
	Want metadata.MD
	// Then (part mutate, mutate.go): what the handler does right after this hand-over returned
	Then func()
}

func mdOf(m []KV) metadata.MD {
	md := metadata.MD{}
	for _, e := range m {
		for _, id := range e.Vals {
			md[e.Key] = append(md[e.Key], valOf(e.Key, id))
		}
	}
	return md
}

// flat lists the (key, value) pairs in order.
func flat(m []KV) [][2]string {
	var out [][2]string
	for _, e := range m {
		for _, id := range e.Vals {
			out = append(out, [2]string{e.Key, valOf(e.Key, id)})
		}
	}
	return out
}

func headerOps(c Case) []mdOp {
	if len(c.Hdr) == 0 {
		return nil
	}
	mode := c.HdrMode
	ctx := false
	if strings.HasPrefix(mode, "ctx:") {
		ctx, mode = true, strings.TrimPrefix(mode, "ctx:")
	}
	switch mode {
	case "set":
		return []mdOp{{Ctx: ctx, MD: mdOf(c.Hdr)}}
	case "send":
		return []mdOp{{Send: true, Ctx: ctx, MD: mdOf(c.Hdr)}}
	case "set/val":
		var ops []mdOp
		for _, p := range flat(c.Hdr) {
			ops = append(ops, mdOp{Ctx: ctx, MD: metadata.MD{p[0]: {p[1]}}})
		}
		return ops
	case "set+send":
		ps := flat(c.Hdr)
		first := metadata.MD{}
		for _, p := range ps[:len(ps)-1] {
			first[p[0]] = append(first[p[0]], p[1])
		}
		last := ps[len(ps)-1]
		return []mdOp{{Ctx: ctx, MD: first}, {Send: true, Ctx: ctx, MD: metadata.MD{last[0]: {last[1]}}}}
	}
	panic("unknown header mode " + c.HdrMode)
}

// trailerOps returns the calls made before the response messages and after them.
func trailerOps(c Case) (early, late []mdOp) {
	if len(c.Trl) == 0 {
		return nil, nil
	}
	switch c.TrlMode {
	case "one":
		return []mdOp{{MD: mdOf(c.Trl)}}, nil
	case "ctx":
		return []mdOp{{Ctx: true, MD: mdOf(c.Trl)}}, nil
	case "late":
		return nil, []mdOp{{MD: mdOf(c.Trl)}}
	case "val":
		var ops []mdOp
		for _, p := range flat(c.Trl) {
			ops = append(ops, mdOp{MD: metadata.MD{p[0]: {p[1]}}})
		}
		return ops, nil
	}
	panic("unknown trailer mode " + c.TrlMode)
}

// ---------------------------------------------------------------- units

// A unit is the payload part of a case (the three maps and how they are
// attached); it is expanded with every kind x outcome x nresp x Header()
// position x option count x transport.
type unit struct {
	Part                      string
	Req, Hdr, Trl             []KV
	ReqMode, HdrMode, TrlMode string
	Creds                     []KV
	CredsUpper                bool
	// Narrow: expanded with kind x outcome x transport only (no response messages beyond the kind's minimum,
	// Header() first, one grpc.Header and one grpc.Trailer option), not with nresp x Header() position x option count
	Narrow bool
}

func (u unit) with(pos string, m []KV, mode string) unit {
	switch pos {
	case "request":
		u.Req, u.ReqMode = m, mode
	case "header":
		u.Hdr, u.HdrMode = m, mode
	case "trailer":
		u.Trl, u.TrlMode = m, mode
	}
	return u
}

var positions = []string{"request", "header", "trailer"}

func modesOf(pos string) []string {
	switch pos {
	case "request":
		return []string{"new", "append", "new+append"}
	case "header":
		return []string{"set", "send", "set/val", "set+send", "ctx:set", "ctx:send"}
	}
	return []string{"one", "val", "late", "ctx"}
}

// splitMode: the mode only differs from another one when there are >= 2 values
func splitMode(m string) bool {
	return m == "set/val" || m == "set+send" || m == "val" || m == "new+append"
}

func baseUnit(part string) unit {
	return unit{Part: part, ReqMode: baseReqMode, HdrMode: baseHdrMode, TrlMode: baseTrlMode}
}

// lists enumerates all value lists of exactly n ids over the key's alphabet.
func lists(key string, n int) [][]string {
	alpha := alphaOf(key)
	out := [][]string{{}}
	for i := 0; i < n; i++ {
		var next [][]string
		for _, l := range out {
			for _, v := range alpha {
				next = append(next, append(append([]string(nil), l...), v.ID))
			}
		}
		out = next
	}
	return out
}

// fullMap r: every key present, two values each, rotated through the alphabet.
func fullMap(r int) []KV {
	var m []KV
	for j, k := range keyList {
		a := alphaOf(k)
		m = append(m, KV{Key: k, Vals: []string{a[(r+j)%5].ID, a[(r+j+1)%5].ID}})
	}
	return m
}

// units enumerates the payload grammar, simplest first.
//
//	part single: one position carries a one-key map: 5 keys x all value lists of length 1..maxLen x every mode
//	part multi:  one position carries a map with two keys (every pair of keys, every pair of single values) or all
//	             five keys (5 rotations, two values each) x every mode
//	part triple: all three positions carry a map at once (a fixed set of representative maps, cubed), base modes
//	parts creds, creds-sweep: the per-RPC credentials dimension, see credsUnits
func units(maxLen int, multiModesAll bool, tripleSet int, thorough bool) []unit {
	var out []unit
	for n := 1; n <= maxLen; n++ {
		for _, pos := range positions {
			for _, mode := range modesOf(pos) {
				if n == 1 && splitMode(mode) {
					continue // identical to the unsplit mode for a single value
				}
				for _, k := range keyList {
					for _, l := range lists(k, n) {
						out = append(out, baseUnit("single").with(pos, []KV{{Key: k, Vals: l}}, mode))
					}
				}
			}
		}
	}
	for _, pos := range positions {
		modes := modesOf(pos)
		if !multiModesAll {
			// quick tier: the unsplit base mode and the per-value split
			switch pos {
			case "request":
				modes = []string{"new", "append"}
			case "header":
				modes = []string{"set", "set/val"}
			default:
				modes = []string{"one", "val"}
			}
		}
		for _, mode := range modes {
			for i := 0; i < len(keyList); i++ {
				for j := i + 1; j < len(keyList); j++ {
					for _, a := range alphaOf(keyList[i]) {
						for _, b := range alphaOf(keyList[j]) {
							out = append(out, baseUnit("multi").with(pos, []KV{{keyList[i], []string{a.ID}}, {keyList[j], []string{b.ID}}}, mode))
						}
					}
				}
			}
			for r := 0; r < 5; r++ {
				out = append(out, baseUnit("multi").with(pos, fullMap(r), mode))
			}
		}
	}
	rep := [][]KV{
		{{"k", []string{"v"}}},
		{{"b-bin", []string{"00", "0a"}}},
		{{"multi", []string{"a_b", "punct", "printable"}}, {"a_b.c", []string{"empty"}}},
		{{"k", []string{"printable"}}, {"m-bin", []string{"all256", "fffe", "empty"}}},
		fullMap(0),
		fullMap(3),
	}
	rep = rep[:tripleSet]
	for _, a := range rep {
		for _, b := range rep {
			for _, c := range rep {
				u := baseUnit("triple")
				u.Req, u.Hdr, u.Trl = a, b, c
				out = append(out, u)
			}
		}
	}
	out = append(out, credsUnits(thorough)...)
	return out
}

// expand enumerates every case of a unit on the given transports.
func expand(u unit, transports []string, f func(Case)) {
	for _, kind := range allKinds {
		for _, fail := range []bool{false, true} {
			for nresp := 0; nresp <= 1; nresp++ {
				for _, hdrFirst := range []bool{true, false} {
					for opts := 0; opts <= 2; opts++ {
						if u.Narrow && (nresp != 0 || !hdrFirst || opts != 1) {
							continue
						}
						c := Case{Engine: "E2", Kind: kind, Fail: fail, NResp: nresp, HdrFirst: hdrFirst, Opts: opts,
							Req: u.Req, Hdr: u.Hdr, Trl: u.Trl, ReqMode: u.ReqMode, HdrMode: u.HdrMode, TrlMode: u.TrlMode,
							Creds: u.Creds, CredsUpper: u.CredsUpper}
						for _, t := range transports {
							c.Transport = t
							if c.valid() {
								f(c)
							}
						}
					}
				}
			}
		}
	}
}
