package main

import (
	"fmt"
	"sort"
	"strings"

	"google.golang.org/grpc/metadata"
	"google.golang.org/grpc/status"
)

// finding: one application pair (or more) that did not arrive where the
// property says it must.
type finding struct {
	Pos   string // request | header | trailer
	Where string // incoming | Header() | Trailer() | grpc.Header[i] | grpc.Trailer[i] | handler
	How   string // missing | count | bytes | error | refused | not-delivered
	Key   string
	Text  string
}

func short(s string) string {
	if len(s) > 24 {
		return fmt.Sprintf("%q...(%d bytes)", s[:24], len(s))
	}
	return fmt.Sprintf("%q", s)
}

func shorts(v []string) string {
	var p []string
	for i, s := range v {
		if i == 12 {
			p = append(p, fmt.Sprintf("...(%d values)", len(v)))
			break
		}
		p = append(p, short(s))
	}
	return "[" + strings.Join(p, ",") + "]"
}

// contains: the reference model. Every key of want must be present in got with
// exactly the same values in the same order, bytes exact. got may have any
// other keys (a transport may add its own).
func contains(pos, where string, want map[string][]string, got metadata.MD) []finding {
	var out []finding
	keys := make([]string, 0, len(want))
	for k := range want {
		keys = append(keys, k)
	}
	sort.Strings(keys)
	for _, k := range keys {
		w, g := want[k], got[k]
		switch {
		case len(g) == 0 && len(w) > 0:
			out = append(out, finding{pos, where, "missing", k, fmt.Sprintf("%s: key %q missing (want %s)", where, k, shorts(w))})
		case len(g) != len(w):
			out = append(out, finding{pos, where, "count", k, fmt.Sprintf("%s: key %q has %d values %s, want %d %s", where, k, len(g), shorts(g), len(w), shorts(w))})
		default:
			for i := range w {
				if w[i] != g[i] {
					out = append(out, finding{pos, where, "bytes", k, fmt.Sprintf("%s: key %q value #%d is %s, want %s", where, k, i, short(g[i]), short(w[i]))})
					break
				}
			}
		}
	}
	return out
}

// check compares what was observed with what the property demands.
func check(c Case, rs *runState, obs observation) []finding {
	rs.mu.Lock()
	defer rs.mu.Unlock()
	var out []finding
	if !rs.reached {
		// nothing was set by the handler; the only application metadata is the caller's
		if len(c.Req) > 0 {
			out = append(out, finding{"request", "incoming", "not-delivered", c.Req[0].Key, fmt.Sprintf("the call never reached the handler: %v", obs.callErr)})
		} else if len(c.Creds) > 0 {
			out = append(out, finding{"request", "incoming", "not-delivered", c.Creds[0].Key, fmt.Sprintf("the call never reached the handler: %v", obs.callErr)})
		}
		return out
	}
	out = append(out, containsRequest(c, rs.incoming)...)
	for _, r := range rs.refused {
		pos := "header"
		if strings.Contains(r, "Trailer") {
			pos = "trailer"
		}
		out = append(out, finding{pos, "handler", "refused", "", "valid metadata refused: " + r})
	}
	if obs.isStream && !obs.newStream {
		if obs.hdrErr != nil {
			if len(rs.hdrSet) > 0 {
				out = append(out, finding{"header", "Header()", "error", "", fmt.Sprintf("Header() returned error %v", obs.hdrErr)})
			}
		} else {
			out = append(out, contains("header", "Header()", rs.hdrSet, obs.hdr)...)
		}
		out = append(out, contains("trailer", "Trailer()", rs.trlSet, obs.trl)...)
	}
	for i, md := range obs.hdrOpts {
		out = append(out, contains("header", fmt.Sprintf("grpc.Header[%d]", i), rs.hdrSet, md)...)
	}
	for i, md := range obs.trlOpts {
		out = append(out, contains("trailer", fmt.Sprintf("grpc.Trailer[%d]", i), rs.trlSet, md)...)
	}
	return out
}

// observation points of a position in this case
func points(c Case, pos string) []string {
	var p []string
	switch pos {
	case "request":
		return []string{"incoming"}
	case "header":
		if c.Kind != "U" {
			p = append(p, "Header()")
		}
		for i := 0; i < c.Opts; i++ {
			p = append(p, fmt.Sprintf("grpc.Header[%d]", i))
		}
	case "trailer":
		if c.Kind != "U" {
			p = append(p, "Trailer()")
		}
		for i := 0; i < c.Opts; i++ {
			p = append(p, fmt.Sprintf("grpc.Trailer[%d]", i))
		}
	}
	return p
}

// clause summarises the findings of one position: how@where, "all" when every
// observation point of the position is affected.
func clause(c Case, pos string, fs []finding) string {
	byHow := map[string]map[string]bool{}
	for _, f := range fs {
		if f.Pos != pos {
			continue
		}
		if byHow[f.How] == nil {
			byHow[f.How] = map[string]bool{}
		}
		byHow[f.How][f.Where] = true
	}
	var hows []string
	for h := range byHow {
		hows = append(hows, h)
	}
	sort.Strings(hows)
	all := points(c, pos)
	var parts []string
	for _, h := range hows {
		var ws []string
		for w := range byHow[h] {
			ws = append(ws, w)
		}
		sort.Strings(ws)
		where := strings.Join(ws, "+")
		if len(ws) == len(all) && h != "refused" {
			where = "all"
		}
		parts = append(parts, h+"@"+where)
	}
	return strings.Join(parts, ",")
}

func hasPos(fs []finding, pos string) bool {
	for _, f := range fs {
		if f.Pos == pos {
			return true
		}
	}
	return false
}

func errText(err error) string {
	if err == nil {
		return "success"
	}
	if st, ok := status.FromError(err); ok {
		return fmt.Sprintf("status %s %q", st.Code(), st.Message())
	}
	return fmt.Sprintf("non-status error %v", err)
}

func describe(c Case, rs *runState, obs observation, fs []finding) string {
	rs.mu.Lock()
	defer rs.mu.Unlock()
	var b strings.Builder
	plan := "returned nil"
	if c.Fail {
		plan = "returned status NotFound"
	}
	fmt.Fprintf(&b, "case {%s}: handler reached=%v and %s; client saw %s after %d response message(s)", c, rs.reached, plan, errText(obs.callErr), obs.nrecv)
	if obs.sendErr != nil {
		fmt.Fprintf(&b, "; client send error %v", obs.sendErr)
	}
	for _, n := range rs.notes {
		fmt.Fprintf(&b, "; %s", n)
	}
	for i, f := range fs {
		if i == 6 {
			fmt.Fprintf(&b, "; ... %d more", len(fs)-i)
			break
		}
		fmt.Fprintf(&b, "; %s", f.Text)
	}
	return b.String()
}

// ---------------------------------------------------------------- minimisation -> fingerprint

// minimiser reduces a violating case to the simplest member of the grammar
// that still violates the property in the same position, so that all inputs
// hitting one root cause share one fingerprint. Deterministic (greedy, fixed
// order), memoised.
type minimiser struct {
	w     *worker
	memo  map[string]verdict
	runs  int
	flaky int
}

// pointKind abstracts an observation point, so that cases with different kinds
// and option counts can be compared.
func pointKind(where string) string {
	switch {
	case where == "Header()" || where == "Trailer()":
		return "method"
	case strings.HasPrefix(where, "grpc."):
		return "option"
	}
	return where // incoming | handler | RecvMsg
}

// elements of a verdict for one position: how@pointKind, sorted, unique; nil = the position holds.
func elements(pos string, fs []finding) []string {
	set := map[string]bool{}
	for _, f := range fs {
		if f.Pos == pos {
			set[f.How+"@"+pointKind(f.Where)] = true
		}
	}
	var out []string
	for e := range set {
		out = append(out, e)
	}
	sort.Strings(out)
	return out
}

type verdict struct {
	els    []string
	clause string
}

// eval runs the case (memoised: one run per case and position, so that all
// decisions about a case are taken on the same observation) and returns the
// elements of its verdict at pos.
func (m *minimiser) eval(c Case, pos string) []string { return m.verdict(c, pos).els }

func (m *minimiser) verdict(c Case, pos string) verdict {
	if !c.valid() {
		return verdict{}
	}
	k := pos + "||" + c.key()
	if v, ok := m.memo[k]; ok {
		return v
	}
	once := func() verdict {
		rs, obs := m.w.run(c)
		m.runs++
		fs := check(c, rs, obs)
		if obs.panicked != "" || rs.panicked != "" {
			return verdict{[]string{"panic@any"}, "panic"}
		}
		return verdict{elements(pos, fs), clause(c, pos, fs)}
	}
	v := once()
	if v.els != nil {
		// a failure only counts when it shows three times in a row: timing-dependent
		// failures must not steer the minimisation
		for i := 0; i < 2; i++ {
			if w := once(); strings.Join(w.els, ",") != strings.Join(v.els, ",") {
				v = verdict{}
				m.flaky++
				break
			}
		}
	}
	m.memo[k] = v
	return v
}

// With per-RPC credentials in play, whether a damaged merge shows as a missing key, a wrong number of values or
// wrong bytes only depends on whether the credentials share the key with the caller; cases with credentials are
// therefore minimised towards "the handler's incoming metadata is damaged" (the fingerprint still carries the exact
// clause of the representative).
const damagedIncoming = "damaged@incoming"

func coarsenRequest(els []string) []string {
	var out []string
	seen := false
	for _, e := range els {
		switch e {
		case "missing@incoming", "count@incoming", "bytes@incoming":
			if !seen {
				out = append([]string{damagedIncoming}, out...)
				seen = true
			}
		default:
			out = append(out, e)
		}
	}
	return out
}

// match: does the candidate show the same failure as the target? Every element
// of the target whose kind of observation point exists in the candidate (no
// Header()/Trailer() on unary calls, no option target with opts=0) must be
// among the candidate's, and there must be at least one such element.
func match(cand Case, candEl, target []string) bool {
	if len(target) > 0 && target[0] == damagedIncoming {
		candEl = coarsenRequest(candEl)
	}
	have := map[string]bool{}
	for _, e := range candEl {
		have[e] = true
	}
	n := 0
	for _, e := range target {
		pk := e[strings.LastIndex(e, "@")+1:]
		if (pk == "method" && cand.Kind == "U") || (pk == "option" && cand.Opts == 0) {
			continue
		}
		if !have[e] {
			return false
		}
		n++
	}
	return n > 0
}

func (m *minimiser) fails(c Case, pos string, target []string) bool {
	return match(c, m.eval(c, pos), target)
}

func posMap(c *Case, pos string) *[]KV {
	switch pos {
	case "request":
		return &c.Req
	case "header":
		return &c.Hdr
	}
	return &c.Trl
}

func posMode(c *Case, pos string) (*string, string) {
	switch pos {
	case "request":
		return &c.ReqMode, baseReqMode
	case "header":
		return &c.HdrMode, baseHdrMode
	}
	return &c.TrlMode, baseTrlMode
}

// credsRepeatCaller: do the credentials produce, under a key the caller's metadata has too, a value the caller has there?
func credsRepeatCaller(c Case) bool {
	for _, ce := range c.Creds {
		for _, e := range c.Req {
			if e.Key != ce.Key {
				continue
			}
			for _, id := range e.Vals {
				if id == ce.Vals[0] {
					return true
				}
			}
		}
	}
	return false
}

func uncollide(d *Case) {
	for i := range d.Creds {
		one := Case{Req: d.Req, Creds: d.Creds[i : i+1]}
		for _, alt := range alphaOf(d.Creds[i].Key) {
			if !credsRepeatCaller(one) {
				break
			}
			d.Creds[i].Vals[0] = alt.ID
		}
	}
}

// minimise returns ok=false when the failure of c itself does not reproduce.
func (m *minimiser) minimise(c Case, pos string, target []string) (Case, bool) {
	c = c.clone()
	try := func(mut func(*Case)) bool {
		d := c.clone()
		mut(&d)
		if d.key() == c.key() {
			return false
		}
		if !credsRepeatCaller(c) && credsRepeatCaller(d) {
			// never simplify the credentials' value into one the caller has under the same key (or the other way
			// round): "the merge loses a value" and "the merge drops a repeated value" must not meet in one input.
			// The credentials move on to the simplest value the caller does not have there.
			uncollide(&d)
			if d.key() == c.key() {
				return false
			}
		}
		if m.fails(d, pos, target) {
			c = d
			return true
		}
		return false
	}
	// 1. everything that is not the payload of the failing position back to the baseline, in one step if possible
	baseline := func(d *Case) {
		for _, p := range positions {
			if p != pos {
				*posMap(d, p) = nil
			}
			mode, base := posMode(d, p)
			*mode = base
		}
		d.Fail, d.NResp, d.HdrFirst, d.Opts = false, 0, true, 1
		if pos != "request" {
			d.Creds, d.CredsUpper = nil, false // the credentials are part of the request position
		}
	}
	if !try(baseline) {
		if pos != "request" {
			try(func(d *Case) { d.Creds, d.CredsUpper = nil, false })
		}
		for _, p := range positions {
			p := p
			if p != pos {
				try(func(d *Case) { *posMap(d, p) = nil; mode, base := posMode(d, p); *mode = base })
			}
		}
		try(func(d *Case) { mode, base := posMode(d, pos); *mode = base })
		if !try(func(d *Case) { d.Opts = 1 }) && c.Opts == 0 {
			// (unary cases with no option have no observation point; keep 0 only if it fails with 0)
		}
		try(func(d *Case) { d.Fail = false })
		try(func(d *Case) { d.NResp = 0 })
		try(func(d *Case) { d.HdrFirst = true })
	}
	// 2. the payloads: one key, fewest values, simplest values, simplest key; first the failing position's, then
	// whatever had to stay in the other positions (a failure may depend on what travels next to it)
	shrink := func(q string) {
		for changed := true; changed; {
			changed = false
			cur := *posMap(&c, q)
			if len(cur) > 1 {
				for i := range cur {
					i := i
					if try(func(d *Case) { *posMap(d, q) = []KV{(*posMap(d, q))[i]} }) {
						changed = true
						break
					}
				}
				if changed {
					continue
				}
				for i := range cur {
					i := i
					if try(func(d *Case) { mp := posMap(d, q); *mp = append((*mp)[:i:i], (*mp)[i+1:]...) }) {
						changed = true
						break
					}
				}
				if changed {
					continue
				}
			}
			for e := range cur {
				e := e
				for i := range cur[e].Vals {
					i := i
					if len(cur[e].Vals) > 1 && try(func(d *Case) {
						v := (*posMap(d, q))[e].Vals
						(*posMap(d, q))[e].Vals = append(v[:i:i], v[i+1:]...)
					}) {
						changed = true
						break
					}
				}
				if changed {
					break
				}
				for i, id := range cur[e].Vals {
					i := i
					for j := 0; j < valIndex(cur[e].Key, id); j++ {
						simpler := alphaOf(cur[e].Key)[j].ID
						if try(func(d *Case) { (*posMap(d, q))[e].Vals[i] = simpler }) {
							changed = true
							break
						}
					}
					if changed {
						break
					}
				}
				if changed {
					break
				}
				if isBin(cur[e].Key) {
					// is the binary-ness of the key needed at all? (plain key "k", every value "v")
					clash := false
					for _, o := range cur {
						if o.Key == "k" {
							clash = true
						}
					}
					if !clash && try(func(d *Case) {
						ent := &(*posMap(d, q))[e]
						ent.Key = "k"
						for i := range ent.Vals {
							ent.Vals[i] = "v"
						}
					}) {
						changed = true
						break
					}
				}
				for _, k := range sameTypeKeys(cur[e].Key) {
					if k == cur[e].Key {
						break
					}
					k := k
					clash := false
					for _, o := range cur {
						if o.Key == k {
							clash = true
						}
					}
					if !clash && try(func(d *Case) { (*posMap(d, q))[e].Key = k }) {
						changed = true
						break
					}
				}
				if changed {
					break
				}
			}
		}
	}
	// 2b. the credentials' metadata (request position only): not needed at all, lower-case keys, one key, no
	// caller metadata next to it, simplest value, and the simplest key -- renamed together with the caller's
	// entry of the same key, because what matters may be that the two share it
	hasKey := func(m []KV, k string) bool {
		for _, e := range m {
			if e.Key == k {
				return true
			}
		}
		return false
	}
	shrinkCreds := func() bool {
		any := false
		for changed := true; changed && len(c.Creds) > 0; {
			changed = false
			step := func(mut func(*Case)) bool {
				if try(mut) {
					changed, any = true, true
				}
				return changed
			}
			if step(func(d *Case) { d.Creds, d.CredsUpper = nil, false }) {
				continue
			}
			if c.CredsUpper && step(func(d *Case) { d.CredsUpper = false }) {
				continue
			}
			if len(c.Creds) > 1 {
				for i := range c.Creds {
					i := i
					if step(func(d *Case) { d.Creds = []KV{d.Creds[i]} }) {
						break
					}
				}
				if changed {
					continue
				}
				for i := range c.Creds {
					i := i
					if step(func(d *Case) { d.Creds = append(d.Creds[:i:i], d.Creds[i+1:]...) }) {
						break
					}
				}
				if changed {
					continue
				}
			}
			if len(c.Req) > 0 && step(func(d *Case) { d.Req, d.ReqMode = nil, baseReqMode }) {
				continue
			}
			if credsRepeatCaller(c) {
				// is it needed that the credentials repeat a value of the caller's?
				for e, ce := range c.Creds {
					e := e
					for _, alt := range alphaOf(ce.Key) {
						alt := alt
						probe := c.clone()
						probe.Creds[e].Vals[0] = alt.ID
						probe.Creds = probe.Creds[e : e+1]
						if credsRepeatCaller(probe) {
							continue
						}
						if step(func(d *Case) { d.Creds[e].Vals[0] = alt.ID }) {
							break
						}
					}
					if changed {
						break
					}
				}
				if changed {
					continue
				}
			}
			for e, ce := range c.Creds {
				e := e
				for j := 0; j < valIndex(ce.Key, ce.Vals[0]); j++ {
					simpler := alphaOf(ce.Key)[j].ID
					if step(func(d *Case) { d.Creds[e].Vals[0] = simpler }) {
						break
					}
				}
				if changed {
					break
				}
				rename := func(to string, plain bool) func(*Case) {
					from := ce.Key
					return func(d *Case) {
						d.Creds[e].Key = to
						if plain {
							d.Creds[e].Vals[0] = "v"
							if !credsRepeatCaller(c) {
								d.Creds[e].Vals[0] = "a_b"
							}
						}
						for i := range d.Req {
							if d.Req[i].Key == from {
								d.Req[i].Key = to
								if plain {
									for x := range d.Req[i].Vals {
										d.Req[i].Vals[x] = "v"
									}
								}
							}
						}
					}
				}
				// (renaming onto a key of the caller's is fine unless the caller's entry of this key moves along onto it)
				free := func(to string) bool {
					return !hasKey(c.Creds, to) && !(hasKey(c.Req, to) && hasKey(c.Req, ce.Key))
				}
				if isBin(ce.Key) && free("k") && step(rename("k", true)) {
					break
				}
				for _, k := range sameTypeKeys(ce.Key) {
					if k == ce.Key {
						break
					}
					if free(k) && step(rename(k, false)) {
						break
					}
				}
				if changed {
					break
				}
			}
		}
		return any
	}
	shrink(pos)
	if pos == "request" {
		for shrinkCreds() {
			shrink(pos)
		}
	}
	for _, q := range positions {
		if q != pos && len(*posMap(&c, q)) > 0 {
			shrink(q)
		}
	}
	// (free when any step above was accepted: the accepted case is memoised)
	return c, m.fails(c, pos, target)
}

// ctxParams: everything of a case that is neither payload, kind nor transport.
type ctxParams struct {
	Mode     string // attach mode of the failing position
	Fail     bool
	NResp    int
	HdrFirst bool
	Opts     int
}

func (p ctxParams) mods(pos string) int {
	n := 0
	var c Case
	_, base := posMode(&c, pos)
	if p.Mode != base {
		n++
	}
	if p.Fail {
		n++
	}
	if p.NResp != 0 {
		n++
	}
	if !p.HdrFirst {
		n++
	}
	if p.Opts != 1 {
		n++
	}
	return n
}

// contexts lists every context of the grammar, the baseline first, then by
// the number of parameters that differ from the baseline (stable).
func contexts(pos string) []ctxParams {
	var out []ctxParams
	for _, mode := range modesOf(pos) {
		for _, fail := range []bool{false, true} {
			for nresp := 0; nresp <= 1; nresp++ {
				for _, hf := range []bool{true, false} {
					for _, opts := range []int{1, 0, 2} {
						out = append(out, ctxParams{mode, fail, nresp, hf, opts})
					}
				}
			}
		}
	}
	sort.SliceStable(out, func(i, j int) bool { return out[i].mods(pos) < out[j].mods(pos) })
	return out
}

func withContext(c Case, pos, transport, kind string, p ctxParams) Case {
	d := c.clone()
	d.Transport, d.Kind = transport, kind
	mode, _ := posMode(&d, pos)
	*mode = p.Mode
	d.Fail, d.NResp, d.HdrFirst, d.Opts = p.Fail, p.NResp, p.HdrFirst, p.Opts
	return d
}

// familyOf: the in-process channel and the HTTP channel are separate
// implementations; a failure is minimised and classified within the family it
// was met in (a defect in code they share gets one fingerprint per family).
func familyOf(transport string) []string {
	if transport == "inproc" {
		return []string{"inproc"}
	}
	return []string{"http-rec", "http-wire", "http-net", "http-gate"}
}

// canonical finds, for the payload of c, the representative: the failing case
// with the fewest non-baseline parameters over the family's transports, all
// kinds and contexts (ties: kind order, then transport order), and on which
// transports and kinds the same failure shows in the representative's context.
// Independent of the case the minimisation started from.
func (m *minimiser) canonical(c Case, pos string, target []string) (rep Case, transports, kinds []string, ok bool) {
	ctxs := contexts(pos)
	best := len(ctxs)
	for _, t := range familyOf(c.Transport) {
		for _, k := range allKinds {
			for i, p := range ctxs {
				d := withContext(c, pos, t, k, p)
				if !d.valid() {
					continue
				}
				if m.fails(d, pos, target) {
					if i < best || (i == best && kindOrder(k) < kindOrder(rep.Kind)) {
						best, rep, ok = i, d, true
					}
					break
				}
			}
		}
	}
	if !ok {
		return rep, nil, nil, false
	}
	// where else does the representative's failure show (same elements), in the representative's own context?
	// (Only that context: another defect that needs another context must not widen this one's classes.)
	same := m.eval(rep, pos)
	mode, _ := posMode(&rep, pos)
	rp := ctxParams{*mode, rep.Fail, rep.NResp, rep.HdrFirst, rep.Opts}
	kindHit := map[string]bool{}
	for _, t := range familyOf(c.Transport) {
		thit := false
		for _, k := range allKinds {
			p := rp
			if k == "U" {
				p.NResp, p.HdrFirst = 0, true
			}
			if k == "CS" {
				p.NResp = 0
			}
			d := withContext(c, pos, t, k, p)
			if d.valid() && m.fails(d, pos, same) {
				thit, kindHit[k] = true, true
			}
		}
		if thit {
			transports = append(transports, t)
		}
	}
	for _, k := range allKinds {
		if kindHit[k] {
			kinds = append(kinds, k)
		}
	}
	return rep, transports, kinds, ok
}

func kindOrder(k string) int {
	for i, x := range allKinds {
		if x == k {
			return i
		}
	}
	return len(allKinds)
}

// fingerprint: which transports and kinds the minimal payload fails on, the
// payload, the clause, and every parameter of the representative that is not at its baseline.
func (m *minimiser) fingerprint(c Case, pos string, target []string) (fp string, rep Case, ok bool) {
	var ts, kinds []string
	for round := 0; ; round++ {
		rep, ts, kinds, ok = m.canonical(c, pos, target)
		if !ok {
			return "", c, false
		}
		// the payload may shrink further in the representative's context
		again, _ := m.minimise(rep, pos, target)
		if round == 3 || payloadKey(again) == payloadKey(c) {
			break
		}
		c = again
	}
	// (http-gate carries no unary calls)
	onlyUnary := len(kinds) == 1 && kinds[0] == "U"
	tclass := strings.Join(ts, "+")
	if tclass == "http-rec+http-wire+http-net+http-gate" || (onlyUnary && tclass == "http-rec+http-wire+http-net") {
		tclass = "http"
	}
	kclass := strings.Join(kinds, "+")
	switch kclass {
	case "U+CS+SS+BD":
		kclass = "all-kinds"
	case "CS+SS+BD":
		kclass = "streams"
	}
	cl := m.verdict(rep, pos).clause
	var mods []string
	for _, p := range positions {
		mode, base := posMode(&rep, p)
		if *mode != base && len(*posMap(&rep, p)) > 0 {
			mods = append(mods, p+"-mode="+*mode)
		}
		if p != pos && len(*posMap(&rep, p)) > 0 {
			mods = append(mods, "with-"+p+"{"+kvString(*posMap(&rep, p))+"}")
		}
	}
	if len(rep.Creds) > 0 {
		mods = append(mods, "creds{"+rep.credsString()+"}")
	}
	if rep.Opts != 1 {
		mods = append(mods, fmt.Sprintf("opts=%d", rep.Opts))
	}
	if rep.Fail {
		mods = append(mods, "handler-fails")
	}
	if rep.NResp != 0 {
		mods = append(mods, fmt.Sprintf("nresp=%d", rep.NResp))
	}
	if !rep.HdrFirst {
		mods = append(mods, "Header()-after-end")
	}
	fp = fmt.Sprintf("C03|%s|%s|%s|%s|%s", tclass, kclass, pos, kvString(*posMap(&rep, pos)), cl)
	if len(mods) > 0 {
		fp += "|" + strings.Join(mods, ",")
	}
	return fp, rep, true
}

func payloadKey(c Case) string {
	return kvString(c.Req) + "|" + kvString(c.Hdr) + "|" + kvString(c.Trl) + "|" + c.credsString()
}
