package main

import (
	"fmt"
	"sort"
	"strings"

	"google.golang.org/grpc/metadata"
	"google.golang.org/grpc/status"
)

// finding: one application pair (or more) that did not arrive where the
// property says it must.
type finding struct {
	Pos   string // request | header | trailer
	Where string // incoming | Header() | Trailer() | grpc.Header[i] | grpc.Trailer[i] | handler
	How   string // missing | count | bytes | error | refused | not-delivered
	Key   string
	Text  string
}

func short(s string) string {
	if len(s) > 24 {
		return fmt.Sprintf("%q...(%d bytes)", s[:24], len(s))
	}
	return fmt.Sprintf("%q", s)
}

func shorts(v []string) string {
	var p []string
	for _, s := range v {
		p = append(p, short(s))
	}
	return "[" + strings.Join(p, ",") + "]"
}

// contains: the reference model. Every key of want must be present in got with
// exactly the same values in the same order, bytes exact. got may have any
// other keys (a transport may add its own).
func contains(pos, where string, want map[string][]string, got metadata.MD) []finding {
	var out []finding
	keys := make([]string, 0, len(want))
	for k := range want {
		keys = append(keys, k)
	}
	sort.Strings(keys)
	for _, k := range keys {
		w, g := want[k], got[k]
		switch {
		case len(g) == 0 && len(w) > 0:
			out = append(out, finding{pos, where, "missing", k, fmt.Sprintf("%s: key %q missing (want %s)", where, k, shorts(w))})
		case len(g) != len(w):
			out = append(out, finding{pos, where, "count", k, fmt.Sprintf("%s: key %q has %d values %s, want %d %s", where, k, len(g), shorts(g), len(w), shorts(w))})
		default:
			for i := range w {
				if w[i] != g[i] {
					out = append(out, finding{pos, where, "bytes", k, fmt.Sprintf("%s: key %q value #%d is %s, want %s", where, k, i, short(g[i]), short(w[i]))})
					break
				}
			}
		}
	}
	return out
}

// check compares what was observed with what the property demands.
func check(c Case, rs *runState, obs observation) []finding {
	rs.mu.Lock()
	defer rs.mu.Unlock()
	var out []finding
	if !rs.reached {
		// nothing was set by the handler; the only application metadata is the caller's
		if len(c.Req) > 0 {
			out = append(out, finding{"request", "incoming", "not-delivered", c.Req[0].Key, fmt.Sprintf("the call never reached the handler: %v", obs.callErr)})
		}
		return out
	}
	out = append(out, contains("request", "incoming", mdOf(c.Req), rs.incoming)...)
	for _, r := range rs.refused {
		pos := "header"
		if strings.Contains(r, "Trailer") {
			pos = "trailer"
		}
		out = append(out, finding{pos, "handler", "refused", "", "valid metadata refused: " + r})
	}
	if obs.isStream && !obs.newStream {
		if obs.hdrErr != nil {
			if len(rs.hdrSet) > 0 {
				out = append(out, finding{"header", "Header()", "error", "", fmt.Sprintf("Header() returned error %v", obs.hdrErr)})
			}
		} else {
			out = append(out, contains("header", "Header()", rs.hdrSet, obs.hdr)...)
		}
		out = append(out, contains("trailer", "Trailer()", rs.trlSet, obs.trl)...)
	}
	for i, md := range obs.hdrOpts {
		out = append(out, contains("header", fmt.Sprintf("grpc.Header[%d]", i), rs.hdrSet, md)...)
	}
	for i, md := range obs.trlOpts {
		out = append(out, contains("trailer", fmt.Sprintf("grpc.Trailer[%d]", i), rs.trlSet, md)...)
	}
	return out
}

// observation points of a position in this case
func points(c Case, pos string) []string {
	var p []string
	switch pos {
	case "request":
		return []string{"incoming"}
	case "header":
		if c.Kind != "U" {
			p = append(p, "Header()")
		}
		for i := 0; i < c.Opts; i++ {
			p = append(p, fmt.Sprintf("grpc.Header[%d]", i))
		}
	case "trailer":
		if c.Kind != "U" {
			p = append(p, "Trailer()")
		}
		for i := 0; i < c.Opts; i++ {
			p = append(p, fmt.Sprintf("grpc.Trailer[%d]", i))
		}
	}
	return p
}

// clause summarises the findings of one position: how@where, "all" when every
// observation point of the position is affected.
func clause(c Case, pos string, fs []finding) string {
	byHow := map[string]map[string]bool{}
	for _, f := range fs {
		if f.Pos != pos {
			continue
		}
		if byHow[f.How] == nil {
			byHow[f.How] = map[string]bool{}
		}
		byHow[f.How][f.Where] = true
	}
	var hows []string
	for h := range byHow {
		hows = append(hows, h)
	}
	sort.Strings(hows)
	all := points(c, pos)
	var parts []string
	for _, h := range hows {
		var ws []string
		for w := range byHow[h] {
			ws = append(ws, w)
		}
		sort.Strings(ws)
		where := strings.Join(ws, "+")
		if len(ws) == len(all) && h != "refused" {
			where = "all"
		}
		parts = append(parts, h+"@"+where)
	}
	return strings.Join(parts, ",")
}

func hasPos(fs []finding, pos string) bool {
	for _, f := range fs {
		if f.Pos == pos {
			return true
		}
	}
	return false
}

func errText(err error) string {
	if err == nil {
		return "success"
	}
	if st, ok := status.FromError(err); ok {
		return fmt.Sprintf("status %s %q", st.Code(), st.Message())
	}
	return fmt.Sprintf("non-status error %v", err)
}

func describe(c Case, rs *runState, obs observation, fs []finding) string {
	rs.mu.Lock()
	defer rs.mu.Unlock()
	var b strings.Builder
	plan := "returned nil"
	if c.Fail {
		plan = "returned status NotFound"
	}
	fmt.Fprintf(&b, "case {%s}: handler reached=%v and %s; client saw %s after %d response message(s)", c, rs.reached, plan, errText(obs.callErr), obs.nrecv)
	if obs.sendErr != nil {
		fmt.Fprintf(&b, "; client send error %v", obs.sendErr)
	}
	for _, n := range rs.notes {
		fmt.Fprintf(&b, "; %s", n)
	}
	for i, f := range fs {
		if i == 6 {
			fmt.Fprintf(&b, "; ... %d more", len(fs)-i)
			break
		}
		fmt.Fprintf(&b, "; %s", f.Text)
	}
	return b.String()
}

// ---------------------------------------------------------------- minimisation -> fingerprint

// minimiser reduces a violating case to the simplest member of the grammar
// that still violates the property in the same position, so that all inputs
// hitting one root cause share one fingerprint. Deterministic (greedy, fixed
// order), memoised.
type minimiser struct {
	w    *worker
	memo map[string]bool
	runs int
}

func (m *minimiser) fails(c Case, pos string) bool {
	if !c.valid() {
		return false
	}
	k := pos + "||" + c.key()
	if v, ok := m.memo[k]; ok {
		return v
	}
	rs, obs := m.w.run(c)
	m.runs++
	v := hasPos(check(c, rs, obs), pos) || obs.panicked != "" || rs.panicked != ""
	m.memo[k] = v
	return v
}

func posMap(c *Case, pos string) *[]KV {
	switch pos {
	case "request":
		return &c.Req
	case "header":
		return &c.Hdr
	}
	return &c.Trl
}

func posMode(c *Case, pos string) (*string, string) {
	switch pos {
	case "request":
		return &c.ReqMode, baseReqMode
	case "header":
		return &c.HdrMode, baseHdrMode
	}
	return &c.TrlMode, baseTrlMode
}

func (m *minimiser) minimise(c Case, pos string) Case {
	c = c.clone()
	try := func(mut func(*Case)) bool {
		d := c.clone()
		mut(&d)
		if d.key() == c.key() {
			return false
		}
		if m.fails(d, pos) {
			c = d
			return true
		}
		return false
	}
	// 1. everything that is not the payload of the failing position back to the baseline, in one step if possible
	baseline := func(d *Case) {
		for _, p := range positions {
			if p != pos {
				*posMap(d, p) = nil
			}
			mode, base := posMode(d, p)
			*mode = base
		}
		d.Fail, d.NResp, d.HdrFirst, d.Opts = false, 0, true, 1
	}
	if !try(baseline) {
		for _, p := range positions {
			p := p
			if p != pos {
				try(func(d *Case) { *posMap(d, p) = nil; mode, base := posMode(d, p); *mode = base })
			}
		}
		try(func(d *Case) { mode, base := posMode(d, pos); *mode = base })
		if !try(func(d *Case) { d.Opts = 1 }) && c.Opts == 0 {
			// (unary cases with no option have no observation point; keep 0 only if it fails with 0)
		}
		try(func(d *Case) { d.Fail = false })
		try(func(d *Case) { d.NResp = 0 })
		try(func(d *Case) { d.HdrFirst = true })
	}
	// 2. the payload: one key, fewest values, simplest values, simplest key
	for changed := true; changed; {
		changed = false
		cur := *posMap(&c, pos)
		if len(cur) > 1 {
			for i := range cur {
				i := i
				if try(func(d *Case) { *posMap(d, pos) = []KV{(*posMap(d, pos))[i]} }) {
					changed = true
					break
				}
			}
			if changed {
				continue
			}
			for i := range cur {
				i := i
				if try(func(d *Case) { mp := posMap(d, pos); *mp = append((*mp)[:i:i], (*mp)[i+1:]...) }) {
					changed = true
					break
				}
			}
			if changed {
				continue
			}
		}
		for e := range cur {
			e := e
			for i := range cur[e].Vals {
				i := i
				if len(cur[e].Vals) > 1 && try(func(d *Case) {
					v := (*posMap(d, pos))[e].Vals
					(*posMap(d, pos))[e].Vals = append(v[:i:i], v[i+1:]...)
				}) {
					changed = true
					break
				}
			}
			if changed {
				break
			}
			for i, id := range cur[e].Vals {
				i := i
				for j := 0; j < valIndex(cur[e].Key, id); j++ {
					simpler := alphaOf(cur[e].Key)[j].ID
					if try(func(d *Case) { (*posMap(d, pos))[e].Vals[i] = simpler }) {
						changed = true
						break
					}
				}
				if changed {
					break
				}
			}
			if changed {
				break
			}
			for _, k := range sameTypeKeys(cur[e].Key) {
				if k == cur[e].Key {
					break
				}
				k := k
				clash := false
				for _, o := range cur {
					if o.Key == k {
						clash = true
					}
				}
				if !clash && try(func(d *Case) { (*posMap(d, pos))[e].Key = k }) {
					changed = true
					break
				}
			}
			if changed {
				break
			}
		}
	}
	return c
}

// kindVariant adapts the kind-specific parameters; ok=false when the case has no counterpart for that kind.
func kindVariant(c Case, kind string) (Case, bool) {
	d := c.clone()
	d.Kind = kind
	if kind == "U" {
		d.NResp, d.HdrFirst = 0, true
	}
	if kind == "CS" {
		d.NResp = 0
	}
	return d, d.valid()
}

// fingerprint of a minimised case: which transports and kinds it fails on, the
// payload, the clause, and every parameter that could not be put back to its baseline.
func (m *minimiser) fingerprint(c Case, pos string) (fp string, rep Case, ok bool) {
	// simplest kind first
	var kinds []string
	var first *Case
	for _, k := range allKinds {
		d, valid := kindVariant(c, k)
		if !valid {
			continue
		}
		var ts []string
		for _, t := range libTransports {
			d.Transport = t
			if m.fails(d, pos) {
				ts = append(ts, t)
				if first == nil {
					x := d.clone()
					first = &x
				}
			}
		}
		if len(ts) > 0 {
			kinds = append(kinds, k)
		}
	}
	if first == nil {
		return "", c, false
	}
	rep = *first
	// transports: on the representative's kind
	var ts []string
	for _, t := range libTransports {
		d := rep.clone()
		d.Transport = t
		if m.fails(d, pos) {
			ts = append(ts, t)
		}
	}
	tclass := strings.Join(ts, "+")
	if strings.Join(ts, "+") == "http-rec+http-wire+http-net" {
		tclass = "http"
	} else if len(ts) == len(libTransports) {
		tclass = "all-transports"
	}
	kclass := strings.Join(kinds, "+")
	switch kclass {
	case "U+CS+SS+BD":
		kclass = "all-kinds"
	case "CS+SS+BD":
		kclass = "streams"
	}
	rs, obs := m.w.run(rep)
	fs := check(rep, rs, obs)
	cl := clause(rep, pos, fs)
	if obs.panicked != "" || rs.panicked != "" {
		cl = "panic"
	}
	var mods []string
	for _, p := range positions {
		mode, base := posMode(&rep, p)
		if *mode != base && len(*posMap(&rep, p)) > 0 {
			mods = append(mods, p+"-mode="+*mode)
		}
		if p != pos && len(*posMap(&rep, p)) > 0 {
			mods = append(mods, "with-"+p+"{"+kvString(*posMap(&rep, p))+"}")
		}
	}
	if rep.Opts != 1 {
		mods = append(mods, fmt.Sprintf("opts=%d", rep.Opts))
	}
	if rep.Fail {
		mods = append(mods, "handler-fails")
	}
	if rep.NResp != 0 {
		mods = append(mods, fmt.Sprintf("nresp=%d", rep.NResp))
	}
	if !rep.HdrFirst {
		mods = append(mods, "Header()-after-end")
	}
	fp = fmt.Sprintf("C03|%s|%s|%s|%s|%s", tclass, kclass, pos, kvString(*posMap(&rep, pos)), cl)
	if len(mods) > 0 {
		fp += "|" + strings.Join(mods, ",")
	}
	return fp, rep, true
}
