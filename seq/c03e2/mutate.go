package main

// Part "mutate": the application goes on using a metadata object within the
// same call after it has handed it to the library.
//
// A handler that keeps one scratch metadata.MD does SetTrailer(md), changes md
// and calls SetTrailer(md) again (or not) before it returns; the same with
// SetHeader / SendHeader, and with one object used for the headers and then for
// the trailers. A caller changes the MD it put into the outgoing context as soon
// as NewStream has returned. A transport that keeps the object it was given
// instead of its content at that moment delivers what the object holds later.
//
// A member: one call in which the application hands the object M over, applies
// one mutation to it (replace the value list of a key, overwrite a value in
// place, append a value, add a key, delete a key; none = control) -- right after
// the hand-over or after the response messages -- and hands it over again or not:
//
//	header          SetHeader(M) [mutation] [SetHeader(M) | SendHeader(M)]  (stream methods or grpc.SetHeader(ctx))
//	trailer         SetTrailer(M) [mutation] [SetTrailer(M)]  (stream method, grpc.SetTrailer(ctx), after the response
//	                messages, or the first before and the second after them)
//	header>trailer  SetHeader(M) [mutation] SetTrailer(M);  trailer>header: SetTrailer(M) [mutation] SetHeader(M)
//	request         streams over HTTP: NewStream(NewOutgoingContext(ctx, M)) [mutation] SendMsg ... (the in-process
//	                side of this is property C10's "mutating the metadata on either side never affects the other")
//
// Oracle: the caller (the handler) sees the pairs as they were at each
// hand-over, one hand-over after the other, all values in order, bytes exact;
// and the object holds in the end what the application made of it. The same
// oracle runs against grpc-go over bufconn (a disagreement is exit 2).

import (
	"context"
	"fmt"
	"os"
	"sort"
	"strings"

	"google.golang.org/grpc/metadata"

	"verif/seq/common"
)

// MutCase is one member of the part; it is also its replay object.
type MutCase struct {
	Engine    string `json:"engine"` // always "E2"
	Part      string `json:"part"`   // always "mutate"
	Transport string `json:"transport"`
	Kind      string `json:"kind"`
	Pos       string `json:"pos"`   // header | trailer | header>trailer | trailer>header | request
	Mode      string `json:"mode"`  // how the object is handed over, see mutModes
	Init      []KV   `json:"init"`  // what the object holds at the first hand-over
	Op        string `json:"op"`    // none | set | elem | append | addkey | delkey, on the object's first key
	Again     bool   `json:"again"` // the object is handed over again after the mutation
	Late      bool   `json:"late"`  // the mutation happens after the response messages (else right after the first hand-over)
	Fail      bool   `json:"fail"`
}

const partMutate = "mutate"

var mutPositions = []string{"header", "trailer", "header>trailer", "trailer>header", "request"}

var mutOps = []string{"none", "set", "elem", "append", "addkey", "delkey"}

func mutModes(pos string) []string {
	switch pos {
	case "header":
		return []string{"ctx", "ctx+send", "stream", "stream+send"}
	case "trailer":
		return []string{"ctx", "stream", "late", "split"}
	case "request":
		return []string{"new"}
	}
	return []string{"ctx", "stream"}
}

func (m MutCase) key() string {
	return fmt.Sprintf("mutate|%s|%s|%s:%s|%s|op=%s|again=%v|late=%v|f%v", m.Transport, m.Kind, m.Pos, m.Mode, kvString(m.Init), m.Op, m.Again, m.Late, m.Fail)
}

func (m MutCase) String() string {
	s := fmt.Sprintf("%s %s %s(%s) object{%s}", m.Transport, m.Kind, m.Pos, m.Mode, kvString(m.Init))
	when := "right after the hand-over"
	if m.Pos == "request" {
		when = "as soon as NewStream has returned"
	} else if m.Late {
		when = "after the response messages"
	}
	if m.Op == "none" {
		s += ", not changed"
	} else {
		s += fmt.Sprintf(", then %s %s", mutOpText(m.Op, m.Init[0].Key), when)
	}
	if m.Again && m.Pos != "header>trailer" && m.Pos != "trailer>header" {
		s += ", then handed over again"
	}
	if m.Fail {
		return s + ", handler-fails"
	}
	return s + ", handler-ok"
}

func mutOpText(op, key string) string {
	switch op {
	case "set":
		return fmt.Sprintf("md[%q] = a new one-value list", key)
	case "elem":
		return fmt.Sprintf("md[%q][0] overwritten in place", key)
	case "append":
		return fmt.Sprintf("a value appended to md[%q]", key)
	case "addkey":
		return fmt.Sprintf("key %q added", addedKey(key))
	case "delkey":
		return fmt.Sprintf("key %q deleted", key)
	}
	return "nothing"
}

func addedKey(first string) string {
	if isBin(first) {
		return "added-bin"
	}
	return "added"
}

// newVal: the value a mutation writes (valid UTF-8 also for "-bin" keys, with 0x00 and 0x0A in it).
func newVal(key string) string {
	if isBin(key) {
		return string([]byte{0x00, 0x0a, 0x7f, 0x01})
	}
	return "changed"
}

func applyMut(md metadata.MD, op, key string) {
	switch op {
	case "set":
		md[key] = []string{newVal(key)}
	case "elem":
		md[key][0] = newVal(key)
	case "append":
		md[key] = append(md[key], newVal(key))
	case "addkey":
		md[addedKey(key)] = []string{newVal(key)}
	case "delkey":
		delete(md, key)
	}
}

func (m MutCase) valid() bool {
	if m.Transport == "http-gate" && m.Kind == "U" {
		return false
	}
	if m.Kind == "U" {
		// unary handlers only have the context API and no response messages of their own
		if m.Late || m.Pos == "request" {
			return false
		}
		switch m.Pos {
		case "header":
			if !strings.HasPrefix(m.Mode, "ctx") {
				return false
			}
		default:
			if m.Mode != "ctx" {
				return false
			}
		}
	}
	if m.Late && m.Kind == "CS" && m.Fail {
		return false // no response message: the same as the mutation right after the hand-over
	}
	switch m.Pos {
	case "header":
		if m.Late && m.Again {
			return false // a SetHeader after the response messages is refused, rightly
		}
	case "trailer":
		if m.Mode == "split" && !m.Again {
			return false
		}
		if (m.Mode == "split" || m.Mode == "late") && m.Late {
			return false // the hand-overs are after the response messages already
		}
	case "header>trailer":
		if !m.Again {
			return false
		}
	case "trailer>header":
		if !m.Again || m.Late {
			return false
		}
	case "request":
		if m.Again || m.Late || m.Transport == "inproc" {
			return false
		}
	}
	return true
}

// ---------------------------------------------------------------- running a member

type mutOutcome struct {
	c     Case
	rs    *runState
	obs   observation
	fs    []finding
	pan   string
	reach bool
	took  bool
	want  string
	seen  string
}

func (o mutOutcome) bad() bool { return len(o.fs) > 0 || o.pan != "" }

func (o mutOutcome) elements() (els []string, clause string) {
	set := map[string]bool{}
	for _, f := range o.fs {
		set[f.How+"@"+pointKind(f.Where)] = true
	}
	if o.pan != "" {
		set["panic@any"] = true
	}
	for e := range set {
		els = append(els, e)
	}
	sort.Strings(els)
	return els, strings.Join(els, ",")
}

func (o mutOutcome) describe(m MutCase) string {
	var b strings.Builder
	fmt.Fprintf(&b, "case {%s}: handler reached=%v, client saw %s; at the hand-overs the object held %s; observed %s", m, o.reach, errText(o.obs.callErr), o.want, o.seen)
	o.rs.mu.Lock()
	for _, n := range o.rs.notes {
		fmt.Fprintf(&b, "; %s", n)
	}
	o.rs.mu.Unlock()
	for i, f := range o.fs {
		if i == 6 {
			fmt.Fprintf(&b, "; ... %d more", len(o.fs)-i)
			break
		}
		fmt.Fprintf(&b, "; %s", f.Text)
	}
	if o.pan != "" {
		fmt.Fprintf(&b, "; PANIC: %s", o.pan)
	}
	return b.String()
}

func (w *worker) runMut(m MutCase) mutOutcome {
	key := m.Init[0].Key
	model := mdOf(m.Init)    // what the application believes its object holds
	obj := deepCopyMD(model) // the object
	mutate := func() { applyMut(obj, m.Op, key) }
	plan := &callPlan{}
	viaCtx := strings.HasPrefix(m.Mode, "ctx")
	var wantParts []string
	hand := func(pos string, send bool) mdOp {
		wantParts = append(wantParts, fmt.Sprintf("%s{%s}", pos, strings.TrimSuffix(renderMD(model), ";")))
		return mdOp{Ctx: viaCtx, Send: send, MD: obj, Live: true, Want: deepCopyMD(model)}
	}
	// the first hand-over, the mutation, the second hand-over; the model is mutated in step
	after := func(op *mdOp) {
		if m.Late {
			plan.afterSend = mutate
		} else {
			op.Then = mutate
		}
		applyMut(model, m.Op, key)
	}
	sendLast := strings.HasSuffix(m.Mode, "+send")
	wantReq := metadata.MD{}
	switch m.Pos {
	case "header":
		op := hand("header", sendLast && !m.Again)
		after(&op)
		plan.hdr = append(plan.hdr, op)
		if m.Again {
			plan.hdr = append(plan.hdr, hand("header", sendLast))
		}
	case "trailer":
		op := hand("trailer", false)
		after(&op)
		if m.Mode == "late" {
			plan.trlLate = append(plan.trlLate, op)
		} else {
			plan.trlEarly = append(plan.trlEarly, op)
		}
		if m.Again {
			if m.Mode == "late" || m.Mode == "split" || m.Late {
				plan.trlLate = append(plan.trlLate, hand("trailer", false))
			} else {
				plan.trlEarly = append(plan.trlEarly, hand("trailer", false))
			}
		}
	case "header>trailer":
		op := hand("header", false)
		after(&op)
		plan.hdr = append(plan.hdr, op)
		if m.Late {
			plan.trlLate = append(plan.trlLate, hand("trailer", false))
		} else {
			plan.trlEarly = append(plan.trlEarly, hand("trailer", false))
		}
	case "trailer>header":
		// SetTrailer(obj), the mutation, SetHeader(obj): the trailer call comes before the header calls (preHdr)
		op := hand("trailer", false)
		op.Then = mutate
		applyMut(model, m.Op, key)
		plan.preHdr = append(plan.preHdr, op)
		plan.hdr = append(plan.hdr, hand("header", false))
	case "request":
		plan.ctx = metadata.NewOutgoingContext(context.Background(), obj)
		accumulate(wantReq, model)
		wantParts = append(wantParts, fmt.Sprintf("request{%s}", strings.TrimSuffix(renderMD(model), ";")))
		plan.afterNewStream = mutate
		applyMut(model, m.Op, key)
	}
	c := Case{Engine: "E2", Transport: m.Transport, Kind: m.Kind, Fail: m.Fail, HdrFirst: true, Opts: 2,
		ReqMode: baseReqMode, HdrMode: baseHdrMode, TrlMode: baseTrlMode}
	if m.Kind == "SS" || m.Kind == "BD" {
		c.NResp = 1
	}
	rs, obs := w.runPlan(c, plan)
	out := mutOutcome{c: c, rs: rs, obs: obs}
	fs := check(c, rs, obs)
	rs.mu.Lock()
	out.reach, out.pan = rs.reached, rs.panicked
	out.took = rs.reached && len(rs.refused) == 0
	if m.Pos == "request" {
		if rs.reached {
			fs = append(fs, contains("request", "incoming", wantReq, rs.incoming)...)
		} else {
			fs = append(fs, finding{"request", "incoming", "not-delivered", key, fmt.Sprintf("the call never reached the handler: %v", obs.callErr)})
		}
	}
	pts := observedPoints(rs, obs)
	var seenParts []string
	for _, set := range []struct {
		name string
		m    map[string][]string
	}{{"request", wantReq}, {"header", rs.hdrSet}, {"trailer", rs.trlSet}} {
		keys := map[string]bool{key: len(set.m) > 0 || (set.name != "request" && strings.Contains(m.Pos, set.name))}
		for k := range set.m {
			keys[k] = true
		}
		var ks []string
		for k, on := range keys {
			if on {
				ks = append(ks, k)
			}
		}
		sort.Strings(ks)
		var names []string
		for p := range pts {
			if pointPos(p) == set.name {
				names = append(names, p)
			}
		}
		sort.Strings(names)
		for _, k := range ks {
			for _, p := range names {
				seenParts = append(seenParts, fmt.Sprintf("%s[%s]=%s", p, k, shorts(pts[p][k])))
			}
		}
	}
	rs.mu.Unlock()
	if obs.panicked != "" {
		out.pan = obs.panicked
	}
	if obs.runaway {
		fs = append(fs, finding{"header", "RecvMsg", "runaway", "", "more than 8 response messages received"})
	}
	if out.reach || m.Pos == "request" {
		ran := out.reach || obs.isStream && !obs.newStream
		if now, want := renderMD(obj), renderMD(model); ran && now != want {
			fs = append(fs, finding{strings.Split(m.Pos, ">")[0], "application-md", "modified", "", fmt.Sprintf("the application's own object was rewritten by the library: the application made it {%s}, it holds {%s}", want, now)})
		}
	}
	out.fs = fs
	out.want, out.seen = strings.Join(wantParts, " then "), strings.Join(seenParts, " ")
	return out
}

// ---------------------------------------------------------------- the grammar of the part

func mutInits(thorough bool) [][]KV {
	out := [][]KV{
		{{"k", []string{"v"}}},
		{{"k", []string{"v", "a_b"}}},
		{{"b-bin", []string{"00", "0a"}}},
		{{"multi", []string{"a_b"}}, {"m-bin", []string{"0a"}}},
	}
	if thorough {
		out = append(out, []KV{{"multi", []string{"a_b", "punct", "printable"}}, {"k", []string{"v"}}, {"a_b.c", []string{"empty"}},
			{"b-bin", []string{"00"}}, {"m-bin", []string{"empty", "0a"}}})
	}
	return out
}

// mutUnit: everything but kind and transport.
type mutUnit struct {
	Pos, Mode, Op string
	Init          []KV
	Again, Late   bool
	Fail          bool
}

func mutUnits(thorough bool) []mutUnit {
	var out []mutUnit
	for _, pos := range mutPositions {
		for _, init := range mutInits(thorough) {
			for _, mode := range mutModes(pos) {
				for _, op := range mutOps {
					for _, again := range []bool{false, true} {
						for _, late := range []bool{false, true} {
							for _, fail := range []bool{false, true} {
								out = append(out, mutUnit{Pos: pos, Mode: mode, Op: op, Init: init, Again: again, Late: late, Fail: fail})
							}
						}
					}
				}
			}
		}
	}
	return out
}

func expandMut(u mutUnit, transports []string, f func(MutCase)) {
	for _, k := range allKinds {
		for _, t := range transports {
			m := MutCase{Engine: "E2", Part: partMutate, Transport: t, Kind: k, Pos: u.Pos, Mode: u.Mode, Init: u.Init, Op: u.Op,
				Again: u.Again, Late: u.Late, Fail: u.Fail}
			if m.valid() {
				f(m)
			}
		}
	}
}

type mutViolating struct {
	m      MutCase
	els    []string
	clause string
	what   string
}

type mutUnitResult struct {
	cases       int
	nontrivial  []uint64 // the object was changed after a hand-over the library accepted
	viol        []mutViolating
	refMismatch []string
	unreached   []string
	sample      map[string]interface{}
}

func runMutUnit(w *worker, u mutUnit, transports []string, sample bool) mutUnitResult {
	var r mutUnitResult
	expandMut(u, transports, func(m MutCase) {
		o := w.runMut(m)
		r.cases++
		if m.Transport == refTransport {
			if o.bad() || !o.reach {
				r.refMismatch = append(r.refMismatch, o.describe(m))
			}
			return
		}
		if o.took && m.Op != "none" {
			r.nontrivial = append(r.nontrivial, keyHash(m.key()))
		}
		if !o.bad() {
			if !o.reach {
				r.unreached = append(r.unreached, o.describe(m))
			}
			if sample && m.Op != "none" && r.sample == nil && m.Kind != "U" {
				r.sample = map[string]interface{}{"case": "mutation " + m.String(), "observed": "at the hand-overs the object held " + o.want + "; " + o.seen}
			}
			return
		}
		els, clause := o.elements()
		r.viol = append(r.viol, mutViolating{m: m, els: els, clause: clause, what: o.describe(m)})
	})
	return r
}

// simplerMut: the members differing from m in one parameter and simpler in it (see simpler in reuse.go).
func simplerMut(m MutCase, thorough bool) []MutCase {
	var out []MutCase
	add := func(mut func(*MutCase)) {
		d := m
		mut(&d)
		if d.valid() && d.key() != m.key() {
			out = append(out, d)
		}
	}
	if m.Fail {
		add(func(d *MutCase) { d.Fail = false })
	}
	if m.Pos == "header>trailer" || m.Pos == "trailer>header" {
		// one object for two positions -> one position (never from header to trailer or back)
		for _, p := range []string{"header", "trailer"} {
			for _, again := range []bool{false, true} {
				p, again := p, again
				add(func(d *MutCase) { d.Pos, d.Again = p, again })
			}
		}
	}
	if m.Late {
		add(func(d *MutCase) { d.Late = false })
	}
	if m.Again && m.Pos != "header>trailer" && m.Pos != "trailer>header" {
		add(func(d *MutCase) { d.Again = false })
	}
	for _, k := range allKinds {
		if k == m.Kind {
			break
		}
		k := k
		add(func(d *MutCase) {
			d.Kind = k
			if k == "U" {
				d.Mode = strings.Replace(strings.Replace(strings.Replace(d.Mode, "stream", "ctx", 1), "late", "ctx", 1), "split", "ctx", 1)
			}
		})
	}
	for _, mode := range mutModes(m.Pos) {
		if mode == m.Mode {
			break
		}
		mode := mode
		add(func(d *MutCase) { d.Mode = mode })
	}
	for _, op := range mutOps[1:] {
		if op == m.Op {
			break
		}
		op := op
		add(func(d *MutCase) { d.Op = op })
	}
	for _, init := range mutInits(thorough) {
		if kvString(init) == kvString(m.Init) {
			break
		}
		init := init
		add(func(d *MutCase) { d.Init = init })
	}
	for _, t := range familyOf(m.Transport) {
		if t == m.Transport {
			break
		}
		t := t
		add(func(d *MutCase) { d.Transport = t })
	}
	return out
}

// groupMut: one fingerprint per cause, as groupSeq does it for the reuse part (table walk to the simplest violating
// member with damage of a common category; representatives verified by two more runs).
func groupMut(viol []mutViolating, thorough bool, verify func(MutCase, []string) bool) (out []*seqGroupMut, unstable int) {
	byKey := map[string]*mutViolating{}
	for i := range viol {
		byKey[viol[i].m.key()] = &viol[i]
	}
	var final map[string]*mutViolating
	var reduce func(v *mutViolating) *mutViolating
	reduce = func(v *mutViolating) *mutViolating {
		if r := final[v.m.key()]; r != nil {
			return r
		}
		r := v
		for _, c := range simplerMut(v.m, thorough) {
			if o := byKey[c.key()]; o != nil && overlap(v.els, o.els) {
				r = reduce(o)
				break
			}
		}
		final[v.m.key()] = r
		return r
	}
	verified := map[string]bool{}
	for round := 0; round < 4; round++ {
		final = map[string]*mutViolating{}
		var reps []*mutViolating
		seen := map[string]bool{}
		for i := range viol {
			if byKey[viol[i].m.key()] == nil {
				continue
			}
			if r := reduce(&viol[i]); !seen[r.m.key()] {
				seen[r.m.key()] = true
				reps = append(reps, r)
			}
		}
		dropped := false
		for _, r := range reps {
			if verified[r.m.key()] {
				continue
			}
			if verify(r.m, r.els) {
				verified[r.m.key()] = true
			} else {
				delete(byKey, r.m.key())
				dropped = true
			}
		}
		if !dropped {
			break
		}
	}
	final = map[string]*mutViolating{}
	groups := map[string]*seqGroupMut{}
	var order []string
	for i := range viol {
		var eff *mutViolating
		if byKey[viol[i].m.key()] != nil {
			eff = reduce(&viol[i])
		}
		if eff == nil || !verified[eff.m.key()] {
			unstable++
			v := &viol[i]
			cats := map[string]bool{}
			for _, e := range v.els {
				cats[category(e)] = true
			}
			var cl []string
			for c := range cats {
				cl = append(cl, c)
			}
			sort.Strings(cl)
			fam := "http"
			if v.m.Transport == "inproc" {
				fam = "inproc"
			}
			fp := fmt.Sprintf("C03|%s|mutate-%s|not-reproducible|%s", fam, v.m.Pos, strings.Join(cl, ","))
			if groups[fp] == nil {
				groups[fp] = &seqGroupMut{fp: fp, rep: v.m, what: v.what}
				order = append(order, fp)
			}
			groups[fp].count++
			continue
		}
		gk := eff.m.key()
		g := groups[gk]
		if g == nil {
			g = &seqGroupMut{rep: eff.m, what: eff.what}
			groups[gk] = g
			order = append(order, gk)
			alike := func(c MutCase) bool {
				o := byKey[c.key()]
				return o != nil && subset(eff.els, o.els)
			}
			var ts, ks []string
			for _, t := range familyOf(eff.m.Transport) {
				c := eff.m
				c.Transport = t
				if alike(c) {
					ts = append(ts, t)
				}
			}
			for _, k := range allKinds {
				for _, t := range familyOf(eff.m.Transport) {
					c := eff.m
					c.Transport, c.Kind = t, k
					if k == "U" {
						c.Mode = strings.Replace(strings.Replace(strings.Replace(c.Mode, "stream", "ctx", 1), "late", "ctx", 1), "split", "ctx", 1)
					}
					if alike(c) {
						ks = append(ks, k)
						break
					}
				}
			}
			tclass := strings.Join(ts, "+")
			if tclass == "http-rec+http-wire+http-net+http-gate" || (eff.m.Kind == "U" && tclass == "http-rec+http-wire+http-net") {
				tclass = "http"
			}
			kclass := strings.Join(ks, "+")
			switch kclass {
			case "U+CS+SS+BD":
				kclass = "all-kinds"
			case "CS+SS+BD":
				kclass = "streams"
			}
			mods := []string{"mode=" + eff.m.Mode, "op=" + eff.m.Op}
			if eff.m.Again && eff.m.Pos != "header>trailer" && eff.m.Pos != "trailer>header" {
				mods = append(mods, "handed-over-again")
			}
			if eff.m.Late {
				mods = append(mods, "changed-after-responses")
			}
			if eff.m.Fail {
				mods = append(mods, "handler-fails")
			}
			g.fp = fmt.Sprintf("C03|%s|%s|mutate-%s|%s|%s|%s", tclass, kclass, eff.m.Pos, kvString(eff.m.Init), eff.clause, strings.Join(mods, ","))
		}
		g.count++
	}
	for _, gk := range order {
		out = append(out, groups[gk])
	}
	return out, unstable
}

type seqGroupMut struct {
	fp    string
	rep   MutCase
	what  string
	count int
}

func replayMut(path string) {
	var m MutCase
	if err := common.LoadReplay(path, &m); err != nil {
		inconclusive("cannot load replay %s: %v", path, err)
	}
	if len(m.Init) == 0 || !m.valid() {
		inconclusive("replay %s is not a member of the mutate part", path)
	}
	w := &worker{name: "replay"}
	defer w.close()
	startGuard([]*worker{w})
	o := w.runMut(m)
	fmt.Println("replay:", o.describe(m))
	if o.bad() {
		fmt.Printf("VIOLATION property=C03 replay=%s\n", path)
		os.Exit(1)
	}
	os.Exit(0)
}

// selfTestMutate: the mutations do what their names say, on an object and on its model alike.
func selfTestMutate() error {
	for _, key := range []string{"k", "b-bin"} {
		base := metadata.MD{key: {"1", "2"}, "other": {"o"}}
		want := map[string]string{
			"none":   renderMD(base),
			"set":    renderMD(metadata.MD{key: {newVal(key)}, "other": {"o"}}),
			"elem":   renderMD(metadata.MD{key: {newVal(key), "2"}, "other": {"o"}}),
			"append": renderMD(metadata.MD{key: {"1", "2", newVal(key)}, "other": {"o"}}),
			"addkey": renderMD(metadata.MD{key: {"1", "2"}, "other": {"o"}, addedKey(key): {newVal(key)}}),
			"delkey": renderMD(metadata.MD{"other": {"o"}}),
		}
		for _, op := range mutOps {
			md := deepCopyMD(base)
			snap := deepCopyMD(md)
			applyMut(md, op, key)
			if renderMD(md) != want[op] {
				return fmt.Errorf("mutate: op %s on key %s gives {%s}", op, key, renderMD(md))
			}
			if renderMD(snap) != renderMD(base) {
				return fmt.Errorf("mutate: op %s on key %s reaches a deep copy", op, key)
			}
		}
	}
	return nil
}
