// C03, content part (engine E2): request metadata, response headers and
// trailers arrive complete and unaltered.
//
// Bounded-exhaustive enumeration of metadata maps (keys k, multi, a_b.c, b-bin,
// m-bin; five ASCII and five binary values; 1..3 values per key; one-key,
// two-key and five-key maps) in the request / response-header /
// response-trailer position (and in all three at once)
//
//	x how they are attached (one call, one call per value, SetHeader+SendHeader,
//	  stream methods or grpc.SetHeader/SendHeader/SetTrailer(ctx), before or after the responses;
//	  metadata.NewOutgoingContext, AppendToOutgoingContext per pair, or the first pair with
//	  NewOutgoingContext and the rest appended)
//	x per-RPC credentials {none; a grpc.PerRPCCredentials call option whose metadata has any non-empty
//	  subset of a small key alphabet (plain and -bin keys) against any subset for the caller's own
//	  metadata: disjoint, overlapping, nested, identical key sets; keys in lower or upper case} (creds.go)
//	x RPC kind {unary, client-stream, server-stream, bidi}
//	x handler outcome {nil, NotFound status}
//	x {0,1} response messages (server-stream, bidi)
//	x Header() before the first RecvMsg / after the end of the stream
//	x 0..2 grpc.Header and grpc.Trailer call options
//	x transport {in-process; HTTP on a recorder; HTTP with the header blocks pushed
//	  through net/http's own writer and parser; HTTP over a loopback socket;
//	  HTTP on a recorder with the end-of-body indication held back (streams)}
//
// through the real channels and servers (grammar.go, run.go), and, as a dimension of its own (part reuse, reuse.go):
//
//	the lifetime of the metadata objects handed to the library: sequences of 2..3 calls (every sequence of RPC
//	kinds) on one channel / server in which the handler (response headers, trailers, or one object for both) or the
//	caller (outgoing context MD, the map its per-RPC credentials return, or both) hands THE SAME long-lived object
//	to the library in every call, next to per-call objects, in every order (scripts over {L, P}) and through every
//	API -- against a fresh copy per call as the control. Per call the oracle below, plus: nothing of an earlier call
//	under the per-call key, and every object handed over still has the content the application gave it.
//
// and (part mutate, mutate.go) what the application does with an object within the call after the hand-over: the
// handler (the caller, for streams) replaces / overwrites / appends a value, adds or deletes a key of the object it
// has just handed over, right away or after the response messages, and hands it over again or not; demanded are the
// pairs as they were at each hand-over.
//
// Oracle (oracle.go):
// every pair the caller attached (through the context or through credentials)
// is in the handler's incoming metadata, every
// pair the handler set is in Header() / Trailer() and in every option target:
// all values, in order, bytes exact; other keys are ignored (a transport may
// add its own). The same oracle is run against grpc-go over bufconn; a
// disagreement there is a checker error (exit 2).
//
// Fingerprints: every violating case is reduced (deterministic greedy
// minimisation, simplest payload / baseline parameters first) to the simplest
// member of the grammar showing the same damage, so one root cause gives one
// fingerprint: C03|transports|kinds|position|payload|damage[|parameters that matter]
// (with credentials in play: ...,creds{the credentials' metadata}).
//
// The ordering / interleaving half of C03 belongs to engine E1.
package main

import (
	"fmt"
	"hash/fnv"
	"io"
	"os"
	"runtime"
	"runtime/debug"
	"sort"
	"strconv"
	"strings"
	"sync"
	"time"

	"google.golang.org/grpc/grpclog"

	"verif/seq/common"
	"verif/vlib"
)

type violating struct {
	c    Case
	pos  []string
	els  map[string][]string // per position: elements of the verdict as first observed
	what string
}

type unitResult struct {
	evals       int
	credsEvals  int      // library cases with a grpc.PerRPCCredentials option that reached the handler
	credsShared []uint64 // ... and a key in both the caller's metadata and the credentials'
	nontrivial  []uint64
	viol        []violating
	refMismatch []string
	unreached   []string
	sample      map[string]interface{}
}

func keyHash(s string) uint64 {
	h := fnv.New64a()
	h.Write([]byte(s))
	return h.Sum64()
}

func mdKeys(c Case, rs *runState, obs observation) string {
	rs.mu.Lock()
	defer rs.mu.Unlock()
	var parts []string
	for _, e := range c.Req {
		parts = append(parts, fmt.Sprintf("incoming[%s]=%s", e.Key, shorts(rs.incoming[e.Key])))
	}
	for _, e := range c.Creds {
		if len(mdOf(c.Req)[e.Key]) == 0 {
			parts = append(parts, fmt.Sprintf("incoming[%s]=%s", e.Key, shorts(rs.incoming[e.Key])))
		}
	}
	for k := range rs.hdrSet {
		if obs.isStream {
			parts = append(parts, fmt.Sprintf("Header()[%s]=%s", k, shorts(obs.hdr[k])))
		}
		for i, o := range obs.hdrOpts {
			parts = append(parts, fmt.Sprintf("grpc.Header[%d][%s]=%s", i, k, shorts(o[k])))
		}
	}
	for k := range rs.trlSet {
		if obs.isStream {
			parts = append(parts, fmt.Sprintf("Trailer()[%s]=%s", k, shorts(obs.trl[k])))
		}
		for i, o := range obs.trlOpts {
			parts = append(parts, fmt.Sprintf("grpc.Trailer[%d][%s]=%s", i, k, shorts(o[k])))
		}
	}
	sort.Strings(parts)
	return "call: " + errText(obs.callErr) + "; " + strings.Join(parts, "; ")
}

func runUnit(w *worker, u unit, transports []string, sampleAt int) unitResult {
	var r unitResult
	passing := 0
	expand(u, transports, func(c Case) {
		rs, obs := w.run(c)
		fs := check(c, rs, obs)
		isRef := c.Transport == refTransport
		r.evals++
		if obs.runaway {
			fs = append(fs, finding{"header", "RecvMsg", "runaway", "", "more than 8 response messages received"})
		}
		pan := obs.panicked
		rs.mu.Lock()
		if rs.panicked != "" {
			pan = rs.panicked
		}
		reached := rs.reached
		nontrivial := reached && (len(c.Req) > 0 || len(c.Creds) > 0 || len(rs.hdrSet) > 0 || len(rs.trlSet) > 0)
		rs.mu.Unlock()
		if !isRef && reached && len(c.Creds) > 0 {
			r.credsEvals++
			if len(c.sharedKeys()) > 0 {
				r.credsShared = append(r.credsShared, keyHash(c.key()))
			}
		}
		if isRef {
			if len(fs) > 0 || pan != "" || !reached {
				r.refMismatch = append(r.refMismatch, describe(c, rs, obs, fs)+" "+pan)
			}
			return
		}
		if nontrivial {
			r.nontrivial = append(r.nontrivial, keyHash(c.key()))
		}
		if len(fs) == 0 && pan == "" {
			if !reached {
				r.unreached = append(r.unreached, describe(c, rs, obs, fs))
			}
			if sampleAt >= 0 && passing <= sampleAt {
				r.sample = map[string]interface{}{"case": c.String(), "observed": mdKeys(c, rs, obs)}
			}
			passing++
			return
		}
		v := violating{c: c, what: describe(c, rs, obs, fs)}
		if pan != "" {
			v.pos = []string{"panic"}
			v.what += "; PANIC: " + pan
		} else {
			v.els = map[string][]string{}
			for _, f := range fs {
				if v.els[f.Pos] == nil {
					v.els[f.Pos] = elements(f.Pos, fs)
					v.pos = append(v.pos, f.Pos)
				}
			}
		}
		r.viol = append(r.viol, v)
	})
	return r
}

func replay(path string) {
	var probe struct {
		Part string `json:"part"`
	}
	if err := common.LoadReplay(path, &probe); err == nil && probe.Part == partReuse {
		replaySeq(path)
	}
	if probe.Part == partMutate {
		replayMut(path)
	}
	var c Case
	if err := common.LoadReplay(path, &c); err != nil {
		inconclusive("cannot load replay %s: %v", path, err)
	}
	if c.Engine != "E2" {
		inconclusive("replay %s is not an E2 replay (engine=%q)", path, c.Engine)
	}
	w := &worker{name: "replay"}
	defer w.close()
	startGuard([]*worker{w})
	rs, obs := w.run(c)
	fs := check(c, rs, obs)
	fmt.Println("replay:", describe(c, rs, obs, fs))
	fmt.Println("observed:", mdKeys(c, rs, obs))
	if obs.panicked != "" || rs.panicked != "" {
		fmt.Println("panic:", obs.panicked, rs.panicked)
	}
	if len(fs) > 0 || obs.panicked != "" || rs.panicked != "" {
		fmt.Printf("VIOLATION property=C03 replay=%s\n", path)
		os.Exit(1)
	}
	os.Exit(0)
}

// startGuard: the hang guard. A case that makes no progress for 30 s ends the
// run as INCONCLUSIVE (blocking forever is C05's subject, not this property's).
func startGuard(ws []*worker) {
	go func() {
		last := make([]int64, len(ws))
		since := make([]time.Time, len(ws))
		for i := range since {
			since[i] = time.Now()
		}
		for {
			time.Sleep(2 * time.Second)
			for i, w := range ws {
				p := w.progress.Load()
				if p != last[i] || !w.busy.Load() {
					last[i], since[i] = p, time.Now()
					continue
				}
				if time.Since(since[i]) > 30*time.Second {
					d, _ := w.curDesc.Load().(string)
					inconclusive("hang guard: no progress for 30 s in case {%s}", d)
				}
			}
		}
	}()
}

func main() {
	grpclog.SetLoggerV2(grpclog.NewLoggerV2(io.Discard, io.Discard, io.Discard))
	debug.SetMemoryLimit(6 << 30)
	rep := vlib.NewReporter("C03")
	if p := common.Arg("replay"); p != "" {
		replay(p)
	}
	thorough := rep.Tier == "thorough"

	maxLen, multiAll, tripleSet := 2, false, 4
	if thorough {
		maxLen, multiAll, tripleSet = 3, true, 6
	}
	if err := selfTestOracle(); err != nil {
		inconclusive("self-test: %v", err)
	}
	if err := selfTestReuse(); err != nil {
		inconclusive("self-test: %v", err)
	}
	if err := selfTestMutate(); err != nil {
		inconclusive("self-test: %v", err)
	}
	us := units(maxLen, multiAll, tripleSet, thorough)
	if only := os.Getenv("C03E2_ONLY"); only == partReuse || only == partMutate {
		us = nil // development aid: only the reuse part (the evidence then says so: evaluations_per_part)
	}
	// the reference transport: thorough = every unit; quick = the one- and two-value one-key maps in the base modes, the five-key maps
	refFor := func(u unit) bool {
		if thorough {
			return true
		}
		if u.Part == "creds" {
			return true // the merge of credentials and caller metadata: always against the reference
		}
		base := u.ReqMode == baseReqMode && u.HdrMode == baseHdrMode && u.TrlMode == baseTrlMode
		n := len(u.Req) + len(u.Hdr) + len(u.Trl)
		return base && (u.Part == "single" || n == 5)
	}

	nw := runtime.NumCPU() / 2
	if nw > 8 {
		nw = 8
	}
	if s := os.Getenv("VERIF_WORKERS"); s != "" {
		nw, _ = strconv.Atoi(s)
	}
	if nw < 1 {
		nw = 1
	}
	workers := make([]*worker, nw+1)
	for i := range workers {
		workers[i] = &worker{name: fmt.Sprintf("w%d", i)}
	}
	startGuard(workers)

	results := make([]unitResult, len(us))
	sampleEvery := len(us) / 7
	jobs := make(chan int)
	var wg sync.WaitGroup
	for _, w := range workers[:nw] {
		w := w
		wg.Add(1)
		go func() {
			defer wg.Done()
			for i := range jobs {
				ts := libTransports
				if refFor(us[i]) {
					ts = append(append([]string(nil), libTransports...), refTransport)
				}
				sampleAt := -1
				if i%sampleEvery == sampleEvery/2 {
					sampleAt = (i * 31) % 211 // a different member of the unit each time
				}
				results[i] = runUnit(w, us[i], ts, sampleAt)
			}
		}()
	}
	for i := range us {
		jobs <- i
	}
	close(jobs)
	wg.Wait()

	// ---- part reuse: sequences of calls made with the application's long-lived metadata objects (reuse.go); always with
	// the reference transport next to the library's
	sus := seqUnits(thorough)
	if os.Getenv("C03E2_ONLY") == partMutate {
		sus = nil
	}
	kseqs := kindSeqs(thorough)
	seqResults := make([]seqUnitResult, len(sus))
	seqSampleEvery := len(sus)/4 + 1
	seqJobs := make(chan int)
	for _, w := range workers[:nw] {
		w := w
		wg.Add(1)
		go func() {
			defer wg.Done()
			ts := append(append([]string(nil), libTransports...), refTransport)
			for i := range seqJobs {
				sampleAt := -1
				if i%seqSampleEvery == seqSampleEvery/2 {
					sampleAt = (i * 7) % 23
				}
				seqResults[i] = runSeqUnit(w, sus[i], kseqs, ts, sampleAt)
			}
		}()
	}
	for i := range sus {
		seqJobs <- i
	}
	close(seqJobs)
	wg.Wait()

	// ---- part mutate: the application changes a metadata object within the call after handing it over (mutate.go)
	mus := mutUnits(thorough)
	if os.Getenv("C03E2_ONLY") == partReuse {
		mus = nil
	}
	mutResults := make([]mutUnitResult, len(mus))
	mutSampleEvery := len(mus)/40 + 1
	mutJobs := make(chan int)
	for _, w := range workers[:nw] {
		w := w
		wg.Add(1)
		go func() {
			defer wg.Done()
			ts := append(append([]string(nil), libTransports...), refTransport)
			for i := range mutJobs {
				mutResults[i] = runMutUnit(w, mus[i], ts, i%mutSampleEvery == mutSampleEvery/2)
			}
		}()
	}
	for i := range mus {
		mutJobs <- i
	}
	close(mutJobs)
	wg.Wait()

	// ---- collect, in unit order (deterministic whatever the worker interleaving was)
	evals, refEvals := 0, 0
	distinct := map[uint64]struct{}{}
	var samples []interface{}
	var refMismatch, unreached []string
	perPart := map[string]int{}
	var viol []violating
	credsEvals := 0
	credsShared := map[uint64]struct{}{}
	for i, r := range results {
		evals += r.evals
		credsEvals += r.credsEvals
		for _, h := range r.credsShared {
			credsShared[h] = struct{}{}
		}
		perPart[us[i].Part] += r.evals
		for _, h := range r.nontrivial {
			distinct[h] = struct{}{}
		}
		if r.sample != nil {
			samples = append(samples, r.sample)
		}
		refMismatch = append(refMismatch, r.refMismatch...)
		unreached = append(unreached, r.unreached...)
		viol = append(viol, r.viol...)
	}
	_ = refEvals
	seqCount, seqCalls := 0, 0
	seqDistinct := map[uint64]struct{}{}
	var seqViol []seqViolating
	for _, r := range seqResults {
		seqCount += r.sequences
		seqCalls += r.calls
		evals += r.calls
		perPart[partReuse] += r.calls
		for _, h := range r.nontrivial {
			distinct[h] = struct{}{}
			seqDistinct[h] = struct{}{}
		}
		if r.sample != nil {
			samples = append(samples, r.sample)
		}
		refMismatch = append(refMismatch, r.refMismatch...)
		unreached = append(unreached, r.unreached...)
		seqViol = append(seqViol, r.viol...)
	}
	mutCases, mutSamples := 0, 0
	mutDistinct := map[uint64]struct{}{}
	var mutViol []mutViolating
	for _, r := range mutResults {
		mutCases += r.cases
		evals += r.cases
		perPart[partMutate] += r.cases
		for _, h := range r.nontrivial {
			distinct[h] = struct{}{}
			mutDistinct[h] = struct{}{}
		}
		if r.sample != nil && mutSamples < 3 {
			mutSamples++
			samples = append(samples, r.sample)
		}
		refMismatch = append(refMismatch, r.refMismatch...)
		unreached = append(unreached, r.unreached...)
		mutViol = append(mutViol, r.viol...)
	}
	if len(refMismatch) > 0 {
		for i, s := range refMismatch {
			if i == 10 {
				break
			}
			fmt.Fprintln(os.Stderr, "oracle disagrees with grpc-go:", s)
		}
		inconclusive("the oracle rejects grpc-go itself in %d cases: the oracle asks for more than the reference transport delivers", len(refMismatch))
	}
	if len(unreached) > 0 {
		inconclusive("%d cases never reached the handler without any metadata being involved, e.g. %s", len(unreached), unreached[0])
	}

	// ---- one fingerprint per root cause: minimise every violating case
	mz := &minimiser{w: workers[nw], memo: map[string]verdict{}}
	type group struct {
		fp    string
		rep   Case
		pos   string
		count int
		first violating
	}
	groups := map[string]*group{}
	var order []string
	minCache := map[string]string{} // pos||minimised key -> fingerprint
	unstable := 0
	for _, v := range viol {
		for _, pos := range v.pos {
			if pos == "panic" {
				fp := fmt.Sprintf("C03|%s|%s|panic|req{%s} hdr{%s} trl{%s}", v.c.Transport, v.c.Kind, kvString(v.c.Req), kvString(v.c.Hdr), kvString(v.c.Trl))
				if groups[fp] == nil {
					groups[fp] = &group{fp: fp, rep: v.c, pos: pos, first: v}
					order = append(order, fp)
				}
				groups[fp].count++
				continue
			}
			target := v.els[pos]
			if pos == "request" && len(v.c.Creds) > 0 {
				target = coarsenRequest(target)
			}
			m, reproducible := mz.minimise(v.c, pos, target)
			if !reproducible {
				// the violation did not show again when the case was run again: timing-dependent. One
				// fingerprint per transport family, position and kind of damage (the inputs do not matter).
				unstable++
				fam := "http"
				if v.c.Transport == "inproc" {
					fam = "inproc"
				}
				fp := fmt.Sprintf("C03|%s|%s|not-reproducible|%s", fam, pos, strings.Join(target, ","))
				if groups[fp] == nil {
					groups[fp] = &group{fp: fp, rep: v.c, pos: pos, first: v}
					order = append(order, fp)
				}
				groups[fp].count++
				continue
			}
			ck := pos + "|" + strings.Join(target, ",") + "|" + m.key()
			fp, ok := minCache[ck]
			var repCase Case
			if !ok {
				var good bool
				fp, repCase, good = mz.fingerprint(m, pos, target)
				if !good {
					fam := "http"
					if v.c.Transport == "inproc" {
						fam = "inproc"
					}
					fp, repCase = fmt.Sprintf("C03|%s|%s|not-reproducible|%s", fam, pos, strings.Join(target, ",")), v.c
				}
				minCache[ck] = fp
				if groups[fp] == nil {
					groups[fp] = &group{fp: fp, rep: repCase, pos: pos, first: v}
					order = append(order, fp)
				}
			}
			groups[fp].count++
		}
	}
	for _, fp := range order {
		g := groups[fp]
		rs, obs := mz.w.run(g.rep)
		fs := check(g.rep, rs, obs)
		what := fmt.Sprintf("%s [simplest of %d violating (case, position) pairs of the grammar with this cause; first met as {%s}]",
			describe(g.rep, rs, obs, fs), g.count, g.first.c)
		if len(fs) == 0 {
			what = g.first.what
		}
		rep.Violation(fp, what, g.rep)
	}
	seqGroups, seqUnstable := groupSeq(seqViol, kseqs, thorough, func(s SeqCase, els []string) bool {
		for i := 0; i < 2; i++ {
			got, _ := mz.w.runSeq(s).elements()
			if strings.Join(got, ",") != strings.Join(els, ",") {
				return false
			}
		}
		return true
	})
	unstable += seqUnstable
	for _, g := range seqGroups {
		rep.Violation(g.fp, fmt.Sprintf("%s [simplest of %d violating call sequences of the reuse part with this damage]", g.what, g.count), g.rep)
	}
	mutGroups, mutUnstable := groupMut(mutViol, thorough, func(m MutCase, els []string) bool {
		for i := 0; i < 2; i++ {
			got, _ := mz.w.runMut(m).elements()
			if strings.Join(got, ",") != strings.Join(els, ",") {
				return false
			}
		}
		return true
	})
	unstable += mutUnstable
	for _, g := range mutGroups {
		rep.Violation(g.fp, fmt.Sprintf("%s [simplest of %d violating cases of the mutate part with this damage]", g.what, g.count), g.rep)
	}
	spent := map[string]time.Duration{}
	for _, w := range workers {
		w.close()
		for t, d := range w.spent {
			spent[t] += d
		}
	}
	fmt.Fprintf(os.Stderr, "cpu time in calls per transport (statistics only): %v; workers=%d\n", spent, nw)

	assumptions := []string{
		"cooperative schedule only: one linear client script per case (send, CloseSend, [Header], Recv..., [Header], Trailer); orders and interleavings are the E1 part of C03",
		"keys are valid gRPC keys outside the transports' reserved namespaces (grpc-, x-grpc-, HTTP framing headers); ASCII values have no leading/trailing blank (the gRPC spec lets transports strip those)",
		"per application key the observed value list must equal the list that was set (all values, order, bytes); keys the application did not set are ignored; grpc-go over bufconn satisfies this oracle on the same cases (checked in this run)",
		"per-RPC credentials (grpc.PerRPCCredentials call option; a static map, RequireTransportSecurity false, one option per call) count as metadata the caller attaches: under a key the credentials also produce the handler must see the caller's values in the caller's order with the credentials' value inserted once at any position (grpc-go puts it first, grpchan last; the statement fixes neither), under a key only the credentials produce exactly their value; keys compared in lower case. The credentials dimension is crossed with kind x outcome x transport x attach mode (part creds, narrow expansion) and swept around one-key bases for nresp x Header() position x option count with header and trailer maps present (part creds-sweep); it is not crossed with the value-list grammar of the one-key part (values rotate through the alphabets instead)",
		"part reuse (long-lived metadata objects): the sequences are sequential (call n+1 starts when call n has ended) on one channel / server per transport; the long-lived object holds valid-UTF-8 values and the per-call objects one key with one value naming the call (the value grammar is the other parts' subject), two grpc.Header and two grpc.Trailer options per call, one response message for the server-streaming kinds; per call the oracle is the per-call oracle above (what the application put into the objects it handed over in this call, nothing of an earlier call under the per-call key) plus: every object handed to the library has, after the call, the content it had before it. The reuse dimension is crossed with kind sequence x position x hand-over mode x script x long-lived map x per-call key x outcome x transport, not with the value-list grammar, the option count, Header() position or the credentials key-set grammar. Only the application's side keeps objects: what the client does with the metadata it receives (e.g. writing into a received header map) is not varied",
		"part mutate (an object changed within the call after its hand-over): one object, one mutation on its first key (or none), at one of two moments, handed over again or not; the handler does this on its own goroutine between its own calls, so nothing is concurrent with the library unless the library itself defers reading the object. Demanded: the pairs as the object held them at each hand-over, in hand-over order (grpc-go agrees on every member, checked in this run). The caller's side (outgoing MD changed as soon as NewStream returned) is checked for streams over the HTTP transports only: for unary calls nothing is observable after Invoke returned, and the in-process side is C10's clause. Swept around the base cases (kind x outcome x transport x hand-over mode x 4-5 small objects), two grpc.Header / grpc.Trailer options, not crossed with the value-list grammar or the reuse sequences",
		"the hang guard (30 s without progress) uses the wall clock; nothing else does",
	}
	os.Exit(rep.Finish("exploration", map[string]interface{}{
		"evaluations":                     evals,
		"evaluations_per_part":            perPart,
		"units":                           len(us),
		"distinct_nontrivial":             len(distinct),
		"violating_cases":                 len(viol),
		"reuse_sequences":                 seqCount,
		"reuse_calls":                     seqCalls,
		"reuse_units":                     len(sus),
		"reuse_distinct_shared_object":    len(seqDistinct),
		"reuse_violating_sequences":       len(seqViol),
		"mutate_cases":                    mutCases,
		"mutate_units":                    len(mus),
		"mutate_distinct_changed_object":  len(mutDistinct),
		"mutate_violating_cases":          len(mutViol),
		"minimiser_runs":                  mz.runs,
		"not_reproducible":                unstable,
		"flaky_minimiser_verdicts":        mz.flaky,
		"gate_timed_out":                  gateTimedOut.Load(),
		"rule":                            "a case (transport, kind, outcome, nresp, Header() position, option count, three maps with their attach modes, credentials map with its key spelling) is non-trivial when the real handler was reached and at least one application pair was in play (caller attached request metadata or passed per-RPC credentials, or a SetHeader/SendHeader/SetTrailer call of the handler returned nil), i.e. the metadata copy / merge / encode / fan-out path ran; distinct by all case parameters (FNV-64 of the case key); reference-transport (grpc-go) runs are counted in evaluations but not here. A call sequence of part reuse is non-trivial (and counted, keyed by all its parameters; reuse_distinct_shared_object) when the very same long-lived object was handed to the library in every call, every call reached the real handler and the library accepted the objects (no SetHeader/SetTrailer error) in at least two calls, i.e. the copy-or-keep decision of the metadata path ran at least twice on one object; the control sequences (fresh copy per call) and the reference-transport runs count in evaluations (one per call) only. A case of part mutate is non-trivial (mutate_distinct_changed_object) when the handler was reached (request position: the stream was created), the library accepted every hand-over and the application did change the object after a hand-over (op other than none), i.e. the library's copy-at-hand-over was put to the test. credentials_cases_reached: library cases with a grpc.PerRPCCredentials option whose handler ran; credentials_distinct_shared_key: the distinct ones among them in which the caller's metadata and the credentials have at least one key in common (the merge had to keep both sides' values under one key)",
		"credentials_cases_reached":       credsEvals,
		"credentials_distinct_shared_key": len(credsShared),
		"samples":                         samples,
		"exhaustive":                      true,
		"grammar": fmt.Sprintf("one-key maps: 5 keys x value lists of length 1..%d over 5 values x all attach modes (request: NewOutgoingContext, AppendToOutgoingContext per pair, first pair New + rest appended) x 3 positions; two-key maps: 10 key pairs x 25 value pairs and 5 five-key maps x attach modes (all=%v) x 3 positions; %d^3 three-position triples; each x 4 kinds x ok/fail x nresp x Header() position x 0..2 options x 5 transports (inproc, http-rec, http-wire, http-net; http-gate for the stream kinds). "+
			"Per-RPC credentials (part creds): every pair (caller key set S, credentials key set T non-empty) of subsets of the key alphabet %v (disjoint, overlapping, nested, identical; S empty = credentials alone) x 1..%d caller values per key x %d value schemes (rotations of the value alphabets with the credentials' value different from all the caller's for the key, and one where it repeats the caller's first value) x every request attach mode x credentials' keys in lower / upper case x 4 kinds x ok/fail x 5 transports; (part creds-sweep): none or one caller key (two values) x one credentials key over the same alphabet x every request attach mode, with a header and a trailer map set, x the full expansion (nresp x Header() position x 0..2 options). No credentials = all other parts. "+
			"Long-lived objects (part reuse): sequences of calls on one channel / server: every sequence of 2 RPC kinds and %s x position {header, trailer, header+trailer (one object handed to both), request} x script over {L = the long-lived object, P = a per-call object} of length 1..%d with at least one L (request: L first and once) x hand-over mode {header: grpc.SetHeader(ctx) or the stream's SetHeader, the last call optionally SendHeader; trailer: grpc.SetTrailer(ctx), the stream's SetTrailer before / after the response messages / first before and the rest after; request: NewOutgoingContext(L) + AppendToOutgoingContext per per-call pair, L as the map the PerRPCCredentials return, or both} x %d long-lived maps x per-call key {L's first key, a key L does not have} x handler ok/fail x {the same object in every call, a fresh copy per call (control)} x 5 transports + grpc-go. "+
			"Objects changed within the call (part mutate): position {header, trailer, header>trailer and trailer>header (one object for both, changed in between), request (streams over HTTP: outgoing MD changed as soon as NewStream returned)} x hand-over mode {header: grpc.SetHeader(ctx) or the stream's SetHeader, the last hand-over optionally SendHeader; trailer: grpc.SetTrailer(ctx), the stream's SetTrailer, after the response messages, first before and second after them} x %d objects x mutation {none, replace the value list of the first key, overwrite its first value in place, append a value, add a key, delete the key} x moment {right after the hand-over, after the response messages} x handed over again or not x handler ok/fail x 4 kinds x 5 transports + grpc-go",
			maxLen, multiAll, tripleSet, credsKeyAlpha(thorough), map[bool]int{false: 2, true: 3}[thorough], map[bool]int{false: 3, true: 6}[thorough],
			map[bool]string{false: "the 4 sequences of 3 calls of one kind", true: "every sequence of 3 RPC kinds (those of different kinds for the first two long-lived maps only, the four of one kind for all)"}[thorough], map[bool]int{false: 2, true: 3}[thorough], len(longMaps(thorough)), len(mutInits(thorough))),
		"reference_validated_on_grpc_go": true,
	}, assumptions))
}
