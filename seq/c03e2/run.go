package main

import (
	"bufio"
	"bytes"
	"context"
	"fmt"
	"io"
	"net"
	"net/http"
	"net/http/httptest"
	"net/textproto"
	"net/url"
	"os"
	"runtime/debug"
	"sync"
	"sync/atomic"
	"time"

	"github.com/fullstorydev/grpchan/httpgrpc"
	"github.com/fullstorydev/grpchan/inprocgrpc"
	"google.golang.org/grpc"
	"google.golang.org/grpc/codes"
	"google.golang.org/grpc/credentials"
	"google.golang.org/grpc/credentials/insecure"
	"google.golang.org/grpc/metadata"
	"google.golang.org/grpc/status"
	"google.golang.org/grpc/test/bufconn"
	"google.golang.org/protobuf/types/known/wrapperspb"

	"verif/seq/common"
)

func inconclusive(f string, a ...interface{}) {
	fmt.Fprintf(os.Stderr, "INCONCLUSIVE: "+f+"\n", a...)
	os.Exit(2)
}

// ---------------------------------------------------------------- what the handler saw / did

type runState struct {
	id   string
	c    Case
	plan *callPlan // part reuse: the metadata calls of this call, with the application's own objects (nil: from the case)

	mu       sync.Mutex
	reached  bool
	incoming metadata.MD
	hdrSet   map[string][]string // accumulated from the header calls that returned nil
	trlSet   map[string][]string
	refused  []string // header / trailer calls that returned an error
	notes    []string // other handler-side errors (recv / send)
	panicked string
}

func (rs *runState) note(f string, a ...interface{}) {
	rs.mu.Lock()
	rs.notes = append(rs.notes, fmt.Sprintf(f, a...))
	rs.mu.Unlock()
}

func (rs *runState) reach(ctx context.Context) {
	md, _ := metadata.FromIncomingContext(ctx)
	rs.mu.Lock()
	rs.reached = true
	rs.incoming = md.Copy()
	rs.mu.Unlock()
}

// callPlan replaces what headerOps / trailerOps / outgoingContext derive from the case: the calls of one member of a
// call sequence, made with metadata objects that outlive the call (reuse.go).
type callPlan struct {
	hdr, trlEarly, trlLate []mdOp
	preHdr                 []mdOp          // trailer calls the handler makes before its header calls
	ctx                    context.Context // the caller's outgoing context (nil: from the case)
	creds                  credentials.PerRPCCredentials
	afterSend              func() // the handler, after its response messages and before the late trailer calls (streams)
	afterNewStream         func() // the caller, as soon as NewStream has returned (streams)
}

func (rs *runState) ops() (hdr, early, late []mdOp) {
	if rs.plan != nil {
		return rs.plan.hdr, rs.plan.trlEarly, rs.plan.trlLate
	}
	early, late = trailerOps(rs.c)
	return headerOps(rs.c), early, late
}

// arg: what is handed to the library (a copy made for this call, or the application's long-lived object itself) and
// what the application put into it.
func (op mdOp) arg() (handed, want metadata.MD) {
	if op.Live {
		return op.MD, op.Want
	}
	return op.MD.Copy(), op.MD
}

func accumulate(into map[string][]string, md metadata.MD) {
	for k, vs := range md {
		into[k] = append(into[k], vs...)
	}
}

func (rs *runState) headerCalls(ops []mdOp, ss grpc.ServerStream, ctx context.Context) {
	for i, op := range ops {
		var err error
		name := ""
		md, want := op.arg()
		switch {
		case op.Ctx || ss == nil:
			if op.Send {
				name, err = "grpc.SendHeader", grpc.SendHeader(ctx, md)
			} else {
				name, err = "grpc.SetHeader", grpc.SetHeader(ctx, md)
			}
		case op.Send:
			name, err = "stream.SendHeader", ss.SendHeader(md)
		default:
			name, err = "stream.SetHeader", ss.SetHeader(md)
		}
		rs.mu.Lock()
		if err != nil {
			rs.refused = append(rs.refused, fmt.Sprintf("%s#%d: %v", name, i, err))
		} else {
			accumulate(rs.hdrSet, want)
		}
		rs.mu.Unlock()
		if op.Then != nil {
			op.Then()
		}
	}
}

func (rs *runState) trailerCalls(ops []mdOp, ss grpc.ServerStream, ctx context.Context) {
	for i, op := range ops {
		var err error
		name := "stream.SetTrailer"
		md, want := op.arg()
		if op.Ctx || ss == nil {
			name, err = "grpc.SetTrailer", grpc.SetTrailer(ctx, md)
		} else {
			ss.SetTrailer(md)
		}
		rs.mu.Lock()
		if err != nil {
			rs.refused = append(rs.refused, fmt.Sprintf("%s#%d: %v", name, i, err))
		} else {
			accumulate(rs.trlSet, want)
		}
		rs.mu.Unlock()
		if op.Then != nil {
			op.Then()
		}
	}
}

// ---------------------------------------------------------------- one worker = one set of channels and servers

type worker struct {
	cur   atomic.Pointer[runState]
	seq   int
	name  string
	conns map[string]grpc.ClientConnInterface
	stop  []func()

	spent map[string]time.Duration

	progress atomic.Int64 // for the hang guard
	busy     atomic.Bool
	curDesc  atomic.Value // string
}

func (w *worker) lookup(id string) *runState {
	rs := w.cur.Load()
	if rs == nil || rs.id != id {
		return nil
	}
	return rs
}

var errPlanned = status.Error(codes.NotFound, "planned failure")

func (w *worker) unary(ctx context.Context, dec func(interface{}) error) (interface{}, error) {
	var in wrapperspb.StringValue
	if err := dec(&in); err != nil {
		return nil, err
	}
	rs := w.lookup(in.Value)
	if rs == nil {
		return nil, status.Error(codes.Aborted, "stale case")
	}
	rs.reach(ctx)
	hdr, early, late := rs.ops()
	if rs.plan != nil {
		rs.trailerCalls(rs.plan.preHdr, nil, ctx)
	}
	rs.headerCalls(hdr, nil, ctx)
	rs.trailerCalls(early, nil, ctx)
	rs.trailerCalls(late, nil, ctx)
	if rs.c.Fail {
		return nil, errPlanned
	}
	return wrapperspb.String("resp"), nil
}

func (w *worker) stream(clientStreams bool) common.StreamFn {
	return func(ss grpc.ServerStream) error {
		var in wrapperspb.StringValue
		if err := ss.RecvMsg(&in); err != nil {
			return status.Errorf(codes.Aborted, "first receive: %v", err)
		}
		rs := w.lookup(in.Value)
		if rs == nil {
			return status.Error(codes.Aborted, "stale case")
		}
		ctx := ss.Context()
		rs.reach(ctx)
		if clientStreams {
			for n := 0; ; n++ {
				var x wrapperspb.StringValue
				err := ss.RecvMsg(&x)
				if err == io.EOF {
					break
				}
				if err != nil || n > 8 {
					rs.note("handler RecvMsg: %v", err)
					return status.Errorf(codes.Aborted, "handler receive: %v", err)
				}
			}
		}
		hdr, early, late := rs.ops()
		if rs.plan != nil {
			rs.trailerCalls(rs.plan.preHdr, ss, ctx)
		}
		rs.headerCalls(hdr, ss, ctx)
		rs.trailerCalls(early, ss, ctx)
		n := rs.c.NResp
		if rs.c.Kind == "CS" && !rs.c.Fail {
			n = 1
		}
		for i := 0; i < n; i++ {
			if err := ss.SendMsg(wrapperspb.String("resp")); err != nil {
				rs.note("handler SendMsg: %v", err)
			}
		}
		if rs.plan != nil && rs.plan.afterSend != nil {
			rs.plan.afterSend()
		}
		rs.trailerCalls(late, ss, ctx)
		if rs.c.Fail {
			return errPlanned
		}
		return nil
	}
}

func (w *worker) service() *common.Svc {
	return &common.Svc{Name: "t.S",
		Unary: map[string]common.UnaryFn{"U": w.unary},
		Streams: map[string]common.StreamDef{
			"CS": {Fn: w.stream(true), ClientStreams: true},
			"SS": {Fn: w.stream(false), ServerStreams: true},
			"BD": {Fn: w.stream(true), ClientStreams: true, ServerStreams: true},
		}}
}

// guardRT turns a panic of the server side (it runs on the caller's goroutine
// with the recorder transports) into something the case can report.
func (w *worker) guardRT(inner http.RoundTripper) http.RoundTripper {
	return common.RT(func(r *http.Request) (resp *http.Response, err error) {
		defer func() {
			if p := recover(); p != nil {
				if rs := w.cur.Load(); rs != nil {
					rs.mu.Lock()
					rs.panicked = fmt.Sprintf("server side: %v\n%s", p, debug.Stack())
					rs.mu.Unlock()
				}
				resp, err = nil, fmt.Errorf("server side panicked: %v", p)
			}
		}()
		return inner.RoundTrip(r)
	})
}

// wireRT puts net/http's own header writer and parser in the loop without a
// socket: the request header block goes through http.Header.Write and
// textproto.ReadMIMEHeader (what Request.Write / ReadRequest use), the recorded
// response through http.Response.Write and http.ReadResponse.
func wireRT(inner http.RoundTripper) http.RoundTripper {
	return common.RT(func(r *http.Request) (*http.Response, error) {
		var hb bytes.Buffer
		if err := r.Header.Write(&hb); err != nil {
			return nil, fmt.Errorf("wire: request header write: %w", err)
		}
		hb.WriteString("\r\n")
		mh, err := textproto.NewReader(bufio.NewReader(&hb)).ReadMIMEHeader()
		if err != nil {
			return nil, fmt.Errorf("wire: request header read: %w", err)
		}
		r2 := r.Clone(r.Context())
		r2.Header = http.Header(mh)
		resp, err := inner.RoundTrip(r2)
		if err != nil {
			return nil, err
		}
		if resp.ContentLength < 0 {
			resp.TransferEncoding = []string{"chunked"}
		}
		var buf bytes.Buffer
		if err := resp.Write(&buf); err != nil {
			return nil, fmt.Errorf("wire: response write: %w", err)
		}
		out, err := http.ReadResponse(bufio.NewReader(&buf), r)
		if err != nil {
			return nil, fmt.Errorf("wire: response read: %w", err)
		}
		return out, nil
	})
}

// gateRT delays the end-of-body indication of every response until the call's
// context is done (the driver cancels it after it has taken its observations):
// all bytes of the response, the trailer frame included, are delivered
// promptly, only the final io.EOF is late -- as with a late chunk terminator
// or a slow proxy. Whatever a client publishes only once the body has been
// drained is, deterministically, too late. If a client ever turns out to wait
// for the end of the body before it reports the final status (a legitimate
// design), the gate opens after 2 s and is switched off for the rest of the
// run (gateTimedOut; reported in the evidence), so it cannot raise an alarm.
var gateTimedOut atomic.Bool

type gatedBody struct {
	r    *bytes.Reader
	done <-chan struct{}
}

func (b *gatedBody) Read(p []byte) (int, error) {
	if b.r.Len() > 0 {
		return b.r.Read(p)
	}
	if !gateTimedOut.Load() {
		t := time.NewTimer(2 * time.Second)
		select {
		case <-b.done:
			t.Stop()
		case <-t.C:
			gateTimedOut.Store(true)
		}
	}
	return 0, io.EOF
}

func (b *gatedBody) Close() error { return nil }

func gateRT(inner http.RoundTripper) http.RoundTripper {
	return common.RT(func(r *http.Request) (*http.Response, error) {
		resp, err := inner.RoundTrip(r)
		if err != nil {
			return nil, err
		}
		data, _ := io.ReadAll(resp.Body)
		resp.Body.Close()
		resp.Body = &gatedBody{r: bytes.NewReader(data), done: r.Context().Done()}
		return resp, nil
	})
}

func (w *worker) conn(name string) grpc.ClientConnInterface {
	if cc, ok := w.conns[name]; ok {
		return cc
	}
	svc := w.service()
	var cc grpc.ClientConnInterface
	switch name {
	case "inproc":
		ch := &inprocgrpc.Channel{}
		ch.RegisterService(svc.Desc(), common.Impl{})
		cc = ch
	case "http-rec", "http-wire", "http-gate":
		srv := httpgrpc.NewServer()
		srv.RegisterService(svc.Desc(), common.Impl{})
		u, _ := url.Parse("http://c03.test/")
		rt := w.guardRT(common.HandlerRT(srv))
		if name == "http-wire" {
			rt = wireRT(rt)
		}
		if name == "http-gate" {
			rt = gateRT(rt)
		}
		cc = &httpgrpc.Channel{Transport: rt, BaseURL: u}
	case "http-net":
		srv := httpgrpc.NewServer()
		srv.RegisterService(svc.Desc(), common.Impl{})
		ts := httptest.NewServer(srv)
		u, _ := url.Parse(ts.URL)
		tr := &http.Transport{}
		cc = &httpgrpc.Channel{Transport: tr, BaseURL: u}
		w.stop = append(w.stop, func() { tr.CloseIdleConnections(); ts.Close() })
	case refTransport:
		lis := bufconn.Listen(1 << 20)
		gs := grpc.NewServer()
		gs.RegisterService(svc.Desc(), common.Impl{})
		go gs.Serve(lis)
		conn, err := grpc.Dial("passthrough:///c03", grpc.WithContextDialer(func(ctx context.Context, _ string) (net.Conn, error) { return lis.DialContext(ctx) }),
			grpc.WithTransportCredentials(insecure.NewCredentials()))
		if err != nil {
			inconclusive("grpc.Dial over bufconn: %v", err)
		}
		cc = conn
		w.stop = append(w.stop, func() { conn.Close(); gs.Stop() })
	default:
		panic("unknown transport " + name)
	}
	if w.conns == nil {
		w.conns = map[string]grpc.ClientConnInterface{}
	}
	w.conns[name] = cc
	return cc
}

func (w *worker) close() {
	for _, f := range w.stop {
		f()
	}
}

// ---------------------------------------------------------------- client side

type observation struct {
	callErr   error // final outcome of the call as the client sees it (nil = success)
	sendErr   error
	nrecv     int
	isStream  bool
	hdr       metadata.MD
	hdrErr    error
	trl       metadata.MD
	hdrOpts   []metadata.MD
	trlOpts   []metadata.MD
	panicked  string
	runaway   bool
	newStream bool // NewStream itself failed
}

func outgoingContext(c Case) context.Context {
	ctx := context.Background()
	if len(c.Req) == 0 {
		return ctx
	}
	switch c.ReqMode {
	case "append":
		for _, p := range flat(c.Req) {
			ctx = metadata.AppendToOutgoingContext(ctx, p[0], p[1])
		}
		return ctx
	case "new+append":
		// the first pair with NewOutgoingContext, every further pair appended (also to the first pair's key)
		ps := flat(c.Req)
		ctx = metadata.NewOutgoingContext(ctx, metadata.MD{ps[0][0]: {ps[0][1]}})
		for _, p := range ps[1:] {
			ctx = metadata.AppendToOutgoingContext(ctx, p[0], p[1])
		}
		return ctx
	}
	return metadata.NewOutgoingContext(ctx, mdOf(c.Req))
}

var streamDescs = map[string]*grpc.StreamDesc{
	"CS": {StreamName: "CS", ClientStreams: true},
	"SS": {StreamName: "SS", ServerStreams: true},
	"BD": {StreamName: "BD", ClientStreams: true, ServerStreams: true},
}

func (w *worker) drive(cc grpc.ClientConnInterface, c Case, id string, plan *callPlan) (obs observation) {
	defer func() {
		if p := recover(); p != nil {
			obs.panicked = fmt.Sprintf("client side: %v\n%s", p, debug.Stack())
		}
	}()
	base := outgoingContext(c)
	if plan != nil && plan.ctx != nil {
		base = plan.ctx
	}
	ctx, cancel := context.WithCancel(base)
	defer cancel()
	obs.hdrOpts = make([]metadata.MD, c.Opts)
	obs.trlOpts = make([]metadata.MD, c.Opts)
	var opts []grpc.CallOption
	for i := 0; i < c.Opts; i++ {
		opts = append(opts, grpc.Header(&obs.hdrOpts[i]), grpc.Trailer(&obs.trlOpts[i]))
	}
	if len(c.Creds) > 0 {
		opts = append(opts, grpc.PerRPCCredentials(staticCreds(c.credsMap())))
	}
	if plan != nil && plan.creds != nil {
		opts = append(opts, grpc.PerRPCCredentials(plan.creds))
	}
	req := wrapperspb.String(id)
	if c.Kind == "U" {
		var out wrapperspb.StringValue
		obs.callErr = cc.Invoke(ctx, "/t.S/U", req, &out, opts...)
		if obs.callErr == nil {
			obs.nrecv = 1
		}
		return obs
	}
	obs.isStream = true
	desc := streamDescs[c.Kind]
	cs, err := cc.NewStream(ctx, desc, "/t.S/"+c.Kind, opts...)
	if err != nil {
		obs.callErr, obs.newStream = err, true
		return obs
	}
	if plan != nil && plan.afterNewStream != nil {
		plan.afterNewStream()
	}
	if err := cs.SendMsg(req); err != nil {
		obs.sendErr = err
	}
	if err := cs.CloseSend(); err != nil && obs.sendErr == nil {
		obs.sendErr = err
	}
	if c.HdrFirst {
		obs.hdr, obs.hdrErr = cs.Header()
	}
	for {
		var m wrapperspb.StringValue
		err := cs.RecvMsg(&m)
		if err == io.EOF {
			break
		}
		if err != nil {
			obs.callErr = err
			break
		}
		obs.nrecv++
		if !desc.ServerStreams {
			break // like generated CloseAndRecv: one RecvMsg, nil means the call succeeded
		}
		if obs.nrecv > 8 {
			obs.runaway = true
			break
		}
	}
	if !c.HdrFirst {
		obs.hdr, obs.hdrErr = cs.Header()
	}
	obs.trl = cs.Trailer()
	return obs
}

func (w *worker) run(c Case) (*runState, observation) { return w.runPlan(c, nil) }

func (w *worker) runPlan(c Case, plan *callPlan) (*runState, observation) {
	w.seq++
	id := fmt.Sprintf("%s-%d", w.name, w.seq)
	rs := &runState{id: id, c: c, plan: plan, hdrSet: map[string][]string{}, trlSet: map[string][]string{}}
	w.curDesc.Store(c.String())
	w.cur.Store(rs)
	w.busy.Store(true)
	cc := w.conn(c.Transport)
	t0 := time.Now()
	obs := w.drive(cc, c, id, plan)
	if w.spent == nil {
		w.spent = map[string]time.Duration{}
	}
	w.spent[c.Transport] += time.Since(t0) // statistics only (printed to stderr), never a verdict
	w.busy.Store(false)
	w.progress.Add(1)
	return rs, obs
}
