package main

// The "per-RPC credentials" dimension of the request-metadata clause.
//
// A caller can attach request metadata in two ways at once: through the
// context (metadata.NewOutgoingContext / AppendToOutgoingContext) and through
// a grpc.PerRPCCredentials call option, whose GetRequestMetadata result the
// channel has to merge with the context's metadata before the request leaves.
// The dimension enumerated here is the pair (key set of the caller's metadata,
// key set of the credentials' metadata) over a small key alphabet with plain
// and "-bin" keys: every subset against every non-empty subset, so disjoint,
// partially overlapping, nested and identical key sets all occur, with one or
// several caller values per key and every way of attaching them.

import (
	"context"
	"fmt"
	"sort"
	"strings"

	"google.golang.org/grpc/metadata"
)

// staticCreds is a credentials.PerRPCCredentials returning a fixed map (a fresh
// copy on every call: nothing the library does to the map can leak into the
// next case).
type staticCreds map[string]string

func (s staticCreds) GetRequestMetadata(context.Context, ...string) (map[string]string, error) {
	out := make(map[string]string, len(s))
	for k, v := range s {
		out[k] = v
	}
	return out, nil
}

func (staticCreds) RequireTransportSecurity() bool { return false }

// credsKeyAlpha: the key alphabet of the dimension (a subset of keyList, so that the caller's side stays inside the
// request-metadata grammar of the other parts): two plain keys and one (quick) or two (thorough) "-bin" keys.
func credsKeyAlpha(thorough bool) []string {
	if thorough {
		return []string{"k", "multi", "b-bin", "m-bin"}
	}
	return []string{"k", "multi", "b-bin"}
}

const schemeSame = -1 // value scheme: the credentials' value of a shared key equals the caller's first value for it

// credsPayload builds the caller's map over the keys in mask s (n values each) and the credentials' map over the
// keys in mask t. Value scheme r >= 0: the caller's i-th value of key #j is value #(r+j+i) of the key's alphabet, the
// credentials' value is #(r+j+n): different from every value the caller has for that key (n < 5), so that a lost, a
// replaced and a duplicated value all show. schemeSame: as r = 0, but the credentials repeat the caller's first value.
func credsPayload(keys []string, s, t, n, r int) (req, creds []KV) {
	rr := r
	if r == schemeSame {
		rr = 0
	}
	for j, k := range keys {
		a := alphaOf(k)
		if s&(1<<j) != 0 {
			var vals []string
			for i := 0; i < n; i++ {
				vals = append(vals, a[(rr+j+i)%len(a)].ID)
			}
			req = append(req, KV{Key: k, Vals: vals})
		}
		if t&(1<<j) != 0 {
			v := a[(rr+j+n)%len(a)].ID
			if r == schemeSame && s&(1<<j) != 0 {
				v = a[(rr+j)%len(a)].ID
			}
			creds = append(creds, KV{Key: k, Vals: []string{v}})
		}
	}
	return req, creds
}

func pairsIn(m []KV) int {
	n := 0
	for _, e := range m {
		n += len(e.Vals)
	}
	return n
}

// credsUnits enumerates the dimension, simplest first.
//
//	part creds:       (caller key set S, credentials key set T != {}) over the key alphabet x 1..maxN caller values
//	                  per key x value schemes x every way of attaching the caller's metadata x credentials' keys in
//	                  lower / upper case; narrow expansion (kind x outcome x transport)
//	part creds-sweep: one-key caller map (two values) or none x one-key credentials map, header and trailer maps set
//	                  as well, every way of attaching; full expansion (nresp x Header() position x option count too)
func credsUnits(thorough bool) []unit {
	keys := credsKeyAlpha(thorough)
	maxN, schemes := 2, []int{0, 3, schemeSame}
	if thorough {
		maxN, schemes = 3, []int{0, 1, 2, 3, 4, schemeSame}
	}
	var out []unit
	full := 1 << len(keys)
	for n := 1; n <= maxN; n++ {
		for s := 0; s < full; s++ {
			if s == 0 && n > 1 {
				continue // no caller metadata: nothing to repeat
			}
			for t := 1; t < full; t++ {
				for _, r := range schemes {
					if r == schemeSame && s&t == 0 {
						continue // no shared key: identical to scheme 0
					}
					req, creds := credsPayload(keys, s, t, n, r)
					for _, mode := range modesOf("request") {
						if len(req) == 0 && mode != baseReqMode {
							continue
						}
						if splitMode(mode) && pairsIn(req) < 2 {
							continue
						}
						for _, upper := range []bool{false, true} {
							u := baseUnit("creds")
							u.Req, u.ReqMode, u.Creds, u.CredsUpper, u.Narrow = req, mode, creds, upper, true
							out = append(out, u)
						}
					}
				}
			}
		}
	}
	side := []KV{{"k", []string{"v"}}, {"b-bin", []string{"00", "0a"}}}
	for s := 0; s < full; s++ {
		if s&(s-1) != 0 {
			continue // none or exactly one caller key
		}
		for t := 1; t < full; t <<= 1 {
			req, creds := credsPayload(keys, s, t, 2, 0)
			for _, mode := range modesOf("request") {
				if len(req) == 0 && mode != baseReqMode {
					continue
				}
				u := baseUnit("creds-sweep")
				u.Req, u.ReqMode, u.Creds, u.Hdr, u.Trl = req, mode, creds, side, side
				out = append(out, u)
			}
		}
	}
	return out
}

// ---------------------------------------------------------------- oracle

// insertedAt: is got the list want with the value v inserted at some position?
func insertedAt(want []string, v string, got []string) bool {
	if len(got) != len(want)+1 {
		return false
	}
	for i := range got {
		if got[i] != v {
			continue
		}
		ok := true
		for j := range want {
			g := got[j]
			if j >= i {
				g = got[j+1]
			}
			if g != want[j] {
				ok = false
				break
			}
		}
		if ok {
			return true
		}
	}
	return false
}

// containsRequest: the reference model of the request-metadata clause. Under every key the caller attached the
// handler must see all the caller's values, in order, bytes exact; where the credentials produce a value for a key
// (compared in lower case, as gRPC metadata keys are) that value is there as well, once -- before, after or between
// the caller's (grpc-go puts it first, Join-style merging last; the statement asks for neither). Other keys are
// ignored (a transport may add its own).
func containsRequest(c Case, got metadata.MD) []finding {
	return containsMerged(mdOf(c.Req), c.credsMap(), got)
}

// containsMerged: want = the caller's own metadata, creds = what the credentials' GetRequestMetadata returns (may be empty).
func containsMerged(want metadata.MD, creds map[string]string, got metadata.MD) []finding {
	if len(creds) == 0 {
		return contains("request", "incoming", want, got)
	}
	cv := map[string]string{}
	keys := map[string]bool{}
	for k, v := range creds {
		cv[strings.ToLower(k)] = v
		keys[strings.ToLower(k)] = true
	}
	for k := range want {
		keys[k] = true
	}
	var sorted []string
	for k := range keys {
		sorted = append(sorted, k)
	}
	sort.Strings(sorted)
	var out []finding
	const pos, where = "request", "incoming"
	for _, k := range sorted {
		v, hasCred := cv[k]
		w, g := want[k], got[k]
		if !hasCred {
			out = append(out, contains(pos, where, map[string][]string{k: w}, got)...)
			continue
		}
		wantText := fmt.Sprintf("the caller's %s and the credentials' %s", shorts(w), short(v))
		if len(w) == 0 {
			wantText = fmt.Sprintf("the credentials' %s", short(v))
		}
		switch {
		case len(g) == 0:
			out = append(out, finding{pos, where, "missing", k, fmt.Sprintf("%s: key %q missing (want %s)", where, k, wantText)})
		case len(g) != len(w)+1:
			out = append(out, finding{pos, where, "count", k, fmt.Sprintf("%s: key %q has %d values %s, want %d: %s", where, k, len(g), shorts(g), len(w)+1, wantText)})
		case !insertedAt(w, v, g):
			out = append(out, finding{pos, where, "bytes", k, fmt.Sprintf("%s: key %q has values %s, want %s (in the caller's order)", where, k, shorts(g), wantText)})
		}
	}
	return out
}

// selfTestOracle: the request oracle on hand-made observations (merge orders it must accept, damage it must see).
func selfTestOracle() error {
	c := Case{Req: []KV{{"k", []string{"v", "a_b"}}, {"b-bin", []string{"00"}}}, Creds: []KV{{"k", []string{"punct"}}, {"m-bin", []string{"fffe"}}}, CredsUpper: true}
	good := []metadata.MD{
		{"k": {"v", "a b", "x,y;z"}, "b-bin": {"\x00"}, "m-bin": {"\xff\xfe"}, "user-agent": {"x"}}, // credentials last
		{"k": {"x,y;z", "v", "a b"}, "b-bin": {"\x00"}, "m-bin": {"\xff\xfe"}},                      // credentials first (grpc-go)
		{"k": {"v", "x,y;z", "a b"}, "b-bin": {"\x00"}, "m-bin": {"\xff\xfe"}},
	}
	bad := map[string]metadata.MD{
		"count@k":       {"k": {"x,y;z"}, "b-bin": {"\x00"}, "m-bin": {"\xff\xfe"}},                  // credentials replace the caller's
		"count@k ":      {"k": {"v", "a b"}, "b-bin": {"\x00"}, "m-bin": {"\xff\xfe"}},               // caller's key wins
		"bytes@k":       {"k": {"a b", "v", "x,y;z"}, "b-bin": {"\x00"}, "m-bin": {"\xff\xfe"}},      // caller's order lost
		"bytes@k  ":     {"k": {"v", "a b", "x,y"}, "b-bin": {"\x00"}, "m-bin": {"\xff\xfe"}},        // credentials' value altered
		"missing@m-bin": {"k": {"v", "a b", "x,y;z"}, "b-bin": {"\x00"}, "M-BIN": {"\xff\xfe"}},      // key not lower-cased
		"missing@b-bin": {"k": {"v", "a b", "x,y;z"}, "m-bin": {"\xff\xfe"}},                         // unrelated caller key lost
		"count@m-bin":   {"k": {"v", "a b", "x,y;z"}, "b-bin": {"\x00"}, "m-bin": {"\xff\xfe", "x"}}, // credentials' key gained a value
	}
	for i, g := range good {
		if fs := containsRequest(c, g); len(fs) != 0 {
			return fmt.Errorf("request oracle rejects acceptable merge #%d: %s", i, fs[0].Text)
		}
	}
	for name, g := range bad {
		name = strings.TrimSpace(name)
		fs := containsRequest(c, g)
		if len(fs) != 1 || fs[0].How+"@"+fs[0].Key != name {
			return fmt.Errorf("request oracle: want exactly %s for %v, got %v", name, g, fs)
		}
	}
	if fs := containsRequest(Case{Req: c.Req}, metadata.MD{"k": {"v", "a b"}, "b-bin": {"\x00"}}); len(fs) != 0 {
		return fmt.Errorf("request oracle rejects the plain case: %s", fs[0].Text)
	}
	return nil
}
