package main

// Part "reuse": the metadata objects handed to the library are long-lived and
// reused across a sequence of calls.
//
// Everywhere else in this check the metadata of a call is built for that call
// and thrown away afterwards, and calls are judged in isolation. Applications
// do not work like that: an interceptor attaches one package-level "server
// info" metadata.MD to every response, a client puts one long-lived
// authentication MD into every outgoing context, credentials return the same
// map on every call. A transport that keeps (adopts, appends into, rewrites)
// an object it was handed is invisible with throw-away objects and shows as
// soon as the object comes back with the next call.
//
// A member of this part is a sequence of 2..3 calls (every sequence of RPC
// kinds) on ONE channel / server in which, in every call, the application hands
// its long-lived object L and per-call objects P (one key, a value that names
// the call) to the library in the order given by a script over {L, P}:
//
//	header          the handler: SetHeader(L), SetHeader(P), ... (stream methods or grpc.SetHeader(ctx);
//	                the last call optionally SendHeader)
//	trailer         the handler: SetTrailer(L), SetTrailer(P), ... (stream method, grpc.SetTrailer(ctx), after the
//	                response messages, or the first call before and the others after them)
//	header+trailer  the handler hands the same L to SetHeader and to SetTrailer (and a P to each)
//	request         the caller: metadata.NewOutgoingContext(ctx, L), then AppendToOutgoingContext(per-call pair)...;
//	                or L is the map its PerRPCCredentials return on every call; or both
//
// with L the very same object in every call, or (control) a fresh deep copy per
// call. Oracle, per call: what the statement says for that call on its own --
// every pair handed over in THIS call arrives (all values, order, bytes), and
// under the per-call key there is nothing from an earlier call (damage "stale")
// -- and every object handed to the library still has the content the
// application gave it (compared with a deep copy taken before the call; damage
// "modified"): an MD the library rewrote makes the next call's metadata wrong.

import (
	"context"
	"fmt"
	"os"
	"sort"
	"strings"

	"google.golang.org/grpc/metadata"

	"verif/seq/common"
)

// SeqCase is one member of the part; it is also its replay object.
type SeqCase struct {
	Engine    string   `json:"engine"` // always "E2"
	Part      string   `json:"part"`   // always "reuse"
	Transport string   `json:"transport"`
	Kinds     []string `json:"kinds"`        // the RPC kind of every call of the sequence (2..3)
	Pos       string   `json:"pos"`          // request | header | trailer | header+trailer
	Mode      string   `json:"mode"`         // how the objects are handed over, see seqModes
	Script    string   `json:"script"`       // order of the objects within each call: L = the long-lived one, P = a per-call one
	Long      []KV     `json:"long"`         // what the application put into L
	PerCall   string   `json:"per_call_key"` // the key of the per-call objects (L's first key, or a key L does not have)
	Shared    bool     `json:"shared"`       // L is the same object in every call (false: a fresh deep copy per call, the control)
	Fail      bool     `json:"fail"`         // the handler returns a NotFound status
}

const partReuse = "reuse"

var seqPositions = []string{"header", "trailer", "header+trailer", "request"}

func seqModes(pos string) []string {
	switch pos {
	case "header":
		return []string{"ctx", "ctx+send", "stream", "stream+send"}
	case "trailer":
		return []string{"ctx", "stream", "late", "split"}
	case "header+trailer":
		return []string{"ctx", "stream"}
	}
	return []string{"md", "creds", "md+creds"}
}

func (s SeqCase) allUnary() bool {
	for _, k := range s.Kinds {
		if k != "U" {
			return false
		}
	}
	return true
}

func (s SeqCase) key() string {
	return fmt.Sprintf("reuse|%s|%s|%s:%s|%s|%s|pc=%s|shared=%v|f%v", s.Transport, strings.Join(s.Kinds, ">"), s.Pos, s.Mode, s.Script,
		kvString(s.Long), s.PerCall, s.Shared, s.Fail)
}

func (s SeqCase) String() string {
	obj := "the same long-lived object in every call"
	if !s.Shared {
		obj = "a fresh copy of the long-lived object per call (control)"
	}
	out := fmt.Sprintf("%s %s %s(%s) script=%s long{%s}", s.Transport, strings.Join(s.Kinds, ">"), s.Pos, s.Mode, s.Script, kvString(s.Long))
	if strings.Contains(s.Script, "P") {
		out += " per-call key " + s.PerCall
	}
	out += ", " + obj
	if s.Fail {
		out += ", handler-fails"
	} else {
		out += ", handler-ok"
	}
	return out
}

// valid: is the combination a member of the grammar (and not a duplicate of another member)?
func (s SeqCase) valid() bool {
	for _, k := range s.Kinds {
		if k == "U" && s.Transport == "http-gate" {
			return false // a unary call needs the whole body for its response message
		}
	}
	if s.allUnary() {
		// unary handlers only have the context API and no response messages: the other modes would repeat these
		switch s.Pos {
		case "header":
			if !strings.HasPrefix(s.Mode, "ctx") {
				return false
			}
		case "trailer", "header+trailer":
			if s.Mode != "ctx" {
				return false
			}
		}
	}
	if s.Mode == "split" && len(s.Script) < 2 {
		return false
	}
	if s.Pos == "request" {
		// a context has one NewOutgoingContext and a call one credentials option: L comes first and once
		if !strings.HasPrefix(s.Script, "L") || strings.Contains(s.Script[1:], "L") {
			return false
		}
	}
	if !strings.Contains(s.Script, "L") {
		return false
	}
	if !strings.Contains(s.Script, "P") && s.PerCall != s.Long[0].Key {
		return false // no per-call object: the key does not matter
	}
	return true
}

// perCallVal: the value of the n-th per-call object of call #call; it names the call, so that a pair that turns up in a
// later call is recognised. Valid UTF-8 also for "-bin" keys (with 0x00 and 0x0A in it): the bytes of the values are the
// subject of the other parts.
func perCallVal(key string, call, n int) string {
	if isBin(key) {
		return string([]byte{0x00, 0x0a, 0x7f, byte(call + 1), byte(n + 1)})
	}
	return fmt.Sprintf("call-%d.%d", call+1, n+1)
}

// credsVal: what the long-lived credentials map holds under a key.
func credsVal(key string) string {
	if isBin(key) {
		return string([]byte{0x01, 0x00, 0x0a})
	}
	return "cred-of-" + key
}

func otherKey(first string) string {
	if isBin(first) {
		return "call-id-bin"
	}
	return "call-id"
}

// ---------------------------------------------------------------- the application's objects

func renderMD(md metadata.MD) string {
	keys := make([]string, 0, len(md))
	for k := range md {
		keys = append(keys, k)
	}
	sort.Strings(keys)
	var b strings.Builder
	for _, k := range keys {
		fmt.Fprintf(&b, "%q=%q;", k, md[k])
	}
	return b.String()
}

func renderMap(m map[string]string) string {
	keys := make([]string, 0, len(m))
	for k := range m {
		keys = append(keys, k)
	}
	sort.Strings(keys)
	var b strings.Builder
	for _, k := range keys {
		fmt.Fprintf(&b, "%q=%q;", k, m[k])
	}
	return b.String()
}

// handed: one object of the application's that a call gave to the library, with its content before the call.
type handed struct {
	what   string // long-lived-md | per-call-md | credentials-map
	pos    string
	md     metadata.MD
	cm     map[string]string
	before string
}

func (h handed) now() string {
	if h.cm != nil {
		return renderMap(h.cm)
	}
	return renderMD(h.md)
}

// liveCreds returns the very same map on every call, as credentials holding a static token do.
type liveCreds struct{ m map[string]string }

func (l liveCreds) GetRequestMetadata(context.Context, ...string) (map[string]string, error) {
	return l.m, nil
}
func (liveCreds) RequireTransportSecurity() bool { return false }

func deepCopyMD(md metadata.MD) metadata.MD {
	out := make(metadata.MD, len(md))
	for k, v := range md {
		out[k] = append(make([]string, 0, len(v)), v...)
	}
	return out
}

func copyMap(m map[string]string) map[string]string {
	out := make(map[string]string, len(m))
	for k, v := range m {
		out[k] = v
	}
	return out
}

// ---------------------------------------------------------------- running a sequence

type seqCall struct {
	c     Case
	rs    *runState
	obs   observation
	fs    []finding
	want  string // the application pairs of this call, for messages
	seen  string
	pan   string
	reach bool
	took  bool // the library accepted every object of this call
	desc  string
}

type seqOutcome struct {
	calls []seqCall
}

func (o seqOutcome) findings() int {
	n := 0
	for _, c := range o.calls {
		n += len(c.fs)
		if c.pan != "" {
			n++
		}
	}
	return n
}

// elements: how@kind-of-point over all calls, sorted, unique; clause: each with the first call that shows it.
func (o seqOutcome) elements() (els []string, clause string) {
	first := map[string]int{}
	for i, c := range o.calls {
		for _, f := range c.fs {
			e := f.How + "@" + pointKind(f.Where)
			if _, ok := first[e]; !ok {
				first[e] = i + 1
			}
		}
		if c.pan != "" {
			if _, ok := first["panic@any"]; !ok {
				first["panic@any"] = i + 1
			}
		}
	}
	for e := range first {
		els = append(els, e)
	}
	sort.Strings(els)
	var parts []string
	for _, e := range els {
		parts = append(parts, fmt.Sprintf("%s#%d", e, first[e]))
	}
	return els, strings.Join(parts, ",")
}

func (o seqOutcome) describe(s SeqCase) string {
	var b strings.Builder
	fmt.Fprintf(&b, "sequence {%s}", s)
	for i, c := range o.calls {
		fmt.Fprintf(&b, "; call %d (%s): %s", i+1, c.c.Kind, c.desc)
	}
	return b.String()
}

// pointPos: the position an observation point belongs to.
func pointPos(where string) string {
	switch {
	case where == "incoming":
		return "request"
	case strings.Contains(where, "Header"):
		return "header"
	}
	return "trailer"
}

// observedPoints: the metadata at every observation point of the call, by the names the findings use.
func observedPoints(rs *runState, obs observation) map[string]metadata.MD {
	out := map[string]metadata.MD{"incoming": rs.incoming}
	if obs.isStream {
		out["Header()"], out["Trailer()"] = obs.hdr, obs.trl
	}
	for i, md := range obs.hdrOpts {
		out[fmt.Sprintf("grpc.Header[%d]", i)] = md
	}
	for i, md := range obs.trlOpts {
		out[fmt.Sprintf("grpc.Trailer[%d]", i)] = md
	}
	return out
}

func (w *worker) runSeq(s SeqCase) seqOutcome {
	var out seqOutcome
	pristine := mdOf(s.Long)
	pristineCreds := map[string]string{}
	for _, e := range s.Long {
		pristineCreds[e.Key] = credsVal(e.Key)
	}
	// the application's long-lived objects, built once
	long := deepCopyMD(pristine)
	longCreds := copyMap(pristineCreds)
	earlier := map[string]bool{} // the per-call values of the calls before this one
	for i, kind := range s.Kinds {
		l, lc := long, longCreds
		if !s.Shared {
			l, lc = deepCopyMD(pristine), copyMap(pristineCreds)
		}
		var objs []handed
		give := func(what, pos string, md metadata.MD) metadata.MD {
			objs = append(objs, handed{what: what, pos: pos, md: md, before: renderMD(md)})
			return md
		}
		plan := &callPlan{}
		var mine []string
		wantReq := metadata.MD{}
		var wantCreds map[string]string
		script := func(pos string, mk func(n int, last bool, md, want metadata.MD)) {
			np := 0
			for n, ch := range s.Script {
				last := n == len(s.Script)-1
				if ch == 'L' {
					mk(n, last, give("long-lived-md", pos, l), deepCopyMD(pristine))
					continue
				}
				v := perCallVal(s.PerCall, i, np)
				np++
				mine = append(mine, v)
				mk(n, last, give("per-call-md", pos, metadata.MD{s.PerCall: {v}}), metadata.MD{s.PerCall: {v}})
			}
		}
		viaCtx := strings.HasPrefix(s.Mode, "ctx")
		if strings.Contains(s.Pos, "header") {
			script("header", func(n int, last bool, md, want metadata.MD) {
				plan.hdr = append(plan.hdr, mdOp{Ctx: viaCtx, Send: last && strings.HasSuffix(s.Mode, "+send"), MD: md, Live: true, Want: want})
			})
		}
		if strings.Contains(s.Pos, "trailer") {
			script("trailer", func(n int, last bool, md, want metadata.MD) {
				op := mdOp{Ctx: viaCtx, MD: md, Live: true, Want: want}
				if s.Mode == "late" || (s.Mode == "split" && n > 0) {
					plan.trlLate = append(plan.trlLate, op)
				} else {
					plan.trlEarly = append(plan.trlEarly, op)
				}
			})
		}
		if s.Pos == "request" {
			ctx := context.Background()
			if s.Mode != "creds" {
				ctx = metadata.NewOutgoingContext(ctx, give("long-lived-md", "request", l))
				accumulate(wantReq, pristine)
			}
			if s.Mode != "md" {
				objs = append(objs, handed{what: "credentials-map", pos: "request", cm: lc, before: renderMap(lc)})
				plan.creds = liveCreds{lc}
				wantCreds = pristineCreds
			}
			for n := range s.Script[1:] {
				v := perCallVal(s.PerCall, i, n)
				mine = append(mine, v)
				ctx = metadata.AppendToOutgoingContext(ctx, s.PerCall, v)
				wantReq[s.PerCall] = append(wantReq[s.PerCall], v)
			}
			plan.ctx = ctx
		}
		c := Case{Engine: "E2", Transport: s.Transport, Kind: kind, Fail: s.Fail, HdrFirst: true, Opts: 2,
			ReqMode: baseReqMode, HdrMode: baseHdrMode, TrlMode: baseTrlMode}
		if kind == "SS" || kind == "BD" {
			c.NResp = 1
		}
		rs, obs := w.runPlan(c, plan)
		call := seqCall{c: c, rs: rs, obs: obs}
		fs := check(c, rs, obs)
		rs.mu.Lock()
		call.reach, call.pan = rs.reached, rs.panicked
		call.took = rs.reached && len(rs.refused) == 0
		if s.Pos == "request" {
			if rs.reached {
				fs = append(fs, containsMerged(wantReq, wantCreds, rs.incoming)...)
			} else {
				fs = append(fs, finding{"request", "incoming", "not-delivered", s.Long[0].Key, fmt.Sprintf("the call never reached the handler: %v", obs.callErr)})
			}
		}
		// a pair of an earlier call under the per-call key?
		pts := observedPoints(rs, obs)
		for j := range fs {
			f := &fs[j]
			if f.Key != s.PerCall || (f.How != "count" && f.How != "bytes") {
				continue
			}
			for _, v := range pts[f.Where][f.Key] {
				if earlier[v] {
					f.How = "stale"
					f.Text += " -- " + short(v) + " was attached in an earlier call, not in this one"
					break
				}
			}
		}
		var wantParts, seenParts []string
		for _, m := range []struct {
			name string
			set  map[string][]string
		}{{"request", wantReq}, {"header", rs.hdrSet}, {"trailer", rs.trlSet}} {
			keys := make([]string, 0, len(m.set))
			for k := range m.set {
				keys = append(keys, k)
			}
			sort.Strings(keys)
			for _, k := range keys {
				wantParts = append(wantParts, fmt.Sprintf("%s[%s]=%s", m.name, k, shorts(m.set[k])))
				var names []string
				for p := range pts {
					if pointPos(p) == m.name {
						names = append(names, p)
					}
				}
				sort.Strings(names)
				for _, p := range names {
					seenParts = append(seenParts, fmt.Sprintf("%s[%s]=%s", p, k, shorts(pts[p][k])))
				}
			}
		}
		rs.mu.Unlock()
		if obs.panicked != "" {
			call.pan = obs.panicked
		}
		if obs.runaway {
			fs = append(fs, finding{"header", "RecvMsg", "runaway", "", "more than 8 response messages received"})
		}
		// the application's objects: still what the application made them?
		reported := map[string]bool{}
		for _, h := range objs {
			if now := h.now(); now != h.before && !reported[h.pos+h.what] {
				reported[h.pos+h.what] = true
				fs = append(fs, finding{h.pos, h.what, "modified", "", fmt.Sprintf("the application's own %s (handed over as %s metadata) was rewritten by the library: before the call {%s}, after it {%s}", h.what, h.pos, h.before, now)})
			}
		}
		call.fs = fs
		call.want, call.seen = strings.Join(wantParts, " "), strings.Join(seenParts, " ")
		var b strings.Builder
		fmt.Fprintf(&b, "handler reached=%v, client saw %s", call.reach, errText(obs.callErr))
		rs.mu.Lock()
		for _, n := range rs.notes {
			fmt.Fprintf(&b, "; %s", n)
		}
		rs.mu.Unlock()
		if len(fs) == 0 {
			b.WriteString(", all pairs of this call delivered and the objects untouched")
		}
		for k, f := range fs {
			if k == 4 {
				fmt.Fprintf(&b, "; ... %d more", len(fs)-k)
				break
			}
			fmt.Fprintf(&b, "; %s", f.Text)
		}
		if call.pan != "" {
			fmt.Fprintf(&b, "; PANIC: %s", call.pan)
		}
		call.desc = b.String()
		out.calls = append(out.calls, call)
		for _, v := range mine {
			earlier[v] = true
		}
	}
	return out
}

// ---------------------------------------------------------------- the grammar of the part

// seqUnit: everything of a sequence but the kinds, the shared / fresh choice and the transport.
type seqUnit struct {
	Pos, Mode, Script string
	Long              []KV
	PerCall           string
	Fail              bool
	// Narrow: not expanded with the sequences of three calls of different kinds (thorough tier: those are run for the
	// first two long-lived maps, one plain and one "-bin" key, only)
	Narrow bool
}

// scripts over {L, P} with at least one L: shortest first, then fewest L, then L earliest (LP PL LL).
func seqScripts(pos string, maxLen int) []string {
	var out []string
	for n := 1; n <= maxLen; n++ {
		cur := []string{""}
		for i := 0; i < n; i++ {
			var next []string
			for _, s := range cur {
				next = append(next, s+"L", s+"P")
			}
			cur = next
		}
		var ofLen []string
		for _, s := range cur {
			if !strings.Contains(s, "L") {
				continue
			}
			if pos == "request" && (s[0] != 'L' || strings.Contains(s[1:], "L")) {
				continue
			}
			ofLen = append(ofLen, s)
		}
		sort.SliceStable(ofLen, func(a, b int) bool {
			if la, lb := strings.Count(ofLen[a], "L"), strings.Count(ofLen[b], "L"); la != lb {
				return la < lb
			}
			return ofLen[a] < ofLen[b]
		})
		out = append(out, ofLen...)
	}
	return out
}

// longMaps: what the long-lived object holds. All values valid UTF-8 (what bytes a value may have is the subject of the
// other parts).
func longMaps(thorough bool) [][]KV {
	out := [][]KV{
		{{"k", []string{"v"}}},
		{{"b-bin", []string{"00", "0a"}}},
		{{"multi", []string{"a_b", "punct"}}, {"m-bin", []string{"0a"}}},
	}
	if thorough {
		out = append(out, []KV{{"k", []string{"v"}}, {"multi", []string{"a_b", "punct", "printable"}}, {"a_b.c", []string{"empty"}},
			{"b-bin", []string{"00"}}, {"m-bin", []string{"empty", "0a"}}})
	}
	return out
}

// kindSeqs: the RPC kinds of the calls of a sequence: every pair; every triple (thorough) or the four triples of one
// kind (quick). Sequences of one kind first.
func kindSeqs(thorough bool) [][]string {
	var homo2, mixed2, homo3, mixed3 [][]string
	for _, a := range allKinds {
		for _, b := range allKinds {
			if a == b {
				homo2 = append(homo2, []string{a, b})
			} else {
				mixed2 = append(mixed2, []string{a, b})
			}
			for _, c := range allKinds {
				if a == b && b == c {
					homo3 = append(homo3, []string{a, b, c})
				} else if thorough {
					mixed3 = append(mixed3, []string{a, b, c})
				}
			}
		}
	}
	return append(append(append(homo2, mixed2...), homo3...), mixed3...)
}

func seqUnits(thorough bool) []seqUnit {
	maxLen := 2
	if thorough {
		maxLen = 3
	}
	var out []seqUnit
	for _, pos := range seqPositions {
		for _, script := range seqScripts(pos, maxLen) {
			for li, long := range longMaps(thorough) {
				for _, mode := range seqModes(pos) {
					pcs := []string{long[0].Key, otherKey(long[0].Key)}
					if !strings.Contains(script, "P") {
						pcs = pcs[:1]
					}
					for _, pc := range pcs {
						for _, fail := range []bool{false, true} {
							out = append(out, seqUnit{Pos: pos, Mode: mode, Script: script, Long: long, PerCall: pc, Fail: fail, Narrow: li >= 2})
						}
					}
				}
			}
		}
	}
	return out
}

func expandSeq(u seqUnit, seqs [][]string, transports []string, f func(SeqCase)) {
	for _, kinds := range seqs {
		if u.Narrow && len(kinds) == 3 && !(kinds[0] == kinds[1] && kinds[1] == kinds[2]) {
			continue
		}
		for _, shared := range []bool{true, false} {
			for _, t := range transports {
				s := SeqCase{Engine: "E2", Part: partReuse, Transport: t, Kinds: kinds, Pos: u.Pos, Mode: u.Mode, Script: u.Script,
					Long: u.Long, PerCall: u.PerCall, Shared: shared, Fail: u.Fail}
				if s.valid() {
					f(s)
				}
			}
		}
	}
}

// ---------------------------------------------------------------- results

type seqViolating struct {
	s      SeqCase
	els    []string
	clause string
	what   string
}

type seqUnitResult struct {
	sequences   int
	calls       int
	nontrivial  []uint64 // sequences in which the library took the same long-lived object in >= 2 calls
	viol        []seqViolating
	refMismatch []string
	unreached   []string
	sample      map[string]interface{}
}

func runSeqUnit(w *worker, u seqUnit, seqs [][]string, transports []string, sampleAt int) seqUnitResult {
	var r seqUnitResult
	passing := 0
	expandSeq(u, seqs, transports, func(s SeqCase) {
		o := w.runSeq(s)
		r.sequences++
		r.calls += len(o.calls)
		took, reached := 0, 0
		for _, c := range o.calls {
			if c.took {
				took++
			}
			if c.reach {
				reached++
			}
		}
		if s.Transport == refTransport {
			if o.findings() > 0 || reached != len(o.calls) {
				r.refMismatch = append(r.refMismatch, o.describe(s))
			}
			return
		}
		if s.Shared && took >= 2 {
			r.nontrivial = append(r.nontrivial, keyHash(s.key()))
		}
		if o.findings() == 0 {
			if reached != len(o.calls) {
				r.unreached = append(r.unreached, o.describe(s))
			}
			if sampleAt >= 0 && s.Shared && passing <= sampleAt {
				var obs []string
				for i, c := range o.calls {
					obs = append(obs, fmt.Sprintf("call %d: %s", i+1, c.seen))
				}
				r.sample = map[string]interface{}{"case": "sequence " + s.String(), "observed": strings.Join(obs, "; ") + "; every object handed over unchanged after every call"}
			}
			passing++
			return
		}
		els, clause := o.elements()
		r.viol = append(r.viol, seqViolating{s: s, els: els, clause: clause, what: o.describe(s)})
	})
	return r
}

func subset(a, b []string) bool {
	have := map[string]bool{}
	for _, e := range b {
		have[e] = true
	}
	for _, e := range a {
		if !have[e] {
			return false
		}
	}
	return true
}

type seqGroup struct {
	fp    string
	rep   SeqCase
	what  string
	count int
}

// category of a damage element: what kind of thing went wrong, whatever the observation point.
func category(el string) string {
	how := el[:strings.Index(el, "@")]
	switch how {
	case "count", "bytes", "missing", "not-delivered", "error", "runaway":
		return "values"
	}
	return how // modified | stale | refused | panic
}

func overlap(a, b []string) bool {
	have := map[string]bool{}
	for _, e := range a {
		have[category(e)] = true
	}
	for _, e := range b {
		if have[category(e)] {
			return true
		}
	}
	return false
}

func indexOf(list []string, v string) int {
	for i, x := range list {
		if x == v {
			return i
		}
	}
	return len(list)
}

// simpler lists the members of the part that differ from s in exactly one parameter and are simpler in it, simplest
// first per parameter: the shared object before the control, the handler that succeeds, earlier kind sequences
// (sequences of one kind and shorter ones first), one position instead of header+trailer, earlier hand-over modes,
// earlier (shorter) scripts, earlier long-lived maps, the per-call key L has too, earlier transports of the family.
func simpler(s SeqCase, seqs [][]string, thorough bool) []SeqCase {
	var out []SeqCase
	add := func(mut func(*SeqCase)) {
		d := s
		d.Kinds = append([]string(nil), s.Kinds...)
		mut(&d)
		if d.valid() && d.key() != s.key() {
			out = append(out, d)
		}
	}
	if !s.Shared {
		add(func(d *SeqCase) { d.Shared = true })
	}
	if s.Fail {
		add(func(d *SeqCase) { d.Fail = false })
	}
	for _, ks := range seqs {
		if strings.Join(ks, ">") == strings.Join(s.Kinds, ">") {
			break
		}
		ks := ks
		add(func(d *SeqCase) { d.Kinds = append([]string(nil), ks...) })
	}
	if s.Pos == "header+trailer" {
		// (never from header to trailer or back: a defect of one position must not hide behind one of the other)
		add(func(d *SeqCase) { d.Pos = "header" })
		add(func(d *SeqCase) { d.Pos = "trailer" })
	}
	for _, m := range seqModes(s.Pos) {
		if m == s.Mode {
			break
		}
		m := m
		add(func(d *SeqCase) { d.Mode = m })
	}
	for _, sc := range seqScripts(s.Pos, 3) {
		if sc == s.Script {
			break
		}
		sc := sc
		add(func(d *SeqCase) {
			d.Script = sc
			if !strings.Contains(sc, "P") {
				d.PerCall = d.Long[0].Key
			}
		})
	}
	for _, l := range longMaps(thorough) {
		if kvString(l) == kvString(s.Long) {
			break
		}
		l := l
		add(func(d *SeqCase) {
			if d.PerCall == d.Long[0].Key {
				d.PerCall = l[0].Key
			} else {
				d.PerCall = otherKey(l[0].Key)
			}
			d.Long = l
		})
	}
	if s.PerCall != s.Long[0].Key {
		add(func(d *SeqCase) { d.PerCall = d.Long[0].Key })
	}
	for _, t := range familyOf(s.Transport) {
		if t == s.Transport {
			break
		}
		t := t
		add(func(d *SeqCase) { d.Transport = t })
	}
	return out
}

// groupSeq: one fingerprint per cause. Every member of the part has been run, so minimising a violating sequence needs
// no further runs: from each violating sequence walk (greedily, fixed order, see simpler) to a simpler member that
// violates too with damage of a common category (an object rewritten / a pair of an earlier call / wrong values / a
// refused call / a panic), until no simpler one does; sequences arriving at the same member share its fingerprint. The
// fingerprint names that representative: on which transports of the family and for which single-kind sequences the same
// parameters fail alike, the long-lived object, the damage with the first call showing each element, and the
// remaining parameters.
//
// A damage that depends on timing would make the walk end anywhere: every representative is run twice more (verify);
// one that does not show the same damage each time leaves the table and the walks are redone (at most four rounds);
// what cannot be attributed to a reproducible representative is reported under one "not-reproducible" fingerprint per
// transport family, position and categories of damage.
func groupSeq(viol []seqViolating, seqs [][]string, thorough bool, verify func(SeqCase, []string) bool) (out []*seqGroup, unstable int) {
	byKey := map[string]*seqViolating{}
	for i := range viol {
		byKey[viol[i].s.key()] = &viol[i]
	}
	var final map[string]*seqViolating // memo: key -> where the walk from it ends
	var reduce func(v *seqViolating) *seqViolating
	reduce = func(v *seqViolating) *seqViolating {
		if r := final[v.s.key()]; r != nil {
			return r
		}
		r := v
		for _, c := range simpler(v.s, seqs, thorough) {
			if o := byKey[c.key()]; o != nil && overlap(v.els, o.els) {
				r = reduce(o)
				break
			}
		}
		final[v.s.key()] = r
		return r
	}
	verified := map[string]bool{}
	for round := 0; round < 4; round++ {
		final = map[string]*seqViolating{}
		var reps []*seqViolating
		seen := map[string]bool{}
		for i := range viol {
			if byKey[viol[i].s.key()] == nil {
				continue
			}
			if r := reduce(&viol[i]); !seen[r.s.key()] {
				seen[r.s.key()] = true
				reps = append(reps, r)
			}
		}
		dropped := false
		for _, r := range reps {
			if verified[r.s.key()] {
				continue
			}
			if verify(r.s, r.els) {
				verified[r.s.key()] = true
			} else {
				delete(byKey, r.s.key())
				dropped = true
			}
		}
		if !dropped {
			break
		}
	}
	final = map[string]*seqViolating{}
	family := func(t string) string {
		if t == "inproc" {
			return "inproc"
		}
		return "http"
	}
	groups := map[string]*seqGroup{}
	var order []string
	for i := range viol {
		var eff *seqViolating
		if byKey[viol[i].s.key()] != nil {
			eff = reduce(&viol[i])
		}
		if eff == nil || !verified[eff.s.key()] {
			unstable++
			v := &viol[i]
			cats := map[string]bool{}
			for _, e := range v.els {
				cats[category(e)] = true
			}
			var cl []string
			for c := range cats {
				cl = append(cl, c)
			}
			sort.Strings(cl)
			fp := fmt.Sprintf("C03|%s|reuse-%s|not-reproducible|%s", family(v.s.Transport), v.s.Pos, strings.Join(cl, ","))
			if groups[fp] == nil {
				groups[fp] = &seqGroup{fp: fp, rep: v.s, what: v.what}
				order = append(order, fp)
			}
			groups[fp].count++
			continue
		}
		gk := eff.s.key()
		g := groups[gk]
		if g == nil {
			g = &seqGroup{rep: eff.s, what: eff.what}
			groups[gk] = g
			order = append(order, gk)
			// on which transports of the family does the representative fail like this, and for which kinds does the
			// sequence of that one kind (all other parameters the representative's)?
			alike := func(c SeqCase) bool {
				o := byKey[c.key()]
				return o != nil && subset(eff.els, o.els)
			}
			var ts, ks []string
			hasUnary := false
			for _, k := range eff.s.Kinds {
				hasUnary = hasUnary || k == "U"
			}
			for _, t := range familyOf(eff.s.Transport) {
				c := eff.s
				c.Transport = t
				if alike(c) {
					ts = append(ts, t)
				}
			}
			for _, k := range allKinds {
				for _, t := range familyOf(eff.s.Transport) {
					c := eff.s
					c.Transport = t
					c.Kinds = make([]string, len(eff.s.Kinds))
					for j := range c.Kinds {
						c.Kinds[j] = k
					}
					if c.allUnary() != eff.s.allUnary() {
						// the stream-only modes do not exist for sequences of unary calls (and the other way round the
						// context API stands for all of them): compare with the mode's counterpart
						if c.allUnary() {
							c.Mode = strings.Replace(strings.Replace(strings.Replace(c.Mode, "stream", "ctx", 1), "late", "ctx", 1), "split", "ctx", 1)
						}
					}
					if alike(c) {
						ks = append(ks, k)
						break
					}
				}
			}
			tclass := strings.Join(ts, "+")
			if tclass == "http-rec+http-wire+http-net+http-gate" || (hasUnary && tclass == "http-rec+http-wire+http-net") {
				tclass = "http"
			}
			kclass := strings.Join(ks, "+")
			switch kclass {
			case "U+CS+SS+BD":
				kclass = "all-kinds"
			case "CS+SS+BD":
				kclass = "streams"
			case "":
				kclass = "mixed"
			}
			obj := "shared"
			if !eff.s.Shared {
				obj = "fresh-copies"
			}
			mods := []string{"seq=" + strings.Join(eff.s.Kinds, ">"), "mode=" + eff.s.Mode, "script=" + eff.s.Script}
			if strings.Contains(eff.s.Script, "P") {
				mods = append(mods, "per-call-key="+eff.s.PerCall)
			}
			mods = append(mods, obj)
			if eff.s.Fail {
				mods = append(mods, "handler-fails")
			}
			g.fp = fmt.Sprintf("C03|%s|%s|reuse-%s|%s|%s|%s", tclass, kclass, eff.s.Pos, kvString(eff.s.Long), eff.clause, strings.Join(mods, ","))
		}
		g.count++
	}
	for _, gk := range order {
		out = append(out, groups[gk])
	}
	return out, unstable
}

// replaySeq re-runs one sequence.
func replaySeq(path string) {
	var s SeqCase
	if err := common.LoadReplay(path, &s); err != nil {
		inconclusive("cannot load replay %s: %v", path, err)
	}
	if len(s.Kinds) == 0 || len(s.Long) == 0 || !s.valid() {
		inconclusive("replay %s is not a member of the reuse part", path)
	}
	w := &worker{name: "replay"}
	defer w.close()
	startGuard([]*worker{w})
	o := w.runSeq(s)
	fmt.Println("replay:", o.describe(s))
	for i, c := range o.calls {
		fmt.Printf("call %d: attached %s; observed %s\n", i+1, c.want, c.seen)
	}
	if o.findings() > 0 {
		fmt.Printf("VIOLATION property=C03 replay=%s\n", path)
		os.Exit(1)
	}
	os.Exit(0)
}

// selfTestReuse: the part's own oracle pieces on hand-made data.
func selfTestReuse() error {
	l := metadata.MD{"k": {"v"}, "b-bin": {"\x00", "\n"}}
	snap := renderMD(l)
	c := deepCopyMD(l)
	if renderMD(c) != snap {
		return fmt.Errorf("reuse: a deep copy renders differently")
	}
	c["k"] = append(c["k"], "x")
	if renderMD(l) != snap {
		return fmt.Errorf("reuse: deep copy shares a value list with the original")
	}
	for name, mut := range map[string]func(metadata.MD){
		"value appended": func(m metadata.MD) { m["k"] = append(m["k"], "call-1.1") },
		"key added":      func(m metadata.MD) { m["call-id"] = []string{"call-1.1"} },
		"value replaced": func(m metadata.MD) { m["b-bin"][1] = "x" },
		"key removed":    func(m metadata.MD) { delete(m, "k") },
		"empty key":      func(m metadata.MD) { m["z"] = nil },
	} {
		m := deepCopyMD(l)
		mut(m)
		if renderMD(m) == snap {
			return fmt.Errorf("reuse: rewritten object (%s) not recognised", name)
		}
	}
	for _, key := range []string{"k", "b-bin"} {
		seen := map[string]bool{}
		for call := 0; call < 3; call++ {
			for n := 0; n < 3; n++ {
				v := perCallVal(key, call, n)
				if seen[v] || v == credsVal(key) {
					return fmt.Errorf("reuse: per-call values are not distinct (%q)", v)
				}
				seen[v] = true
			}
		}
	}
	for _, pos := range seqPositions {
		for _, s := range seqScripts(pos, 3) {
			if !strings.Contains(s, "L") {
				return fmt.Errorf("reuse: script %q without the long-lived object", s)
			}
		}
	}
	if n := len(seqScripts("header", 2)); n != 4 {
		return fmt.Errorf("reuse: %d scripts of length <= 2, want 4 (L LP PL LL)", n)
	}
	if n := len(seqScripts("header", 3)); n != 11 {
		return fmt.Errorf("reuse: %d scripts of length <= 3, want 11", n)
	}
	if n := len(kindSeqs(true)); n != 16+64 {
		return fmt.Errorf("reuse: %d kind sequences, want 80", n)
	}
	return nil
}
