// Liveness after a refused registration.
//
// "... is refused by panicking and leaves earlier registrations intact": after
// the caller has recovered the panic of a refused registration, the registry
// must still ANSWER -- service info, lookup / dispatch, iteration and further
// registrations. An operation that never returns is a violation of that clause,
// and it is decided here as a verdict, not as an INCONCLUSIVE run:
//
//   - cases that may hang are run in CHILD processes of this binary (one case at
//     a time per child, nothing else running in it), so that whatever a hung case
//     leaves behind -- blocked goroutines, a lock that is never released, also a
//     package-level one -- cannot reach any other case or its control run;
//   - a case "hangs" when the Go runtime of its child reports that every
//     goroutine is asleep (a deadlock; immediate and exact), or when the child
//     makes no progress for hangGuard (it is killed then);
//   - a hung case is run again, alone, in a verbose child that announces every
//     library call before making it: the last announced call is the one that
//     hung, and the refusals recovered before it are known;
//   - the CONTROL is the same operation sequence without the refused
//     registrations. If the control completes, the hang is reported as a
//     violation; if the control hangs as well (or the hang does not follow a
//     refusal, or cannot be reproduced), the run ends INCONCLUSIVE (exit 2).
package main

import (
	"bufio"
	"bytes"
	"encoding/json"
	"fmt"
	"io"
	"os"
	"os/exec"
	"runtime"
	"sort"
	"strconv"
	"strings"
	"sync"
	"sync/atomic"
	"syscall"
	"time"
)

// hangGuard: a child that prints nothing for this long is taken to hang (a case takes milliseconds)
const hangGuard = 25 * time.Second

const deadlockMark = "all goroutines are asleep - deadlock!"

// ---------------------------------------------------------------- wire format parent <-> child

type wireJob struct {
	Carrier string   `json:"carrier"`
	Ops     []string `json:"ops"`
	All     bool     `json:"all,omitempty"`
	Probe   bool     `json:"probe,omitempty"`
	EndReg  bool     `json:"end_at_register,omitempty"`
}

type wireProblem struct {
	Clause string `json:"c"`
	Detail string `json:"d"`
	What   string `json:"w"`
	Mut    bool   `json:"m,omitempty"`
	Subj   string `json:"s,omitempty"`
	Step   int    `json:"i,omitempty"`
}

type wireResult struct {
	Probs    []wireProblem `json:"p,omitempty"`
	Key      string        `json:"k"`
	ModelKey string        `json:"mk"`
	Obs      string        `json:"o"`
	Writes   int           `json:"w,omitempty"`
	NilAcc   int           `json:"na,omitempty"`
	NilRef   int           `json:"nr,omitempty"`
	Names    []string      `json:"n,omitempty"`
	Edited   bool          `json:"e,omitempty"`
	Refusals []refusal     `json:"r,omitempty"`
}

type childRequest struct {
	Verbose bool      `json:"verbose"`
	Jobs    []wireJob `json:"jobs"`
}

func (j job) wire() wireJob { return wireJob{j.carrier, j.ops, j.all, j.probe, j.endAtRegister} }

func (w wireJob) job() job {
	return job{carrier: w.Carrier, ops: w.Ops, all: w.All, probe: w.Probe, endAtRegister: w.EndReg}
}

func (r result) wire() wireResult {
	w := wireResult{Key: r.key, ModelKey: r.modelKey, Obs: r.obs, Writes: r.writes, NilAcc: r.nilAcc, NilRef: r.nilRef, Names: r.names, Edited: r.edited, Refusals: r.refusals}
	for _, p := range r.probs {
		w.Probs = append(w.Probs, wireProblem{p.clause, p.detail, p.what, p.mut, p.subj, p.step})
	}
	return w
}

func (w wireResult) result() result {
	r := result{key: w.Key, modelKey: w.ModelKey, obs: w.Obs, writes: w.Writes, nilAcc: w.NilAcc, nilRef: w.NilRef, names: w.Names, edited: w.Edited, refusals: w.Refusals}
	for _, p := range w.Probs {
		r.probs = append(r.probs, problem{clause: p.Clause, detail: p.Detail, what: p.What, mut: p.Mut, subj: p.Subj, done: true, step: p.Step})
	}
	return r
}

// ---------------------------------------------------------------- the child

// childMain runs the cases it is given on stdin, one after the other, on the
// main goroutine. It starts no goroutine and no timer of its own, so that a
// case that blocks forever on a lock or a channel makes the Go runtime stop the
// process with "all goroutines are asleep - deadlock!". One line per event on
// stdout (written at once, not buffered):
//
//	B <i>            case i begins
//	R <i> <json>     case i finished
//	verbose only:  A <op index> <op> | X <op index> <class> (a registration that must / may be refused is
//	about to be attempted) | P <op index> <class> (it panicked, the panic was recovered) | O <op index>
//	(state oracle) | C <kind of library call about to be made>
func childMain() {
	data, err := io.ReadAll(os.Stdin)
	if err != nil {
		fmt.Fprintln(os.Stderr, "child: reading the cases:", err)
		os.Exit(3)
	}
	var req childRequest
	if err := json.Unmarshal(data, &req); err != nil {
		fmt.Fprintln(os.Stderr, "child: decoding the cases:", err)
		os.Exit(3)
	}
	emit := func(s string) { os.Stdout.WriteString(s + "\n") }
	if selftest("nodeadlock") {
		go func() {
			for range time.Tick(time.Second) {
			}
		}()
	}
	for i, wj := range req.Jobs {
		emit("B " + strconv.Itoa(i))
		j := wj.job()
		if req.Verbose {
			j.trace = emit
		}
		res := runPath(j)
		b, _ := json.Marshal(res.wire())
		emit("R " + strconv.Itoa(i) + " " + string(b))
	}
	os.Exit(0)
}

// ---------------------------------------------------------------- the parent side

var (
	childMu   sync.Mutex
	children  = map[*exec.Cmd]bool{}
	childRuns int64
)

func killChildren() {
	childMu.Lock()
	for c := range children {
		if c.Process != nil {
			c.Process.Kill()
		}
	}
	childMu.Unlock()
}

// outcome of the first case of a child run that did not finish
type stopped struct {
	idx     int      // index (in the list given to the child) of the case that did not finish
	hung    bool     // deadlock reported by the child's runtime, or no output for hangGuard
	how     string   // which of the two (or how the child died otherwise)
	trace   []string // verbose lines of that case
	crashed bool     // the child died in another way
}

// runChild runs the cases in one child process; done is called for every case
// that finished (in order). It returns nil when all finished, otherwise what
// happened to the first one that did not (the later ones were not run).
func runChild(jobs []job, verbose bool, done func(i int, r result)) *stopped {
	atomic.AddInt64(&childRuns, 1)
	self, err := os.Executable()
	if err != nil {
		inconclusive("cannot find my own executable: " + err.Error())
	}
	req := childRequest{Verbose: verbose}
	for _, j := range jobs {
		req.Jobs = append(req.Jobs, j.wire())
	}
	in, _ := json.Marshal(req)
	cmd := exec.Command(self, "--child")
	cmd.Stdin = bytes.NewReader(in)
	var stderr bytes.Buffer
	cmd.Stderr = &stderr
	cmd.SysProcAttr = &syscall.SysProcAttr{Pdeathsig: syscall.SIGKILL}
	out, err := cmd.StdoutPipe()
	if err == nil {
		err = cmd.Start()
	}
	if err != nil {
		inconclusive("cannot start a child process: " + err.Error())
	}
	childMu.Lock()
	children[cmd] = true
	childMu.Unlock()
	defer func() {
		childMu.Lock()
		delete(children, cmd)
		childMu.Unlock()
	}()
	lines := make(chan string, 1024)
	go func() {
		sc := bufio.NewScanner(out)
		sc.Buffer(make([]byte, 1<<16), 1<<26)
		for sc.Scan() {
			lines <- sc.Text()
		}
		close(lines)
	}()
	cur, finished := -1, 0
	var trace []string
	timer := time.NewTimer(hangGuard)
	defer timer.Stop()
	for {
		select {
		case l, ok := <-lines:
			if !ok {
				werr := cmd.Wait()
				if finished == len(jobs) {
					return nil // every case delivered its result
				}
				st := &stopped{idx: cur, trace: trace}
				if cur < 0 {
					st.idx = 0
				}
				if strings.Contains(stderr.String(), deadlockMark) {
					st.hung, st.how = true, "the Go runtime of the child process stopped it with \"fatal error: "+deadlockMark+"\""
				} else {
					st.crashed = true
					tail := stderr.String()
					if len(tail) > 1500 {
						tail = tail[:1500] + " ..."
					}
					st.how = fmt.Sprintf("the child process ended (%v) before the case finished; stderr: %s", werr, tail)
				}
				return st
			}
			if !timer.Stop() {
				select {
				case <-timer.C:
				default:
				}
			}
			timer.Reset(hangGuard)
			switch {
			case strings.HasPrefix(l, "B "):
				cur, _ = strconv.Atoi(l[2:])
				trace = nil
			case strings.HasPrefix(l, "R "):
				rest := l[2:]
				sp := strings.IndexByte(rest, ' ')
				i, _ := strconv.Atoi(rest[:sp])
				var w wireResult
				if err := json.Unmarshal([]byte(rest[sp+1:]), &w); err != nil {
					cmd.Process.Kill()
					inconclusive("undecodable result from a child process: " + err.Error())
				}
				finished++
				done(i, w.result())
			default:
				trace = append(trace, l)
			}
		case <-timer.C:
			cmd.Process.Kill()
			go func() {
				for range lines {
				}
				cmd.Wait()
			}()
			st := &stopped{idx: cur, trace: trace, hung: true, how: fmt.Sprintf("the child process running it printed nothing for %v and was killed", hangGuard)}
			if cur < 0 {
				st.idx = 0
			}
			return st
		}
	}
}

func inconclusive(msg string) {
	fmt.Fprintln(os.Stderr, "INCONCLUSIVE: "+msg)
	killChildren()
	os.Exit(2)
}

// ---------------------------------------------------------------- the verdict on a hung case

type hangVerdict struct {
	violation    bool
	clause       string // after-refused-registration:hang | refused-registration:hang
	detail       string // refused=<class>,op=<kind of call that hung>
	what         string
	inconclusive string
}

type hangTrace struct {
	opIdx    int    // op during which the case hung
	op       string //
	inOracle bool   // ... in the state oracle after that op
	call     string // kind of the library call that never returned
	refused  []refusal
	pending  *refusal // the hung call is a registration attempt that has to / may be refused
}

func parseTrace(lines []string) (t hangTrace) {
	t.opIdx = -1
	for _, l := range lines {
		f := strings.SplitN(l, " ", 3)
		if len(f) < 2 {
			continue
		}
		switch f[0] {
		case "A":
			t.opIdx, _ = strconv.Atoi(f[1])
			t.inOracle, t.pending = false, nil
			if len(f) > 2 {
				t.op = f[2]
			}
		case "O":
			t.inOracle, t.pending = true, nil
		case "C":
			t.call = f[1]
		case "X":
			i, _ := strconv.Atoi(f[1])
			t.pending = &refusal{i, f[2]}
		case "P":
			i, _ := strconv.Atoi(f[1])
			t.refused = append(t.refused, refusal{i, f[2]})
			t.pending = nil
		}
	}
	return
}

// without: ops[0..upto] minus the dropped ones
func without(ops []string, upto int, drop map[int]bool) []string {
	var out []string
	for i, op := range ops {
		if i <= upto && !drop[i] {
			out = append(out, op)
		}
	}
	return out
}

// judgeHang decides what a case that did not finish in a child amounts to.
func judgeHang(j job, first *stopped) hangVerdict {
	desc := fmt.Sprintf("%s %v", j.carrier, j.ops)
	if first.crashed {
		return hangVerdict{inconclusive: fmt.Sprintf("case %s: %s", desc, first.how)}
	}
	// again, alone, announcing every library call
	st := runChild([]job{j}, true, func(int, result) {})
	if st == nil {
		return hangVerdict{inconclusive: fmt.Sprintf("case %s did not finish (%s), but finished when it was run again alone", desc, first.how)}
	}
	if st.crashed {
		return hangVerdict{inconclusive: fmt.Sprintf("case %s: %s", desc, st.how)}
	}
	t := parseTrace(st.trace)
	where := fmt.Sprintf("during op %d (%s)", t.opIdx, t.op)
	if t.inOracle {
		where = fmt.Sprintf("in the reads made after op %d (%s)", t.opIdx, t.op)
	}
	// the control: the same sequence up to the op at which the case hung, without the dropped
	// registrations; when the call that hung is a registration attempt, the control ends with that call
	control := func(drop map[int]bool, endAtRegister bool) (ops []string, ok bool, how string) {
		ops = without(j.ops, t.opIdx, drop)
		c := runChild([]job{{carrier: j.carrier, ops: ops, all: j.all, endAtRegister: endAtRegister}}, false, func(int, result) {})
		if c == nil {
			return ops, true, ""
		}
		return ops, false, c.how
	}
	var ctlNote string
	if len(t.refused) > 0 {
		drop := map[int]bool{}
		var rs []string
		for _, r := range t.refused {
			drop[r.Idx] = true
			rs = append(rs, fmt.Sprintf("op %d (%s, refusal class %s)", r.Idx, j.ops[r.Idx], r.Class))
		}
		last := t.refused[len(t.refused)-1]
		ops, ok, how := control(drop, t.pending != nil && t.call == "register" && !drop[t.pending.Idx])
		if ok {
			return hangVerdict{violation: true, clause: "after-refused-registration:hang", detail: "refused=" + last.Class + ",op=" + t.call,
				what: fmt.Sprintf("the registration attempt of %s was refused by a panic, which the caller recovered; afterwards a %s call on the same %s, made %s, never returned (%s). The same sequence up to that point without the refused registration(s), %v, ran to completion in a child process of its own (control), so the registry is unusable BECAUSE OF the refused registration: earlier registrations are not left intact", strings.Join(rs, ", "), t.call, j.carrier, where, st.how, ops)}
		}
		ctlNote = fmt.Sprintf("; the control without the refused registrations, %v, did not finish either (%s)", ops, how)
	}
	if t.pending != nil && t.call == "register" {
		drop := map[int]bool{t.pending.Idx: true}
		for _, r := range t.refused {
			drop[r.Idx] = true
		}
		ops, ok, how := control(drop, false)
		if ok {
			return hangVerdict{violation: true, clause: "refused-registration:hang", detail: "refused=" + t.pending.Class,
				what: fmt.Sprintf("the registration attempt of op %d (%s, refusal class %s), which has to be refused by panicking, never returned and never panicked (%s). The same sequence without it, %v, ran to completion in a child process of its own (control)", t.pending.Idx, j.ops[t.pending.Idx], t.pending.Class, st.how, ops)}
		}
		ctlNote += fmt.Sprintf("; the control without the registration attempt that hung, %v, did not finish either (%s)", ops, how)
	}
	if ctlNote == "" {
		ctlNote = "; no refused registration precedes the call that hung, so there is no control to compare with"
	}
	return hangVerdict{inconclusive: fmt.Sprintf("case %s: a %s call %s never returned (%s)%s", desc, t.call, where, st.how, ctlNote)}
}

// ---------------------------------------------------------------- many cases, isolated

type isoItem struct {
	res     result
	done    bool
	skipped bool
	hang    *hangVerdict
}

// runIsolated runs cases in child processes (several children in parallel, each running its
// share one case at a time). skip is asked just before a case is handed to a child; onHang is
// told about every hang verdict at once (under a lock), so that it can make skip close the
// class of the case. The items are in case order.
func runIsolated(jobs []job, chunk int, skip func(i int) bool, onHang func(i int, v *hangVerdict)) []isoItem {
	items := make([]isoItem, len(jobs))
	if len(jobs) == 0 {
		return items
	}
	workers := runtime.NumCPU()
	if workers > 16 {
		workers = 16
	}
	var next int64 = -1
	nchunks := (len(jobs) + chunk - 1) / chunk
	var mu sync.Mutex
	var wg sync.WaitGroup
	for w := 0; w < workers; w++ {
		wg.Add(1)
		go func() {
			defer wg.Done()
			for {
				ci := int(atomic.AddInt64(&next, 1))
				if ci >= nchunks {
					return
				}
				lo, hi := ci*chunk, (ci+1)*chunk
				if hi > len(jobs) {
					hi = len(jobs)
				}
				for lo < hi {
					var idx []int
					var batch []job
					mu.Lock()
					for i := lo; i < hi; i++ {
						if skip != nil && skip(i) {
							items[i].skipped = true
							continue
						}
						idx = append(idx, i)
						batch = append(batch, jobs[i])
					}
					mu.Unlock()
					if len(batch) == 0 {
						break
					}
					st := runChild(batch, false, func(k int, r result) {
						items[idx[k]].res, items[idx[k]].done = r, true
						atomic.AddInt64(&progress, 1)
					})
					if st == nil {
						break
					}
					i := idx[st.idx]
					v := judgeHang(jobs[i], st)
					if v.inconclusive != "" {
						inconclusive(v.inconclusive)
					}
					mu.Lock()
					items[i].hang = &v
					if onHang != nil {
						onHang(i, &v)
					}
					mu.Unlock()
					lo = i + 1
				}
			}
		}()
	}
	wg.Wait()
	return items
}

// ---------------------------------------------------------------- the grammar of liveness probes

// A probe is  prefix ; R ; F  on a fresh object:
//
//	prefix  the registrations leading to a state: every set of at most maxRegs pool names of the
//	        carrier, each held with a pointer handler or a typed-nil pointer handler
//	R       a registration attempt that the model says has to be refused in that state (or, for a
//	        fresh untyped nil handler, may be): every handler kind x every pool name (fresh
//	        descriptor object), and every share-<kind>:<src>><new> (the descriptor object held under
//	        <src> renamed <new> and offered again; kinds per tier)
//	F       the FIRST operation on the object after R: info | foreach | query:<every pool name, the
//	        unknown name> | every registration op (all 6 handler kinds x every pool name: accepted
//	        ones and ones that are refused in turn). After a share-R: info | foreach | query:<src> |
//	        query:<new> | query:<unknown> | reg:<first unregistered name> | reg:<src>.
//
// followed by the state oracle (light). The class of a probe is (carrier, refusal class of R,
// kind of F); it is what a hang verdict is named after.
type probe struct {
	j      job
	state  string // model key of the prefix state
	rclass string // refusal class of R according to the model
	fkind  string // info | foreach | query | register
	class  string // carrier|rclass|fkind
}

func acceptable(kind string) bool { return kind == "reg" || kind == "reg-tnil" }

// confIll / confMaxRegs: R also ranges over the representative pairs of the handler-conformance
// dimension that do not implement their interface (conform.go), conf(I,H):<every pool name>, in the
// prefix states of at most confMaxRegs registrations; refusal class "ill-shape".
func buildProbes(cn string, maxRegs int, shareKinds []string, confIll []confPair, confMaxRegs int) []probe {
	var names []string
	for _, i := range poolFor(cn) {
		names = append(names, pool[i].name)
	}
	// prefix states: subsets in pool order, sizes ascending, each name with reg | reg-tnil
	type pstate struct {
		ops  []string
		held map[string]bool
	}
	var states []pstate
	var rec func(start int, cur []string, held map[string]bool, size int)
	rec = func(start int, cur []string, held map[string]bool, size int) {
		if len(cur) == size {
			h := map[string]bool{}
			for k := range held {
				h[k] = true
			}
			states = append(states, pstate{append([]string{}, cur...), h})
			return
		}
		for i := start; i < len(names); i++ {
			for _, k := range []string{"reg", "reg-tnil"} {
				held[names[i]] = true
				rec(i+1, append(cur, k+":"+names[i]), held, size)
				delete(held, names[i])
			}
		}
	}
	for size := 0; size <= maxRegs && size <= len(names); size++ {
		rec(0, nil, map[string]bool{}, size)
	}
	var out []probe
	for _, st := range states {
		skey := "{" + strings.Join(st.ops, ",") + "}"
		// follow-ups
		var full []string
		full = append(full, "info")
		if cn == "HandlerMap" {
			full = append(full, "foreach")
		}
		for _, n := range names {
			full = append(full, "query:"+n)
		}
		full = append(full, "query:"+unknownName)
		for _, k := range regKinds {
			for _, n := range names {
				full = append(full, k+":"+n)
			}
		}
		add := func(r, rclass string, fs []string) {
			for _, f := range fs {
				fk := opKind(f)
				if isRegKind(fk) {
					fk = "register"
				}
				ops := append(append(append([]string{}, st.ops...), r), f)
				out = append(out, probe{job{carrier: cn, ops: ops, probe: true}, skey, rclass, fk, cn + "|" + rclass + "|" + fk})
			}
		}
		classOf := func(kind string, dup bool) string {
			if acceptable(kind) || kind == "reg-nil" {
				if dup {
					return "dup"
				}
				return "nil"
			}
			return kind
		}
		for _, k := range regKinds {
			for _, n := range names {
				if acceptable(k) && !st.held[n] {
					continue // accepted
				}
				add(k+":"+n, classOf(k, st.held[n]), full)
			}
		}
		if len(st.ops) <= confMaxRegs {
			for _, p := range confIll {
				for _, n := range names {
					add(p.kind()+":"+n, "ill-shape", full)
				}
			}
		}
		firstFree := ""
		for _, n := range names {
			if !st.held[n] {
				firstFree = n
				break
			}
		}
		for _, k := range shareKinds {
			for _, src := range names {
				if !st.held[src] {
					continue
				}
				for _, nw := range names {
					if acceptable(k) && !st.held[nw] {
						continue // accepted
					}
					fs := []string{"info"}
					if cn == "HandlerMap" {
						fs = append(fs, "foreach")
					}
					fs = append(fs, "query:"+src)
					if nw != src {
						fs = append(fs, "query:"+nw)
					}
					fs = append(fs, "query:"+unknownName)
					if firstFree != "" {
						fs = append(fs, "reg:"+firstFree)
					}
					fs = append(fs, "reg:"+src)
					add("share-"+k+":"+src+">"+nw, "share-"+classOf(k, st.held[nw]), fs)
				}
			}
		}
	}
	return out
}

// ---------------------------------------------------------------- stalls of the in-process phases

var inflight sync.Map // worker id -> job

// triageStall is called when the in-process exploration has made no progress for a while: every
// case in flight is handed to a child process and judged there. It does not return.
func triageStall(report func(j job, v hangVerdict), finish func() int) {
	var js []job
	seen := map[string]bool{}
	inflight.Range(func(_, v interface{}) bool {
		j := v.(job)
		k := j.carrier + " " + strings.Join(j.ops, " ")
		if !seen[k] {
			seen[k] = true
			js = append(js, j)
		}
		return true
	})
	sort.Slice(js, func(a, b int) bool {
		return js[a].carrier+" "+strings.Join(js[a].ops, " ") < js[b].carrier+" "+strings.Join(js[b].ops, " ")
	})
	fmt.Fprintf(os.Stderr, "no progress for 30s with %d cases in flight; judging each of them in a child process\n", len(js))
	verdicts := make([]*hangVerdict, len(js))
	var wg sync.WaitGroup
	for i := range js {
		wg.Add(1)
		go func(i int) {
			defer wg.Done()
			j := js[i]
			j.trace = nil
			st := runChild([]job{j}, false, func(int, result) {})
			if st == nil {
				return // finishes on its own: it was stuck behind something another case left behind
			}
			v := judgeHang(j, st)
			verdicts[i] = &v
		}(i)
	}
	wg.Wait()
	nv := 0
	var inc []string
	for i, v := range verdicts {
		switch {
		case v == nil:
		case v.violation:
			nv++
			report(js[i], *v)
		default:
			inc = append(inc, v.inconclusive)
		}
	}
	if nv > 0 {
		os.Exit(finish())
	}
	if len(inc) == 0 {
		inc = []string{fmt.Sprintf("no progress for 30s in the in-process exploration (last case started: %v), but every case in flight finished when run alone in a child process", current.Load())}
	}
	inconclusive(strings.Join(inc, " | "))
}
