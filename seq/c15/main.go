// C15: the registry (grpchan.HandlerMap and the two transports delegating to
// it) under every sequence of register / query / iterate / info operations.
//
// Explicit-state BFS over REAL objects: a successor is computed by building a
// fresh carrier, replaying the shortest path to the state on it, and applying
// one more operation. The canonical state key is derived from the real object
// (carrier + sorted names it reports, each with the kind of handler that was
// accepted for it); the reference model is a Go map plus a REAL grpc.Server
// that is driven by the same sequence (same registrations, a GetServiceInfo
// whenever the registry is asked for one, the same in-place edits of the
// results it handed out).
//
// Dimensions of the alphabet:
//   - registration: descriptor x handler value, the handler being one of
//     pointer implementing the interface | typed-nil pointer of that type |
//     untyped nil | pointer of another service's type | typed-nil pointer of
//     another service's type | value of a pointer-receiver type;
//   - reads: QueryService / dispatch for every name of interest, ForEach,
//     GetServiceInfo;
//   - "the caller edits, in place, every result GetServiceInfo has handed out
//     so far" (one op per kind of edit, see mutationKinds), followed by all reads;
//   - descriptor OBJECT re-use: "the descriptor object registered under <src> is
//     given the name <new> and registered again with another handler" (share-*,
//     one op per handler kind) and "... is given the name <new>" without being
//     registered again (rename). The same objects are registered with, and
//     renamed under, the reference grpc.Server. The state key is extended by
//     which object each entry holds and the current name of every held object
//     (model.keyOf); swept around every state of the full pool and crossed with
//     everything else to closure in a pool of three descriptors (see main);
//   - handler CONFORMANCE (conform.go): how the handler value relates to the service interface of the
//     descriptor -- 8 interfaces (0-3 methods, embedded, a later revision, unexported methods of this
//     and of another package) x 38 handler values (every method name present but one signature
//     different, nearly-right names, a field instead of a method, value / pointer receivers, promoted
//     methods, non-struct types, ...); ops conf(I,H):<name>; oracle = the Go type assertion h.(I). Full
//     matrix x pool descriptor x prefix state; representatives swept around the BFS states, as the
//     refused registration of the liveness probes, and pairs of attempts in sequence;
//   - liveness after a REFUSED registration: (prefix state x registration attempt that is
//     refused there x the first operation made on the object afterwards), every such probe
//     on a fresh object in a child process; an operation that never returns after the
//     caller has recovered the refusal, while the same sequence without the refusal
//     completes, is a violation ("leaves earlier registrations intact"), see isolate.go.
package main

import (
	"context"
	"fmt"
	"io"
	"net/http/httptest"
	"os"
	"reflect"
	"runtime"
	"sort"
	"strings"
	"sync"
	"sync/atomic"
	"time"

	"github.com/fullstorydev/grpchan"
	"github.com/fullstorydev/grpchan/httpgrpc"
	"github.com/fullstorydev/grpchan/inprocgrpc"
	"google.golang.org/grpc"
	"google.golang.org/protobuf/types/known/emptypb"
	"google.golang.org/protobuf/types/known/wrapperspb"

	"verif/seq/common"
	"verif/vlib"
)

// ---------------------------------------------------------------- the pool

type svc0 interface{ Svc0() }
type svc1 interface{ Svc1() }
type svc2 interface{ Svc2() }
type svc3 interface{ Svc3() }
type svc4 interface{ Svc4() }
type svc5 interface{ Svc5() }

// handlers: pointer receivers, so that a *value* of the right struct type is ill-typed
type h0 struct{ tag string }
type h1 struct{ tag string }
type h2 struct{ tag string }
type h3 struct{ tag string }
type h4 struct{ tag string }
type h5 struct{ tag string }

func (*h0) Svc0() {}
func (*h1) Svc1() {}
func (*h2) Svc2() {}
func (*h3) Svc3() {}
func (*h4) Svc4() {}
func (*h5) Svc5() {}

type fileMeta struct {
	File string
	Idx  int
}

type streamDef struct {
	name           string
	client, server bool
}

type poolEntry struct {
	name     string
	htype    interface{}
	unary    []string
	streams  []streamDef
	metadata interface{}
	mapOnly  bool // only in the HandlerMap pool (the name cannot be addressed through a transport)
}

var pool = []poolEntry{
	{name: "p.Empty", htype: (*svc0)(nil)},
	{name: "p.Unary1", htype: (*svc1)(nil), unary: []string{"U1"}, metadata: "p/unary1.proto"},
	{name: "p.Streams", htype: (*svc2)(nil), streams: []streamDef{{"CS", true, false}, {"SS", false, true}}},
	{name: "p.Mixed", htype: (*svc3)(nil), unary: []string{"A", "B"}, streams: []streamDef{{"Bidi", true, true}, {"Neither", false, false}}, metadata: fileMeta{"p/mixed.proto", 3}},
	// a name that starts with a slash, next to its slash-less namesake p.Unary1
	{name: "/p.Unary1", htype: (*svc4)(nil), unary: []string{"U1"}, metadata: "slash/unary1.proto", mapOnly: true},
	// repeated method names: X is unary (twice) AND a stream; Z is a stream listed twice (same flags).
	// grpc.Server indexes unary methods and streams separately by name. (HandlerMap only: the HTTP
	// server's mux refuses a repeated path.)
	{name: "p.Dup", htype: (*svc5)(nil), unary: []string{"X", "X", "Y"}, streams: []streamDef{{"X", true, false}, {"Z", false, true}, {"Z", false, true}}, metadata: "p/dup.proto", mapOnly: true},
}

const unknownName = "p.Unknown"

// poolFor: indices of the pool descriptors used on a carrier
func poolFor(carrierName string) []int {
	var out []int
	for i, p := range pool {
		if !p.mapOnly || carrierName == "HandlerMap" {
			out = append(out, i)
		}
	}
	return out
}

// qname is a name to look up; on the transports the lookup is made by calling
// the methods of pool[methodsFrom] under that name (-1: methods X and Y).
type qname struct {
	name        string
	methodsFrom int
}

// queryNames: every pool name of the carrier, an unknown name, and near misses of
// every slash-less pool name (leading / trailing / doubled slash, proper prefix,
// proper suffix, extension). A near miss is "registered" only if exactly that
// string was registered (possible for "/p.Unary1" on the HandlerMap).
func queryNames(carrierName string) []qname {
	qnOnce.Do(func() {
		for _, cn := range carrierNames {
			qnCache[cn] = computeQueryNames(cn)
		}
	})
	return qnCache[carrierName]
}

var qnOnce sync.Once
var qnCache = map[string][]qname{}

func computeQueryNames(carrierName string) []qname {
	var out []qname
	seen := map[string]bool{}
	add := func(n string, from int) {
		if !seen[n] {
			seen[n] = true
			out = append(out, qname{n, from})
		}
	}
	for _, i := range poolFor(carrierName) {
		add(pool[i].name, i)
	}
	add(unknownName, -1)
	for i, p := range pool {
		if p.mapOnly {
			continue
		}
		n := p.name
		for _, nm := range []string{"/" + n, n + "/", "//" + n, "/" + n + "/", strings.Replace(n, ".", "./", 1), n[:len(n)-1], n[1:], n + "x", "p", ""} {
			add(nm, i)
		}
	}
	return out
}

func poolIndex(name string) int {
	for i, p := range pool {
		if p.name == name {
			return i
		}
	}
	return -1
}

// every handler invocation is logged here
type event struct {
	descTag string
	method  string
	srv     interface{}
}

// pctx is everything that belongs to ONE path (one fresh carrier + the ops
// replayed on it); paths are independent, so they can be run in parallel.
type pctx struct {
	evmu     sync.Mutex
	evlog    []event
	descTags map[*grpc.ServiceDesc]string
	lastObs  string // what the last applied op was seen to do (for evidence samples)

	// the reference: a real grpc.Server driven by the same sequence
	ref *grpc.Server
	// every result GetServiceInfo has handed out on this path (registry / reference)
	held, refHeld []map[string]grpc.ServiceInfo

	m      model // the model of this path (for classifying the names problems are about)
	edited bool  // a descriptor-edit op (share-* / rename) has been applied on this path

	tainted  bool            // a mutate op has been applied on this path
	baseline map[string]bool // clause|detail of the problems seen before the first mutate op
	writes   int             // elements / map entries written by mutate ops
	nilAcc   int             // fresh registrations with an untyped nil handler that were accepted
	nilRef   int             // ... that were refused by panicking

	// liveness after a refused registration (see isolate.go)
	step       int          // index of the op being applied
	bareBefore bool         // the op makes its own library call first (no GetServiceInfo for the state key before it)
	bareAfter  bool         // ... and none after it either (the NEXT op's call is the first one after this op)
	light      bool         // the state oracle asks for the pool names and the unknown name only (no near misses)
	trace      func(string) // verbose child: one line before every library call / around every op
	refusals   []refusal    // registrations that were refused by a panic which was recovered
}

// refusal: op index and class of a registration that panicked as (or where) the model allows
type refusal struct {
	Idx   int    `json:"idx"`
	Class string `json:"class"`
}

// call announces a library call (verbose child only): the last announced call of a case that
// never finishes is the one that hung.
func (x *pctx) call(what string) {
	if x.trace != nil {
		x.trace("C " + what)
	}
}

var refServers int64

func newCtx() *pctx {
	atomic.AddInt64(&refServers, 1)
	return &pctx{descTags: map[*grpc.ServiceDesc]string{}, ref: grpc.NewServer(), baseline: map[string]bool{}}
}

func (x *pctx) logEvent(e event) {
	x.evmu.Lock()
	x.evlog = append(x.evlog, e)
	x.evmu.Unlock()
}

func (x *pctx) takeEvents() []event {
	x.evmu.Lock()
	evs := x.evlog
	x.evlog = nil
	x.evmu.Unlock()
	return evs
}

// id describes a descriptor or handler object by the step that created it (stable across runs).
func (x *pctx) id(v interface{}) string {
	switch h := v.(type) {
	case nil:
		return "nil"
	case *grpc.ServiceDesc:
		if h == nil {
			return "nil"
		}
		if t, ok := x.descTags[h]; ok {
			return "desc@" + t
		}
		return "desc@?(" + h.ServiceName + ")"
	case *h0:
		if h == nil {
			return "(*h0)(nil)"
		}
		return "*h0@" + h.tag
	case *h1:
		if h == nil {
			return "(*h1)(nil)"
		}
		return "*h1@" + h.tag
	case *h2:
		if h == nil {
			return "(*h2)(nil)"
		}
		return "*h2@" + h.tag
	case *h3:
		if h == nil {
			return "(*h3)(nil)"
		}
		return "*h3@" + h.tag
	case *h4:
		if h == nil {
			return "(*h4)(nil)"
		}
		return "*h4@" + h.tag
	case *h5:
		if h == nil {
			return "(*h5)(nil)"
		}
		return "*h5@" + h.tag
	}
	return fmt.Sprintf("%T", v)
}

// makeDesc builds a FRESH descriptor object (new pointer, new closures) for pool entry i.
func (x *pctx) makeDesc(i int, tag string) *grpc.ServiceDesc {
	p := pool[i]
	d := &grpc.ServiceDesc{ServiceName: p.name, HandlerType: p.htype, Metadata: p.metadata}
	x.descTags[d] = tag
	for _, m := range p.unary {
		m := m
		d.Methods = append(d.Methods, grpc.MethodDesc{MethodName: m, Handler: func(srv interface{}, ctx context.Context, dec func(interface{}) error, ic grpc.UnaryServerInterceptor) (interface{}, error) {
			x.logEvent(event{tag, m, srv})
			return wrapperspb.String(tag), nil
		}})
	}
	for _, s := range p.streams {
		s := s
		d.Streams = append(d.Streams, grpc.StreamDesc{StreamName: s.name, ClientStreams: s.client, ServerStreams: s.server, Handler: func(srv interface{}, stream grpc.ServerStream) error {
			x.logEvent(event{tag, s.name, srv})
			return nil
		}})
	}
	return d
}

func goodHandler(i int, tag string) interface{} {
	switch i {
	case 0:
		return &h0{tag}
	case 1:
		return &h1{tag}
	case 2:
		return &h2{tag}
	case 3:
		return &h3{tag}
	case 4:
		return &h4{tag}
	}
	return &h5{tag}
}

// typedNil: a nil pointer of the handler type of pool entry i (it implements the interface).
func typedNil(i int) interface{} {
	switch i {
	case 0:
		return (*h0)(nil)
	case 1:
		return (*h1)(nil)
	case 2:
		return (*h2)(nil)
	case 3:
		return (*h3)(nil)
	case 4:
		return (*h4)(nil)
	}
	return (*h5)(nil)
}

func valueHandler(i int, tag string) interface{} {
	switch i {
	case 0:
		return h0{tag}
	case 1:
		return h1{tag}
	case 2:
		return h2{tag}
	case 3:
		return h3{tag}
	case 4:
		return h4{tag}
	}
	return h5{tag}
}

// The handler dimension. For pool descriptor i an op kind selects the handler VALUE:
//
//	reg        pointer to the implementing struct                      well-typed
//	reg-tnil   nil pointer of the implementing type                    well-typed (grpc.Server accepts it)
//	reg-nil    untyped nil                                             see nilHandlerRule
//	ill-other  pointer to the struct implementing ANOTHER service      ill-typed
//	ill-tnil   nil pointer of the type implementing another service    ill-typed
//	ill-value  value of the right struct (methods have ptr receivers)  ill-typed
var regKinds = []string{"reg", "reg-tnil", "reg-nil", "ill-other", "ill-tnil", "ill-value"}

const nilHandlerRule = "an untyped nil handler implements no interface, so the statement allows refusing it by a panic that leaves the registry intact (what the library does); a standard grpc.Server accepts it as a registration without implementation, so accepting it is allowed as well, and then it IS a registration: visible to lookup / iteration / info exactly like in grpc.Server, and a second registration for that name must be refused. Under a name that is already registered a nil handler must be refused like any other."

func isRegKind(k string) bool {
	for _, r := range regKinds {
		if r == k {
			return true
		}
	}
	return false
}

func makeHandler(i int, kind, tag string) interface{} {
	switch kind {
	case "reg":
		return goodHandler(i, tag)
	case "reg-tnil":
		return typedNil(i)
	case "reg-nil":
		return nil
	case "ill-other":
		return goodHandler((i+1)%len(pool), tag)
	case "ill-tnil":
		return typedNil((i + 1) % len(pool))
	case "ill-value":
		return valueHandler(i, tag)
	}
	panic("bad handler kind " + kind)
}

// hkind of an accepted registration: "" (pointer), "tnil", "nil"
func hkindOf(kind string) string {
	switch kind {
	case "reg-tnil":
		return "tnil"
	case "reg-nil":
		return "nil"
	}
	return ""
}

func hkindLabel(k string) string {
	if k == "" {
		return "ptr"
	}
	return k
}

// ---------------------------------------------------------------- carriers

type carrier interface {
	Name() string
	Register(d *grpc.ServiceDesc, h interface{})
	Info() map[string]grpc.ServiceInfo
}

type mapCarrier struct{ m grpchan.HandlerMap }

func (c *mapCarrier) Name() string                                { return "HandlerMap" }
func (c *mapCarrier) Register(d *grpc.ServiceDesc, h interface{}) { c.m.RegisterService(d, h) }
func (c *mapCarrier) Info() map[string]grpc.ServiceInfo           { return c.m.GetServiceInfo() }

type inprocCarrier struct{ ch *inprocgrpc.Channel }

func (c *inprocCarrier) Name() string                                { return "inprocgrpc.Channel" }
func (c *inprocCarrier) Register(d *grpc.ServiceDesc, h interface{}) { c.ch.RegisterService(d, h) }
func (c *inprocCarrier) Info() map[string]grpc.ServiceInfo           { return c.ch.GetServiceInfo() }

type httpCarrier struct{ s *httpgrpc.Server }

func (c *httpCarrier) Name() string                                { return "httpgrpc.Server" }
func (c *httpCarrier) Register(d *grpc.ServiceDesc, h interface{}) { c.s.RegisterService(d, h) }
func (c *httpCarrier) Info() map[string]grpc.ServiceInfo           { return c.s.GetServiceInfo() }

var carrierNames = []string{"HandlerMap", "inprocgrpc.Channel", "httpgrpc.Server"}

func newCarrier(name string) carrier {
	switch name {
	case "HandlerMap":
		return &mapCarrier{grpchan.HandlerMap{}}
	case "inprocgrpc.Channel":
		return &inprocCarrier{&inprocgrpc.Channel{}}
	case "httpgrpc.Server":
		return &httpCarrier{httpgrpc.NewServer()}
	}
	panic("unknown carrier " + name)
}

// info asks the registry AND the reference server for their service info and
// keeps both results: every result ever handed out stays reachable for the
// mutate ops.
func (x *pctx) info(c carrier) (got, want map[string]grpc.ServiceInfo) {
	x.call("info")
	got = c.Info()
	want = x.ref.GetServiceInfo()
	x.held = append(x.held, got)
	x.refHeld = append(x.refHeld, want)
	return
}

// dispatch calls one method of a service through the transport; it returns the
// handler events it caused and whether the transport reported success.
func (x *pctx) dispatch(c carrier, svc, method string, isStream bool, sd streamDef) (evs []event, ok bool, obs string) {
	x.takeEvents()
	x.call("query")
	switch c := c.(type) {
	case *inprocCarrier:
		full := "/" + svc + "/" + method
		if !isStream {
			var out wrapperspb.StringValue
			err := c.ch.Invoke(context.Background(), full, &emptypb.Empty{}, &out)
			return x.takeEvents(), err == nil, fmt.Sprintf("err=%v resp=%q", err, out.Value)
		}
		cs, err := c.ch.NewStream(context.Background(), &grpc.StreamDesc{StreamName: method, ClientStreams: sd.client, ServerStreams: sd.server}, full)
		if err != nil {
			return x.takeEvents(), false, fmt.Sprintf("NewStream err=%v", err)
		}
		cs.CloseSend()
		var out wrapperspb.StringValue
		err = cs.RecvMsg(&out) // returns once the server side has finished
		return x.takeEvents(), err == io.EOF, fmt.Sprintf("recv err=%v", err)
	case *httpCarrier:
		req := httptest.NewRequest("POST", "/"+svc+"/"+method, strings.NewReader(""))
		if isStream {
			req.Header.Set("Content-Type", httpgrpc.StreamRpcContentType_V1)
		} else {
			req.Header.Set("Content-Type", httpgrpc.UnaryRpcContentType_V1)
		}
		rec := httptest.NewRecorder()
		c.s.ServeHTTP(rec, req)
		return x.takeEvents(), rec.Code == 200, fmt.Sprintf("http=%d x-grpc-status=%q", rec.Code, rec.Header().Get("X-GRPC-Status"))
	}
	panic("dispatch on a carrier without transport")
}

// ---------------------------------------------------------------- model

// dobj is one descriptor OBJECT of the caller: built from a pool entry (which
// fixes its HandlerType, methods and metadata), possibly registered several
// times, its ServiceName patched by the caller in between or afterwards.
type dobj struct {
	d      *grpc.ServiceDesc
	origin int    // pool entry it was built from
	tag    string // step that built it (its method closures log this tag)
	cur    string // the ServiceName the CALLER has given it last
	conf   bool   // built by a conformance op: its HandlerType is not the pool entry's
}

type reg struct {
	obj     *dobj // the descriptor object that was passed to RegisterService
	handler interface{}
	hkind   string // "" pointer | "tnil" | "nil"
}

// model: registration name (the ServiceName the descriptor carried WHEN it was
// registered) -> what was registered
type model map[string]reg

func keySuffix(hk string) string {
	if hk == "" {
		return ""
	}
	return "=" + hk
}

func (m model) key() string {
	names := make([]string, 0, len(m))
	for n := range m {
		names = append(names, n)
	}
	return m.keyOf(names)
}

// objs: the distinct descriptor objects held by registrations, ordered by origin
// (an object is registered first under the name of its pool entry and nothing is
// ever unregistered, so the origin identifies a held object).
func (m model) objs() []*dobj {
	var out []*dobj
	seen := map[*dobj]bool{}
	for _, r := range m {
		if !seen[r.obj] {
			seen[r.obj] = true
			out = append(out, r.obj)
		}
	}
	sort.Slice(out, func(i, j int) bool {
		if out[i].origin != out[j].origin {
			return out[i].origin < out[j].origin
		}
		return out[i].tag < out[j].tag
	})
	return out
}

// keyOf renders a state key for the given set of names: each name with the kind
// of handler held for it ("=tnil", "=nil") and, when the descriptor object it was
// registered with was built for another name, "<" that name (entries with the
// same "<origin", and the entry of that origin itself, SHARE one object); then,
// after ";", every held descriptor object whose current ServiceName is not the
// one it was built with, as origin->current.
func (m model) keyOf(names []string) string {
	parts := make([]string, 0, len(names))
	for _, n := range names {
		s := n
		if r, ok := m[n]; ok {
			s += keySuffix(r.hkind)
			if o := pool[r.obj.origin].name; o != n {
				s += "<" + o
			}
		}
		parts = append(parts, s)
	}
	sort.Strings(parts)
	var ren []string
	for _, o := range m.objs() {
		if on := pool[o.origin].name; o.cur != on {
			ren = append(ren, on+"->"+o.cur)
		}
	}
	k := strings.Join(parts, ",")
	if len(ren) > 0 {
		k += ";" + strings.Join(ren, ",")
	}
	return "{" + k + "}"
}

// class tells how a name is involved with descriptor objects whose ServiceName
// the caller has changed ("" = not at all). It is the parameter that matters for
// a problem seen after such an edit, and replaces the name in the fingerprint.
func (m model) class(n string) string {
	r, registered := m[n]
	foreign, holders := false, 0
	for _, o := range m.objs() {
		if o.cur == n && (!registered || r.obj != o) {
			foreign = true
		}
	}
	if !registered {
		if foreign {
			return "unregistered-name-carried-by-a-held-descriptor"
		}
		return ""
	}
	for _, q := range m {
		if q.obj == r.obj {
			holders++
		}
	}
	switch {
	case r.obj.cur != n:
		return "key-whose-descriptor-now-carries-another-name"
	case foreign:
		return "key-whose-name-another-held-descriptor-carries-too"
	case holders > 1:
		return "key-of-a-descriptor-registered-under-several-names"
	}
	return ""
}

// implKey is the canonical state key: the names the REAL object reports, each
// with the kind of handler accepted for it (pointer: no suffix; "=tnil";
// "=nil") -- the behaviour of a registration attempt may depend on what is
// stored, not only on which names are present -- and with the descriptor
// object it was registered with, plus the current names of the caller's
// descriptor objects (caller-side state; see model.keyOf).
func (x *pctx) implKey(c carrier, m model) string {
	names := []string{}
	got, _ := x.info(c)
	for n := range got {
		names = append(names, n)
	}
	return m.keyOf(names)
}

// ---------------------------------------------------------------- mutation of results handed out

// The caller edits, in place, what GetServiceInfo gave it. Reachable from a
// result: the map itself and the backing array of each Methods slice (up to
// its capacity). Metadata is the descriptor's own value in grpc.Server too,
// so it is not expected to be insulated and is left alone.
//
//	slice level (every Methods slice of every service of every held result):
//	  zero     every element := MethodInfo{}
//	  rename   every element: Name prefixed with "~", both flags flipped
//	  filter   in-place filter s[:0]+append keeping the streaming methods, stored back into the map
//	  shift    copy(s, s[1:]) (truncate-and-append style: duplicates one, loses one)
//	  reverse  in-place reversal
//	  inject   every element of s[:cap(s)] := {Injected, true, true} (also the spare capacity)
//	map level:
//	  clear    delete every key
//	  ghost    every present entry := ServiceInfo{}; every pool name, the unknown name and "" that is absent gets an invented entry
//	  swap     rotate the entries among the (sorted) names
//	both:
//	  scribble inject, then ghost (everything reachable is overwritten)
var mutationKinds = []string{"zero", "rename", "filter", "shift", "reverse", "inject", "clear", "ghost", "swap", "scribble"}

func mutateResult(kind string, r map[string]grpc.ServiceInfo) (writes int) {
	names := make([]string, 0, len(r))
	for n := range r {
		names = append(names, n)
	}
	sort.Strings(names)
	slices := func(f func(n string, s []grpc.MethodInfo)) {
		for _, n := range names {
			f(n, r[n].Methods)
		}
	}
	inject := func() {
		slices(func(_ string, s []grpc.MethodInfo) {
			t := s[:cap(s)]
			for i := range t {
				t[i] = grpc.MethodInfo{Name: "Injected", IsClientStream: true, IsServerStream: true}
				writes++
			}
		})
	}
	ghost := func() {
		if r == nil {
			return // nothing can be stored in a nil map
		}
		for _, n := range names {
			r[n] = grpc.ServiceInfo{}
			writes++
		}
		cand := []string{unknownName, ""}
		for _, p := range pool {
			cand = append(cand, p.name)
		}
		for _, n := range cand {
			if _, ok := r[n]; !ok {
				r[n] = grpc.ServiceInfo{Methods: []grpc.MethodInfo{{Name: "Ghost"}}, Metadata: "ghost"}
				writes++
			}
		}
	}
	switch kind {
	case "zero":
		slices(func(_ string, s []grpc.MethodInfo) {
			for i := range s {
				s[i] = grpc.MethodInfo{}
				writes++
			}
		})
	case "rename":
		slices(func(_ string, s []grpc.MethodInfo) {
			for i := range s {
				s[i] = grpc.MethodInfo{Name: "~" + s[i].Name, IsClientStream: !s[i].IsClientStream, IsServerStream: !s[i].IsServerStream}
				writes++
			}
		})
	case "filter":
		slices(func(n string, s []grpc.MethodInfo) {
			keep := s[:0]
			for _, mi := range s {
				if mi.IsClientStream || mi.IsServerStream {
					keep = append(keep, mi)
					writes++
				}
			}
			si := r[n]
			si.Methods = keep
			r[n] = si
			writes++
		})
	case "shift":
		slices(func(_ string, s []grpc.MethodInfo) {
			if len(s) > 1 {
				writes += copy(s, s[1:])
			}
		})
	case "reverse":
		slices(func(_ string, s []grpc.MethodInfo) {
			for i, j := 0, len(s)-1; i < j; i, j = i+1, j-1 {
				s[i], s[j] = s[j], s[i]
				writes += 2
			}
		})
	case "inject":
		inject()
	case "clear":
		for _, n := range names {
			delete(r, n)
			writes++
		}
	case "ghost":
		ghost()
	case "swap":
		if len(names) > 1 {
			first := r[names[0]]
			for i := 0; i+1 < len(names); i++ {
				r[names[i]] = r[names[i+1]]
				writes++
			}
			r[names[len(names)-1]] = first
			writes++
		}
	case "scribble":
		inject()
		ghost()
	default:
		panic("bad mutation kind " + kind)
	}
	return
}

// ---------------------------------------------------------------- ops

// subPool: the descriptors of the space in which descriptor-edit ops are explored to closure
var subPool = []int{1, 2, 3}

// editOps: share ops (every handler kind x every source registration x every new name among
// names) and rename ops (every source registration x every target)
func editOps(names, kinds, renameTargets []string) (share, rename []string) {
	for _, k := range kinds {
		for _, src := range names {
			for _, nw := range names {
				share = append(share, "share-"+k+":"+src+">"+nw)
			}
		}
	}
	for _, src := range names {
		for _, nw := range renameTargets {
			rename = append(rename, "rename:"+src+">"+nw)
		}
	}
	return
}

// op strings: <reg kind>:<name>  query:<name>  foreach  info  mutate:<kind>  share-<reg kind>:<src>><new>  rename:<src>><new>
func opsFor(carrierName string) (registerOps, readOps, mutateOps []string) {
	for _, k := range regKinds {
		for _, i := range poolFor(carrierName) {
			registerOps = append(registerOps, k+":"+pool[i].name)
		}
	}
	for _, q := range queryNames(carrierName) {
		readOps = append(readOps, "query:"+q.name)
	}
	if carrierName == "HandlerMap" {
		readOps = append(readOps, "foreach")
	}
	readOps = append(readOps, "info")
	for _, k := range mutationKinds {
		mutateOps = append(mutateOps, "mutate:"+k)
	}
	return
}

type problem struct {
	clause string // short, goes into the fingerprint
	detail string // parameter that matters (service name ...), goes into the fingerprint
	what   string
	mut    bool   // seen only after a mutate op of the path (see absorb / runPath)
	subj   string // the service name the problem is about ("" = none in particular)
	done   bool   // classified by absorb
	step   int    // index of the op at which (or in the reads after which) it was seen (set by runPath)
}

const afterMutation = "after-result-mutation:"

// Problems seen on a path on which the caller has changed the ServiceName of a
// descriptor object it had registered (share-* / rename ops) have their own
// clauses when they are about a name involved in that (model.class), about no
// name in particular, or about the registry state as a whole; the name itself
// is replaced by its class, since it is the relation that matters.
const afterEdit = "after-descriptor-edit:"

func (p problem) key() string { return p.clause + "|" + p.detail }

// render: clause and description as reported; a problem attributed to a mutate
// op has its own clause, so that it never shares a fingerprint with a defect
// that shows without any mutation.
func (p problem) render() (clause, what string) {
	if !p.mut {
		return p.clause, p.what
	}
	return afterMutation + p.clause, "after the caller edited, in place, the results GetServiceInfo had returned earlier (the same edits were made to the results of the reference grpc.Server): " + p.what
}

// absorb classifies the problems of one evaluation: before the first mutate op
// of the path they form the baseline; afterwards a problem that was not in the
// baseline is a candidate for being attributed to the mutation (runPath then
// replays the path without its mutate ops as the control and keeps the
// attribution only for what the control does not show).
func (x *pctx) absorb(ps []problem) []problem {
	for i := range ps {
		if ps[i].done {
			continue
		}
		ps[i].done = true
		if x.edited {
			p := &ps[i]
			switch {
			case strings.HasPrefix(p.clause, "state-"):
				p.clause, p.detail = afterEdit+"registry-state", ""
			case p.subj == "":
				p.clause = afterEdit + p.clause
			default:
				if cls := x.m.class(p.subj); cls != "" {
					p.clause, p.detail = afterEdit+p.clause, cls
				}
			}
		}
		k := ps[i].key()
		if !x.tainted {
			x.baseline[k] = true
		} else if !x.baseline[k] {
			ps[i].mut = true
		}
	}
	return ps
}

func callRegister(c carrier, d *grpc.ServiceDesc, h interface{}) (panicked bool, pv interface{}) {
	defer func() {
		if r := recover(); r != nil {
			panicked, pv = true, r
		}
	}()
	c.Register(d, h)
	return false, nil
}

// guarded runs a read-only library call and converts a panic into a problem.
func guarded(clause, detail string, probs *[]problem, f func()) {
	defer func() {
		if r := recover(); r != nil {
			*probs = append(*probs, problem{clause: clause + "-panic", detail: detail, subj: detail, what: fmt.Sprintf("%s(%s) panicked: %v", clause, detail, r)})
		}
	}()
	f()
}

// Descriptor-edit ops: the caller re-uses a descriptor OBJECT it has registered.
//
//	share-<reg kind>:<src>><new>  the object registered under <src> gets ServiceName = <new> and is
//	                              registered again, with a new handler value chosen as for <reg kind>
//	                              relative to the object's own HandlerType (a *grpc.Server reads the
//	                              descriptor at registration time, so this is fine there)
//	rename:<src>><new>            the object registered under <src> gets ServiceName = <new>; nothing
//	                              is registered
//
// Both are enabled when <src> is registered.
func isShareKind(k string) bool {
	return strings.HasPrefix(k, "share-") && isRegKind(k[len("share-"):])
}

func isDescEditKind(k string) bool { return k == "rename" || isShareKind(k) }

func splitEdit(name string) (src, nw string) {
	i := strings.IndexByte(name, '>')
	if i < 0 {
		panic("bad descriptor-edit op argument " + name)
	}
	return name[:i], name[i+1:]
}

// opEnabled: descriptor-edit ops need their source registration (names: the model's registrations)
func opEnabled(op string, names map[string]bool) bool {
	if k := opKind(op); isDescEditKind(k) {
		src, _ := splitEdit(op[len(k)+1:])
		return names[src]
	}
	return true
}

// register makes one registration attempt with descriptor object o (whose ServiceName is name at
// this moment) and a handler of the given kind, on the real object, the model and the reference.
//
// cc != nil: the handler value and whether it implements the descriptor's HandlerType come from the
// handler-conformance dimension (conform.go); the registration is then treated like "reg" / "reg-tnil"
// when the handler implements the interface, and as the ill-typed kind "ill-shape" when it does not.
func (x *pctx) register(c carrier, m model, op, kind, name string, o *dobj, tag, before string, cc *confCase) (probs []problem) {
	var h interface{}
	if cc != nil {
		h = cc.h
		switch {
		case !cc.implements:
			kind = "ill-shape"
		case cc.hd.hkind == "tnil":
			kind = "reg-tnil"
		default:
			kind = "reg"
		}
	} else {
		h = makeHandler(o.origin, kind, tag)
	}
	old, dup := m[name]
	wellTyped := kind == "reg" || kind == "reg-tnil"
	either := kind == "reg-nil" && !dup // see nilHandlerRule
	wantPanic := dup || !(wellTyped || either)
	why := ""
	switch {
	case dup && (wellTyped || kind == "reg-nil"):
		why = "duplicate registration"
	case kind == "reg-nil":
		why = "untyped nil handler"
	case wellTyped || either:
		why = "first registration for the name, handler acceptable"
	case cc != nil:
		why = fmt.Sprintf("handler %T does not implement the service interface %v (%s)", h, reflect.TypeOf(o.d.HandlerType).Elem(), cc.relation)
	default:
		why = fmt.Sprintf("handler %T does not implement the service interface", h)
	}
	// the parameter that matters: the name, and what kind of handler is held / offered when
	// either is not the ordinary pointer
	detail := name
	if dup && (kind == "reg-tnil" || kind == "reg-nil" || old.hkind != "") {
		detail = fmt.Sprintf("%s[held=%s,new=%s]", name, hkindLabel(old.hkind), hkindLabel(hkindOf(kind)))
	} else if !dup && kind == "reg-tnil" {
		detail = name + "[new=tnil]"
	}
	if cc != nil {
		// the parameter that matters is the relation between handler and interface, not the name
		switch {
		case !cc.implements:
			detail = dominantAtom(cc.relation)
		case !dup:
			detail = "implements:" + cc.hd.name
		}
	}
	// class of the refusal (if it is one): why the registration has to be / may be refused
	class := kind
	if wellTyped || kind == "reg-nil" {
		class = "nil"
		if dup {
			class = "dup"
		}
	}
	if strings.HasPrefix(op, "share-") {
		class = "share-" + class
	}
	if x.trace != nil && (wantPanic || either) {
		x.trace(fmt.Sprintf("X %d %s", x.step, class))
	}
	x.call("register")
	panicked, pv := callRegister(c, o.d, h)
	if panicked && (wantPanic || either) {
		x.refusals = append(x.refusals, refusal{x.step, class})
		if x.trace != nil {
			x.trace(fmt.Sprintf("P %d %s", x.step, class))
		}
	}
	x.lastObs = fmt.Sprintf("RegisterService(%s, %s) with name %s panicked=%v", x.id(o.d), x.id(h), name, panicked)
	if panicked {
		x.lastObs += fmt.Sprintf(" (%v)", pv)
	}
	accepted := !wantPanic
	if either {
		accepted = !panicked
		if panicked {
			x.nilRef++
		} else {
			x.nilAcc++
		}
	}
	switch {
	case either:
	case wantPanic && !panicked:
		cl := "dup-not-refused"
		if !wellTyped && kind != "reg-nil" {
			cl = kind + "-not-refused"
		}
		probs = append(probs, problem{clause: cl, detail: detail, subj: name, what: fmt.Sprintf("RegisterService(%s as %s, %s) with %s did not panic", x.id(o.d), name, x.id(h), why)})
	case !wantPanic && panicked:
		probs = append(probs, problem{clause: "good-registration-panicked", detail: detail, subj: name, what: fmt.Sprintf("first, well-typed RegisterService(%s as %s, %s) panicked: %v", x.id(o.d), name, x.id(h), pv)})
	}
	if accepted {
		m[name] = reg{obj: o, handler: h, hkind: hkindOf(kind)}
		x.ref.RegisterService(o.d, h) // the same registration on the reference server
	}
	if x.bareAfter {
		// liveness probe: the first library call after this registration attempt is the next op's
		return
	}
	if after := x.implKey(c, m); after != m.key() {
		cl := "state-after-" + kind
		if dup && (wellTyped || kind == "reg-nil") {
			cl = "state-after-dup"
		}
		probs = append(probs, problem{clause: cl, detail: detail, subj: name, what: fmt.Sprintf("after %s (%s) the registry reports %s, expected %s (before: %s)", op, why, after, m.key(), before)})
	}
	return
}

// applyOp applies one op to the real object, to the model and to the reference
// server, and checks the op's own contract.
func (x *pctx) applyOp(c carrier, m model, op string, step int) (probs []problem) {
	kind, name := op, ""
	if i := strings.IndexByte(op, ':'); i >= 0 {
		kind, name = op[:i], op[i+1:]
	}
	x.step = step
	before := m.key()
	if !x.bareBefore {
		before = x.implKey(c, m)
	}
	tag := fmt.Sprintf("s%d", step)
	x.lastObs = "read evaluated by the oracle; registry unchanged"
	switch {
	case isRegKind(kind):
		i := poolIndex(name)
		o := &dobj{d: x.makeDesc(i, tag), origin: i, tag: tag, cur: name} // a FRESH descriptor object
		probs = x.register(c, m, op, kind, name, o, tag, before, nil)
	case isConfKind(kind):
		// handler-conformance dimension (conform.go): a FRESH descriptor object built from the pool entry,
		// its HandlerType replaced by the interface of the pair, registered with the handler value of the pair
		i := poolIndex(name)
		cc := newConfCase(kind, tag)
		d := x.makeDesc(i, tag)
		d.HandlerType = cc.iface.htype
		o := &dobj{d: d, origin: i, tag: tag, cur: name, conf: true}
		probs = x.register(c, m, op, kind, name, o, tag, before, cc)
	case isShareKind(kind):
		src, nw := splitEdit(name)
		r, ok := m[src]
		if !ok {
			x.lastObs = "disabled (nothing is registered under " + src + ")"
			break
		}
		x.edited = true
		o := r.obj
		was := o.cur
		o.d.ServiceName, o.cur = nw, nw // the caller patches the name of the object it registered before
		if r.obj.conf {
			panic("checker: share-* of a descriptor registered by a conformance op is not in the grammar (" + op + ")")
		}
		probs = x.register(c, m, op, kind[len("share-"):], nw, o, tag, before, nil)
		x.lastObs = fmt.Sprintf("%s (held under %s, named %s) renamed %s; %s", x.id(o.d), src, was, nw, x.lastObs)
	case kind == "rename":
		src, nw := splitEdit(name)
		r, ok := m[src]
		if !ok {
			x.lastObs = "disabled (nothing is registered under " + src + ")"
			break
		}
		x.edited = true
		o := r.obj
		was := o.cur
		o.d.ServiceName, o.cur = nw, nw
		x.lastObs = fmt.Sprintf("%s (held under %s, named %s) renamed %s without registering it; all reads repeated", x.id(o.d), src, was, nw)
		if after := x.implKey(c, m); after != m.key() {
			probs = append(probs, problem{clause: "state-after-rename", detail: src, subj: src, what: fmt.Sprintf("after %s the registry reports %s, expected %s (before: %s)", op, after, m.key(), before)})
		}
	case kind == "query" || kind == "foreach" || kind == "info":
		// the read itself is evaluated by the state oracle (which performs every read op);
		// as a transition it must be a self loop
		switch kind {
		case "query":
			q := qname{name, -1}
			for _, y := range queryNames(c.Name()) {
				if y.name == name {
					q = y
				}
			}
			guarded("query", name, &probs, func() { x.queryOracle(c, m, q, &probs) })
		case "foreach":
			guarded("foreach", "", &probs, func() { x.forEachOracle(c.(*mapCarrier), m, &probs) })
		case "info":
			guarded("info", "", &probs, func() { x.infoOracle(c, m, &probs) })
		}
		if after := x.implKey(c, m); after != before {
			probs = append(probs, problem{clause: "read-op-changed-state", detail: kind, what: fmt.Sprintf("%s changed the registry from %s to %s", op, before, after)})
		}
	case kind == "mutate":
		// differential probe: all reads before, the edit, all reads after
		probs = x.absorb(x.stateOracle(c, m))
		nh, w := len(x.held), 0
		for _, r := range x.held[:nh] {
			w += mutateResult(name, r)
		}
		for _, r := range x.refHeld {
			mutateResult(name, r)
		}
		x.writes += w
		x.tainted = true
		x.lastObs = fmt.Sprintf("edit %q applied to the %d results handed out so far (%d writes); all reads repeated", name, nh, w)
		var post []problem
		if after := x.implKey(c, m); after != before {
			post = append(post, problem{clause: "state-after-mutate", detail: "", what: fmt.Sprintf("editing earlier results in place (%s) changed the registry from %s to %s", name, before, after)})
		}
		post = append(post, x.stateOracle(c, m)...)
		return append(probs, x.absorb(post)...)
	default:
		panic("bad op " + op)
	}
	return x.absorb(probs)
}

// ---------------------------------------------------------------- oracle

func (x *pctx) queryOracle(c carrier, m model, q qname, probs *[]problem) {
	name := q.name
	want, registered := m[name]
	if mc, ok := c.(*mapCarrier); ok {
		x.call("query")
		d, h := mc.m.QueryService(name)
		if registered {
			if d != want.obj.d || h != want.handler {
				*probs = append(*probs, problem{clause: "query-wrong", detail: name, subj: name, what: fmt.Sprintf("QueryService(%s) = (%s, %s), registered was (%s, %s)", name, x.id(d), x.id(h), x.id(want.obj.d), x.id(want.handler))})
			}
		} else if d != nil || h != nil {
			*probs = append(*probs, problem{clause: "query-ghost", detail: name, subj: name, what: fmt.Sprintf("QueryService(%q) of a name never registered = (%s, %s)", name, x.id(d), x.id(h))})
		}
		return
	}
	// transports: look up by dispatching every method of the service. A registered name has the
	// methods of the descriptor OBJECT it was registered with (its origin); the methods its own pool
	// entry would have, but that object lacks, must be unknown.
	type call struct {
		method string
		stream bool
		sd     streamDef
		absent bool // not a method of the registered descriptor
	}
	var calls []call
	methodsOf := func(i int, absent bool, except map[string]bool) {
		for _, u := range pool[i].unary {
			if !except[u] {
				calls = append(calls, call{u, false, streamDef{}, absent})
			}
		}
		for _, s := range pool[i].streams {
			if !except[s.name] {
				calls = append(calls, call{s.name, true, s, absent})
			}
		}
	}
	switch {
	case registered:
		methodsOf(want.obj.origin, false, nil)
		if i := poolIndex(name); i >= 0 && i != want.obj.origin {
			has := map[string]bool{}
			for _, u := range pool[want.obj.origin].unary {
				has[u] = true
			}
			for _, s := range pool[want.obj.origin].streams {
				has[s.name] = true
			}
			methodsOf(i, true, has)
		}
	case q.methodsFrom >= 0:
		methodsOf(q.methodsFrom, false, nil)
	default:
		calls = []call{{"X", false, streamDef{}, false}, {"Y", true, streamDef{"Y", true, true}, false}}
	}
	if len(calls) == 0 {
		// a service without methods (p.Empty): the lookup is still made, by calling a method the
		// descriptor does not have -- no handler may run and the transport must not report success
		calls = []call{{"NoSuchMethod", false, streamDef{}, true}}
	}
	for _, cl := range calls {
		evs, ok, obs := x.dispatch(c, name, cl.method, cl.stream, cl.sd)
		switch {
		case registered && !cl.absent:
			if len(evs) != 1 || evs[0].descTag != want.obj.tag || evs[0].method != cl.method || evs[0].srv != want.handler || !ok {
				*probs = append(*probs, problem{clause: "dispatch-wrong", detail: name, subj: name, what: fmt.Sprintf("call /%s/%s: handler events %s, transport %s; expected exactly one run of the descriptor built at %s with handler %s", name, cl.method, x.fmtEvents(evs), obs, want.obj.tag, x.id(want.handler))})
			}
		case registered:
			if len(evs) != 0 || ok {
				*probs = append(*probs, problem{clause: "dispatch-ghost-method", detail: name, subj: name, what: fmt.Sprintf("call /%s/%s, which is not a method of the descriptor registered under %s (%s): handler events %s, transport %s", name, cl.method, name, x.id(want.obj.d), x.fmtEvents(evs), obs)})
			}
		default:
			if len(evs) != 0 || ok {
				*probs = append(*probs, problem{clause: "dispatch-ghost", detail: name, subj: name, what: fmt.Sprintf("call /%s/%s of a service not registered: handler events %s, transport %s", name, cl.method, x.fmtEvents(evs), obs)})
			}
		}
	}
}

func (x *pctx) fmtEvents(evs []event) string {
	var s []string
	for _, e := range evs {
		s = append(s, fmt.Sprintf("desc@%s.%s(srv=%s)", e.descTag, e.method, x.id(e.srv)))
	}
	return "[" + strings.Join(s, " ") + "]"
}

// forEachOracle: iteration visits every registration exactly once. A
// registration is the (descriptor object, handler) pair that was accepted; the
// oracle compares the multiset of visited pairs with the multiset of registered
// pairs (two registrations of one shared descriptor object with equal handler
// values, e.g. typed-nil pointers, are one pair expected twice). The name a
// descriptor carries at the time of the iteration plays no part.
func (x *pctx) forEachOracle(mc *mapCarrier, m model, probs *[]problem) {
	type pair struct {
		d *grpc.ServiceDesc
		h interface{}
	}
	seen := map[pair]int{}
	var order []pair
	total := 0
	x.call("foreach")
	mc.m.ForEach(func(d *grpc.ServiceDesc, h interface{}) {
		total++
		p := pair{d, h}
		if seen[p] == 0 {
			order = append(order, p)
		}
		seen[p]++
	})
	names := make([]string, 0, len(m))
	for n := range m {
		names = append(names, n)
	}
	sort.Strings(names)
	want := map[pair]int{}
	first := map[pair]string{}
	for _, n := range names {
		p := pair{m[n].obj.d, m[n].handler}
		if want[p] == 0 {
			first[p] = n
		}
		want[p]++
	}
	var summary []string
	for _, p := range order {
		summary = append(summary, fmt.Sprintf("(%s,%s)x%d", x.id(p.d), x.id(p.h), seen[p]))
		if want[p] == 0 {
			dn, subj := "<nil desc>", ""
			if p.d != nil {
				dn, subj = p.d.ServiceName, p.d.ServiceName
			}
			*probs = append(*probs, problem{clause: "foreach-wrong-pair", detail: dn, subj: subj, what: fmt.Sprintf("ForEach visited (%s, %s, %s) which is not a registration of the model", dn, x.id(p.d), x.id(p.h))})
		}
	}
	for _, n := range names {
		p := pair{m[n].obj.d, m[n].handler}
		if first[p] == n && seen[p] != want[p] {
			*probs = append(*probs, problem{clause: "foreach-count", detail: n, subj: n, what: fmt.Sprintf("ForEach visited the registration of %s (%s, %s) %d times, expected %d (total visits %d, registrations %d)", n, x.id(p.d), x.id(p.h), seen[p], want[p], total, len(m))})
		}
	}
	if total != len(m) {
		*probs = append(*probs, problem{clause: "foreach-total", detail: "", what: fmt.Sprintf("ForEach made %d visits for %d registrations: %v", total, len(m), summary)})
	}
}

// methodSet: the method infos as a SET (design: "method lists as sets")
func methodSet(ms []grpc.MethodInfo) string {
	var s []string
	seen := map[string]bool{}
	for _, m := range ms {
		x := fmt.Sprintf("%s(c=%v,s=%v)", m.Name, m.IsClientStream, m.IsServerStream)
		if !seen[x] {
			seen[x] = true
			s = append(s, x)
		}
	}
	sort.Strings(s)
	return strings.Join(s, " ")
}

// sameMethodSet: methodSet(a) == methodSet(b), without building the strings
func sameMethodSet(a, b []grpc.MethodInfo) bool {
	in := func(m grpc.MethodInfo, s []grpc.MethodInfo) bool {
		for _, y := range s {
			if y == m {
				return true
			}
		}
		return false
	}
	for _, m := range a {
		if !in(m, b) {
			return false
		}
	}
	for _, m := range b {
		if !in(m, a) {
			return false
		}
	}
	return true
}

// infoOracle: a fresh GetServiceInfo of the registry against a fresh
// GetServiceInfo of the reference grpc.Server that was driven by the same
// sequence (same descriptor objects, registered and renamed at the same moments).
func (x *pctx) infoOracle(c carrier, m model, probs *[]problem) {
	got, want := x.info(c)
	seenProb := map[string]bool{}
	compare := func(got map[string]grpc.ServiceInfo) {
		add := func(p problem) {
			if k := p.key(); !seenProb[k] {
				seenProb[k] = true
				*probs = append(*probs, p)
			}
		}
		names := make([]string, 0, len(want))
		for n := range want {
			names = append(names, n)
		}
		sort.Strings(names)
		for _, n := range names {
			w := want[n]
			g, ok := got[n]
			if !ok {
				add(problem{clause: "info-missing-service", detail: n, subj: n, what: fmt.Sprintf("GetServiceInfo lacks %s which grpc.Server reports", n)})
				continue
			}
			if !sameMethodSet(g.Methods, w.Methods) {
				add(problem{clause: "info-methods", detail: n, subj: n, what: fmt.Sprintf("GetServiceInfo[%s].Methods = {%s}, grpc.Server reports {%s}", n, methodSet(g.Methods), methodSet(w.Methods))})
			}
			if !reflect.DeepEqual(g.Metadata, w.Metadata) {
				add(problem{clause: "info-metadata", detail: n, subj: n, what: fmt.Sprintf("GetServiceInfo[%s].Metadata = %#v, grpc.Server reports %#v", n, g.Metadata, w.Metadata)})
			}
		}
		names = names[:0]
		for n := range got {
			names = append(names, n)
		}
		sort.Strings(names)
		for _, n := range names {
			if _, ok := want[n]; !ok {
				add(problem{clause: "info-extra-service", detail: n, subj: n, what: fmt.Sprintf("GetServiceInfo reports %s which grpc.Server with the same registrations does not", n)})
			}
		}
	}
	compare(got)
	if len(want) != len(m) { // the reference and the model are driven together
		panic(fmt.Sprintf("checker: reference server reports %d services, model has %d", len(want), len(m)))
	}
	// Go's map iteration order is not under the checker's control. Where a result could depend
	// on it (two different held descriptor objects carry the same name at this moment, so two
	// registrations with different contents compete for one name) the read is repeated and every
	// result is checked, so that the verdict does not depend on the order met first.
	carried := map[string]bool{}
	clash := false
	for _, o := range m.objs() {
		clash = clash || carried[o.cur]
		carried[o.cur] = true
	}
	if clash {
		for i := 0; i < infoRepeats; i++ {
			x.call("info")
			compare(c.Info())
		}
	}
}

const infoRepeats = 64

// confQuickGood: how many of the implementing representatives the quick tier sweeps around every BFS state
const confQuickGood = 4

// confQuickDepth: ... and the largest number of registrations of a state around which it sweeps the conformance ops
const confQuickDepth = 2

// stateOracle evaluates every read operation in the current state.
func (x *pctx) stateOracle(c carrier, m model) (probs []problem) {
	if k := x.implKey(c, m); k != m.key() {
		probs = append(probs, problem{clause: "state-key", detail: "", what: fmt.Sprintf("registry reports %s, model %s", k, m.key())})
	}
	qns := queryNames(c.Name())
	if x.light {
		qns = qns[:len(poolFor(c.Name()))+1] // the pool names and the unknown name
	}
	for _, q := range qns {
		q := q
		guarded("query", q.name, &probs, func() { x.queryOracle(c, m, q, &probs) })
	}
	if mc, ok := c.(*mapCarrier); ok {
		guarded("foreach", "", &probs, func() { x.forEachOracle(mc, m, &probs) })
	}
	guarded("info", "", &probs, func() { x.infoOracle(c, m, &probs) })
	// the registry must leave the caller's descriptor objects alone
	for _, o := range m.objs() {
		if o.d.ServiceName != o.cur {
			probs = append(probs, problem{clause: "descriptor-name-changed-by-registry", detail: pool[o.origin].name, subj: pool[o.origin].name, what: fmt.Sprintf("%s, which the caller named %s last, now carries ServiceName %q", x.id(o.d), o.cur, o.d.ServiceName)})
		}
	}
	if k := x.implKey(c, m); k != m.key() {
		probs = append(probs, problem{clause: "state-key-after-reads", detail: "", what: fmt.Sprintf("after the read operations the registry reports %s, model %s", k, m.key())})
	}
	return
}

// ---------------------------------------------------------------- running paths

type replayCase struct {
	Carrier string   `json:"carrier"`
	Ops     []string `json:"ops"`
	Probe   bool     `json:"probe,omitempty"` // liveness probe: see job.probe
	Hang    bool     `json:"hang,omitempty"`  // the case was seen to hang (replay judges it the same way)
}

var progress int64
var current atomic.Value

type job struct {
	carrier string
	ops     []string
	all     bool
	control bool // the control run of a path with mutate ops (never starts another control)
	// liveness probe: the last two ops are (a registration attempt R, a follow-up op F). R makes no
	// library call but RegisterService itself, and F's own library call is the FIRST call made on the
	// object after R; the state oracle after F asks for the pool names and the unknown name only.
	probe bool
	light bool         // the state oracle asks for the pool names and the unknown name only (no near misses)
	trace func(string) // verbose child
	// control of a case that hung inside a registration attempt: the last op makes its RegisterService
	// call and nothing after it (no state key, no reads)
	endAtRegister bool
}

type result struct {
	probs          []problem
	key, modelKey  string
	obs            string
	writes         int
	nilAcc, nilRef int
	names          []string // the model's registrations after the path
	edited         bool     // a descriptor-edit op was applied (not skipped as disabled)
	refusals       []refusal
	firstBad       int // index of the first op at (or in the reads after) which a problem was seen; -1: none
}

// runPath replays ops on a fresh carrier (and a fresh reference server); the
// contract of every op is checked, the full state oracle is evaluated after the
// LAST op (and after every op when all=true).
func runPath(j job) (res result) {
	atomic.AddInt64(&progress, 1)
	current.Store(j.carrier + " " + strings.Join(j.ops, " "))
	x := newCtx()
	defer x.ref.Stop()
	c := newCarrier(j.carrier)
	m := model{}
	x.m = m
	x.trace = j.trace
	x.light = j.light
	res.firstBad = -1
	marked := 0
	noteBad := func(i int) {
		for ; marked < len(res.probs); marked++ {
			res.probs[marked].step = i
		}
		if res.firstBad < 0 && len(res.probs) > 0 {
			res.firstBad = i
		}
	}
	for i, op := range j.ops {
		if x.trace != nil {
			x.trace(fmt.Sprintf("A %d %s", i, op))
		}
		x.bareBefore, x.bareAfter = false, false
		if j.probe && len(j.ops) >= 2 {
			x.bareBefore = i >= len(j.ops)-2
			x.bareAfter = i == len(j.ops)-2
			x.light = true
		}
		if j.endAtRegister && i == len(j.ops)-1 {
			x.bareAfter = true
		}
		res.probs = append(res.probs, x.applyOp(c, m, op, i)...)
		noteBad(i)
		x.bareBefore, x.bareAfter = false, false
		if j.endAtRegister && i == len(j.ops)-1 {
			return
		}
		if (j.all && !(j.probe && i == len(j.ops)-2)) || i == len(j.ops)-1 {
			if x.trace != nil {
				x.trace(fmt.Sprintf("O %d", i))
			}
			res.probs = append(res.probs, x.absorb(x.stateOracle(c, m))...)
			noteBad(i)
		}
	}
	if len(j.ops) == 0 {
		res.probs = append(res.probs, x.absorb(x.stateOracle(c, m))...)
	}
	// control: the same path without its mutate ops; what it shows as well is not due to the edits
	if !j.control {
		cand := false
		for _, p := range res.probs {
			cand = cand || p.mut
		}
		if cand {
			var ops []string
			for _, op := range j.ops {
				if opKind(op) != "mutate" {
					ops = append(ops, op)
				}
			}
			ctl := map[string]bool{}
			for _, p := range runPath(job{carrier: j.carrier, ops: ops, all: j.all, control: true}).probs {
				ctl[p.key()] = true
			}
			for i := range res.probs {
				if ctl[res.probs[i].key()] {
					res.probs[i].mut = false
				}
			}
		}
	}
	res.key, res.modelKey, res.obs = x.implKey(c, m), m.key(), x.lastObs
	for n := range m {
		res.names = append(res.names, n)
	}
	sort.Strings(res.names)
	res.edited = x.edited
	res.refusals = x.refusals
	res.writes, res.nilAcc, res.nilRef = x.writes, x.nilAcc, x.nilRef
	return
}

// runAll runs independent paths on all CPUs; the results are in job order, so
// everything derived from them is deterministic.
func runAll(n int, mk func(i int) job) []result {
	out := make([]result, n)
	workers := runtime.NumCPU()
	if workers > 16 {
		workers = 16
	}
	var next int64 = -1
	var wg sync.WaitGroup
	for w := 0; w < workers; w++ {
		w := w
		wg.Add(1)
		go func() {
			defer wg.Done()
			for {
				i := int(atomic.AddInt64(&next, 1))
				if i >= n {
					return
				}
				j := mk(i)
				inflight.Store(w, j)
				out[i] = runPath(j)
				inflight.Delete(w)
			}
		}()
	}
	wg.Wait()
	return out
}

func hasConfOp(ops []string) bool {
	for _, op := range ops {
		if isConfKind(opKind(op)) {
			return true
		}
	}
	return false
}

// firstFailure: the problems seen at the first op of the path that showed any
func firstFailure(probs []problem) []problem {
	if len(probs) == 0 {
		return probs
	}
	first := probs[0].step
	for _, p := range probs {
		if p.step < first {
			first = p.step
		}
	}
	var out []problem
	for _, p := range probs {
		if p.step == first {
			out = append(out, p)
		}
	}
	return out
}

func kindsOf(ps []confPair) []string {
	out := make([]string, 0, len(ps))
	for _, p := range ps {
		out = append(out, p.kind())
	}
	return out
}

func opKind(op string) string {
	if i := strings.IndexByte(op, ':'); i >= 0 {
		return op[:i]
	}
	return op
}

// selftest knobs (calibration of the hang machinery only; never set in a normal run):
// VERIF_C15_SELFTEST=nodeadlock  a child keeps a ticker goroutine alive, so that the Go runtime cannot
//
//	            report a deadlock and the hang guard (no output) has to decide
//	noprobes    the liveness probes are not run, so that a hang is met by the in-process
//	            exploration and judged by the stall triage
func selftest(knob string) bool {
	for _, k := range strings.Split(os.Getenv("VERIF_C15_SELFTEST"), ",") {
		if k == knob {
			return true
		}
	}
	return false
}

// stallWatch: 1 while cases are being run in this process (the cases run in child processes have
// their own guard)
var stallWatch int32

func main() {
	if len(os.Args) > 1 && os.Args[1] == "--child" {
		childMain()
		return
	}
	rep := vlib.NewReporter("C15")
	t0 := time.Now()

	hangWhat := func(j job, v hangVerdict) (fp, what string, rc replayCase) {
		return "C15|" + j.carrier + "|" + v.clause + "|" + v.detail, fmt.Sprintf("after ops %v: %s", j.ops, v.what), replayCase{j.carrier, append([]string(nil), j.ops...), j.probe, true}
	}

	if p := common.Arg("replay"); p != "" {
		var rc replayCase
		if err := common.LoadReplay(p, &rc); err != nil {
			fmt.Fprintln(os.Stderr, "INCONCLUSIVE:", err)
			os.Exit(2)
		}
		// in a child process: the case may hang
		j := job{carrier: rc.Carrier, ops: rc.Ops, all: true, probe: rc.Probe}
		it := runIsolated([]job{j}, 1, nil, nil)[0]
		if it.hang != nil {
			fp, what, _ := hangWhat(j, *it.hang)
			fmt.Printf("replay: carrier=%s ops=%v did not finish\n  %s\n  %s\n", rc.Carrier, rc.Ops, fp, what)
			fmt.Printf("VIOLATION property=C15 replay=%s\n", p)
			os.Exit(1)
		}
		res := it.res
		fmt.Printf("replay: carrier=%s ops=%v final registry=%s model=%s\n", rc.Carrier, rc.Ops, res.key, res.modelKey)
		for _, pr := range res.probs {
			cl, what := pr.render()
			fmt.Printf("  %s[%s]: %s\n", cl, pr.detail, what)
		}
		if len(res.probs) > 0 {
			fmt.Printf("VIOLATION property=C15 replay=%s\n", p)
			os.Exit(1)
		}
		os.Exit(0)
	}

	reported := map[string]bool{}
	reportJob := func(j job, probs []problem) {
		if hasConfOp(j.ops) {
			// on a path of the handler-conformance dimension only the FIRST op that shows a problem is reported
			// (with the reads made after it): what follows a registry that is already wrong says nothing new,
			// and would be named after whatever was tried next
			probs = firstFailure(probs)
		}
		for _, pr := range probs {
			cl, what := pr.render()
			fp := "C15|" + j.carrier + "|" + cl + "|" + pr.detail
			if reported[fp] {
				continue
			}
			reported[fp] = true
			rep.Violation(fp, fmt.Sprintf("after ops %v: %s", j.ops, what), replayCase{j.carrier, append([]string(nil), j.ops...), j.probe, false})
		}
	}
	report := func(carrierName string, ops []string, probs []problem) {
		reportJob(job{carrier: carrierName, ops: ops}, probs)
	}
	reportHang := func(j job, v hangVerdict) {
		fp, what, rc := hangWhat(j, v)
		if reported[fp] {
			return
		}
		reported[fp] = true
		rep.Violation(fp, what, rc)
	}

	go func() { // hang guard of the cases run in this process
		last := int64(-1)
		for {
			time.Sleep(30 * time.Second)
			p := atomic.LoadInt64(&progress)
			if p == last && atomic.LoadInt32(&stallWatch) == 1 {
				// the cases in flight are judged in child processes: a hang that follows a refused
				// registration, and that the control without the refusal does not show, is a verdict
				triageStall(reportHang, func() int {
					return rep.Finish("model_checking", map[string]interface{}{
						"evaluations":         atomic.LoadInt64(&progress),
						"distinct_nontrivial": 0,
						"exhaustive":          false,
						"rule":                "the exploration was abandoned when cases stopped finishing; the cases in flight were judged in child processes (hang after a refused registration, control without the refusal completes)",
					}, nil)
				})
			}
			last = p
		}
	}()

	// handler kinds of the descriptor-edit dimension per tier (the registration ops of the full-pool
	// space always use all six)
	sweepKinds := []string{"reg", "ill-other"}
	if rep.Tier == "thorough" {
		sweepKinds = regKinds
	}
	nontrivial := map[string]bool{}
	var samples []interface{}

	// ---------------- liveness after a refused registration (see isolate.go), in child processes
	//
	// every probe  prefix ; R ; F  (buildProbes). Round 1: the simplest probe of every class (carrier,
	// refusal class of R, kind of F), each in a child of its own. Round 2: all the others; a class in
	// which a probe was seen to hang (and reported) is closed: its remaining probes would be reported
	// under the same fingerprint and are not run.
	probeMaxRegs := 2
	if rep.Tier == "thorough" {
		probeMaxRegs = 3
	}
	// ---------------- the handler-conformance dimension (conform.go): its tables
	confPairs := confMatrix()
	if err := confSelfCheck(confPairs); err != nil {
		fmt.Fprintln(os.Stderr, "INCONCLUSIVE: checker:", err)
		os.Exit(2)
	}
	confIll, confGood := confRepresentatives(confPairs)
	if os.Getenv("VERIF_C15_CONFDUMP") != "" { // diagnostic: the matrix as the checker sees it
		for _, p := range confPairs {
			fmt.Fprintf(os.Stderr, "conformance: %-8s %-10s implements=%-5v %s\n", p.iface, p.handler, p.implements, p.relation)
		}
		for _, p := range confIll {
			fmt.Fprintf(os.Stderr, "conformance: representative (refuse) %s  %s\n", p.kind(), p.relation)
		}
		for _, p := range confGood {
			fmt.Fprintf(os.Stderr, "conformance: representative (accept) %s\n", p.kind())
		}
	}
	confReps := append(append([]confPair{}, confIll...), confGood...)
	confProbeMaxRegs := 1
	if rep.Tier == "thorough" {
		confProbeMaxRegs = 2
	}

	var probes []probe
	probeCounts := map[string]interface{}{}
	for _, cn := range carrierNames {
		ps := buildProbes(cn, probeMaxRegs, sweepKinds, confIll, confProbeMaxRegs)
		st := map[string]bool{}
		rs := map[string]bool{}
		for _, p := range ps {
			st[p.state] = true
			rs[p.state+" "+p.j.ops[len(p.j.ops)-2]] = true
		}
		probeCounts[cn] = map[string]int{"prefix_states": len(st), "state_x_refused_registration": len(rs), "probes": len(ps)}
		probes = append(probes, ps...)
	}
	closed := map[string]bool{}
	hungCarriers := map[string]bool{}
	var round1, round2 []int
	{
		seen := map[string]bool{}
		for i, p := range probes {
			if !seen[p.class] {
				seen[p.class] = true
				round1 = append(round1, i)
			} else {
				round2 = append(round2, i)
			}
		}
	}
	probeItems := make([]isoItem, len(probes))
	runRound := func(idx []int, chunk int) {
		js := make([]job, len(idx))
		for k, i := range idx {
			js[k] = probes[i].j
		}
		items := runIsolated(js, chunk, func(k int) bool { return closed[probes[idx[k]].class] }, func(k int, v *hangVerdict) {
			closed[probes[idx[k]].class] = true
		})
		for k, i := range idx {
			probeItems[i] = items[k]
		}
	}
	if !selftest("noprobes") {
		runRound(round1, 1)
		runRound(round2, 1000)
	}
	probesRun, probesSkipped, probeHangs, probeRefusals := 0, 0, 0, 0
	probeClasses := map[string]bool{}
	probeSampled := map[string]bool{}
	for i, p := range probes {
		it := probeItems[i]
		probeClasses[p.class] = true
		n := len(p.j.ops)
		switch {
		case it.hang != nil:
			probesRun++
			probeHangs++
			hungCarriers[p.j.carrier] = true
			reportHang(p.j, *it.hang)
			if len(samples) < 8 {
				samples = append(samples, map[string]interface{}{"carrier": p.j.carrier, "space": "liveness-probe", "from": p.state, "refused": p.j.ops[n-2], "then": p.j.ops[n-1], "observed": "did not finish: " + it.hang.detail, "problems": 1})
			}
		case it.skipped:
			probesSkipped++
		case it.done:
			probesRun++
			reportJob(p.j, it.res.probs)
			for _, r := range it.res.refusals {
				if r.Idx == n-2 { // R was refused by a panic that was recovered, then F ran first
					probeRefusals++
					nontrivial[p.j.carrier+"|probe|"+p.state+"|"+p.j.ops[n-2]+"|"+p.j.ops[n-1]] = true
					wantF := map[string]string{"dup": "register", "ill-value": "query", "share-dup": "info"}[p.rclass]
					if sk := p.j.carrier + p.rclass; !probeSampled[sk] && len(p.j.ops) == 3 && p.fkind == wantF && len(samples) < 9 {
						probeSampled[sk] = true
						samples = append(samples, map[string]interface{}{"carrier": p.j.carrier, "space": "liveness-probe", "from": p.state, "refused": p.j.ops[n-2], "then": p.j.ops[n-1], "observed": "refused by a recovered panic (class " + r.Class + "); the follow-up, made as the first call afterwards, and the reads after it returned: " + it.res.obs, "problems": len(it.res.probs)})
					}
				}
			}
		}
	}
	var hungList []string
	for _, cn := range carrierNames {
		if hungCarriers[cn] {
			hungList = append(hungList, cn)
		}
	}
	if os.Getenv("VERIF_C15_TIMING") != "" {
		fmt.Fprintf(os.Stderr, "timing: liveness probes done at %.1fs (%d probes, %d run, %d hang verdicts, %d child processes)\n", time.Since(t0).Seconds(), len(probes), probesRun, probeHangs, atomic.LoadInt64(&childRuns))
	}
	atomic.StoreInt32(&stallWatch, 1)

	// ---------------- handler conformance: the full matrix
	//
	// every (service interface, handler value) pair x every pool descriptor of the carrier (its methods,
	// streams and metadata; the HandlerType is the pair's interface) x prefix state (nothing registered |
	// another name registered | the name itself registered with a pointer | ... with a typed-nil pointer),
	// each followed by the full state oracle
	confEvals, confImplementing, confSweeps := 0, 0, 0
	confRelations := map[string]int{}
	for _, p := range confPairs {
		if p.implements {
			confImplementing++
		} else {
			confRelations[p.relation]++
		}
	}
	confSampleWant := map[string]bool{"conf(I3,P3)": true, "conf(I3,Sparam)": true, "conf(I2,V2val)": true, "conf(I2,M2val)": true, "conf(I2alien,U)": true, "conf(I2alien,Ua)": true}
	for _, cn := range carrierNames {
		if hungCarriers[cn] {
			continue
		}
		idx := poolFor(cn)
		var js []job
		for k, i := range idx {
			name := pool[i].name
			other := pool[idx[(k+1)%len(idx)]].name
			for _, p := range confPairs {
				for _, prefix := range [][]string{nil, {"reg:" + other}, {"reg:" + name}, {"reg-tnil:" + name}} {
					js = append(js, job{carrier: cn, ops: append(append([]string{}, prefix...), p.kind()+":"+name), all: true})
				}
			}
		}
		results := runAll(len(js), func(i int) job { return js[i] })
		for i, res := range results {
			confEvals++
			reportJob(js[i], res.probs)
			nontrivial[cn+"|conformance-matrix|"+strings.Join(js[i].ops, " ")] = true
			if op := js[i].ops[len(js[i].ops)-1]; cn == "HandlerMap" && len(js[i].ops) == 1 && strings.HasSuffix(op, ":p.Mixed") && confSampleWant[opKind(op)] {
				samples = append(samples, map[string]interface{}{"carrier": cn, "space": "conformance-matrix", "from": "{}", "op": op, "to": res.key, "observed": res.obs, "problems": len(res.probs)})
			}
		}
		if os.Getenv("VERIF_C15_TIMING") != "" {
			fmt.Fprintf(os.Stderr, "timing: %s conformance matrix done at %.1fs (%d cases)\n", cn, time.Since(t0).Seconds(), confEvals)
		}
	}

	// ---------------- BFS
	//
	// Two state spaces per carrier:
	//   full-pool  every pool descriptor of the carrier; registration, read and mutate ops are
	//              explored to closure; the descriptor-edit ops are SWEPT around every reached
	//              state (each enabled share-* / rename op is applied once and followed by the full
	//              state oracle; its target is not expanded further);
	//   sub-pool   three descriptors with pairwise different method sets and metadata; registration
	//              ops, descriptor-edit ops (targets: the three names, renames also to a name outside
	//              the pool), read ops and mutate ops are explored to closure, i.e. crossed.
	const maxDepth = 7
	states, transitions, traces := 0, 0, 0
	depthReached := 0
	frontierEmpty := true
	nilAcc, nilRef := 0, 0
	mutProbes, mutProbesWriting := 0, 0
	editTransitions, editSweeps := 0, 0
	sampleKinds := map[string]int{}
	perCarrier := map[string]interface{}{}
	subMutate := []string{"mutate:scribble"}
	if rep.Tier == "thorough" {
		subMutate = nil
		for _, k := range mutationKinds {
			subMutate = append(subMutate, "mutate:"+k)
		}
	}
	subKinds := func(cn string) []string {
		if rep.Tier == "thorough" {
			return regKinds
		}
		if cn == "HandlerMap" {
			return []string{"reg", "reg-tnil", "reg-nil", "ill-other"}
		}
		return []string{"reg", "reg-nil", "ill-other"}
	}
	subKindsUsed := map[string][]string{}
	type space struct {
		label, carrier string
		ops            []string
		sweepEdits     bool // descriptor-edit transitions are not expanded
		counts         map[string]int
	}
	var spaces []space
	confSweepPairs, confSweepDepth := confReps, maxDepth
	if rep.Tier != "thorough" {
		confSweepPairs, confSweepDepth = append(append([]confPair{}, confIll...), confGood[:confQuickGood]...), confQuickDepth
	}
	for _, cn := range carrierNames {
		regOps, readOps, mutOps := opsFor(cn)
		var names []string
		for _, i := range poolFor(cn) {
			names = append(names, pool[i].name)
		}
		share, rename := editOps(names, sweepKinds, append(append([]string{}, names...), unknownName))
		ops := append(append(append(append(append([]string{}, regOps...), readOps...), mutOps...), share...), rename...)
		// the representative pairs of the handler-conformance dimension on every name, swept like the descriptor edits
		var conf []string
		for _, p := range confSweepPairs {
			for _, n := range names {
				conf = append(conf, p.kind()+":"+n)
			}
		}
		ops = append(ops, conf...)
		spaces = append(spaces, space{"full-pool", cn, ops, true, map[string]int{"ops": len(ops), "register_ops": len(regOps), "read_ops": len(readOps), "mutate_ops": len(mutOps), "share_ops": len(share), "rename_ops": len(rename), "conformance_ops": len(conf)}})
	}
	for _, cn := range carrierNames {
		var names, regOps, readOps []string
		for _, i := range subPool {
			names = append(names, pool[i].name)
		}
		subKindsUsed[cn] = subKinds(cn)
		for _, k := range subKinds(cn) {
			for _, n := range names {
				regOps = append(regOps, k+":"+n)
			}
		}
		for _, n := range append(append([]string{}, names...), unknownName) {
			readOps = append(readOps, "query:"+n)
		}
		if cn == "HandlerMap" {
			readOps = append(readOps, "foreach")
		}
		readOps = append(readOps, "info")
		share, rename := editOps(names, subKinds(cn), append(append([]string{}, names...), unknownName))
		ops := append(append(append(append(append([]string{}, regOps...), share...), rename...), readOps...), subMutate...)
		spaces = append(spaces, space{"sub-pool", cn, ops, false, map[string]int{"ops": len(ops), "register_ops": len(regOps), "read_ops": len(readOps), "mutate_ops": len(subMutate), "share_ops": len(share), "rename_ops": len(rename)}})
	}
	for _, sp := range spaces {
		cn, ops := sp.carrier, sp.ops
		if hungCarriers[cn] {
			// every path with a refused registration would not finish on this carrier
			frontierEmpty = false
			continue
		}
		type node struct {
			key   string
			path  []string
			names map[string]bool
		}
		type work struct {
			nd int
			op string
		}
		nodeKey := func(res result) string {
			if sp.sweepEdits || res.key == res.modelKey {
				return res.key
			}
			// a registry that deviates from the model must not make the search skip model states
			return res.modelKey + " / registry reports " + res.key
		}
		nameSet := func(res result) map[string]bool {
			ns := map[string]bool{}
			for _, n := range res.names {
				ns[n] = true
			}
			return ns
		}
		inflight.Store(-1, job{carrier: cn, all: true})
		r0 := runPath(job{carrier: cn, all: true})
		inflight.Delete(-1)
		traces++
		report(cn, nil, r0.probs)
		visited := map[string]bool{nodeKey(r0): true}
		frontier := []node{{nodeKey(r0), nil, nameSet(r0)}}
		cStates, cTrans, cEdit, cEditStates := 1, 0, 0, 0
		for depth := 0; len(frontier) > 0; depth++ {
			if depth >= maxDepth {
				frontierEmpty = false
				break
			}
			var next []node
			var todo []work
			for ni, nd := range frontier {
				for _, op := range ops {
					if depth > confSweepDepth && isConfKind(opKind(op)) {
						continue // (quick tier) the conformance ops are swept around the states near the empty one only
					}
					if opEnabled(op, nd.names) {
						todo = append(todo, work{ni, op})
					}
				}
			}
			pathOf := func(i int) (node, string, []string) {
				nd, op := frontier[todo[i].nd], todo[i].op
				return nd, op, append(append([]string{}, nd.path...), op)
			}
			results := runAll(len(todo), func(i int) job {
				_, _, path := pathOf(i)
				return job{carrier: cn, ops: path}
			})
			for i, res := range results {
				nd, op, path := pathOf(i)
				k := nodeKey(res)
				traces++
				cTrans++
				report(cn, path, res.probs)
				kind := opKind(op)
				nilAcc += res.nilAcc
				nilRef += res.nilRef
				ntKey := cn + "|" + sp.label + "|" + nd.key + "|" + op
				switch {
				case isRegKind(kind) || isConfKind(kind):
					nontrivial[ntKey] = true
				case isDescEditKind(kind):
					// enabled, so it changed the name of a descriptor the registry holds
					nontrivial[ntKey] = true
					cEdit++
				case kind == "mutate":
					mutProbes++
					if res.writes > 0 { // the edit really touched something that had been handed out
						mutProbesWriting++
						nontrivial[ntKey] = true
					}
				case nd.key != "{}":
					nontrivial[ntKey] = true
				}
				sk := kind
				if kind == "mutate" {
					sk = op
				}
				if sp.label == "full-pool" && len(samples) < 33 && nd.key == "{p.Mixed}" && sampleKinds[cn+sk] == 0 && (isRegKind(kind) || kind == "mutate" || kind == "info") && (cn == "HandlerMap" || kind == "reg-nil" || op == "mutate:filter") {
					sampleKinds[cn+sk]++
					samples = append(samples, map[string]interface{}{"carrier": cn, "space": sp.label, "from": nd.key, "op": op, "to": k, "observed": res.obs, "problems": len(res.probs)})
				}
				if sp.label == "sub-pool" && len(samples) < 49 && isDescEditKind(kind) && sampleKinds[cn+"edit"+op] == 0 && nd.key == "{p.Mixed,p.Unary1}" && (strings.HasSuffix(op, ":p.Mixed>p.Streams") || op == "rename:p.Mixed>p.Unary1" || op == "share-reg:p.Mixed>p.Unary1") && (cn == "HandlerMap" || kind == "share-reg" || kind == "rename") {
					sampleKinds[cn+"edit"+op]++
					samples = append(samples, map[string]interface{}{"carrier": cn, "space": sp.label, "from": nd.key, "op": op, "to": k, "observed": res.obs, "problems": len(res.probs)})
				}
				if sp.sweepEdits && isDescEditKind(kind) {
					editSweeps++
					continue // swept, not expanded
				}
				if isConfKind(kind) {
					confSweeps++
					continue // swept, not expanded
				}
				if !visited[k] {
					visited[k] = true
					cStates++
					if res.edited {
						cEditStates++
					}
					next = append(next, node{k, path, nameSet(res)})
					if depth+1 > depthReached {
						depthReached = depth + 1
					}
				}
			}
			frontier = next
		}
		states += cStates
		transitions += cTrans
		editTransitions += cEdit
		sp.counts["states"], sp.counts["transitions"], sp.counts["descriptor_edit_transitions"] = cStates, cTrans, cEdit
		if !sp.sweepEdits {
			sp.counts["states_reached_through_descriptor_edits"] = cEditStates
		}
		perCarrier[cn+" "+sp.label] = sp.counts
		if os.Getenv("VERIF_C15_TIMING") != "" {
			fmt.Fprintf(os.Stderr, "timing: %s %s done at %.1fs (%d transitions)\n", cn, sp.label, time.Since(t0).Seconds(), cTrans)
		}
	}

	// ---------------- every sequence of registration attempts and result edits (no state
	// caching): checks that the state abstraction is sound (behaviour depends on the set of
	// (name, handler kind, descriptor object, current descriptor names) only, and an edit of
	// handed-out results has no delayed effect)
	//   family 1: full pool, registration ops + mutate:scribble
	//   family 2: sub-pool, registration ops + descriptor-edit ops + mutate:scribble; only the
	//             sequences that contain a descriptor-edit op whose source can be registered at
	//             that point (the others are in family 1 or are no-ops)
	seqLen := 3
	if rep.Tier == "thorough" {
		seqLen = 4
	}
	editSeqLen := 3
	sequences, editSequences := 0, 0
	seqAlphabet := map[string]int{}
	editSeqAlphabet := map[string]int{}
	runSequences := func(cn string, alphabet []string, minLen, maxLen int, keep func(path []string) bool, count *int) {
		for l := minLen; l <= maxLen; l++ { // shortest first
			total := 1
			for i := 0; i < l; i++ {
				total *= len(alphabet)
			}
			decode := func(i int) []string {
				path := make([]string, l)
				for p := l - 1; p >= 0; p-- {
					path[p] = alphabet[i%len(alphabet)]
					i /= len(alphabet)
				}
				return path
			}
			const chunk = 1 << 15
			var batch [][]string
			flush := func() {
				results := runAll(len(batch), func(i int) job { return job{carrier: cn, ops: batch[i]} })
				for i, res := range results {
					*count++
					nilAcc += res.nilAcc
					nilRef += res.nilRef
					if len(res.probs) > 0 {
						report(cn, batch[i], res.probs)
					}
				}
				batch = batch[:0]
			}
			for i := 0; i < total; i++ {
				if path := decode(i); keep == nil || keep(path) {
					batch = append(batch, path)
					if len(batch) == chunk {
						flush()
					}
				}
			}
			flush()
		}
	}
	for _, cn := range carrierNames {
		if hungCarriers[cn] {
			continue
		}
		regOps, _, _ := opsFor(cn)
		alphabet := append(append([]string{}, regOps...), "mutate:scribble")
		seqAlphabet[cn] = len(alphabet)
		runSequences(cn, alphabet, 1, seqLen, nil, &sequences)
		if os.Getenv("VERIF_C15_TIMING") != "" {
			fmt.Fprintf(os.Stderr, "timing: %s sequences family 1 done at %.1fs (%d)\n", cn, time.Since(t0).Seconds(), sequences)
		}
	}
	editSeqKinds := map[string]interface{}{}
	for _, cn := range carrierNames {
		if hungCarriers[cn] {
			continue
		}
		var names []string
		for _, i := range subPool {
			names = append(names, pool[i].name)
		}
		// live: at least one descriptor-edit op, and each of them has a source that the ops before
		// it can have registered (an untyped nil handler counts as possibly accepted)
		live := func(path []string) bool {
			names := map[string]bool{}
			edits := 0
			for _, op := range path {
				k := opKind(op)
				switch {
				case isRegKind(k):
					if k == "reg" || k == "reg-tnil" || k == "reg-nil" {
						names[op[len(k)+1:]] = true
					}
				case isDescEditKind(k):
					if !opEnabled(op, names) {
						return false
					}
					edits++
					if rk := strings.TrimPrefix(k, "share-"); rk == "reg" || rk == "reg-tnil" || rk == "reg-nil" {
						_, nw := splitEdit(op[len(k)+1:])
						names[nw] = true
					}
				}
			}
			return edits > 0
		}
		family := func(kinds []string, minLen, maxLen int) {
			var alphabet []string
			for _, k := range kinds {
				for _, n := range names {
					alphabet = append(alphabet, k+":"+n)
				}
			}
			share, rename := editOps(names, kinds, append(append([]string{}, names...), unknownName))
			alphabet = append(append(append(alphabet, share...), rename...), "mutate:scribble")
			editSeqAlphabet[fmt.Sprintf("%s length %d-%d", cn, minLen, maxLen)] = len(alphabet)
			editSeqKinds[fmt.Sprintf("%s length %d-%d", cn, minLen, maxLen)] = kinds
			runSequences(cn, alphabet, minLen, maxLen, live, &editSequences)
		}
		family(subKinds(cn), 1, editSeqLen)
		if rep.Tier == "thorough" {
			family([]string{"reg", "ill-other"}, editSeqLen+1, editSeqLen+1)
		}
		if os.Getenv("VERIF_C15_TIMING") != "" {
			fmt.Fprintf(os.Stderr, "timing: %s sequences family 2 done at %.1fs (%d)\n", cn, time.Since(t0).Seconds(), editSequences)
		}
	}
	sequences += editSequences

	// family 3, handler conformance: every TWO registration attempts  conf(I1,H1):A ; conf(I2,H2):X  with
	// X = A or another name B, the first pair over the representatives (thorough: over all pairs on the
	// HandlerMap, to which the transports delegate), the second over ALL pairs: a verdict on
	// one (interface, handler) pair must not depend on what was offered or accepted before (same interface
	// with another handler, same handler type with another interface, ...). Light state oracle after the
	// second attempt; each attempt's own contract (panic or not, registry state) is checked as always.
	confSequences := 0
	for _, cn := range carrierNames {
		if hungCarriers[cn] {
			continue
		}
		a, b := pool[1].name, pool[3].name
		firsts := confReps
		if rep.Tier == "thorough" {
			if cn == "HandlerMap" {
				firsts = confPairs
			}
		}
		var js []job
		for _, f := range firsts {
			for _, s := range confPairs {
				for _, x := range []string{a, b} {
					js = append(js, job{carrier: cn, ops: []string{f.kind() + ":" + a, s.kind() + ":" + x}, light: true})
				}
			}
		}
		results := runAll(len(js), func(i int) job { return js[i] })
		for i, res := range results {
			confSequences++
			if len(res.probs) > 0 && res.firstBad != 0 {
				// (a problem of the FIRST attempt is the matrix case of that pair on name A in the empty registry,
				// reported there; what follows a registry that is already wrong says nothing new)
				reportJob(js[i], res.probs)
			}
		}
		if os.Getenv("VERIF_C15_TIMING") != "" {
			fmt.Fprintf(os.Stderr, "timing: %s sequences family 3 (conformance) done at %.1fs (%d)\n", cn, time.Since(t0).Seconds(), confSequences)
		}
	}
	sequences += confSequences

	nilTreatment := "refused by panicking"
	switch {
	case nilAcc > 0 && nilRef > 0:
		nilTreatment = "sometimes accepted, sometimes refused"
	case nilAcc > 0:
		nilTreatment = "accepted (like grpc.Server)"
	}
	os.Exit(rep.Finish("model_checking", map[string]interface{}{
		"states":                        states,
		"transitions":                   transitions,
		"traces_validated_against_impl": traces + sequences + probesRun + confEvals,
		"liveness_probes": map[string]interface{}{
			"grammar":                        "carrier x prefix state (every set of at most max_prefix_registrations pool names, each held with a pointer or a typed-nil pointer handler) x R (every registration attempt the model refuses, or may refuse, in that state: 6 handler kinds x every pool name with a fresh descriptor object, and share-<kind>:<src>><new> for the share kinds) x F (the first operation made on the object after R: info | foreach | query of every pool name and of the unknown name | each of the 6 x names registration ops; after a share-R: info | foreach | query src / new / unknown | reg of the first unregistered name | reg of src)",
			"probes":                         len(probes),
			"per_carrier":                    probeCounts,
			"max_prefix_registrations":       probeMaxRegs,
			"share_kinds":                    sweepKinds,
			"classes":                        len(probeClasses),
			"run":                            probesRun,
			"with_a_recovered_refusal":       probeRefusals,
			"not_run_class_already_reported": probesSkipped,
			"hang_verdicts":                  probeHangs,
			"carriers_not_explored_further":  hungList,
			"child_processes":                atomic.LoadInt64(&childRuns),
			"hang_guard_s":                   hangGuard.Seconds(),
			"hang_criteria":                  "the child's Go runtime reports that all goroutines are asleep (exact), or the child prints nothing for hang_guard_s",
			"control":                        "the same sequence up to the op that hung, without the refused registrations, in a child process of its own; violation only if it completes, INCONCLUSIVE (exit 2) otherwise",
		},
		"handler_conformance": map[string]interface{}{
			"grammar":            "op conf(I,H):<pool name> = a fresh descriptor object built from the pool entry with HandlerType (*I)(nil), registered with handler value H. I over service_interfaces, H over handler_values (conform.go: exact / superset / proper subsets of the method names; every name present but one signature different in parameter type, result type, number of results, arity, variadic, wider parameter, defined-vs-alias type; name differing in case; unexported namesake; func-typed field of that name; value vs pointer receivers as value, pointer and typed-nil pointer; methods promoted through an embedded pointer, value, interface; non-struct type; unexported interface method of this / of another package). MATRIX: every pair x every pool descriptor of the carrier x prefix state (empty | another name registered | the name registered with a pointer handler | with a typed-nil pointer handler), full state oracle after every op. SWEEP: the representative pairs on every pool name around the states of the full-pool BFS (see sweep_*), full state oracle, target not expanded. SEQUENCES: conf(I1,H1):A ; conf(I2,H2):X, X in {A, B}, first pair over sequence_first_pairs, second over all pairs, light state oracle at the end. LIVENESS PROBES: R = every refused representative on every pool name in the prefix states of at most probe_max_prefix_registrations registrations x every F.",
			"oracle":             "accepted iff the Go type assertion h.(I) holds (runtime itab construction, not package reflect) and the name is free; otherwise refused by a panic that leaves every read unchanged; an accepted pair is registered with the reference grpc.Server too and is then subject to every read oracle",
			"service_interfaces": len(confIfaces),
			"handler_values":     len(confHandlers),
			"pairs":              len(confPairs),
			"pairs_implementing": confImplementing,
			"pairs_not_implementing_by_what_is_wrong": confRelations,
			"representatives_refused":                 kindsOf(confIll),
			"representatives_accepted":                kindsOf(confGood),
			"matrix_cases":                            confEvals,
			"sweep_pairs":                             kindsOf(confSweepPairs),
			"sweep_max_registrations_of_state":        confSweepDepth,
			"sweeps":                                  confSweeps,
			"sequences":                               confSequences,
			"sequence_first_pairs":                    map[string]string{"quick": "the representatives", "thorough": "all pairs on HandlerMap, the representatives on the transports"},
			"probe_max_prefix_registrations":          confProbeMaxRegs,
		},
		"bfs_paths_replayed":                traces,
		"registration_sequences":            sequences,
		"registration_sequence_length":      seqLen,
		"registration_sequence_alphabet":    seqAlphabet,
		"descriptor_edit_sequences":         editSequences,
		"descriptor_edit_sequence_alphabet": editSeqAlphabet,
		"descriptor_edit_sequence_kinds":    editSeqKinds,
		"descriptor_edit_transitions":       editTransitions,
		"descriptor_edit_sweeps":            editSweeps,
		"descriptor_edit_handler_kinds":     map[string]interface{}{"full-pool sweep": sweepKinds, "sub-pool": subKindsUsed},
		"sub_pool":                          []string{pool[subPool[0]].name, pool[subPool[1]].name, pool[subPool[2]].name},
		"info_repeats_on_name_clash":        infoRepeats,
		"depth_bound":                       maxDepth,
		"depth_reached":                     depthReached,
		"frontier_exhausted":                frontierEmpty,
		"per_carrier":                       perCarrier,
		"handler_kinds":                     regKinds,
		"mutation_kinds":                    mutationKinds,
		"mutation_probes":                   mutProbes,
		"mutation_probes_that_wrote":        mutProbesWriting,
		"fresh_nil_handler_registrations":   map[string]interface{}{"accepted": nilAcc, "refused": nilRef, "treatment": nilTreatment},
		"reference_grpc_servers_built":      atomic.LoadInt64(&refServers),
		"evaluations":                       traces + sequences + probesRun + confEvals,
		"distinct_nontrivial":               len(nontrivial),
		"rule":                              "HANDLER CONFORMANCE (see handler_conformance): every (service interface, handler value) pair of conform.go as a registration attempt conf(I,H):<name>, accepted iff the Go type assertion h.(I) holds and the name is free -- the full matrix x every pool descriptor x 4 prefix states with the full state oracle, the representatives (one pair per way of not implementing, one per interface and per way of implementing) swept around the full-pool BFS states and used as the refused registration of the liveness probes, and every two attempts in sequence; every such case is non-trivial (a registration attempt; distinct by carrier, prefix, op). LIVENESS PROBES (child processes, see liveness_probes): every (carrier, prefix state of <= max_prefix_registrations registrations, registration attempt R that is refused there, first operation F after R); non-trivial when R really panicked, the panic was recovered and F was then made as the first call on the object (distinct by carrier, state, R, F); F and the reads after it must return and answer as the model says. THEN BFS over (carrier x set of (registered name, kind of handler held: pointer / typed-nil pointer / untyped nil, descriptor OBJECT held: its own or one shared with other names) x current ServiceName of every held descriptor object). Two spaces per carrier. FULL-POOL: 6 registration ops per pool descriptor (handler = pointer implementing the interface | typed-nil pointer of that type | untyped nil | pointer of another service's type | typed-nil pointer of another service's type | value of a pointer-receiver type; 6 descriptors on HandlerMap, 4 on the transports), the read ops (query x every pool name, an unknown name and the near misses of every pool name: leading, trailing, doubled, inner slash, proper prefix, proper suffix, extension, empty; ForEach on HandlerMap; GetServiceInfo) and 10 mutate ops (the caller edits in place EVERY result GetServiceInfo has handed out so far on the path, one op per kind of edit: 6 on the Methods slices incl. their spare capacity, 3 on the map, 1 overwriting everything reachable), explored to closure; around EVERY state reached, every enabled descriptor-edit op is swept (applied once, followed by the full state oracle, target not expanded): share-<kind>:<src>><new> = the descriptor object registered under <src> gets ServiceName <new> and is registered again with a new handler (kinds: see descriptor_edit_handler_kinds; src, new over all pool names of the carrier, new = src and new = an already registered name included), rename:<src>><new> = that object gets ServiceName <new> and nothing is registered (new over all pool names and a name outside the pool). SUB-POOL (3 descriptors with pairwise different method sets and metadata): registration ops, share ops (src x new over the 3 names), rename ops (src x the 3 names and a name outside the pool), query / ForEach / info ops and mutate ops (quick: the edit overwriting everything reachable; thorough: all 10) explored to closure, i.e. every reachable combination of sharing, current names and handler kinds is a state and gets every op. Each transition = fresh real object + fresh real grpc.Server, replay of the shortest path on both (the SAME descriptor objects are registered with, and renamed under, both) + the op, then the full state oracle (every read; lookup must return the descriptor object and handler registered under the name whatever the descriptor is called now; ForEach must visit the multiset of registered (descriptor, handler) pairs; GetServiceInfo compared with a fresh GetServiceInfo of that grpc.Server, whose handed-out results received the same edits). A mutate op is a differential probe made at every reached state: all reads before, the edit, all reads after; it must be a self loop. A transition is non-trivial when it is a registration attempt, an enabled descriptor-edit op (its source is registered, so it renames a descriptor the registry holds), a read in a non-empty registry, or a mutate op that wrote at least one slice element or map entry; distinct by (carrier, space, state, op). In addition every sequence over (registration ops + 'mutate:scribble') up to registration_sequence_length is replayed without state caching, and so is every sequence over the sub-pool alphabet (registration + share + rename ops + 'mutate:scribble') up to length 3 (thorough: also length 4 with handler kinds reg / ill-other) that contains a descriptor-edit op and in which every descriptor-edit op has a source.",
		"samples":                           samples,
		"exhaustive":                        frontierEmpty && probesSkipped == 0 && len(hungList) == 0,
	}, []string{
		"liveness after a refused registration: 'refused by panicking and leaves earlier registrations intact' is read as: once the caller has recovered the panic, every operation of the registry still returns (info, lookup / dispatch, iteration, further registrations, accepted or refused in turn) and answers as before. The liveness probes make each kind of operation the FIRST call after each kind of refusal in every prefix state of at most max_prefix_registrations registrations, each probe on a fresh object, one probe at a time in a child process with nothing else running (so that what a hung probe leaves behind, also in package-level state, reaches neither another probe nor a control). The refusal classes: dup (acceptable handler, name taken), nil (fresh name, untyped nil, if the library refuses it), ill-other / ill-tnil / ill-value (handler of the wrong type, name fresh or taken), and the same with a re-used, renamed descriptor object (share-*). A hang is reported only when the control -- the same sequence up to the op that hung, without the refused registrations -- completes; otherwise the run is INCONCLUSIVE (exit 2). In the BFS and in the uncached sequences every refused registration of every reached state is followed by all reads as well (in this process); if cases stop finishing there for 30 s, the cases in flight are judged in child processes in the same way. Once a probe class (carrier, refusal class, kind of follow-up) has a hang verdict its remaining probes are not run (they would carry the same fingerprint), and a carrier with a hang verdict is not explored by the later phases (every path with a refused registration would hang); both make the run non-exhaustive and are counted in liveness_probes.",
		"a hang is decided without a wall-clock tolerance where possible: a probe child runs the case on its only goroutine with no timer, so a case blocked on a lock or channel for good makes the Go runtime end the child with 'all goroutines are asleep - deadlock!'; the hang guard (no output for hang_guard_s; a case takes milliseconds) is the fallback for hangs that keep a goroutine or timer alive",
		"pool of 4 descriptors (0-2 unary, 0-2 streams covering all four flag pairs, nil/string/struct Metadata) + on HandlerMap a 5th whose ServiceName is \"/p.Unary1\" next to p.Unary1 and a 6th, p.Dup, with repeated method names (a unary method listed twice, a stream of the same name as a unary method, a stream listed twice) (such names cannot be addressed through the transports' /service/method paths, so it is not registered there) + 1 unknown name + near-miss names",
		"on the two transports, lookup is observed by dispatching every method of the service (in-process Invoke/NewStream; HTTP ServeHTTP on a recorder) and identifying descriptor and handler instance that ran",
		"untyped nil handler: " + nilHandlerRule,
		"'a handler that does not implement the service's interface': decided by the language itself, the type assertion h.(I) evaluated by the Go runtime for the interface in ServiceDesc.HandlerType (interfaces and handler types are declared statically in conform.go and in the package verif/seq/c15/alien; package reflect, which the library and grpc.Server use for the same question, is used only to NAME what is wrong with a pair). A handler that implements the interface, under a fresh name, is a registration like any other (grpc.Server accepts it; it is registered there as well), whatever its shape: superset of the methods, value or pointer receivers, typed-nil pointer, promoted methods, non-struct type. A wrongly accepted pair is named after the most conspicuous thing wrong with it (lacks a method > pointer-receiver method on a value > field instead of method > name differs in case > unexported method > signature: arity > number of results > variadic > parameter type > result type); a wrongly refused one after the handler value. On a path with a conformance op only the first op that shows a problem is reported, with the reads made after it.",
		"the pool descriptors of the other dimensions all have a one-method service interface, and their ill-typed handlers (another service's type, a value of a pointer-receiver type) fail it by not having a method of that NAME; the conformance ops are what varies the relation. They are not crossed to closure with the descriptor-edit ops (share-* of a descriptor registered by a conformance op is not in the grammar).",
		"soundness of the mutate ops: they are probes, not part of the state key. At every reached state each kind of edit is applied to all results handed out on the shortest path to it (these include results obtained before and after every registration of the path, the first and later ones) and every read is repeated at once, so an effect that is visible to any read in the state where the edit is made is found for every state and kind. An effect that stays invisible to all reads in that state and only surfaces after further registrations is covered up to the length of the uncached sequences only (edit 'scribble', which overwrites everything reachable from the results).",
		"descriptor re-use: what is quantified over is the ServiceName of a descriptor object the registry holds (the one field the registry keys on); the caller may register the same object again under the new name, or only rename it. A *grpc.Server reads the descriptor at registration time, so both are fine there and the reference server, driven with the same objects at the same moments, defines the expected service info. Soundness of the extended state key: future behaviour of the registry can depend on (a) which names are registered, (b) the handler value held for each (abstracted to its kind; identities are checked by the oracle), (c) which descriptor object each entry holds, (d) the contents of those objects. Nothing is ever unregistered and a fresh object is always registered first under its pool name, so a held object is identified by the pool entry it was built from ('<origin' in the key names the object; entries with the same origin share it), and the only content that varies is its current ServiceName ('origin->current' in the key). Two paths with the same key therefore hold isomorphic object graphs; that handler identities and the order of the ops do not matter beyond that is what the uncached sequences check. In the sub-pool space this key is explored to closure; in the full-pool space the descriptor-edit ops are swept one step deep around every state (crossing them to closure over 6 names is not affordable).",
		"Go's map iteration order cannot be controlled: when two different held descriptor objects carry the same name at the moment of a GetServiceInfo (two registrations with different contents could compete for one name of the result), the read is repeated info_repeats_on_name_clash times and every result is checked, so that the verdict does not depend on the order met first",
		"fingerprints of problems seen after a descriptor-edit op: clause prefixed with 'after-descriptor-edit:'; the service name is replaced by how it is involved (registration whose descriptor now carries another name | registration whose name another held descriptor carries too | registration of a descriptor registered under several names | unregistered name that a held descriptor carries); problems about names that are not involved keep their ordinary fingerprint; all deviations of the registry's reported state collapse into 'registry-state'",
		"other in-place edits of a registered descriptor (its Methods / Streams / Metadata) are not in the alphabet: there grpc.Server is itself partly live (stream flags are read through pointers into the descriptor) and partly a snapshot (method names, metadata), and the statement does not say which the registry should be",
		"QueryService / ForEach hand out the registered descriptor and handler THEMSELVES (the statement demands exactly those objects, and grpc.Server offers no such lookup), and ServiceInfo.Metadata is the descriptor's own value in grpc.Server too: edits through these are edits of the caller's own registration input, not of a result; of those only the ServiceName edits above are part of the alphabet",
		"the concurrent manifestation of a read operation that writes to the registry (map write racing with a lookup) is a data race outside this sequential engine",
	}))
}
